import KadDHT.Basic.Bits
import KadDHT.Model.Keyspace

/-
  Set-theoretic ("declarative") definitions the keyspace functions must agree with.  They are used
  (a) as the right-hand sides of the C18 theorems and (b) by the `C18v` verdict driver, which evaluates
  them on the *implementation's* outputs so that a broken correspondence yields a concrete failing input.
-/
import KadDHT.Model.Keyspace
namespace KadDHT.Spec
open KadDHT

def comparable (a b : Key) : Bool := isPre a b || isPre b a

def prefixFree (ks : List Key) : Bool :=
  ks.zipIdx.all fun (a, i) => ks.zipIdx.all fun (b, j) => i == j || !comparable a b

/-- the cylinder of `path` is completely covered by the cylinders of `ks` -/
def coveredUnder (ks : List Key) : Nat → Key → Bool
  | 0, path => ks.any (isPre · path)
  | fuel+1, path =>
    ks.any (isPre · path) ||
      (ks.any (isPre path ·) && coveredUnder ks fuel (path ++ [false]) && coveredUnder ks fuel (path ++ [true]))

def maxLen (ks : List Key) : Nat := ks.foldl (fun m k => max m k.length) 0

def covered (ks : List Key) (path : Key) : Bool := coveredUnder ks (maxLen ks + 1 - path.length) path

def sameSet (a b : List Key) : Bool := a.all (b.contains ·) && b.all (a.contains ·) && a.length == b.length

def sortedBy (lt : Key → Key → Bool) : List Key → Bool
  | [] => true
  | [_] => true
  | a :: b :: rest => lt a b && sortedBy lt (b :: rest)

def prune (ks : List Key) (k : Key) : List Key := ks.filter (!isPre k ·)
def subtract (ks0 ks1 : List Key) : List Key := ks0.filter fun k => !ks1.any (isPre · k)
def findPrefix (ks : List Key) (k : Key) : Option Key := ks.find? (isPre · k)

def isSibling (a b : Key) : Bool := a.length == b.length && a.length ≥ 1 && a != b && a.dropLast == b.dropLast

def coalesceOk (ks res : List Key) : Bool :=
  prefixFree res && ks.all (fun k => res.any (isPre · k)) && res.all (fun r => covered ks r)
  && res.all (fun a => res.all fun b => !isSibling a b)

def gapsOk (ks : List Key) (target order : Key) (gaps : List Key) : Bool :=
  prefixFree gaps && gaps.all (fun g => ks.all fun k => !comparable g k)
  && sortedBy (orderBefore order) gaps
  && covered (ks ++ gaps) target

/-- cyclic successor of `k` among `ks` in the order induced by `order` (all keys of equal length) -/
def nextInOrder (ks : List Key) (k order : Key) : Option Key :=
  let sorted := sortBy (fun a b => closer order a b) ks
  match sorted.find? (fun x => closer order k x) with
  | some x => some x
  | none => sorted.head?

/-- allocation: `assigned x` = the destinations that received item `x` -/
def allocOk (items dests : List Key) (k : Nat) (assigned : Key → List Key) : Bool :=
  items.all fun x =>
    let ds := assigned x
    ds.length == min k dests.length && ds.eraseDups.length == ds.length && ds.all (dests.contains ·)
    && ds.all fun c => (dests.filter (!ds.contains ·)).all fun u => closer x c u

def regionsOk (peers : List Key) (size : Nat) (cov : Key) (regions : List (Key × List Key)) : Bool :=
  let inside := peers.filter (isPre cov ·)
  prefixFree (regions.map (·.1))
  && regions.all (fun (p, ks) => isPre cov p && ks.all (isPre p ·) && !ks.isEmpty)
  && sameSet (regions.flatMap (·.2)) inside
  && (inside.length < size || regions.all fun (_, ks) => ks.length ≥ size)

def assignOk (prefixes : List Key) (h placed : Key) : Bool :=
  prefixes.contains placed &&
  (if prefixes.any (isPre · h) then isPre placed h
   else prefixes.all fun p => cpl p h ≤ cpl placed h)

def shortest (target : Key) (peers : List Key) : Key × Nat :=
  match peers with
  | [] => ([], 0)
  | [p] => if isPre target p then (p, 1) else ([], 0)
  | _ =>
    let m := peers.foldl (fun m p => min m (cpl target p)) target.length
    if m == target.length then ([], 0)
    else (target.take (m+1), (peers.filter fun p => cpl target p > m).length)

end KadDHT.Spec

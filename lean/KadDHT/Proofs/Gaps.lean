/- Helper lemmas for `TrieGaps` (C18): the gaps together with the stored keys tile the target prefix. -/
import KadDHT.Proofs.Keyspace
import KadDHT.Proofs.Sort
namespace KadDHT
variable {α : Type}

/-! ### keys that differ at a common position are not prefix-related -/

theorem bitAt_of_isPre {p k : Key} (h : isPre p k = true) {j : Nat} (hj : j < p.length) : bitAt k j = bitAt p j := by
  rw [isPre_iff_prefix] at h
  obtain ⟨s, rfl⟩ := h
  simp [bitAt, List.getD_eq_getElem?_getD, List.getElem?_append_left hj]

theorem not_isPre_of_diff {a b : Key} {p : Nat} (ha : p < a.length) (hne : bitAt a p ≠ bitAt b p) : isPre a b = false := by
  cases h : isPre a b with
  | false => rfl
  | true => exact absurd (bitAt_of_isPre h ha).symm hne

/-! ### sibling prefixes -/

/-- the sibling of `k` at depth `j+1`: the first `j` bits of `k`, then the complement of bit `j` -/
def sib (k : Key) (j : Nat) : Key := flipLast (k.take (j+1))

theorem flipLast_snoc (l : Key) (b : Bool) : flipLast (l ++ [b]) = l ++ [!b] := by
  induction l with
  | nil => rfl
  | cons a l ih =>
    cases l with
    | nil => rfl
    | cons c l => simp only [List.cons_append, flipLast] at ih ⊢; rw [ih]

theorem take_succ_bitAt (k : Key) (j : Nat) (hj : j < k.length) : k.take (j+1) = k.take j ++ [bitAt k j] := by
  rw [List.take_add_one]
  simp [bitAt, List.getD_eq_getElem?_getD, List.getElem?_eq_getElem hj]

theorem sib_eq (k : Key) (j : Nat) (hj : j < k.length) : sib k j = k.take j ++ [!(bitAt k j)] := by
  unfold sib
  rw [take_succ_bitAt k j hj, flipLast_snoc]

theorem sib_length (k : Key) (j : Nat) (hj : j < k.length) : (sib k j).length = j + 1 := by
  rw [sib_eq k j hj]; simp; omega

theorem siblingPrefixes_eq (k : Key) : siblingPrefixes k = (List.range k.length).map (sib k) := rfl

theorem mem_siblings_drop (k s : Key) (d : Nat) :
    s ∈ (siblingPrefixes k).drop d ↔ ∃ j, d ≤ j ∧ j < k.length ∧ s = sib k j := by
  rw [siblingPrefixes_eq, List.mem_drop_iff_getElem]
  constructor
  · rintro ⟨i, hi, rfl⟩
    simp only [List.length_map, List.length_range] at hi
    exact ⟨d + i, by omega, by omega, by simp⟩
  · rintro ⟨j, hdj, hj, rfl⟩
    refine ⟨j - d, by simp; omega, ?_⟩
    simp
    congr 1; omega

theorem bitAt_sib_self (k : Key) (j : Nat) (hj : j < k.length) : bitAt (sib k j) j = !(bitAt k j) := by
  rw [sib_eq k j hj]
  simp [bitAt, List.getD_eq_getElem?_getD, List.length_take, Nat.min_eq_left (Nat.le_of_lt hj)]

theorem bitAt_sib_below (k : Key) (j i : Nat) (hj : j < k.length) (hi : i < j) : bitAt (sib k j) i = bitAt k i := by
  rw [sib_eq k j hj]
  have : i < (k.take j).length := by simp [List.length_take]; omega
  simp [bitAt, List.getD_eq_getElem?_getD, List.getElem?_append_left this, hi]

/-- `sib k j` starts with the first `j` bits of `k` -/
theorem isPre_take_sib (k : Key) (j d : Nat) (hj : j < k.length) (hd : d ≤ j) : isPre (k.take d) (sib k j) = true := by
  rw [sib_eq k j hj, isPre_iff_prefix]
  have : k.take d = (k.take j).take d := by rw [List.take_take, Nat.min_eq_left hd]
  rw [this]
  exact (List.take_prefix _ _).trans (List.prefix_append _ _)

/-- a sibling and the key itself are not prefix-related -/
theorem sib_incomparable_self (k : Key) (j : Nat) (hj : j < k.length) :
    isPre (sib k j) k = false ∧ isPre k (sib k j) = false := by
  have hl := sib_length k j hj
  have hb := bitAt_sib_self k j hj
  constructor
  · exact not_isPre_of_diff (p := j) (by omega) (by rw [hb]; cases bitAt k j <;> simp)
  · exact not_isPre_of_diff (p := j) hj (by rw [hb]; cases bitAt k j <;> simp)

/-- two different siblings of one key are not prefix-related -/
theorem sib_incomparable (k : Key) (j j' : Nat) (hj : j < k.length) (hj' : j' < k.length) (hne : j ≠ j') :
    isPre (sib k j) (sib k j') = false := by
  have hl := sib_length k j hj
  have hl' := sib_length k j' hj'
  by_cases hlt : j < j'
  · -- they differ at position j
    apply not_isPre_of_diff (p := j) (by omega)
    rw [bitAt_sib_self k j hj, bitAt_sib_below k j' j hj' hlt]
    cases bitAt k j <;> simp
  · have hgt : j' < j := by omega
    -- sib k j is longer than sib k j' and differs from it at position j'
    apply not_isPre_of_diff (p := j') (by omega)
    rw [bitAt_sib_self k j' hj', bitAt_sib_below k j j' hj hgt]
    cases bitAt k j' <;> simp

/-- divergence: a key `x` that starts with the first `d` bits of `k` either starts with `k` or with exactly the sibling
    of `k` at the position where it leaves `k` -/
theorem diverge_or_under (k x : Key) (hlen : k.length ≤ x.length) :
    ∀ (n d : Nat), n = k.length - d → d ≤ k.length → isPre (k.take d) x = true →
      isPre k x = true ∨ ∃ j, d ≤ j ∧ j < k.length ∧ isPre (sib k j) x = true
  | 0, d, hn, hd, hp => by
    have : d = k.length := by omega
    subst this
    rw [List.take_length] at hp
    exact Or.inl hp
  | n+1, d, hn, hd, hp => by
    have hdk : d < k.length := by omega
    have hdx : (k.take d).length < x.length := by simp [List.length_take]; omega
    have hsn := isPre_snoc_of hp hdx
    have hlt : (k.take d).length = d := by simp [List.length_take]; omega
    rw [hlt] at hsn
    by_cases hb : bitAt x d = bitAt k d
    · rw [hb, ← take_succ_bitAt k d hdk] at hsn
      rcases diverge_or_under k x hlen n (d+1) (by omega) (by omega) hsn with h | ⟨j, h1, h2, h3⟩
      · exact Or.inl h
      · exact Or.inr ⟨j, by omega, h2, h3⟩
    · right
      refine ⟨d, Nat.le_refl _, hdk, ?_⟩
      rw [sib_eq k d hdk]
      have : bitAt x d = !(bitAt k d) := by cases hx : bitAt x d <;> cases hk : bitAt k d <;> simp_all
      rw [← this]; exact hsn

theorem take_of_isPre {p k : Key} (h : isPre p k = true) : k.take p.length = p := by
  rw [isPre_iff_prefix] at h
  obtain ⟨s, rfl⟩ := h
  simp

theorem append_drop_of_isPre {p s : Key} (h : isPre p s = true) : p ++ s.drop p.length = s :=
  List.prefix_iff_eq_append.1 ((isPre_iff_prefix p s).1 h)

namespace Trie

/-- the branch of a node at depth `P.length` is looked at for every key below the target -/
theorem not_skipped {target P x : Key} {i : Bool} (hx : isPre (P ++ [i]) x = true) (ht : isPre target x = true) :
    (decide (P.length < target.length) && (i != bitAt target P.length)) = false := by
  by_cases hlt : P.length < target.length
  · have h1 := (bitAt_of_isPre_snoc hx).1
    have h2 := bitAt_of_isPre ht hlt
    rw [h1] at h2
    simp [hlt, h2]
  · simp [hlt]

/-- the gaps of one branch together with its keys cover every (long enough) key below the branch and the target -/
theorem gapsBr_cover (target order : Key) : ∀ (sub : Trie α) (P : Key) (i : Bool) (x : Key),
    WF (P ++ [i]) sub → isPre (P ++ [i]) x = true → isPre target x = true →
    (∀ k ∈ keysL sub, k.length ≤ x.length) → P.length + 1 + sub.height ≤ x.length →
    (∃ k ∈ keysL sub, isPre k x = true) ∨ (∃ g ∈ gapsBr target order P.length i sub, isPre (P ++ g) x = true) := by
  intro sub
  induction sub with
  | empty =>
    intro P i x _ hx ht _ _
    right
    refine ⟨[i], ?_, hx⟩
    simp only [gapsBr, not_skipped hx ht, Bool.false_eq_true, ↓reduceIte, List.mem_singleton]
  | leaf k d =>
    intro P i x hwf hx ht hkl _
    have hk : isPre (P ++ [i]) k = true := hwf
    have hkx : k.length ≤ x.length := hkl k (by simp [keysL])
    by_cases hlong : k.length > P.length + 1
    · have htk : k.take (P.length + 1) = P ++ [i] := by
        have := take_of_isPre hk
        simpa using this
      rcases diverge_or_under k x hkx _ (P.length + 1) rfl (by omega) (by rw [htk]; exact hx) with h | ⟨j, hj1, hj2, hj3⟩
      · exact Or.inl ⟨k, by simp [keysL], h⟩
      · right
        refine ⟨(sib k j).drop P.length, ?_, ?_⟩
        · simp only [gapsBr, not_skipped hx ht, Bool.false_eq_true, ↓reduceIte, hlong, List.mem_map]
          refine ⟨sib k j, ?_, rfl⟩
          unfold sortByOrder
          rw [mem_sortBy, mem_siblings_drop]
          exact ⟨j, hj1, hj2, rfl⟩
        · have hPk : k.take P.length = P := take_of_isPre (isPre_of_snoc hk)
          have := isPre_take_sib k j P.length hj2 (by omega)
          rw [hPk] at this
          rw [append_drop_of_isPre this]
          exact hj3
    · have : k = P ++ [i] := eq_path_of_short hk (by simp; omega)
      exact Or.inl ⟨k, by simp [keysL], by rw [this]; exact hx⟩
  | node sl sr ihl ihr =>
    intro P i x hwf hx ht hkl hh
    simp only [height] at hh
    have hlt : (P ++ [i]).length < x.length := by simp; omega
    have hsn := isPre_snoc_of hx hlt
    have hlen' : (P ++ [i]).length = P.length + 1 := by simp
    -- the child below which x lies
    have key : ∀ (b : Bool) (c : Trie α), (∀ (P : Key) (i : Bool) (x : Key),
          WF (P ++ [i]) c → isPre (P ++ [i]) x = true → isPre target x = true →
          (∀ k ∈ keysL c, k.length ≤ x.length) → P.length + 1 + c.height ≤ x.length →
          (∃ k ∈ keysL c, isPre k x = true) ∨ (∃ g ∈ gapsBr target order P.length i c, isPre (P ++ g) x = true)) →
        WF (P ++ [i] ++ [b]) c → (∀ k ∈ keysL c, k ∈ keysL (node sl sr)) →
        c.height ≤ max sl.height sr.height → bitAt x (P ++ [i]).length = b →
        (∃ k ∈ keysL (node sl sr), isPre k x = true) ∨
          (∃ g ∈ gapsBr target order (P.length + 1) b c, isPre (P ++ (i :: g)) x = true) := by
      intro b c ih hwc hsub hhc hb
      rw [hb] at hsn
      have := ih (P ++ [i]) b x hwc hsn ht (fun k hk => hkl k (hsub k hk)) (by rw [hlen']; omega)
      rcases this with ⟨k, hk1, hk2⟩ | ⟨g, hg1, hg2⟩
      · exact Or.inl ⟨k, hsub k hk1, hk2⟩
      · right
        rw [hlen'] at hg1
        exact ⟨g, hg1, by simpa using hg2⟩
    have hres : (∃ k ∈ keysL (node sl sr), isPre k x = true) ∨
        (∃ g, (g ∈ gapsBr target order (P.length + 1) false sl ∨ g ∈ gapsBr target order (P.length + 1) true sr) ∧
          isPre (P ++ (i :: g)) x = true) := by
      cases hb : bitAt x (P ++ [i]).length with
      | false =>
        rcases key false sl ihl hwf.1 (fun k hk => by simp [keysL, hk]) (Nat.le_max_left _ _) hb with h | ⟨g, h1, h2⟩
        · exact Or.inl h
        · exact Or.inr ⟨g, Or.inl h1, h2⟩
      | true =>
        rcases key true sr ihr hwf.2 (fun k hk => by simp [keysL, hk]) (Nat.le_max_right _ _) hb with h | ⟨g, h1, h2⟩
        · exact Or.inl h
        · exact Or.inr ⟨g, Or.inr h1, h2⟩
    rcases hres with h | ⟨g, hg, hgx⟩
    · exact Or.inl h
    · right
      refine ⟨i :: g, ?_, hgx⟩
      simp only [gapsBr, not_skipped hx ht, Bool.false_eq_true, ↓reduceIte, List.mem_map]
      refine ⟨g, ?_, rfl⟩
      split
      · exact List.mem_append.2 hg.symm
      · exact List.mem_append.2 hg

/-- not prefix-related, either way -/
def Incomp (a b : Key) : Prop := isPre a b = false ∧ isPre b a = false

theorem Incomp.symm {a b : Key} (h : Incomp a b) : Incomp b a := ⟨h.2, h.1⟩

theorem incomp_of_diverge {path a b : Key} {x : Bool} (ha : isPre (path ++ [x]) a = true)
    (hb : isPre (path ++ [!x]) b = true) : Incomp a b :=
  ⟨not_isPre_of_diverge ha hb, not_isPre_of_diverge (x := !x) hb (by simpa using ha)⟩

/-- every gap of the branch `i` starts with bit `i` -/
theorem gapsBr_under (target order : Key) (sub : Trie α) (P : Key) (i : Bool) (hwf : WF (P ++ [i]) sub) :
    ∀ g ∈ gapsBr target order P.length i sub, isPre (P ++ [i]) (P ++ g) = true := by
  intro g hg
  cases sub with
  | empty =>
    simp only [gapsBr] at hg
    split at hg
    · cases hg
    · simp only [List.mem_singleton] at hg; subst hg; exact isPre_refl _
  | leaf k d =>
    have hk : isPre (P ++ [i]) k = true := hwf
    simp only [gapsBr] at hg
    split at hg
    · cases hg
    · split at hg
      · rename_i hlong
        simp only [List.mem_map] at hg
        obtain ⟨s, hs, rfl⟩ := hg
        unfold sortByOrder at hs
        rw [mem_sortBy, mem_siblings_drop] at hs
        obtain ⟨j, hj1, hj2, rfl⟩ := hs
        have hPk : k.take P.length = P := take_of_isPre (isPre_of_snoc hk)
        have h1 := isPre_take_sib k j P.length hj2 (by omega)
        rw [hPk] at h1
        rw [append_drop_of_isPre h1]
        have h2 := isPre_take_sib k j (P.length + 1) hj2 hj1
        have htk : k.take (P.length + 1) = P ++ [i] := by simpa using take_of_isPre hk
        rw [htk] at h2
        exact h2
      · cases hg
  | node sl sr =>
    simp only [gapsBr] at hg
    split at hg
    · cases hg
    · simp only [List.mem_map] at hg
      obtain ⟨g', _, rfl⟩ := hg
      rw [isPre_iff_prefix]
      exact ⟨g', by simp⟩

/-- no gap of a branch is prefix-related to a key stored in the branch -/
theorem gapsBr_sound (target order : Key) : ∀ (sub : Trie α) (P : Key) (i : Bool), WF (P ++ [i]) sub →
    ∀ g ∈ gapsBr target order P.length i sub, ∀ k ∈ keysL sub, Incomp (P ++ g) k := by
  intro sub
  induction sub with
  | empty => intro P i _ g _ k hk; simp [keysL] at hk
  | leaf k0 d =>
    intro P i hwf g hg k hk
    have hk0 : isPre (P ++ [i]) k0 = true := hwf
    simp only [keysL, List.mem_singleton] at hk
    subst hk
    simp only [gapsBr] at hg
    split at hg
    · cases hg
    · split at hg
      · simp only [List.mem_map] at hg
        obtain ⟨s, hs, rfl⟩ := hg
        unfold sortByOrder at hs
        rw [mem_sortBy, mem_siblings_drop] at hs
        obtain ⟨j, hj1, hj2, rfl⟩ := hs
        have hPk : k.take P.length = P := take_of_isPre (isPre_of_snoc hk0)
        have h1 := isPre_take_sib k j P.length hj2 (by omega)
        rw [hPk] at h1
        rw [append_drop_of_isPre h1]
        exact sib_incomparable_self k j hj2
      · cases hg
  | node sl sr ihl ihr =>
    intro P i hwf g hg k hk
    simp only [gapsBr] at hg
    split at hg
    · cases hg
    · simp only [List.mem_map] at hg
      obtain ⟨g', hg', rfl⟩ := hg
      have hlen : (P ++ [i]).length = P.length + 1 := by simp
      have happ : P ++ (i :: g') = (P ++ [i]) ++ g' := by simp
      rw [happ]
      have hg'' : g' ∈ gapsBr target order (P.length + 1) false sl ∨ g' ∈ gapsBr target order (P.length + 1) true sr := by
        split at hg'
        · exact (List.mem_append.1 hg').symm
        · exact List.mem_append.1 hg'
      simp only [keysL, List.mem_append] at hk
      rcases hg'' with h | h
      · rw [← hlen] at h
        rcases hk with hk | hk
        · exact ihl (P ++ [i]) false hwf.1 g' h k hk
        · exact incomp_of_diverge (gapsBr_under target order sl (P ++ [i]) false hwf.1 g' h) (hwf.2.mem_isPre hk)
      · rw [← hlen] at h
        rcases hk with hk | hk
        · exact incomp_of_diverge (x := true) (gapsBr_under target order sr (P ++ [i]) true hwf.2 g' h) (hwf.1.mem_isPre hk)
        · exact ihr (P ++ [i]) true hwf.2 g' h k hk

/-- the gaps of a branch are pairwise not prefix-related -/
theorem gapsBr_pairwise (target order : Key) : ∀ (sub : Trie α) (P : Key) (i : Bool), WF (P ++ [i]) sub →
    (gapsBr target order P.length i sub).Pairwise (fun a b => Incomp (P ++ a) (P ++ b)) := by
  intro sub
  induction sub with
  | empty =>
    intro P i _
    simp only [gapsBr]
    split <;> simp
  | leaf k d =>
    intro P i hwf
    have hk : isPre (P ++ [i]) k = true := hwf
    simp only [gapsBr]
    split
    · exact List.Pairwise.nil
    · split
      · rw [List.pairwise_map]
        have hPk : k.take P.length = P := take_of_isPre (isPre_of_snoc hk)
        have hall : (siblingPrefixes k).Pairwise Incomp := by
          rw [siblingPrefixes_eq, List.pairwise_map]
          refine List.Pairwise.imp_of_mem ?_ (List.nodup_range (n := k.length))
          intro a b ha hb hne
          have ha' : a < k.length := List.mem_range.1 ha
          have hb' : b < k.length := List.mem_range.1 hb
          exact ⟨sib_incomparable k a b ha' hb' hne, sib_incomparable k b a hb' ha' (Ne.symm hne)⟩
        have hdrop : ((siblingPrefixes k).drop (P.length + 1)).Pairwise
            (fun a b => Incomp (P ++ a.drop P.length) (P ++ b.drop P.length)) := by
          refine List.Pairwise.imp_of_mem ?_ (List.Pairwise.sublist (List.drop_sublist _ _) hall)
          intro a b ha hb hab
          rw [mem_siblings_drop] at ha hb
          obtain ⟨ja, ha1, ha2, rfl⟩ := ha
          obtain ⟨jb, hb1, hb2, rfl⟩ := hb
          have h1 := isPre_take_sib k ja P.length ha2 (by omega)
          have h2 := isPre_take_sib k jb P.length hb2 (by omega)
          rw [hPk] at h1 h2
          rw [append_drop_of_isPre h1, append_drop_of_isPre h2]
          exact hab
        unfold sortByOrder
        exact hdrop.perm (sortBy_perm _ _).symm (fun h => h.symm)
      · exact List.Pairwise.nil
  | node sl sr ihl ihr =>
    intro P i hwf
    simp only [gapsBr]
    split
    · exact List.Pairwise.nil
    · rw [List.pairwise_map]
      have hlen : (P ++ [i]).length = P.length + 1 := by simp
      have hL := ihl (P ++ [i]) false hwf.1
      have hR := ihr (P ++ [i]) true hwf.2
      rw [hlen] at hL hR
      have conv : ∀ a b : Key, Incomp ((P ++ [i]) ++ a) ((P ++ [i]) ++ b) → Incomp (P ++ (i :: a)) (P ++ (i :: b)) := by
        intro a b h; simpa using h
      have hL' : (gapsBr target order (P.length + 1) false sl).Pairwise (fun a b => Incomp (P ++ (i :: a)) (P ++ (i :: b))) :=
        hL.imp (fun {a b} h => conv a b h)
      have hR' : (gapsBr target order (P.length + 1) true sr).Pairwise (fun a b => Incomp (P ++ (i :: a)) (P ++ (i :: b))) :=
        hR.imp (fun {a b} h => conv a b h)
      have cross : ∀ a ∈ gapsBr target order (P.length + 1) false sl, ∀ b ∈ gapsBr target order (P.length + 1) true sr,
          Incomp (P ++ (i :: a)) (P ++ (i :: b)) := by
        intro a ha b hb
        apply conv
        rw [← hlen] at ha hb
        exact incomp_of_diverge (gapsBr_under target order sl (P ++ [i]) false hwf.1 a ha)
          (gapsBr_under target order sr (P ++ [i]) true hwf.2 b hb)
      split
      · rw [List.pairwise_append]
        exact ⟨hR', hL', fun b hb a ha => (cross a ha b hb).symm⟩
      · rw [List.pairwise_append]
        exact ⟨hL', hR', cross⟩

/-! ### `TrieGaps` itself -/

theorem gaps_cover (target order : Key) (t : Trie α) (x : Key) (hwf : WF [] t) (ht : isPre target x = true)
    (hkl : ∀ k ∈ keysL t, k.length ≤ x.length) (hh : t.height ≤ x.length) :
    (∃ k ∈ keysL t, isPre k x = true) ∨ (∃ g ∈ gaps t target order, isPre g x = true) := by
  cases t with
  | empty => exact Or.inr ⟨target, by simp [gaps], ht⟩
  | leaf k d =>
    have hkx : k.length ≤ x.length := hkl k (by simp [keysL])
    simp only [gaps]
    by_cases h1 : isPre target k = true
    · simp only [h1, ↓reduceIte]
      have htk : k.take target.length = target := take_of_isPre h1
      rcases diverge_or_under k x hkx _ target.length rfl (isPre_length h1) (by rw [htk]; exact ht) with h | ⟨j, hj1, hj2, hj3⟩
      · exact Or.inl ⟨k, by simp [keysL], h⟩
      · right
        refine ⟨sib k j, ?_, hj3⟩
        unfold sortByOrder
        rw [mem_sortBy, mem_siblings_drop]
        exact ⟨j, hj1, hj2, rfl⟩
    · simp only [h1, Bool.false_eq_true, ↓reduceIte]
      by_cases h2 : isPre k target = true
      · exact Or.inl ⟨k, by simp [keysL], isPre_trans h2 ht⟩
      · simp only [h2, Bool.false_eq_true, ↓reduceIte]
        exact Or.inr ⟨target, by simp, ht⟩
  | node l r =>
    simp only [height] at hh
    have hx0 : ([] : Key).length < x.length := by simp; omega
    have hsn := isPre_snoc_of (path := []) (k := x) (by simp [isPre]) hx0
    have hres : (∃ k ∈ keysL (node l r), isPre k x = true) ∨
        (∃ g, (g ∈ gapsBr target order 0 false l ∨ g ∈ gapsBr target order 0 true r) ∧ isPre g x = true) := by
      cases hb : bitAt x ([] : Key).length with
      | false =>
        rw [hb] at hsn
        rcases gapsBr_cover target order l [] false x hwf.1 hsn ht (fun k hk => hkl k (by simp [keysL, hk]))
          (by simp; omega) with ⟨k, hk1, hk2⟩ | ⟨g, hg1, hg2⟩
        · exact Or.inl ⟨k, by simp [keysL, hk1], hk2⟩
        · exact Or.inr ⟨g, Or.inl hg1, by simpa using hg2⟩
      | true =>
        rw [hb] at hsn
        rcases gapsBr_cover target order r [] true x hwf.2 hsn ht (fun k hk => hkl k (by simp [keysL, hk]))
          (by simp; omega) with ⟨k, hk1, hk2⟩ | ⟨g, hg1, hg2⟩
        · exact Or.inl ⟨k, by simp [keysL, hk1], hk2⟩
        · exact Or.inr ⟨g, Or.inr hg1, by simpa using hg2⟩
    rcases hres with h | ⟨g, hg, hgx⟩
    · exact Or.inl h
    · right
      refine ⟨g, ?_, hgx⟩
      simp only [gaps, gapsAt]
      split
      · exact List.mem_append.2 hg.symm
      · exact List.mem_append.2 hg

theorem gaps_sound (target order : Key) (t : Trie α) (hwf : WF [] t) :
    ∀ g ∈ gaps t target order, ∀ k ∈ keysL t, Incomp g k := by
  intro g hg k hk
  cases t with
  | empty => simp [keysL] at hk
  | leaf k0 d =>
    simp only [keysL, List.mem_singleton] at hk
    subst hk
    simp only [gaps] at hg
    split at hg
    · unfold sortByOrder at hg
      rw [mem_sortBy, mem_siblings_drop] at hg
      obtain ⟨j, _, hj2, rfl⟩ := hg
      exact sib_incomparable_self k j hj2
    · rename_i h1
      split at hg
      · cases hg
      · rename_i h2
        simp only [List.mem_singleton] at hg
        subst hg
        exact ⟨by simpa using h1, by simpa using h2⟩
  | node l r =>
    simp only [gaps, gapsAt] at hg
    have hg' : g ∈ gapsBr target order 0 false l ∨ g ∈ gapsBr target order 0 true r := by
      split at hg
      · exact (List.mem_append.1 hg).symm
      · exact List.mem_append.1 hg
    simp only [keysL, List.mem_append] at hk
    have e0 : ([] : Key).length = 0 := rfl
    rcases hg' with h | h
    · rcases hk with hk | hk
      · simpa using gapsBr_sound target order l [] false hwf.1 g h k hk
      · have := incomp_of_diverge (gapsBr_under target order l [] false hwf.1 g h) (hwf.2.mem_isPre hk)
        simpa using this
    · rcases hk with hk | hk
      · have := incomp_of_diverge (x := true) (gapsBr_under target order r [] true hwf.2 g h) (hwf.1.mem_isPre hk)
        simpa using this
      · simpa using gapsBr_sound target order r [] true hwf.2 g h k hk

theorem gaps_pairwise (target order : Key) (t : Trie α) (hwf : WF [] t) :
    (gaps t target order).Pairwise Incomp := by
  cases t with
  | empty => simp [gaps]
  | leaf k d =>
    simp only [gaps]
    split
    · have hall : (siblingPrefixes k).Pairwise Incomp := by
        rw [siblingPrefixes_eq, List.pairwise_map]
        refine List.Pairwise.imp_of_mem ?_ (List.nodup_range (n := k.length))
        intro a b ha hb hne
        have ha' : a < k.length := List.mem_range.1 ha
        have hb' : b < k.length := List.mem_range.1 hb
        exact ⟨sib_incomparable k a b ha' hb' hne, sib_incomparable k b a hb' ha' (Ne.symm hne)⟩
      unfold sortByOrder
      exact (List.Pairwise.sublist (List.drop_sublist _ _) hall).perm (sortBy_perm _ _).symm (fun h => h.symm)
    · split <;> simp
  | node l r =>
    simp only [gaps, gapsAt]
    have hL : (gapsBr target order 0 false l).Pairwise Incomp := by
      have := gapsBr_pairwise target order l [] false hwf.1
      simpa using this
    have hR : (gapsBr target order 0 true r).Pairwise Incomp := by
      have := gapsBr_pairwise target order r [] true hwf.2
      simpa using this
    have cross : ∀ a ∈ gapsBr target order 0 false l, ∀ b ∈ gapsBr target order 0 true r, Incomp a b := by
      intro a ha b hb
      have := incomp_of_diverge (gapsBr_under target order l [] false hwf.1 a ha) (gapsBr_under target order r [] true hwf.2 b hb)
      simpa using this
    split
    · rw [List.pairwise_append]
      exact ⟨hR, hL, fun b hb a ha => (cross a ha b hb).symm⟩
    · rw [List.pairwise_append]
      exact ⟨hL, hR, cross⟩

end Trie

end KadDHT

namespace KadDHT
variable {α : Type}

/-! ### AllEntries(t, order) is sorted by `order` -/

theorem orderBefore_go_diverge : ∀ (path a b order : Key) (x : Bool), isPre (path ++ [x]) a = true →
    isPre (path ++ [!x]) b = true → path.length < order.length →
    orderBefore.go a b order = (x == bitAt order path.length)
  | [], a, b, order, x, ha, hb, ho => by
    cases a with
    | nil => simp [isPre] at ha
    | cons a0 a =>
      cases b with
      | nil => simp [isPre] at hb
      | cons b0 b =>
        cases order with
        | nil => simp at ho
        | cons o0 order =>
          simp only [List.nil_append, isPre, Bool.and_true, beq_iff_eq] at ha hb
          subst ha hb
          cases x <;> cases o0 <;> simp [orderBefore.go, bitAt]
  | p :: path, a, b, order, x, ha, hb, ho => by
    cases a with
    | nil => simp [isPre] at ha
    | cons a0 a =>
      cases b with
      | nil => simp [isPre] at hb
      | cons b0 b =>
        cases order with
        | nil => simp at ho
        | cons o0 order =>
          simp only [List.cons_append, isPre, Bool.and_eq_true, beq_iff_eq] at ha hb
          obtain ⟨rfl, ha'⟩ := ha
          obtain ⟨rfl, hb'⟩ := hb
          have ih := orderBefore_go_diverge path a b order x ha' hb' (by simpa using ho)
          simp only [orderBefore.go, bne_self_eq_false, Bool.false_eq_true, ↓reduceIte, ih]
          simp [bitAt]

namespace Trie

/-- the entries come out in the order induced by `order` (for an order key at least as long as the trie is deep):
    of two entries the one that agrees with `order` at their first differing bit comes first -/
theorem entriesAt_sorted (order : Key) : ∀ (t : Trie α) (path : Key), WF path t → path.length + t.height ≤ order.length →
    ((entriesAt order path.length t).map (·.1)).Pairwise (fun a b => orderBefore order a b = true) := by
  intro t
  induction t with
  | empty => intro path _ _; simp [entriesAt]
  | leaf k d => intro path _ _; simp [entriesAt]
  | node l r ihl ihr =>
    intro path hwf hh
    simp only [height] at hh
    have hl := ihl (path ++ [false]) hwf.1 (by simp; omega)
    have hr := ihr (path ++ [true]) hwf.2 (by simp; omega)
    have hlen : (path ++ [false]).length = path.length + 1 := by simp
    have hlen' : (path ++ [true]).length = path.length + 1 := by simp
    rw [hlen] at hl
    rw [hlen'] at hr
    have ho : path.length < order.length := by omega
    have memL : ∀ a ∈ (entriesAt order (path.length + 1) l).map (·.1), isPre (path ++ [false]) a = true := by
      intro a ha
      exact hwf.1.mem_isPre ((mem_entriesAt order _ l a).1 ha)
    have memR : ∀ b ∈ (entriesAt order (path.length + 1) r).map (·.1), isPre (path ++ [true]) b = true := by
      intro b hb
      exact hwf.2.mem_isPre ((mem_entriesAt order _ r b).1 hb)
    simp only [entriesAt]
    cases hb : bitAt order path.length with
    | true =>
      simp only [↓reduceIte, List.map_append]
      rw [List.pairwise_append]
      refine ⟨hr, hl, ?_⟩
      intro b hb' a ha'
      have := orderBefore_go_diverge path b a order true (memR b hb') (by simpa using memL a ha') ho
      unfold orderBefore
      rw [this, hb]; rfl
    | false =>
      simp only [Bool.false_eq_true, ↓reduceIte, List.map_append]
      rw [List.pairwise_append]
      refine ⟨hl, hr, ?_⟩
      intro a ha' b hb'
      have := orderBefore_go_diverge path a b order false (memL a ha') (by simpa using memR b hb') ho
      unfold orderBefore
      rw [this, hb]; rfl

end Trie
end KadDHT

namespace KadDHT
variable {α : Type}

/-! ### NextNonEmptyLeaf is the cyclic successor in the order induced by `order` -/

/-- for keys of one length the leaf test of `nextNonEmptyLeafAtDepth` is the comparator of the order -/
theorem orderBefore_eq_cplTest : ∀ (a b order : Key), a.length = b.length → a.length ≤ order.length →
    orderBefore.go a b order =
      (decide (cpl a b < a.length) && decide (cpl a b < order.length) && (bitAt order (cpl a b) == bitAt a (cpl a b)))
  | [], [], order, _, _ => by cases order <;> simp [orderBefore.go, cpl]
  | [], _ :: _, _, h, _ => by simp at h
  | _ :: _, [], _, h, _ => by simp at h
  | x :: a, y :: b, [], _, ho => by simp at ho
  | x :: a, y :: b, o :: order, h, ho => by
    by_cases hxy : x = y
    · subst hxy
      have ih := orderBefore_eq_cplTest a b order (by simpa using h) (by simpa using ho)
      simp only [orderBefore.go, bne_self_eq_false, Bool.false_eq_true, ↓reduceIte, ih, cpl, beq_self_eq_true]
      simp [bitAt]
    · have : (x == y) = false := by simpa using hxy
      simp only [orderBefore.go, cpl, this, Bool.false_eq_true, ↓reduceIte]
      cases x <;> cases y <;> cases o <;> simp_all [bitAt]

namespace Trie

theorem firstLeaf_eq_head (order : Key) : ∀ (t : Trie α) (d : Nat), firstLeaf order d t = (entriesAt order d t).head? := by
  intro t
  induction t with
  | empty => intro d; rfl
  | leaf k v => intro d; rfl
  | node l r ihl ihr =>
    intro d
    simp only [firstLeaf, entriesAt, ihl, ihr]
    cases bitAt order d
    · simp only [Bool.false_eq_true, ↓reduceIte, List.head?_append]
      cases (entriesAt order (d + 1) l).head? <;> rfl
    · simp only [↓reduceIte, List.head?_append]
      cases (entriesAt order (d + 1) r).head? <;> rfl

/-- the first entry after `k` in the order, or (only at the root) the first entry at all when `k` is the last -/
def specNext (d : Nat) (k order : Key) (es : List (Key × α)) : Option (Key × α) :=
  match es.find? (fun e => orderBefore order k e.1) with
  | some e => some e
  | none => if d == 0 then es.head? else none

theorem find?_all_false {β : Type} (p : β → Bool) (l : List β) (h : ∀ e ∈ l, p e = false) : l.find? p = none := by
  rw [List.find?_eq_none]
  intro e he
  simp [h e he]

theorem find?_head_of_all {β : Type} (p : β → Bool) (l : List β) (h : ∀ e ∈ l, p e = true) : l.find? p = l.head? := by
  cases l with
  | nil => rfl
  | cons a l => simp [List.find?_cons, h a (by simp)]

theorem nextLeafAt_spec (k order : Key) (hko : k.length ≤ order.length) : ∀ (t : Trie α) (d : Nat) (P : Key),
    WF P t → P.length = d → isPre P k = true → (∀ x ∈ keysL t, x.length = k.length) → d + t.height ≤ k.length →
    nextLeafAt k order d t = specNext d k order (entriesAt order d t) := by
  intro t
  induction t with
  | empty => intro d P _ _ _ _ _; cases d <;> rfl
  | leaf k' v =>
    intro d P _ _ _ hlen _
    have hl : k'.length = k.length := hlen k' (by simp [keysL])
    simp only [nextLeafAt, specNext, entriesAt, List.find?_cons, List.find?_nil, List.head?_cons]
    by_cases hd : d = 0
    · subst hd
      simp only [beq_self_eq_true, ↓reduceIte]
      cases orderBefore order k k' <;> rfl
    · have hd' : (d == 0) = false := by simpa using hd
      simp only [hd', Bool.false_eq_true, ↓reduceIte]
      unfold orderBefore
      rw [orderBefore_eq_cplTest k k' order hl.symm hko]
      split <;> rename_i hc
      · simp only [Bool.and_eq_true, decide_eq_true_eq] at hc
        simp [hc.1.1, hc.1.2, hc.2]
      · have : (decide (cpl k k' < k.length) && decide (cpl k k' < order.length) && (bitAt order (cpl k k') == bitAt k (cpl k k'))) = false := by
          cases hx : (decide (cpl k k' < k.length) && decide (cpl k k' < order.length) && (bitAt order (cpl k k') == bitAt k (cpl k k')))
          · rfl
          · exfalso; apply hc; simpa [Bool.and_eq_true] using hx
        simp [this]
  | node l r ihl ihr =>
    intro d P hwf hP hPk hlen hh
    simp only [height] at hh
    have hdk : P.length < k.length := by omega
    have hsn := isPre_snoc_of hPk hdk
    rw [hP] at hsn
    have hdo : P.length < order.length := by omega
    have hlenL : ∀ x ∈ keysL l, x.length = k.length := fun x hx => hlen x (by simp [keysL, hx])
    have hlenR : ∀ x ∈ keysL r, x.length = k.length := fun x hx => hlen x (by simp [keysL, hx])
    -- entries of a child lie below the child's path
    have underL : ∀ e ∈ entriesAt order (d + 1) l, isPre (P ++ [false]) e.1 = true := fun e he =>
      hwf.1.mem_isPre ((mem_entriesAt order _ l e.1).1 (List.mem_map.2 ⟨e, he, rfl⟩))
    have underR : ∀ e ∈ entriesAt order (d + 1) r, isPre (P ++ [true]) e.1 = true := fun e he =>
      hwf.2.mem_isPre ((mem_entriesAt order _ r e.1).1 (List.mem_map.2 ⟨e, he, rfl⟩))
    -- k against an entry of the other child: decided at bit d
    have cross : ∀ (b : Bool) (e : Key × α), isPre (P ++ [b]) k = true → isPre (P ++ [!b]) e.1 = true →
        orderBefore order k e.1 = (b == bitAt order d) := by
      intro b e hk he
      unfold orderBefore
      rw [orderBefore_go_diverge P k e.1 order b hk he hdo, hP]
    have recL := ihl (d + 1) (P ++ [false]) hwf.1 (by simp [hP])
    have recR := ihr (d + 1) (P ++ [true]) hwf.2 (by simp [hP])
    have hd1 : (d + 1 == 0) = false := by simp
    simp only [nextLeafAt, entriesAt, firstLeaf_eq_head]
    cases hkb : bitAt k d with
    | false =>
      rw [hkb] at hsn
      have rl := recL hsn hlenL (by omega)
      simp only [specNext, hd1, Bool.false_eq_true, ↓reduceIte] at rl
      simp only [Bool.false_eq_true, ↓reduceIte, rl]
      cases hob : bitAt order d with
      | false =>
        -- k's child comes first
        have allR : ∀ e ∈ entriesAt order (d + 1) r, orderBefore order k e.1 = true := fun e he => by
          rw [cross false e hsn (by simpa using underR e he), hob]; rfl
        simp only [Bool.false_eq_true, ↓reduceIte, specNext, List.find?_append, beq_self_eq_true, Bool.true_or]
        cases hf : (entriesAt order (d + 1) l).find? (fun e => orderBefore order k e.1) with
        | some e => simp
        | none =>
          simp only [Option.none_or, find?_head_of_all _ _ allR]
          cases hr : (entriesAt order (d + 1) r).head? with
          | some e => simp
          | none =>
            have : entriesAt order (d + 1) r = [] := by simpa using hr
            simp [this]
      | true =>
        -- k's child comes second
        have noneR : ∀ e ∈ entriesAt order (d + 1) r, orderBefore order k e.1 = false := fun e he => by
          rw [cross false e hsn (by simpa using underR e he), hob]; rfl
        simp only [↓reduceIte, specNext, List.find?_append, find?_all_false _ _ noneR, Option.none_or]
        cases hf : (entriesAt order (d + 1) l).find? (fun e => orderBefore order k e.1) with
        | some e => simp
        | none =>
          simp only [Bool.false_eq_true, Bool.false_or]
          by_cases hd : d = 0
          · subst hd
            simp only [beq_self_eq_true, ↓reduceIte, List.head?_append]
            cases hr : (entriesAt order (0 + 1) r).head? <;> simp
          · have hd' : (d == 0) = false := by simpa using hd
            simp [hd']
    | true =>
      rw [hkb] at hsn
      have rr := recR hsn hlenR (by omega)
      simp only [specNext, hd1, Bool.false_eq_true, ↓reduceIte] at rr
      simp only [↓reduceIte, rr]
      cases hob : bitAt order d with
      | true =>
        have allL : ∀ e ∈ entriesAt order (d + 1) l, orderBefore order k e.1 = true := fun e he => by
          rw [cross true e hsn (by simpa using underL e he), hob]; rfl
        simp only [↓reduceIte, specNext, List.find?_append, beq_self_eq_true, Bool.true_or]
        cases hf : (entriesAt order (d + 1) r).find? (fun e => orderBefore order k e.1) with
        | some e => simp
        | none =>
          simp only [Option.none_or, find?_head_of_all _ _ allL]
          cases hl : (entriesAt order (d + 1) l).head? with
          | some e => simp
          | none =>
            have : entriesAt order (d + 1) l = [] := by simpa using hl
            simp [this]
      | false =>
        have noneL : ∀ e ∈ entriesAt order (d + 1) l, orderBefore order k e.1 = false := fun e he => by
          rw [cross true e hsn (by simpa using underL e he), hob]; rfl
        simp only [Bool.false_eq_true, ↓reduceIte, specNext, List.find?_append, find?_all_false _ _ noneL, Option.none_or]
        cases hf : (entriesAt order (d + 1) r).find? (fun e => orderBefore order k e.1) with
        | some e => simp
        | none =>
          simp only [Bool.true_eq_false, Bool.false_or]
          by_cases hd : d = 0
          · subst hd
            simp only [beq_self_eq_true, ↓reduceIte, List.head?_append]
            cases hl : (entriesAt order (0 + 1) l).head? <;> simp
          · have hd' : (d == 0) = false := by simpa using hd
            simp [hd']

end Trie
end KadDHT

namespace KadDHT
variable {α : Type}

/-! ### CoalesceTrie keeps the covered keyspace -/

theorem cpl_of_diverge : ∀ (path a c : Key) (b : Bool), isPre (path ++ [b]) a = true → isPre (path ++ [!b]) c = true →
    cpl a c = path.length
  | [], a, c, b, ha, hc => by
    cases a with
    | nil => simp [isPre] at ha
    | cons a0 a =>
      cases c with
      | nil => simp [isPre] at hc
      | cons c0 c =>
        simp only [List.nil_append, isPre, Bool.and_true, beq_iff_eq] at ha hc
        subst ha hc
        cases b <;> simp [cpl]
  | p :: path, a, c, b, ha, hc => by
    cases a with
    | nil => simp [isPre] at ha
    | cons a0 a =>
      cases c with
      | nil => simp [isPre] at hc
      | cons c0 c =>
        simp only [List.cons_append, isPre, Bool.and_eq_true, beq_iff_eq] at ha hc
        obtain ⟨rfl, ha'⟩ := ha
        obtain ⟨rfl, hc'⟩ := hc
        simp [cpl, cpl_of_diverge path a c b ha' hc']

namespace Trie

/-- some stored key is a prefix of `x` -/
def Covers (t : Trie α) (x : Key) : Prop := ∃ k ∈ keysL t, isPre k x = true

theorem covers_node_iff {l r : Trie α} {path x : Key} (hwf : WF path (node l r)) (hx : isPre path x = true)
    (hlt : path.length < x.length) :
    Covers (node l r) x ↔ (if bitAt x path.length then Covers r x else Covers l x) := by
  have hsn := isPre_snoc_of hx hlt
  unfold Covers
  simp only [keysL, List.mem_append]
  cases hb : bitAt x path.length with
  | false =>
    rw [hb] at hsn
    simp only [Bool.false_eq_true, ↓reduceIte]
    constructor
    · rintro ⟨k, hk | hk, hkx⟩
      · exact ⟨k, hk, hkx⟩
      · have := not_isPre_of_diverge (x := true) (hwf.2.mem_isPre hk) (by simpa using hsn)
        rw [this] at hkx; cases hkx
    · rintro ⟨k, hk, hkx⟩; exact ⟨k, Or.inl hk, hkx⟩
  | true =>
    rw [hb] at hsn
    simp only [↓reduceIte]
    constructor
    · rintro ⟨k, hk | hk, hkx⟩
      · have := not_isPre_of_diverge (x := false) (hwf.1.mem_isPre hk) (by simpa using hsn)
        rw [this] at hkx; cases hkx
      · exact ⟨k, hk, hkx⟩
    · rintro ⟨k, hk, hkx⟩; exact ⟨k, Or.inr hk, hkx⟩

/-- CoalesceTrie: well-formedness is kept and exactly the same (long enough) keys are covered -/
theorem coalesce_spec_at [Inhabited α] : ∀ (t : Trie α) (path : Key), WF path t →
    WF path (coalesce t) ∧
    ∀ x, isPre path x = true → path.length + t.height ≤ x.length → (Covers t x ↔ Covers (coalesce t) x) := by
  intro t
  induction t with
  | empty => intro path h; exact ⟨h, fun _ _ _ => Iff.rfl⟩
  | leaf k d => intro path h; exact ⟨h, fun _ _ _ => Iff.rfl⟩
  | node l r ihl ihr =>
    intro path hwf
    obtain ⟨hwl, hcl⟩ := ihl (path ++ [false]) hwf.1
    obtain ⟨hwr, hcr⟩ := ihr (path ++ [true]) hwf.2
    -- the unmerged result
    have plain : WF path (node (coalesce l) (coalesce r)) ∧
        ∀ x, isPre path x = true → path.length + (node l r).height ≤ x.length →
          (Covers (node l r) x ↔ Covers (node (coalesce l) (coalesce r)) x) := by
      refine ⟨⟨hwl, hwr⟩, ?_⟩
      intro x hx hh
      simp only [height] at hh
      have hlt : path.length < x.length := by omega
      have hsn := isPre_snoc_of hx hlt
      rw [covers_node_iff hwf hx hlt, covers_node_iff (l := coalesce l) (r := coalesce r) ⟨hwl, hwr⟩ hx hlt]
      cases hb : bitAt x path.length with
      | false =>
        rw [hb] at hsn
        simp only [Bool.false_eq_true, ↓reduceIte]
        exact hcl x hsn (by simp; omega)
      | true =>
        rw [hb] at hsn
        simp only [↓reduceIte]
        exact hcr x hsn (by simp; omega)
    -- what `coalesce (node l r)` is
    cases hl' : coalesce l with
    | empty => simpa [coalesce, hl'] using plain
    | node a b => simpa [coalesce, hl'] using plain
    | leaf k0 d0 =>
      cases hr' : coalesce r with
      | empty => simpa [coalesce, hl', hr'] using plain
      | node a b => simpa [coalesce, hl', hr'] using plain
      | leaf k1 d1 =>
        by_cases hc : (decide (k0.length ≥ 1) && (k0.length == k1.length) && (cpl k0 k1 == k0.length - 1)) = true
        · -- the two leaves are exactly the two children of this node: merged into one leaf at `path`
          have hk0 : isPre (path ++ [false]) k0 = true := by rw [hl'] at hwl; exact hwl
          have hk1 : isPre (path ++ [true]) k1 = true := by rw [hr'] at hwr; exact hwr
          simp only [Bool.and_eq_true, decide_eq_true_eq, beq_iff_eq] at hc
          have hcpl := cpl_of_diverge path k0 k1 false hk0 (by simpa using hk1)
          have hlen0 : k0.length = path.length + 1 := by omega
          have e0 : k0 = path ++ [false] := eq_path_of_short hk0 (by simp; omega)
          have hmerged : coalesce (node l r) = leaf path default := by
            simp only [coalesce, hl', hr']
            have : (decide (k0.length ≥ 1) && (k0.length == k1.length) && (cpl k0 k1 == k0.length - 1)) = true := by
              have h1 := hc.1.1
              have h2 := hc.1.2
              have h3 := hc.2
              simp only [Bool.and_eq_true, decide_eq_true_eq, beq_iff_eq]
              exact ⟨⟨h1, h2⟩, h3⟩
            rw [if_pos this]
            congr 1
            rw [e0]; simp
          rw [hmerged]
          refine ⟨isPre_refl path, ?_⟩
          intro x hx hh
          constructor
          · intro _; exact ⟨path, by simp [keysL], hx⟩
          · intro _
            rw [plain.2 x hx hh, hl', hr']
            simp only [height] at hh
            have hlt : path.length < x.length := by omega
            have hsn := isPre_snoc_of hx hlt
            have e1 : k1 = path ++ [true] := eq_path_of_short hk1 (by simp; omega)
            cases hb : bitAt x path.length with
            | false => rw [hb] at hsn; exact ⟨k0, by simp [keysL], by rw [e0]; exact hsn⟩
            | true => rw [hb] at hsn; exact ⟨k1, by simp [keysL], by rw [e1]; exact hsn⟩
        · have : coalesce (node l r) = node (coalesce l) (coalesce r) := by
            simp only [coalesce, hl', hr']
            rw [if_neg hc]
          rw [this]
          exact plain

end Trie
end KadDHT

/- Refinement proof for the provider store model (C07). -/
import KadDHT.Model.ProviderStore
namespace KadDHT.ProviderStore

/-! ### association-list updates -/

theorem mem_diskPut (d : List ((K × P) × Time)) (k : K) (p : P) (t : Time) (x : K × P) (t' : Time) :
    (x, t') ∈ diskPut d k p t ↔ ((x = (k, p) ∧ t' = t) ∨ (x ≠ (k, p) ∧ (x, t') ∈ d)) := by
  unfold diskPut
  split
  · rename_i h
    simp only [List.mem_map]
    constructor
    · rintro ⟨e, he, heq⟩
      by_cases hk : e.1 == (k, p)
      · simp only [hk, ↓reduceIte, Prod.mk.injEq] at heq
        exact Or.inl ⟨heq.1.symm, heq.2.symm⟩
      · simp only [hk, Bool.false_eq_true, ↓reduceIte] at heq
        subst heq
        exact Or.inr ⟨by simpa using hk, he⟩
    · rintro (⟨rfl, rfl⟩ | ⟨hne, hm⟩)
      · obtain ⟨e, he, hek⟩ := List.any_eq_true.1 h
        exact ⟨e, he, by simp [hek]⟩
      · exact ⟨(x, t'), hm, by simp [hne]⟩
  · rename_i h
    simp only [List.mem_append, List.mem_singleton, Prod.mk.injEq]
    constructor
    · rintro (hm | ⟨rfl, rfl⟩)
      · refine Or.inr ⟨?_, hm⟩
        intro heq; subst heq
        exact h (List.any_eq_true.2 ⟨_, hm, by simp⟩)
      · exact Or.inl ⟨rfl, rfl⟩
    · rintro (⟨rfl, rfl⟩ | ⟨_, hm⟩)
      · exact Or.inr ⟨rfl, rfl⟩
      · exact Or.inl hm

theorem diskPut_keys_nodup (d : List ((K × P) × Time)) (k : K) (p : P) (t : Time) (h : (d.map (·.1)).Nodup) :
    ((diskPut d k p t).map (·.1)).Nodup := by
  unfold diskPut
  split
  · have : (d.map fun e => if e.1 == (k, p) then ((k, p), t) else e).map (·.1) = d.map (·.1) := by
      rw [List.map_map]
      apply List.map_congr_left
      intro e _
      simp only [Function.comp]
      split
      · rename_i hk; simpa using (by simpa using hk : e.1 = (k, p)).symm
      · rfl
    rw [this]; exact h
  · rename_i hn
    rw [List.map_append, List.nodup_append]
    refine ⟨h, by simp, ?_⟩
    intro a ha b hb
    simp only [List.map_cons, List.map_nil, List.mem_singleton] at hb
    subst hb
    intro heq; subst heq
    obtain ⟨e, he, hek⟩ := List.mem_map.1 ha
    exact hn (List.any_eq_true.2 ⟨e, he, by simp [hek]⟩)

theorem mem_setVal (s : PSet) (p : P) (t : Time) (x : P) (t' : Time) :
    (x, t') ∈ s.setVal p t ↔ ((x = p ∧ t' = t) ∨ (x ≠ p ∧ (x, t') ∈ s)) := by
  unfold PSet.setVal
  split
  · rename_i h
    simp only [List.mem_map]
    constructor
    · rintro ⟨e, he, heq⟩
      by_cases hk : e.1 == p
      · simp only [hk, ↓reduceIte, Prod.mk.injEq] at heq
        exact Or.inl ⟨heq.1.symm, heq.2.symm⟩
      · simp only [hk, Bool.false_eq_true, ↓reduceIte] at heq
        subst heq
        exact Or.inr ⟨by simpa using hk, he⟩
    · rintro (⟨rfl, rfl⟩ | ⟨hne, hm⟩)
      · obtain ⟨e, he, hek⟩ := List.any_eq_true.1 h
        exact ⟨e, he, by simp [hek]⟩
      · exact ⟨(x, t'), hm, by simp [hne]⟩
  · rename_i h
    simp only [List.mem_append, List.mem_singleton, Prod.mk.injEq]
    constructor
    · rintro (hm | ⟨rfl, rfl⟩)
      · refine Or.inr ⟨?_, hm⟩
        intro heq; subst heq
        exact h (List.any_eq_true.2 ⟨_, hm, by simp⟩)
      · exact Or.inl ⟨rfl, rfl⟩
    · rintro (⟨rfl, rfl⟩ | ⟨_, hm⟩)
      · exact Or.inr ⟨rfl, rfl⟩
      · exact Or.inl hm

theorem setVal_keys_nodup (s : PSet) (p : P) (t : Time) (h : (s.map (·.1)).Nodup) :
    ((s.setVal p t).map (·.1)).Nodup := by
  unfold PSet.setVal
  split
  · have : (s.map fun e => if e.1 == p then (p, t) else e).map (·.1) = s.map (·.1) := by
      rw [List.map_map]
      apply List.map_congr_left
      intro e _
      simp only [Function.comp]
      split
      · rename_i hk; simpa using (by simpa using hk : e.1 = p).symm
      · rfl
    rw [this]; exact h
  · rename_i hn
    rw [List.map_append, List.nodup_append]
    refine ⟨h, by simp, ?_⟩
    intro a ha b hb
    simp only [List.map_cons, List.map_nil, List.mem_singleton] at hb
    subst hb
    intro heq; subst heq
    obtain ⟨e, he, hek⟩ := List.mem_map.1 ha
    exact hn (List.any_eq_true.2 ⟨e, he, by simp [hek]⟩)

/-! ### cache bookkeeping: where the entries of the new cache come from -/

theorem cacheGet_some {c : List (K × PSet)} {k : K} {set : PSet} {c1} (h : cacheGet c k = (some set, c1)) :
    (k, set) ∈ c ∧ ∀ e ∈ c1, e ∈ c := by
  unfold cacheGet at h
  cases hf : c.find? (·.1 == k) with
  | none => simp [hf] at h
  | some e =>
    simp only [hf, Prod.mk.injEq, Option.some.injEq] at h
    obtain ⟨rfl, rfl⟩ := h
    have hmem := List.mem_of_find?_eq_some hf
    have hk : e.1 = k := by simpa using List.find?_some hf
    refine ⟨by rw [← hk]; exact hmem, ?_⟩
    intro x hx
    rcases List.mem_cons.1 hx with rfl | hx
    · exact hmem
    · exact (List.mem_filter.1 hx).1

theorem cacheGet_none {c : List (K × PSet)} {k : K} {c1} (h : cacheGet c k = (none, c1)) : c1 = c := by
  unfold cacheGet at h
  cases hf : c.find? (·.1 == k) with
  | none => simp [hf] at h; exact h.symm
  | some e => simp [hf] at h

theorem mem_cacheSet {c : List (K × PSet)} {k : K} {s : PSet} {e : K × PSet} (h : e ∈ cacheSet c k s) :
    e = (k, s) ∨ (e ∈ c ∧ e.1 ≠ k) := by
  unfold cacheSet at h
  obtain ⟨e0, he0, rfl⟩ := List.mem_map.1 h
  by_cases hk : e0.1 == k
  · simp [hk]
  · simp only [hk, Bool.false_eq_true, ↓reduceIte]; exact Or.inr ⟨he0, by simpa using hk⟩

theorem mem_cacheAdd {cap : Nat} {c : List (K × PSet)} {k : K} {s : PSet} {e : K × PSet}
    (h : e ∈ cacheAdd cap c k s) : e = (k, s) ∨ (e ∈ c ∧ e.1 ≠ k) := by
  unfold cacheAdd at h
  have := List.mem_of_mem_take h
  rcases List.mem_cons.1 this with rfl | hx
  · exact Or.inl rfl
  · have := List.mem_filter.1 hx
    exact Or.inr ⟨this.1, by simpa using this.2⟩

/-! ### the simulation relation -/

def EntryOK (v now : Time) (disk : List ((K × P) × Time)) (e : K × PSet) : Prop :=
  (e.2.map (·.1)).Nodup ∧
  ∀ p t, ((p, t) ∈ e.2 ∧ expired v now t = false) ↔ (((e.1, p), t) ∈ disk ∧ expired v now t = false)

structure R (s : St) (a : Spec) : Prop where
  hv : s.validity = a.validity
  hn : s.now = a.now
  hs : s.stopped = a.stopped
  d1 : ∀ x t, (x, t) ∈ s.disk → (x, t) ∈ a.last
  d2 : ∀ x t, (x, t) ∈ a.last → expired s.validity s.now t = false → (x, t) ∈ s.disk
  u1 : (s.disk.map (·.1)).Nodup
  u2 : (a.last.map (·.1)).Nodup
  c1 : ∀ e ∈ s.cache, EntryOK s.validity s.now s.disk e

/-- outputs agree up to the (shuffled) order of the provider list; no provider is listed twice -/
def Out.sim : Out → Out → Prop
  | .ok, .ok => True
  | .closed, .closed => True
  | .provs a, .provs b => a.Nodup ∧ b.Nodup ∧ ∀ p, p ∈ a ↔ p ∈ b
  | _, _ => False

theorem R_init (cap v : Nat) : R (init cap v) (Spec.init v) :=
  ⟨rfl, rfl, rfl, by simp [init], by simp [Spec.init], by simp [init], by simp [Spec.init], by simp [init]⟩

theorem expired_mono {v now d t : Time} (h : expired v (now + d) t = false) : expired v now t = false := by
  unfold expired at *; simp at *; omega

theorem expired_self (v now : Time) : expired v now now = false := by unfold expired; simp

theorem nodup_provs_of_nodup_key (l : List ((K × P) × Time)) (k : K) (hk : ∀ e ∈ l, e.1.1 = k)
    (h : (l.map (·.1)).Nodup) : (l.map (·.1.2)).Nodup := by
  induction l with
  | nil => simp
  | cons e l ih =>
    simp only [List.map_cons, List.nodup_cons] at h ⊢
    refine ⟨?_, ih (fun e' he' => hk e' (by simp [he'])) h.2⟩
    intro hm
    obtain ⟨e', he', heq⟩ := List.mem_map.1 hm
    apply h.1
    refine List.mem_map.2 ⟨e', he', ?_⟩
    have h1 := hk e (by simp)
    have h2 := hk e' (by simp [he'])
    exact Prod.ext (by rw [h1, h2]) heq

theorem sim_add (s : St) (a : Spec) (k : K) (p : P) (h : R s a) :
    R (add s k p).1 (specStep a (.add k p)).1 ∧ Out.sim (add s k p).2 (specStep a (.add k p)).2 := by
  unfold add specStep
  by_cases hst : s.stopped = true
  · have : a.stopped = true := by rw [← h.hs]; exact hst
    simp only [hst, this, ↓reduceIte]; exact ⟨h, trivial⟩
  · have hst' : s.stopped = false := by simpa using hst
    have : a.stopped = false := by rw [← h.hs]; exact hst'
    simp only [hst', this, Bool.false_eq_true, ↓reduceIte]
    cases hg : cacheGet s.cache k with
    | mk hit c1 =>
      simp only
      refine ⟨?_, trivial⟩
      have hdisk : ∀ x t, (x, t) ∈ diskPut s.disk k p s.now ↔
          ((x = (k, p) ∧ t = s.now) ∨ (x ≠ (k, p) ∧ (x, t) ∈ s.disk)) := fun x t => mem_diskPut _ _ _ _ _ _
      -- an old OK entry for another key stays OK; for key k it is replaced below
      have hold : ∀ e ∈ s.cache, e.1 ≠ k → EntryOK s.validity s.now (diskPut s.disk k p s.now) e := by
        intro e he hne
        have := h.c1 e he
        refine ⟨this.1, ?_⟩
        intro p' t'
        rw [this.2, hdisk]
        constructor
        · rintro ⟨hm, hv⟩; exact ⟨Or.inr ⟨by intro heq; exact hne (by simpa using congrArg Prod.fst heq), hm⟩, hv⟩
        · rintro ⟨(⟨heq, _⟩ | ⟨_, hm⟩), hv⟩
          · exact absurd (by simpa using congrArg Prod.fst heq) hne
          · exact ⟨hm, hv⟩
      refine ⟨h.hv, h.hn, (by first | rfl | exact h.hs), ?_, ?_, diskPut_keys_nodup _ _ _ _ h.u1, diskPut_keys_nodup _ _ _ _ h.u2, ?_⟩
      · intro x t hm
        rw [h.hn] at hm
        rw [mem_diskPut] at hm ⊢
        rcases hm with h1 | ⟨h1, h2⟩
        · exact Or.inl h1
        · exact Or.inr ⟨h1, h.d1 x t h2⟩
      · intro x t hm hv
        rw [← h.hn] at hm
        rw [mem_diskPut] at hm ⊢
        rcases hm with h1 | ⟨h1, h2⟩
        · exact Or.inl h1
        · exact Or.inr ⟨h1, h.d2 x t h2 hv⟩
      · intro e he
        cases hit with
        | none =>
          have hc := cacheGet_none hg
          subst hc
          simp only at he
          by_cases hk : e.1 = k
          · -- impossible: a miss means no cached entry has key k
            exfalso
            unfold cacheGet at hg
            cases hf : s.cache.find? (·.1 == k) with
            | none => have := List.find?_eq_none.1 hf e he; simp [hk] at this
            | some e' => simp [hf] at hg
          · exact hold e he hk
        | some set =>
          obtain ⟨hin, hsub⟩ := cacheGet_some hg
          simp only at he
          rcases mem_cacheSet he with rfl | ⟨he', hne⟩
          · have hok := h.c1 _ hin
            refine ⟨setVal_keys_nodup _ _ _ hok.1, ?_⟩
            intro p' t'
            simp only [mem_setVal, hdisk]
            have := hok.2 p' t'
            simp only at this
            constructor
            · rintro ⟨(⟨rfl, rfl⟩ | ⟨hne, hm⟩), hv⟩
              · exact ⟨Or.inl ⟨rfl, rfl⟩, hv⟩
              · exact ⟨Or.inr ⟨by intro heq; exact hne (by simpa using congrArg Prod.snd heq), (this.1 ⟨hm, hv⟩).1⟩, hv⟩
            · rintro ⟨(⟨heq, rfl⟩ | ⟨hne, hm⟩), hv⟩
              · exact ⟨Or.inl ⟨by simpa using congrArg Prod.snd heq, rfl⟩, hv⟩
              · refine ⟨Or.inr ⟨?_, (this.2 ⟨hm, hv⟩).1⟩, hv⟩
                intro heq; subst heq; exact hne rfl
          · exact hold e (hsub e he') hne

theorem sim_get (s : St) (a : Spec) (k : K) (h : R s a) :
    R (get s k).1 (specStep a (.get k)).1 ∧ Out.sim (get s k).2 (specStep a (.get k)).2 := by
  unfold get specStep
  by_cases hst : s.stopped = true
  · have : a.stopped = true := by rw [← h.hs]; exact hst
    simp only [hst, this, ↓reduceIte]; exact ⟨h, trivial⟩
  · have hst' : s.stopped = false := by simpa using hst
    have hsa : a.stopped = false := by rw [← h.hs]; exact hst'
    simp only [hst', hsa, Bool.false_eq_true, ↓reduceIte]
    -- the specification's answer
    have hspec_nodup : (((a.last.filter (·.1.1 == k)).filter fun e => !expired a.validity a.now e.2).map (·.1.2)).Nodup := by
      apply nodup_provs_of_nodup_key _ k
      · intro e he
        have := (List.mem_filter.1 (List.mem_filter.1 he).1).2
        simpa using this
      · exact (h.u2.sublist ((List.filter_sublist.trans List.filter_sublist).map _))
    have hspec_mem : ∀ p, p ∈ ((a.last.filter (·.1.1 == k)).filter fun e => !expired a.validity a.now e.2).map (·.1.2) ↔
        ∃ t, ((k, p), t) ∈ a.last ∧ expired a.validity a.now t = false := by
      intro p
      simp only [List.mem_map, List.mem_filter, beq_iff_eq, Bool.not_eq_true']
      constructor
      · rintro ⟨e, ⟨⟨he, hk⟩, hv⟩, rfl⟩
        exact ⟨e.2, by rw [← hk]; exact he, hv⟩
      · rintro ⟨t, hm, hv⟩
        exact ⟨((k, p), t), ⟨⟨hm, rfl⟩, hv⟩, rfl⟩
    cases hg : cacheGet s.cache k with
    | mk hit c1 =>
      cases hit with
      | some set =>
        simp only
        obtain ⟨hin, hsub⟩ := cacheGet_some hg
        have hok := h.c1 _ hin
        refine ⟨⟨h.hv, h.hn, (by first | exact hsa.symm | rfl | exact h.hs), h.d1, h.d2, h.u1, h.u2, ?_⟩, ?_, hspec_nodup, ?_⟩
        · intro e he
          rcases mem_cacheSet he with rfl | ⟨he', _⟩
          · refine ⟨(hok.1.sublist ((List.filter_sublist).map _)), ?_⟩
            intro p t
            have := hok.2 p t
            simp only [List.mem_filter, Bool.not_eq_true'] at this ⊢
            constructor
            · rintro ⟨⟨hm, hv⟩, _⟩; exact this.1 ⟨hm, hv⟩
            · rintro ⟨hm, hv⟩; exact ⟨⟨(this.2 ⟨hm, hv⟩).1, hv⟩, hv⟩
          · exact h.c1 e (hsub e he')
        · exact hok.1.sublist ((List.filter_sublist).map _)
        · intro p
          rw [hspec_mem]
          simp only [List.mem_map, List.mem_filter, Bool.not_eq_true']
          constructor
          · rintro ⟨e, ⟨he, hv⟩, rfl⟩
            have := (hok.2 e.1 e.2).1 ⟨he, hv⟩
            exact ⟨e.2, h.d1 _ _ this.1, by rw [← h.hv, ← h.hn]; exact hv⟩
          · rintro ⟨t, hm, hv⟩
            rw [← h.hv, ← h.hn] at hv
            have := (hok.2 p t).2 ⟨h.d2 _ _ hm hv, hv⟩
            exact ⟨(p, t), ⟨this.1, hv⟩, rfl⟩
      | none =>
        simp only
        have hc := cacheGet_none hg
        subst hc
        have hmiss : ∀ e ∈ s.cache, e.1 ≠ k := by
          intro e he hk
          unfold cacheGet at hg
          cases hf : s.cache.find? (·.1 == k) with
          | none => have := List.find?_eq_none.1 hf e he; simp [hk] at this
          | some e' => simp [hf] at hg
        -- the loaded set
        have hset_mem : ∀ p t, (p, t) ∈ ((s.disk.filter (·.1.1 == k)).filter fun e => !expired s.validity s.now e.2).map
            (fun e => (e.1.2, e.2)) ↔ (((k, p), t) ∈ s.disk ∧ expired s.validity s.now t = false) := by
          intro p t
          simp only [List.mem_map, List.mem_filter, beq_iff_eq, Bool.not_eq_true', Prod.mk.injEq]
          constructor
          · rintro ⟨e, ⟨⟨he, hk⟩, hv⟩, rfl, rfl⟩
            exact ⟨by rw [← hk]; exact he, hv⟩
          · rintro ⟨hm, hv⟩
            exact ⟨((k, p), t), ⟨⟨hm, rfl⟩, hv⟩, rfl, rfl⟩
        have hdisk' : ∀ x t, (x, t) ∈ s.disk.filter (fun e => !(e.1.1 == k && expired s.validity s.now e.2)) ↔
            ((x, t) ∈ s.disk ∧ ¬(x.1 = k ∧ expired s.validity s.now t = true)) := by
          intro x t
          simp only [List.mem_filter, Bool.not_eq_true', Bool.and_eq_false_iff, beq_eq_false_iff_ne, ne_eq, not_and,
            Bool.not_eq_true]
          constructor
          · rintro ⟨hm, (h1 | h1)⟩
            · exact ⟨hm, fun h2 => absurd h2 h1⟩
            · exact ⟨hm, fun _ => h1⟩
          · rintro ⟨hm, h1⟩
            by_cases hx : x.1 = k
            · exact ⟨hm, Or.inr (h1 hx)⟩
            · exact ⟨hm, Or.inl hx⟩
        have hset_nodup : ((((s.disk.filter (·.1.1 == k)).filter fun e => !expired s.validity s.now e.2).map
            (fun e => (e.1.2, e.2))).map (·.1)).Nodup := by
          rw [List.map_map]
          apply nodup_provs_of_nodup_key _ k
          · intro e he
            have := (List.mem_filter.1 (List.mem_filter.1 he).1).2
            simpa using this
          · exact (h.u1.sublist ((List.filter_sublist.trans List.filter_sublist).map _))
        refine ⟨⟨h.hv, h.hn, (by first | exact hsa.symm | rfl | exact h.hs), ?_, ?_, ?_, h.u2, ?_⟩, ?_, hspec_nodup, ?_⟩
        · intro x t hm; exact h.d1 x t ((hdisk' x t).1 hm).1
        · intro x t hm hv
          refine (hdisk' x t).2 ⟨h.d2 x t hm hv, ?_⟩
          rintro ⟨_, he⟩; rw [hv] at he; cases he
        · exact h.u1.sublist ((List.filter_sublist).map _)
        · -- cache entries
          have hold : ∀ e ∈ s.cache, EntryOK s.validity s.now
              (s.disk.filter (fun e => !(e.1.1 == k && expired s.validity s.now e.2))) e := by
            intro e he
            have hok := h.c1 e he
            refine ⟨hok.1, ?_⟩
            intro p t
            rw [hok.2, hdisk']
            constructor
            · rintro ⟨hm, hv⟩; exact ⟨⟨hm, by rintro ⟨_, he⟩; rw [hv] at he; cases he⟩, hv⟩
            · rintro ⟨⟨hm, _⟩, hv⟩; exact ⟨hm, hv⟩
          intro e he
          simp only at he
          split at he
          · exact hold e he
          · rcases mem_cacheAdd he with rfl | ⟨he', _⟩
            · refine ⟨hset_nodup, ?_⟩
              intro p t
              simp only
              rw [hset_mem, hdisk']
              constructor
              · rintro ⟨⟨hm, hv⟩, _⟩; exact ⟨⟨hm, by rintro ⟨_, he⟩; rw [hv] at he; cases he⟩, hv⟩
              · rintro ⟨⟨hm, _⟩, hv⟩; exact ⟨⟨hm, hv⟩, hv⟩
            · exact hold e he'
        · have := hset_nodup; rw [List.map_map] at this
          simpa [List.map_map, Function.comp_def] using this
        · intro p
          rw [hspec_mem]
          simp only [List.map_map, List.mem_map, Function.comp]
          constructor
          · rintro ⟨e, he, rfl⟩
            have hm : (e.1.2, e.2) ∈ ((s.disk.filter (·.1.1 == k)).filter fun e => !expired s.validity s.now e.2).map
                (fun e => (e.1.2, e.2)) := List.mem_map.2 ⟨e, he, rfl⟩
            have := (hset_mem _ _).1 hm
            exact ⟨e.2, h.d1 _ _ this.1, by rw [← h.hv, ← h.hn]; exact this.2⟩
          · rintro ⟨t, hm, hv⟩
            rw [← h.hv, ← h.hn] at hv
            have := (hset_mem p t).2 ⟨h.d2 _ _ hm hv, hv⟩
            obtain ⟨e, he, heq⟩ := List.mem_map.1 this
            exact ⟨e, he, by simpa using congrArg Prod.fst heq⟩

theorem sim_adv (s : St) (a : Spec) (d : Time) (h : R s a) : R (advance s d) (specStep a (.adv d)).1 := by
  unfold advance specStep
  refine ⟨h.hv, by simp [h.hn], h.hs, h.d1, ?_, h.u1, h.u2, ?_⟩
  · intro x t hm hv; exact h.d2 x t hm (expired_mono hv)
  · intro e he
    have hok := h.c1 e he
    refine ⟨hok.1, ?_⟩
    intro p t
    simp only
    constructor
    · rintro ⟨hm, hv⟩; exact ⟨((hok.2 p t).1 ⟨hm, expired_mono hv⟩).1, hv⟩
    · rintro ⟨hm, hv⟩; exact ⟨((hok.2 p t).2 ⟨hm, expired_mono hv⟩).1, hv⟩

theorem sim_gc (s : St) (a : Spec) (h : R s a) : R (gc s) (specStep a .gc).1 := by
  unfold gc specStep
  have hd : ∀ x t, (x, t) ∈ s.disk.filter (fun e => !expired s.validity s.now e.2) ↔
      ((x, t) ∈ s.disk ∧ expired s.validity s.now t = false) := by
    intro x t; simp [List.mem_filter]
  refine ⟨h.hv, h.hn, h.hs, ?_, ?_, h.u1.sublist ((List.filter_sublist).map _), h.u2, ?_⟩
  · intro x t hm; exact h.d1 x t ((hd x t).1 hm).1
  · intro x t hm hv; exact (hd x t).2 ⟨h.d2 x t hm hv, hv⟩
  · intro e he
    have hok := h.c1 e he
    refine ⟨hok.1, ?_⟩
    intro p t
    simp only
    rw [hok.2, hd]
    constructor
    · rintro ⟨hm, hv⟩; exact ⟨⟨hm, hv⟩, hv⟩
    · rintro ⟨⟨hm, _⟩, hv⟩; exact ⟨hm, hv⟩

theorem sim_restart (s : St) (a : Spec) (h : R s a) : R (restart s) (specStep a .restart).1 :=
  ⟨h.hv, h.hn, rfl, h.d1, h.d2, h.u1, h.u2, by simp [restart]⟩

theorem sim_close (s : St) (a : Spec) (h : R s a) : R (close s) (specStep a .close).1 :=
  ⟨h.hv, h.hn, rfl, h.d1, h.d2, h.u1, h.u2, h.c1⟩

theorem sim_step (s : St) (a : Spec) (op : Op) (h : R s a) :
    R (step s op).1 (specStep a op).1 ∧ Out.sim (step s op).2 (specStep a op).2 := by
  cases op with
  | add k p => exact sim_add s a k p h
  | get k => exact sim_get s a k h
  | adv d => exact ⟨sim_adv s a d h, trivial⟩
  | gc => exact ⟨sim_gc s a h, trivial⟩
  | restart => exact ⟨sim_restart s a h, trivial⟩
  | close => exact ⟨sim_close s a h, trivial⟩

end KadDHT.ProviderStore

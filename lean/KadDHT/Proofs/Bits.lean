/- Lemmas about keys, prefixes and the XOR order. -/
import KadDHT.Basic.Bits
namespace KadDHT

@[simp] theorem isPre_nil (k : Key) : isPre [] k = true := by cases k <;> rfl
@[simp] theorem isPre_cons_nil (a : Bool) (p : Key) : isPre (a :: p) [] = false := rfl
@[simp] theorem isPre_cons_cons (a b : Bool) (p k : Key) :
    isPre (a :: p) (b :: k) = (a == b && isPre p k) := rfl

theorem isPre_iff_prefix (p k : Key) : isPre p k = true ↔ p <+: k := by
  induction p generalizing k with
  | nil => simp
  | cons a p ih =>
    cases k with
    | nil => simp
    | cons b k => simp [ih, List.cons_prefix_cons]

theorem isPre_refl (k : Key) : isPre k k = true := (isPre_iff_prefix k k).2 (List.prefix_refl k)

theorem isPre_trans {a b c : Key} (h1 : isPre a b = true) (h2 : isPre b c = true) : isPre a c = true :=
  (isPre_iff_prefix a c).2 (List.IsPrefix.trans ((isPre_iff_prefix a b).1 h1) ((isPre_iff_prefix b c).1 h2))

theorem isPre_length {p k : Key} (h : isPre p k = true) : p.length ≤ k.length :=
  ((isPre_iff_prefix p k).1 h).length_le

theorem isPre_antisymm {a b : Key} (h1 : isPre a b = true) (h2 : isPre b a = true) : a = b := by
  have := (isPre_iff_prefix a b).1 h1
  exact this.eq_of_length (Nat.le_antisymm (isPre_length h1) (isPre_length h2))

/-- two prefixes of the same key are comparable -/
theorem isPre_total {a b k : Key} (h1 : isPre a k = true) (h2 : isPre b k = true) :
    isPre a b = true ∨ isPre b a = true := by
  simp only [isPre_iff_prefix] at *
  rcases Nat.le_total a.length b.length with h | h
  · exact Or.inl (List.prefix_of_prefix_length_le h1 h2 h)
  · exact Or.inr (List.prefix_of_prefix_length_le h2 h1 h)

theorem isPre_append (p s : Key) : isPre p (p ++ s) = true :=
  (isPre_iff_prefix _ _).2 (List.prefix_append p s)

/-- a key extending `path ++ [b]` has bit `b` at position `path.length` -/
theorem bitAt_of_isPre_snoc {path k : Key} {b : Bool} (h : isPre (path ++ [b]) k = true) :
    bitAt k path.length = b ∧ path.length < k.length := by
  rw [isPre_iff_prefix] at h
  obtain ⟨s, rfl⟩ := h
  simp [bitAt]

theorem isPre_snoc_of {path k : Key} (h : isPre path k = true) (hl : path.length < k.length) :
    isPre (path ++ [bitAt k path.length]) k = true := by
  rw [isPre_iff_prefix] at *
  obtain ⟨s, rfl⟩ := h
  cases s with
  | nil => simp at hl
  | cons c s => simp [bitAt]

theorem isPre_of_snoc {path k : Key} {b : Bool} (h : isPre (path ++ [b]) k = true) : isPre path k = true :=
  isPre_trans (isPre_append path [b]) h

/-- keys under different children of one node are not prefix-related -/
theorem not_isPre_of_diverge {path a b : Key} {x : Bool}
    (ha : isPre (path ++ [x]) a = true) (hb : isPre (path ++ [!x]) b = true) : isPre a b = false := by
  cases hab : isPre a b with
  | false => rfl
  | true =>
    have h1 := bitAt_of_isPre_snoc ha
    have h2 := bitAt_of_isPre_snoc hb
    have : isPre (path ++ [x]) b = true := isPre_trans ha hab
    have h3 := bitAt_of_isPre_snoc this
    rw [h3.1] at h2
    cases x <;> simp at h2

theorem cpl_eq_length_iff (p k : Key) : (cpl p k == p.length) = isPre p k := by
  induction p generalizing k with
  | nil => cases k <;> simp [cpl]
  | cons a p ih =>
    cases k with
    | nil => simp [cpl]
    | cons b k =>
      by_cases hab : a = b
      · subst hab; simp [cpl, ← ih k]
      · have : (a == b) = false := by simpa using hab
        simp [cpl, this]

theorem cpl_le_left (p k : Key) : cpl p k ≤ p.length := by
  induction p generalizing k with
  | nil => cases k <;> simp [cpl]
  | cons a p ih =>
    cases k with
    | nil => simp [cpl]
    | cons b k => simp only [cpl]; split <;> simp; exact ih k

theorem cpl_comm (p k : Key) : cpl p k = cpl k p := by
  induction p generalizing k with
  | nil => cases k <;> simp [cpl]
  | cons a p ih =>
    cases k with
    | nil => simp [cpl]
    | cons b k =>
      simp only [cpl]
      by_cases hab : a = b
      · subst hab; simp [ih k]
      · have h1 : (a == b) = false := by simpa using hab
        have h2 : (b == a) = false := by simpa using (Ne.symm hab)
        simp [h1, h2]

end KadDHT

/- The lock invariant of the value store interleaving model (used by Props/C05). Core Lean only. -/
import KadDHT.Model.ValueStore
namespace KadDHT.VS

/-- is the caller inside a locked section (between its locked read and its write / delete)? -/
def holds (t : Thread) : Bool := t.pc == .discardDel || t.pc == .putWrite

theorem afterLocalGet_op (t : Thread) (o : Option Stored) : (afterLocalGet t o).op = t.op := by
  unfold afterLocalGet
  cases t.op <;> simp only
  · cases o with
    | none => rfl
    | some v => simp only; split <;> rfl

theorem afterLocalGet_pc (t : Thread) (o : Option Stored) :
    (afterLocalGet t o).pc = .putRead ∨ ∃ r, (afterLocalGet t o).pc = .done r := by
  unfold afterLocalGet
  cases t.op <;> simp only
  · exact Or.inr ⟨_, rfl⟩
  · exact Or.inr ⟨_, rfl⟩
  · cases o with
    | none => exact Or.inl rfl
    | some v =>
      simp only
      split
      · exact Or.inr ⟨_, rfl⟩
      · exact Or.inl rfl

theorem afterLocalGet_not_holds (t : Thread) (o : Option Stored) : holds (afterLocalGet t o) = false := by
  rcases afterLocalGet_pc t o with h | ⟨r, h⟩ <;> simp [holds, h]

theorem begin_op (t : Thread) : (begin t).op = t.op := by
  unfold begin
  cases t.op <;> simp only
  · split
    · rfl
    · split <;> rfl
  · split <;> rfl

theorem begin_pc (t : Thread) : (begin t).pc = .getRead ∨ (begin t).pc = .putRead ∨ ∃ r, (begin t).pc = .done r := by
  unfold begin
  split
  · split
    · exact Or.inr (Or.inr ⟨_, rfl⟩)
    · split
      · exact Or.inr (Or.inr ⟨_, rfl⟩)
      · exact Or.inr (Or.inl rfl)
  · exact Or.inl rfl
  · split
    · exact Or.inr (Or.inr ⟨_, rfl⟩)
    · exact Or.inl rfl

/-- everything one needs to know about an access -/
structure PerformSpec (key : Nat) (cur : Option Stored) (t : Thread) (e : Eff) : Prop where
  op : e.t.op = t.op
  holdsAfter : holds e.t = (!e.release && (t.pc == .discardRead || t.pc == .putRead))
  effNeedsLock : e.eff ≠ .keep → holds t = true
  releaseOfHolder : holds t = true → e.release = true
  seenWrite : e.t.pc = .putWrite → e.t.seen = cur
  seenDel : e.t.pc = .discardDel → cur = e.t.seen ∧ e.t.seen.isSome = true
  /-- what is written is the caller's own record, after the better-or-equal test against what it read -/
  writeSpec : ∀ v, e.eff = .write v → t.pc = .putWrite ∧ ∃ rec, recOf t.op = some rec ∧ v.ekey = rec.ekey ∧ v.rank = rec.rank ∧ v.valid = rec.valid
  delSpec : e.eff = .del → t.pc = .discardDel

theorem perform_spec (clock key : Nat) (cur : Option Stored) (t : Thread) (e : Eff) (h : perform clock key cur t = some e) :
    PerformSpec key cur t e := by
  unfold perform at h
  cases hpc : t.pc with
  | start => simp [hpc] at h
  | done r => simp [hpc] at h
  | getRead =>
    simp only [hpc] at h
    cases cur with
    | none =>
      simp only [Option.some.injEq] at h; subst h
      refine ⟨afterLocalGet_op _ _, by simp [afterLocalGet_not_holds, hpc], by simp, by simp [holds, hpc], ?_, ?_, by simp, by simp⟩
      · intro hp; rcases afterLocalGet_pc t none with h1 | ⟨r, h1⟩ <;> rw [h1] at hp <;> cases hp
      · intro hp; rcases afterLocalGet_pc t none with h1 | ⟨r, h1⟩ <;> rw [h1] at hp <;> cases hp
    | some s =>
      simp only at h
      split at h
      · simp only [Option.some.injEq] at h; subst h
        exact ⟨rfl, by simp only [holds, hpc]; decide, by simp, by simp [holds, hpc], by simp, by simp, by simp, by simp⟩
      · simp only [Option.some.injEq] at h; subst h
        refine ⟨afterLocalGet_op _ _, by simp [afterLocalGet_not_holds, hpc], by simp, by simp [holds, hpc], ?_, ?_, by simp, by simp⟩
        · intro hp; rcases afterLocalGet_pc t (some s) with h1 | ⟨r, h1⟩ <;> rw [h1] at hp <;> cases hp
        · intro hp; rcases afterLocalGet_pc t (some s) with h1 | ⟨r, h1⟩ <;> rw [h1] at hp <;> cases hp
  | discardRead =>
    simp only [hpc] at h
    split at h
    · rename_i hc
      simp only [Option.some.injEq] at h; subst h
      simp only [Bool.and_eq_true, beq_iff_eq] at hc
      refine ⟨rfl, by simp [holds, hpc], by simp, by simp [holds, hpc], by simp, ?_, by simp, by simp⟩
      intro _; exact ⟨hc.1, by rw [← hc.1]; exact hc.2⟩
    · simp only [Option.some.injEq] at h; subst h
      refine ⟨afterLocalGet_op _ _, by simp [afterLocalGet_not_holds, hpc], by simp, by simp [holds, hpc], ?_, ?_, by simp, by simp⟩
      · intro hp; rcases afterLocalGet_pc t none with h1 | ⟨r, h1⟩ <;> rw [h1] at hp <;> cases hp
      · intro hp; rcases afterLocalGet_pc t none with h1 | ⟨r, h1⟩ <;> rw [h1] at hp <;> cases hp
  | discardDel =>
    simp only [hpc, Option.some.injEq] at h; subst h
    refine ⟨afterLocalGet_op _ _, by simp [afterLocalGet_not_holds], by simp [holds, hpc], by simp, ?_, ?_, by simp, by simp [hpc]⟩
    · intro hp; rcases afterLocalGet_pc t none with h1 | ⟨r, h1⟩ <;> rw [h1] at hp <;> cases hp
    · intro hp; rcases afterLocalGet_pc t none with h1 | ⟨r, h1⟩ <;> rw [h1] at hp <;> cases hp
  | putRead =>
    simp only [hpc] at h
    cases hr : recOf t.op with
    | none => simp [hr] at h
    | some rec =>
      simp only [hr] at h
      cases hu : usable cur with
      | none =>
        simp only [hu, Option.some.injEq] at h; subst h
        exact ⟨rfl, by simp [holds, hpc], by simp, by simp [holds, hpc], by simp, by simp, by simp, by simp⟩
      | some ex =>
        simp only [hu] at h
        split at h
        · simp only [Option.some.injEq] at h; subst h
          exact ⟨rfl, by simp [holds, hpc], by simp, by simp [holds, hpc], by simp, by simp, by simp, by simp⟩
        · simp only [Option.some.injEq] at h; subst h
          exact ⟨rfl, by simp [holds, hpc], by simp, by simp [holds, hpc], by simp, by simp, by simp, by simp⟩
  | putWrite =>
    simp only [hpc] at h
    cases hr : recOf t.op with
    | none => simp [hr] at h
    | some rec =>
      simp only [hr, Option.some.injEq] at h; subst h
      refine ⟨rfl, by simp [holds], by simp [holds, hpc], by simp, by simp, by simp, ?_, by simp⟩
      intro v hv
      simp only [StoreEff.write.injEq] at hv
      subst hv
      exact ⟨hpc, rec, hr, rfl, rfl, rfl⟩

/-- the better-or-equal test of `Put`: a caller reaches its write only with a record that is not worse than the
    usable record it read -/
theorem putRead_test (clock key : Nat) (cur : Option Stored) (t : Thread) (e : Eff) (h : perform clock key cur t = some e)
    (hpc : t.pc = .putRead) (hw : e.t.pc = .putWrite) :
    ∀ rec ex, recOf t.op = some rec → usable cur = some ex → ex.rank ≤ rec.rank := by
  intro rec ex hr hu
  unfold perform at h
  simp only [hpc, hr, hu] at h
  split at h
  · simp only [Option.some.injEq] at h; subst h; cases hw
  · rename_i hlt; exact Nat.le_of_not_lt hlt

structure Inv (w : World) : Prop where
  h1 : ∀ tid t, w.threads tid = some t → holds t = true → w.locks (stripe (keyOf t.op)) = some tid
  h2 : ∀ s tid, w.locks s = some tid → ∃ t, w.threads tid = some t ∧ holds t = true ∧ stripe (keyOf t.op) = s
  sw : ∀ tid t, w.threads tid = some t → t.pc = .putWrite → t.seen = w.store (keyOf t.op)
  sd : ∀ tid t, w.threads tid = some t → t.pc = .discardDel → w.store (keyOf t.op) = t.seen ∧ t.seen.isSome = true

theorem nextAccess_key {t : Thread} {k : Kind} {key : Nat} {l : Bool} (h : nextAccess t = some (k, key, l)) :
    key = keyOf t.op ∧ l = (t.pc == .discardRead || t.pc == .discardDel || t.pc == .putRead || t.pc == .putWrite) := by
  unfold nextAccess at h
  cases hpc : t.pc <;> simp [hpc] at h <;> (obtain ⟨_, rfl, rfl⟩ := h; simp)

end KadDHT.VS

namespace KadDHT.VS

theorem holds_iff (t : Thread) : holds t = true ↔ t.pc = .discardDel ∨ t.pc = .putWrite := by
  simp [holds]

/-- the effect of an access on the world, described field by field -/
theorem applyEff_threads (w : World) (tid key : Nat) (e : Eff) (i : Nat) :
    (applyEff w tid key e).threads i = if i = tid then some e.t else w.threads i := by
  unfold applyEff
  cases e.eff <;> cases e.release <;> simp [setThread, unlock, write, delete]

theorem applyEff_locks (w : World) (tid key : Nat) (e : Eff) (s : Nat) :
    (applyEff w tid key e).locks s = if e.release && w.locks s == some tid then none else w.locks s := by
  unfold applyEff
  cases e.eff <;> cases hr : e.release <;> simp [setThread, unlock, write, delete] <;> (try rfl) <;> (try (split <;> rfl))

theorem applyEff_store (w : World) (tid key : Nat) (e : Eff) (k : Nat) (hk : k ≠ key) :
    (applyEff w tid key e).store k = w.store k := by
  unfold applyEff
  cases e.eff <;> cases e.release <;> simp [setThread, unlock, write, delete, hk]

theorem applyEff_store_key (w : World) (tid key : Nat) (e : Eff) :
    (applyEff w tid key e).store key = (match e.eff with | .keep => w.store key | .write v => some v | .del => none) := by
  unfold applyEff
  cases e.eff <;> cases e.release <;> simp [setThread, unlock, write, delete]

theorem applyEff_store_keep (w : World) (tid key : Nat) (e : Eff) (he : e.eff = .keep) (k : Nat) :
    (applyEff w tid key e).store k = w.store k := by
  unfold applyEff
  rw [he]
  cases e.release <;> simp [setThread, unlock]

theorem wstep_inv (w w' : World) (tid : Nat) (h : Inv w) (hs : wstep w tid = some w') : Inv w' := by
  unfold wstep at hs
  cases ht0 : w.threads tid with
  | none => simp [ht0] at hs
  | some t0 =>
    simp only [ht0] at hs
    -- no lock maps to a caller that is not inside a locked section
    have nolock : ∀ t, w.threads tid = some t → holds t = false → ∀ s, w.locks s ≠ some tid := by
      intro t ht hh s hl
      obtain ⟨t', ht', hh', _⟩ := h.h2 s tid hl
      rw [ht] at ht'; cases ht'; rw [hh] at hh'; cases hh'
    generalize htt : (if t0.pc == PC.start then begin t0 else t0) = t at hs
    have hop : t.op = t0.op := by
      rw [← htt]; split
      · exact begin_op t0
      · rfl
    cases hna : nextAccess t with
    | none =>
      simp only [hna] at hs
      split at hs
      · rename_i hstart
        have hstart' : t0.pc = .start := by simpa using hstart
        cases hs
        have ht : t = begin t0 := by rw [← htt]; simp [hstart']
        have hnh : holds t = false := by
          rw [ht]; rcases begin_pc t0 with h1 | h1 | ⟨r, h1⟩ <;> simp [holds, h1]
        have hnh0 : holds t0 = false := by simp [holds, hstart']
        refine ⟨?_, ?_, ?_, ?_⟩
        · intro i ti hti hhi
          by_cases hi : i = tid
          · subst hi; simp only [setThread, ↓reduceIte, Option.some.injEq] at hti; subst hti; rw [hnh] at hhi; cases hhi
          · simp only [setThread, hi, ↓reduceIte] at hti; exact h.h1 i ti hti hhi
        · intro s i hl
          have hl' : w.locks s = some i := hl
          obtain ⟨ti, hti, hhi, hsi⟩ := h.h2 s i hl'
          have hi : i ≠ tid := by
            intro e; subst e; exact nolock t0 ht0 hnh0 s hl'
          exact ⟨ti, by simp [setThread, hi, hti], hhi, hsi⟩
        · intro i ti hti hpc
          by_cases hi : i = tid
          · subst hi; simp only [setThread, ↓reduceIte, Option.some.injEq] at hti; subst hti
            have := (holds_iff _).2 (Or.inr hpc); rw [hnh] at this; cases this
          · simp only [setThread, hi, ↓reduceIte] at hti; exact h.sw i ti hti hpc
        · intro i ti hti hpc
          by_cases hi : i = tid
          · subst hi; simp only [setThread, ↓reduceIte, Option.some.injEq] at hti; subst hti
            have := (holds_iff _).2 (Or.inl hpc); rw [hnh] at this; cases this
          · simp only [setThread, hi, ↓reduceIte] at hti; exact h.sd i ti hti hpc
      · cases hs
    | some acc =>
      obtain ⟨kind, key, locked⟩ := acc
      simp only [hna] at hs
      obtain ⟨hkey, hlocked⟩ := nextAccess_key hna
      -- `t` differs from `t0` only when `t0` stood at the start: in both cases neither is inside a locked section
      -- unless they are equal
      have hsame : holds t = true → t = t0 := by
        intro hh
        rw [← htt]
        split
        · rename_i hstart
          exfalso
          have : t = begin t0 := by rw [← htt]; simp [hstart]
          rw [this] at hh
          rcases begin_pc t0 with h1 | h1 | ⟨r, h1⟩ <;> simp [holds, h1] at hh
        · rfl
      have hnot0 : holds t = false → holds t0 = false := by
        intro hh
        by_cases hstart : t0.pc = .start
        · simp [holds, hstart]
        · have : t = t0 := by rw [← htt]; simp [hstart]
          rw [← this]; exact hh
      split at hs
      · cases hs
      · rename_i hen
        simp only [Option.map_eq_some_iff] at hs
        obtain ⟨e, hp, hs⟩ := hs
        · have hstore1 : ∀ k, (if (locked && (w.locks (stripe key)).isNone) = true then lock w (stripe key) tid else w).store k = w.store k := by
            intro k; split <;> rfl
          have hthreads1 : ∀ i, (if (locked && (w.locks (stripe key)).isNone) = true then lock w (stripe key) tid else w).threads i = w.threads i := by
            intro i; split <;> rfl
          have spec := perform_spec _ key _ t e hp
          have hcur : lookup (if (locked && (w.locks (stripe key)).isNone) = true then lock w (stripe key) tid else w) key = w.store key := hstore1 key
          rw [hcur] at spec
          by_cases hh : holds t = true
          · -- inside a locked section: the caller holds its stripe, writes or deletes, and releases
            have ht : t = t0 := hsame hh
            subst ht
            have hlk : w.locks (stripe key) = some tid := by rw [hkey]; exact h.h1 tid t ht0 hh
            have hrel : e.release = true := spec.releaseOfHolder hh
            have hnone : (locked && (w.locks (stripe key)).isNone) = false := by simp [hlk]
            simp only [hnone, Bool.false_eq_true, ↓reduceIte] at hs
            subst hs
            have hnh : holds e.t = false := by rw [spec.holdsAfter, hrel]; rfl
            refine ⟨?_, ?_, ?_, ?_⟩
            · intro i ti hti hhi
              rw [applyEff_threads] at hti
              by_cases hi : i = tid
              · subst hi; simp only [↓reduceIte, Option.some.injEq] at hti; subst hti; rw [hnh] at hhi; cases hhi
              · simp only [hi, ↓reduceIte] at hti
                rw [applyEff_locks]
                have := h.h1 i ti hti hhi
                rw [this]
                have : (some i == some tid) = false := by simpa using hi
                simp [this]
            · intro s i hl
              rw [applyEff_locks] at hl
              split at hl
              · cases hl
              · rename_i hc
                obtain ⟨ti, hti, hhi, hsi⟩ := h.h2 s i hl
                have hi : i ≠ tid := by
                  intro e'; subst e'; simp [hrel, hl] at hc
                exact ⟨ti, by rw [applyEff_threads]; simp [hi, hti], hhi, hsi⟩
            · intro i ti hti hpc
              rw [applyEff_threads] at hti
              by_cases hi : i = tid
              · subst hi; simp only [↓reduceIte, Option.some.injEq] at hti; subst hti
                have := (holds_iff _).2 (Or.inr hpc); rw [hnh] at this; cases this
              · simp only [hi, ↓reduceIte] at hti
                have hki : keyOf ti.op ≠ key := by
                  intro ek
                  have := h.h1 i ti hti ((holds_iff _).2 (Or.inr hpc))
                  rw [ek, hlk] at this; cases this; exact hi rfl
                rw [applyEff_store _ _ _ _ _ hki]
                exact h.sw i ti hti hpc
            · intro i ti hti hpc
              rw [applyEff_threads] at hti
              by_cases hi : i = tid
              · subst hi; simp only [↓reduceIte, Option.some.injEq] at hti; subst hti
                have := (holds_iff _).2 (Or.inl hpc); rw [hnh] at this; cases this
              · simp only [hi, ↓reduceIte] at hti
                have hki : keyOf ti.op ≠ key := by
                  intro ek
                  have := h.h1 i ti hti ((holds_iff _).2 (Or.inl hpc))
                  rw [ek, hlk] at this; cases this; exact hi rfl
                rw [applyEff_store _ _ _ _ _ hki]
                exact h.sd i ti hti hpc
          · -- outside a locked section: the datastore is only read
            have hh' : holds t = false := by simpa using hh
            have hkeep : e.eff = .keep := by
              apply Classical.byContradiction
              intro hne; have := spec.effNeedsLock hne; rw [hh'] at this; cases this
            have hfree : ∀ s, w.locks s ≠ some tid := nolock t0 ht0 (hnot0 hh')
            subst hs
            -- the world after the (possible) lock acquisition
            by_cases hl : (locked && (w.locks (stripe key)).isNone) = true
            · simp only [hl, ↓reduceIte]
              simp only [hl, ↓reduceIte] at hp spec
              have hlocked' : locked = true := by simp only [Bool.and_eq_true] at hl; exact hl.1
              have hnonel : w.locks (stripe key) = none := by
                simp only [Bool.and_eq_true, Option.isNone_iff_eq_none] at hl; exact hl.2
              refine ⟨?_, ?_, ?_, ?_⟩
              · intro i ti hti hhi
                rw [applyEff_threads] at hti
                rw [applyEff_locks]
                by_cases hi : i = tid
                · subst hi
                  simp only [↓reduceIte, Option.some.injEq] at hti; subst hti
                  have hrel : e.release = false := by
                    rw [spec.holdsAfter] at hhi
                    cases hr : e.release
                    · rfl
                    · rw [hr] at hhi; simp at hhi
                  rw [spec.op, ← hkey]
                  simp [hrel, lock]
                · simp only [hi, ↓reduceIte] at hti
                  have hti' : w.threads i = some ti := hti
                  have hli := h.h1 i ti hti' hhi
                  have hsne : stripe (keyOf ti.op) ≠ stripe key := by
                    intro es; rw [es, hnonel] at hli; cases hli
                  have : (lock w (stripe key) tid).locks (stripe (keyOf ti.op)) = some i := by simp [lock, hsne, hli]
                  rw [this]
                  have : (some i == some tid) = false := by simpa using hi
                  simp [this]
              · intro s i hls
                rw [applyEff_locks] at hls
                split at hls
                · cases hls
                · rename_i hc
                  by_cases hss : s = stripe key
                  · subst hss
                    have hi : i = tid := by simpa [lock] using hls.symm
                    subst hi
                    have hrel : e.release = false := by
                      cases hr : e.release
                      · rfl
                      · simp [hr, lock] at hc
                    refine ⟨e.t, by rw [applyEff_threads]; simp, ?_, by rw [spec.op, ← hkey]⟩
                    rw [spec.holdsAfter, hrel]
                    have : (t.pc == PC.discardRead || t.pc == PC.putRead) = true := by
                      rw [hlocked'] at hlocked
                      have hpcs : t.pc ≠ .discardDel ∧ t.pc ≠ .putWrite := by
                        constructor <;> intro hpc <;> simp [holds, hpc] at hh'
                      have := hlocked.symm
                      simp only [Bool.or_eq_true, beq_iff_eq] at this ⊢
                      rcases this with ((h1 | h1) | h1) | h1
                      · exact Or.inl h1
                      · exact absurd h1 hpcs.1
                      · exact Or.inr h1
                      · exact absurd h1 hpcs.2
                    simp [this]
                  · have hls' : w.locks s = some i := by simpa [lock, hss] using hls
                    obtain ⟨ti, hti, hhi, hsi⟩ := h.h2 s i hls'
                    have hi : i ≠ tid := by intro e'; subst e'; exact hfree s hls'
                    exact ⟨ti, by rw [applyEff_threads]; simp [hi]; exact hti, hhi, hsi⟩
              · intro i ti hti hpc
                rw [applyEff_threads] at hti
                rw [applyEff_store_keep _ _ _ _ hkeep]
                by_cases hi : i = tid
                · subst hi; simp only [↓reduceIte, Option.some.injEq] at hti; subst hti
                  rw [spec.op, ← hkey]; exact spec.seenWrite hpc
                · simp only [hi, ↓reduceIte] at hti; exact h.sw i ti hti hpc
              · intro i ti hti hpc
                rw [applyEff_threads] at hti
                rw [applyEff_store_keep _ _ _ _ hkeep]
                by_cases hi : i = tid
                · subst hi; simp only [↓reduceIte, Option.some.injEq] at hti; subst hti
                  rw [spec.op, ← hkey]; exact spec.seenDel hpc
                · simp only [hi, ↓reduceIte] at hti; exact h.sd i ti hti hpc
            · -- no lock is taken: an unlocked read
              have hl' : (locked && (w.locks (stripe key)).isNone) = false := Bool.eq_false_iff.mpr hl
              simp only [hl', Bool.false_eq_true, ↓reduceIte]
              simp only [hl', Bool.false_eq_true, ↓reduceIte] at hp spec
              -- a locked access by a caller not yet inside its section finds the stripe free (else it is not enabled)
              have hunlocked : locked = false := by
                cases hlk : locked
                · rfl
                · exfalso
                  rw [hlk] at hl' hen
                  simp only [Bool.true_and] at hl' hen
                  cases hw : w.locks (stripe key) with
                  | none => simp [hw] at hl'
                  | some x =>
                    by_cases hx : x = tid
                    · subst hx; exact hfree _ hw
                    · apply hen; simp [hw, hx]
              have hafter : holds e.t = false := by
                rw [spec.holdsAfter]
                rw [hunlocked] at hlocked
                have := hlocked.symm
                simp only [Bool.or_eq_false_iff] at this
                simp [this.1.1.1, this.1.2]
              refine ⟨?_, ?_, ?_, ?_⟩
              · intro i ti hti hhi
                rw [applyEff_threads] at hti
                rw [applyEff_locks]
                by_cases hi : i = tid
                · subst hi; simp only [↓reduceIte, Option.some.injEq] at hti; subst hti; rw [hafter] at hhi; cases hhi
                · simp only [hi, ↓reduceIte] at hti
                  have hli := h.h1 i ti hti hhi
                  rw [hli]
                  have : (some i == some tid) = false := by simpa using hi
                  simp [this]
              · intro s i hls
                rw [applyEff_locks] at hls
                split at hls
                · cases hls
                · obtain ⟨ti, hti, hhi, hsi⟩ := h.h2 s i hls
                  have hi : i ≠ tid := by intro e'; subst e'; exact hfree s hls
                  exact ⟨ti, by rw [applyEff_threads]; simp [hi]; exact hti, hhi, hsi⟩
              · intro i ti hti hpc
                rw [applyEff_threads] at hti
                rw [applyEff_store_keep _ _ _ _ hkeep]
                by_cases hi : i = tid
                · subst hi; simp only [↓reduceIte, Option.some.injEq] at hti; subst hti
                  have := (holds_iff _).2 (Or.inr hpc); rw [hafter] at this; cases this
                · simp only [hi, ↓reduceIte] at hti; exact h.sw i ti hti hpc
              · intro i ti hti hpc
                rw [applyEff_threads] at hti
                rw [applyEff_store_keep _ _ _ _ hkeep]
                by_cases hi : i = tid
                · subst hi; simp only [↓reduceIte, Option.some.injEq] at hti; subst hti
                  have := (holds_iff _).2 (Or.inl hpc); rw [hafter] at this; cases this
                · simp only [hi, ↓reduceIte] at hti; exact h.sd i ti hti hpc

theorem wrun_inv : ∀ (sched : List Nat) (w w' : World), Inv w → wrun w sched = some w' → Inv w'
  | [], w, w', h, hr => by simp [wrun] at hr; subst hr; exact h
  | t :: ts, w, w', h, hr => by
    unfold wrun at hr
    cases hs : wstep w t with
    | none => simp [hs] at hr
    | some w1 => simp only [hs] at hr; exact wrun_inv ts w1 w' (wstep_inv w w1 t h hs) hr

end KadDHT.VS

namespace KadDHT.VS

/-- what one scheduled access amounts to, without the lock bookkeeping -/
theorem wstep_char (w w' : World) (tid : Nat) (hs : wstep w tid = some w') :
    (∀ i, i ≠ tid → w'.threads i = w.threads i) ∧
    ∃ t0, w.threads tid = some t0 ∧
      ((t0.pc = .start ∧ nextAccess (begin t0) = none ∧ w'.threads tid = some (begin t0) ∧ w'.store = w.store) ∨
       ∃ t e clock, t = (if t0.pc == PC.start then begin t0 else t0) ∧
          perform clock (keyOf t.op) (w.store (keyOf t.op)) t = some e ∧ w'.threads tid = some e.t ∧
          (∀ k, k ≠ keyOf t.op → w'.store k = w.store k) ∧
          w'.store (keyOf t.op) = (match e.eff with | .keep => w.store (keyOf t.op) | .write v => some v | .del => none)) := by
  unfold wstep at hs
  cases ht0 : w.threads tid with
  | none => simp [ht0] at hs
  | some t0 =>
    simp only [ht0] at hs
    generalize htt : (if t0.pc == PC.start then begin t0 else t0) = t at hs
    cases hna : nextAccess t with
    | none =>
      simp only [hna] at hs
      split at hs
      · rename_i hstart
        have hstart' : t0.pc = .start := by simpa using hstart
        cases hs
        have ht : t = begin t0 := by rw [← htt]; simp [hstart']
        refine ⟨fun i hi => by simp [setThread, hi], t0, rfl, Or.inl ⟨hstart', by rw [← ht]; exact hna, by simp [setThread, ht], rfl⟩⟩
      · cases hs
    | some acc =>
      obtain ⟨kind, key, locked⟩ := acc
      simp only [hna] at hs
      obtain ⟨hkey, _⟩ := nextAccess_key hna
      split at hs
      · cases hs
      · simp only [Option.map_eq_some_iff] at hs
        obtain ⟨e, hp, hs⟩ := hs
        have hstore1 : ∀ (c : Prop) [Decidable c], (if c then lock w (stripe key) tid else w).store = w.store := by
          intro c _; split <;> rfl
        have hthr1 : ∀ (c : Prop) [Decidable c], (if c then lock w (stripe key) tid else w).threads = w.threads := by
          intro c _; split <;> rfl
        subst hs
        refine ⟨?_, t0, rfl, Or.inr ⟨t, e, (if (locked && (w.locks (stripe key)).isNone) = true then lock w (stripe key) tid else w).clock, htt.symm, ?_, ?_, ?_, ?_⟩⟩
        · intro i hi; rw [applyEff_threads, hthr1]; simp [hi]
        · rw [← hkey]; unfold lookup at hp; rw [hstore1] at hp; exact hp
        · rw [applyEff_threads]; simp
        · intro k hk; rw [← hkey] at hk; rw [applyEff_store _ _ _ _ _ hk, hstore1]
        · rw [← hkey, applyEff_store_key, hstore1]

end KadDHT.VS

/- Lemmas about the wire size bounds (C09 / C10). -/
import KadDHT.Model.Wire
namespace KadDHT.Wire

theorem keepAddrs_sum (limit size : Nat) (as : List Nat) (h : size ≤ limit) :
    size + ((keepAddrs limit size as).map fun a => sizeTag + sizeBytes a).sum ≤ limit := by
  induction as generalizing size with
  | nil => simpa [keepAddrs]
  | cons a as ih =>
    simp only [keepAddrs]
    split
    · simpa
    · rename_i hgt
      have h' : size + (sizeTag + sizeBytes a) ≤ limit := by omega
      have := ih _ h'
      simp only [List.map_cons, List.sum_cons]
      omega

theorem keepAddrs_prefix (limit size : Nat) (as : List Nat) : keepAddrs limit size as <+: as := by
  induction as generalizing size with
  | nil => simp [keepAddrs]
  | cons a as ih =>
    simp only [keepAddrs]
    split
    · exact List.nil_prefix
    · exact (List.cons_prefix_cons).2 ⟨rfl, ih _⟩

/-- an address list that already fits is left untouched -/
theorem keepAddrs_id (limit size : Nat) (as : List Nat)
    (h : size + (as.map fun a => sizeTag + sizeBytes a).sum ≤ limit) : keepAddrs limit size as = as := by
  induction as generalizing size with
  | nil => rfl
  | cons a as ih =>
    simp only [List.map_cons, List.sum_cons] at h
    simp only [keepAddrs]
    split
    · omega
    · rw [ih]; omega

theorem appendFitting_le (limit size : Nat) (recs : List Nat) : appendFitting limit size recs ≤ recs.length := by
  induction recs generalizing size with
  | nil => simp [appendFitting]
  | cons r rs ih =>
    simp only [appendFitting]
    split
    · simp
    · have := ih (size + (sizeTag + sizeBytes r)); simp only [List.length_cons]; omega

theorem appendFitting_size (limit size : Nat) (recs : List Nat) (h : size ≤ limit) :
    sizeAfter size (recs.take (appendFitting limit size recs)) ≤ limit := by
  induction recs generalizing size with
  | nil => simpa [appendFitting, sizeAfter]
  | cons r rs ih =>
    simp only [appendFitting]
    split
    · simpa [sizeAfter]
    · rename_i hgt
      have h' : size + (sizeTag + sizeBytes r) ≤ limit := by omega
      have := ih _ h'
      simp only [sizeAfter] at this ⊢
      have e : 1 + appendFitting limit (size + (sizeTag + sizeBytes r)) rs
          = appendFitting limit (size + (sizeTag + sizeBytes r)) rs + 1 := by omega
      rw [e, List.take_succ_cons]
      simp only [List.map_cons, List.sum_cons]
      omega

theorem sizeVarint_le (n : Nat) : sizeVarint n ≤ 10 := by
  unfold sizeVarint; repeat' split <;> try omega

theorem sizeVarint_small (n : Nat) (h : n < 16384) : sizeVarint n ≤ 2 := by
  unfold sizeVarint
  simp only [h, ↓reduceIte]
  split <;> omega

end KadDHT.Wire

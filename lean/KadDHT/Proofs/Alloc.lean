/- Helper lemmas for `AllocateToKClosest` (C18): the simultaneous descent hands every item to the
   min(k, #dests) XOR-nearest destinations. -/
import KadDHT.Proofs.Keyspace
import KadDHT.Proofs.Xor
namespace KadDHT
namespace Trie
variable {α β : Type}

/-! ### values in zero order are the left-to-right values -/

def valsL : Trie α → List α
  | empty => []
  | leaf _ d => [d]
  | node l r => valsL l ++ valsL r

theorem bitAt_nil (d : Nat) : bitAt [] d = false := by simp [bitAt]

theorem entriesAt_nil_vals (d : Nat) (t : Trie α) : (entriesAt [] d t).map (·.2) = valsL t := by
  induction t generalizing d with
  | empty => rfl
  | leaf k v => rfl
  | node l r ihl ihr => simp [entriesAt, bitAt_nil, valsL, ihl, ihr]

theorem values_eq_valsL (t : Trie α) : t.values = valsL t := entriesAt_nil_vals 0 t

theorem valsL_length (t : Trie α) : (valsL t).length = t.size := by
  induction t with
  | empty => rfl
  | leaf k v => rfl
  | node l r ihl ihr => simp [valsL, size, ihl, ihr]

/-- a trie whose every leaf stores its own key as data -/
def SK : Trie Key → Prop
  | empty => True
  | leaf k d => d = k
  | node l r => SK l ∧ SK r

theorem SK.valsL {t : Trie Key} (h : SK t) : valsL t = keysL t := by
  induction t with
  | empty => rfl
  | leaf k d => simp [Trie.valsL, keysL]; exact h
  | node l r ihl ihr => simp [Trie.valsL, keysL, ihl h.1, ihr h.2]

/-! ### the matching items branch -/

@[simp] theorem matchBranch_empty (depth : Nat) (i : Bool) : matchBranch (empty : Trie α) depth i = none := rfl
@[simp] theorem matchBranch_leaf (k : Key) (d : α) (depth : Nat) (i : Bool) :
    matchBranch (leaf k d) depth i = if bitAt k depth == i then some (leaf k d) else none := rfl
theorem matchBranch_node_false (l r : Trie α) (depth : Nat) :
    matchBranch (node l r) depth false = if l.isEmptyLeaf then none else some l := by
  cases l <;> rfl
theorem matchBranch_node_true (l r : Trie α) (depth : Nat) :
    matchBranch (node l r) depth true = if r.isEmptyLeaf then none else some r := by
  cases r <;> rfl

/-- the matching branch is the items trie itself (a leaf) or one of its children -/
theorem matchBranch_cases (items m : Trie α) (depth : Nat) (i : Bool) (h : matchBranch items depth i = some m) :
    (∃ k d, items = leaf k d ∧ m = items ∧ bitAt k depth = i) ∨
    (∃ l r, items = node l r ∧ m = (if i then r else l) ∧ m ≠ empty) := by
  cases items with
  | empty => simp at h
  | leaf k d =>
    rw [matchBranch_leaf] at h
    split at h
    · rename_i hb
      cases h
      exact Or.inl ⟨k, d, rfl, rfl, by simpa using hb⟩
    · cases h
  | node l r =>
    right
    refine ⟨l, r, rfl, ?_⟩
    cases i
    · rw [matchBranch_node_false] at h
      split at h
      · cases h
      · rename_i he
        cases h
        exact ⟨rfl, fun e => he (by rw [e]; rfl)⟩
    · rw [matchBranch_node_true] at h
      split at h
      · cases h
      · rename_i he
        cases h
        exact ⟨rfl, fun e => he (by rw [e]; rfl)⟩

theorem matchBranch_none (items : Trie α) (depth : Nat) (i : Bool) (h : matchBranch items depth i = none) :
    items = empty ∨ (∃ k d, items = leaf k d ∧ bitAt k depth ≠ i) ∨
    (∃ l r, items = node l r ∧ (if i then r else l) = empty) := by
  cases items with
  | empty => exact Or.inl rfl
  | leaf k d =>
    rw [matchBranch_leaf] at h
    split at h
    · cases h
    · rename_i hb
      exact Or.inr (Or.inl ⟨k, d, rfl, by simpa using hb⟩)
  | node l r =>
    right; right
    refine ⟨l, r, rfl, ?_⟩
    cases i
    · rw [matchBranch_node_false] at h
      split at h
      · rename_i he; exact (isEmptyLeaf_iff l).1 he
      · cases h
    · rw [matchBranch_node_true] at h
      split at h
      · rename_i he; exact (isEmptyLeaf_iff r).1 he
      · cases h

theorem mem_valsL_matchBranch (items m : Trie α) (depth : Nat) (i : Bool)
    (h : matchBranch items depth i = some m) : ∀ y ∈ valsL m, y ∈ valsL items := by
  intro y hy
  rcases matchBranch_cases items m depth i h with ⟨k, d, rfl, rfl, _⟩ | ⟨l, r, rfl, rfl, _⟩
  · exact hy
  · cases i
    · exact List.mem_append.2 (Or.inl hy)
    · exact List.mem_append.2 (Or.inr hy)

theorem SK.matchBranch {items m : Trie Key} {depth : Nat} {i : Bool} (hs : SK items)
    (h : matchBranch items depth i = some m) : SK m := by
  rcases matchBranch_cases items m depth i h with ⟨k, d, rfl, rfl, _⟩ | ⟨l, r, rfl, rfl, _⟩
  · exact hs
  · cases i
    · exact hs.1
    · exact hs.2

/-- the keys of the matching branch are exactly the items whose bit at `depth` is `i` -/
theorem mem_keysL_matchBranch_some (items m : Trie α) (pi : Key) (depth : Nat) (i : Bool) (hwf : WF pi items)
    (hd : pi.length = depth) (h : matchBranch items depth i = some m) :
    ∀ y, y ∈ keysL m ↔ (y ∈ keysL items ∧ bitAt y depth = i) := by
  subst hd
  rcases matchBranch_cases items m _ i h with ⟨k, d, rfl, rfl, hb⟩ | ⟨l, r, rfl, rfl, _⟩
  · intro y
    simp only [keysL, List.mem_singleton]
    constructor
    · intro hy; subst hy; exact ⟨rfl, hb⟩
    · intro hy; exact hy.1
  · have hl : ∀ y ∈ keysL l, bitAt y pi.length = false := fun y hy => (bitAt_of_isPre_snoc (hwf.1.mem_isPre hy)).1
    have hr : ∀ y ∈ keysL r, bitAt y pi.length = true := fun y hy => (bitAt_of_isPre_snoc (hwf.2.mem_isPre hy)).1
    intro y
    simp only [keysL, List.mem_append]
    cases i
    · simp only [Bool.false_eq_true, ↓reduceIte]
      constructor
      · intro hy; exact ⟨Or.inl hy, hl y hy⟩
      · rintro ⟨hy | hy, hb⟩
        · exact hy
        · rw [hr y hy] at hb; cases hb
    · simp only [↓reduceIte]
      constructor
      · intro hy; exact ⟨Or.inr hy, hr y hy⟩
      · rintro ⟨hy | hy, hb⟩
        · rw [hl y hy] at hb; cases hb
        · exact hy

theorem mem_keysL_matchBranch_none (items : Trie α) (pi : Key) (depth : Nat) (i : Bool) (hwf : WF pi items)
    (hd : pi.length = depth) (h : matchBranch items depth i = none) :
    ∀ y ∈ keysL items, bitAt y depth ≠ i := by
  subst hd
  rcases matchBranch_none items _ i h with rfl | ⟨k, d, rfl, hb⟩ | ⟨l, r, rfl, he⟩
  · intro y hy; simp [keysL] at hy
  · intro y hy
    simp only [keysL, List.mem_singleton] at hy
    subst hy; exact hb
  · have hl : ∀ y ∈ keysL l, bitAt y pi.length = false := fun y hy => (bitAt_of_isPre_snoc (hwf.1.mem_isPre hy)).1
    have hr : ∀ y ∈ keysL r, bitAt y pi.length = true := fun y hy => (bitAt_of_isPre_snoc (hwf.2.mem_isPre hy)).1
    intro y hy
    simp only [keysL, List.mem_append] at hy
    cases i
    · simp only [Bool.false_eq_true, ↓reduceIte] at he
      subst he
      simp only [keysL, List.not_mem_nil, false_or] at hy
      rw [hr y hy]; simp
    · simp only [↓reduceIte] at he
      subst he
      simp only [keysL, List.not_mem_nil, or_false] at hy
      rw [hl y hy]; simp

theorem WF.matchBranch {items m : Trie α} {pi : Key} {depth : Nat} {i : Bool} (hwf : WF pi items)
    (hd : pi.length = depth) (hlen : ∀ y ∈ keysL items, depth < y.length)
    (h : matchBranch items depth i = some m) : WF (pi ++ [i]) m := by
  subst hd
  rcases matchBranch_cases items m _ i h with ⟨k, d, rfl, rfl, hb⟩ | ⟨l, r, rfl, rfl, _⟩
  · have := isPre_snoc_of (path := pi) (k := k) hwf (hlen k (by simp [keysL]))
    rw [hb] at this
    exact this
  · cases i
    · exact hwf.1
    · exact hwf.2

/-! ### every batch is a list of items of the items trie -/

theorem allocAt_batch_sub (dests : Trie β) : ∀ (k depth : Nat) (items : Trie α),
    ∀ p ∈ allocAt dests k depth items, ∀ y ∈ p.2, y ∈ valsL items := by
  induction dests with
  | empty => intro k depth items p hp; simp [allocAt] at hp
  | leaf dk dv =>
    intro k depth items p hp y hy
    simp only [allocAt] at hp
    split at hp
    · simp at hp
    · simp only [List.mem_singleton] at hp
      subst hp
      simpa [values_eq_valsL] using hy
  | node d0 d1 ih0 ih1 =>
    intro k depth items p hp y hy
    simp only [allocAt] at hp
    split at hp
    · simp at hp
    · have side : ∀ (i : Bool) (same other : Trie β)
          (recSame recOther : Nat → Trie α → List (β × List α)),
          (∀ k' m, ∀ p ∈ recSame k' m, ∀ y ∈ p.2, y ∈ valsL m) →
          (∀ k' m, ∀ p ∈ recOther k' m, ∀ y ∈ p.2, y ∈ valsL m) →
          p ∈ allocSide k depth items i same other recSame recOther → y ∈ valsL items := by
        intro i same other recSame recOther hS hO hp
        unfold allocSide at hp
        cases hm : matchBranch items depth i with
        | none => simp [hm] at hp
        | some m =>
          have hsub := mem_valsL_matchBranch items m depth i hm
          simp only [hm] at hp
          have inA : p ∈ (values same).map (fun dst => (dst, values m)) → y ∈ valsL items := by
            intro h
            simp only [List.mem_map] at h
            obtain ⟨_, _, rfl⟩ := h
            exact hsub y (by simpa [values_eq_valsL] using hy)
          have inB : p ∈ (values other).map (fun dst => (dst, values m)) → y ∈ valsL items := by
            intro h
            simp only [List.mem_map] at h
            obtain ⟨_, _, rfl⟩ := h
            exact hsub y (by simpa [values_eq_valsL] using hy)
          split at hp
          · split at hp
            · exact inA hp
            · split at hp
              · rcases List.mem_append.1 hp with h | h
                · exact inA h
                · exact inB h
              · rcases List.mem_append.1 hp with h | h
                · exact inA h
                · exact hsub y (hO _ m p h y hy)
          · exact hsub y (hS _ m p hp y hy)
      rcases List.mem_append.1 hp with h | h
      · exact side false d0 d1 _ _ (fun k' m => ih0 k' (depth+1) m) (fun k' m => ih1 k' (depth+1) m) h
      · exact side true d1 d0 _ _ (fun k' m => ih1 k' (depth+1) m) (fun k' m => ih0 k' (depth+1) m) h

/-! ### the XOR order across the two branches of a node -/

/-- for an item under `pi ++ [b]`, every destination under `pd ++ [b]` is strictly nearer than every destination under
    `pd ++ [!b]` (the two paths have equal length; the bits above them contribute the same to both distances) -/
theorem closer_same_branch : ∀ (pd pi x a c : Key) (b : Bool), pi.length = pd.length →
    isPre (pi ++ [b]) x = true → isPre (pd ++ [b]) a = true → isPre (pd ++ [!b]) c = true → closer x a c = true
  | [], pi, x, a, c, b, hl, hx, ha, hc => by
    have : pi = [] := List.eq_nil_of_length_eq_zero (by simpa using hl)
    subst this
    cases x with
    | nil => simp at hx
    | cons x0 x =>
      cases a with
      | nil => simp at ha
      | cons a0 a =>
        cases c with
        | nil => simp at hc
        | cons c0 c =>
          simp only [List.nil_append, isPre, Bool.and_true, beq_iff_eq] at hx ha hc
          subst hx ha hc
          cases b <;> simp [closer, kxor, bitsLt]
  | p :: pd, pi, x, a, c, b, hl, hx, ha, hc => by
    cases pi with
    | nil => simp at hl
    | cons q pi =>
      cases x with
      | nil => simp at hx
      | cons x0 x =>
        cases a with
        | nil => simp at ha
        | cons a0 a =>
          cases c with
          | nil => simp at hc
          | cons c0 c =>
            simp only [List.cons_append, isPre, Bool.and_eq_true, beq_iff_eq] at hx ha hc
            have ih := closer_same_branch pd pi x a c b (by simpa using hl) hx.2 ha.2 hc.2
            obtain ⟨rfl, _⟩ := hx
            obtain ⟨rfl, _⟩ := ha
            obtain ⟨rfl, _⟩ := hc
            simpa [closer, kxor, bitsLt] using ih

/-! ### the destinations an item is handed to -/

/-- destinations whose batch contains item `x`, in program order, with multiplicity -/
def asg (res : List (Key × List Key)) (x : Key) : List Key := (res.filter (fun p => decide (x ∈ p.2))).map (·.1)

theorem asg_append (r1 r2 : List (Key × List Key)) (x : Key) : asg (r1 ++ r2) x = asg r1 x ++ asg r2 x := by
  simp [asg]

theorem asg_nil_of (res : List (Key × List Key)) (x : Key) (h : ∀ p ∈ res, x ∉ p.2) : asg res x = [] := by
  simp only [asg, List.map_eq_nil_iff, List.filter_eq_nil_iff]
  intro p hp
  simpa using h p hp

theorem asg_share (ds batch : List Key) (x : Key) (hx : x ∈ batch) :
    asg (ds.map fun dst => (dst, batch)) x = ds := by
  unfold asg
  rw [List.filter_eq_self.2]
  · simp [List.map_map, Function.comp_def]
  · intro p hp
    simp only [List.mem_map] at hp
    obtain ⟨_, _, rfl⟩ := hp
    simpa using hx

/-- `A` is a choice of the min(k, |ds|) candidates nearest to `x` -/
structure TopK (x : Key) (k : Nat) (ds A : List Key) : Prop where
  nodup : A.Nodup
  len : A.length = min k ds.length
  sub : ∀ a ∈ A, a ∈ ds
  near : ∀ a ∈ A, ∀ d ∈ ds, d ∉ A → closer x a d = true

theorem TopK.comm {x : Key} {k : Nat} {l1 l2 A : List Key} (h : TopK x k (l1 ++ l2) A) : TopK x k (l2 ++ l1) A := by
  refine ⟨h.nodup, ?_, ?_, ?_⟩
  · rw [h.len]; simp [Nat.add_comm]
  · intro a ha
    exact List.mem_append.2 (List.mem_append.1 (h.sub a ha)).symm
  · intro a ha d hd hn
    exact h.near a ha d (List.mem_append.2 (List.mem_append.1 hd).symm) hn

/-- the statement proved by induction over the destinations trie -/
def Good (dests : Trie Key) : Prop :=
  ∀ (k depth : Nat) (items : Trie Key) (pi pd : Key) (n : Nat),
    SK dests → SK items → WF pd dests → WF pi items → pi.length = depth → pd.length = depth →
    (∀ d ∈ keysL dests, d.length = n) → (∀ x ∈ keysL items, x.length = n) →
    ∀ x ∈ keysL items, TopK x k (keysL dests) (asg (allocAt dests k depth items) x)

theorem good_empty : Good empty := by
  intro k depth items pi pd n _ _ _ _ _ _ _ _ x _
  simp only [allocAt, asg, keysL]
  exact ⟨by simp, by simp, by simp, by simp⟩

theorem good_leaf (dk dv : Key) : Good (leaf dk dv) := by
  intro k depth items pi pd n hsd hsi _ _ _ _ _ _ x hx
  have hdv : dv = dk := hsd
  subst hdv
  simp only [allocAt, keysL]
  split
  · rename_i hk
    have : k = 0 := by simpa using hk
    subst this
    exact ⟨by simp [asg], by simp [asg], by simp [asg], by simp [asg]⟩
  · rename_i hk
    have hk' : 1 ≤ k := by
      have : k ≠ 0 := by simpa using hk
      omega
    have hxb : x ∈ values items := by rw [values_eq_valsL, hsi.valsL]; exact hx
    have : asg [(dv, values items)] x = [dv] := by simp [asg, hxb]
    rw [this]
    refine ⟨by simp, ?_, by simp, ?_⟩
    · simp; omega
    · intro a ha d hd hn; simp at hd hn; exact absurd hd hn

/-- one side of the loop over the two branches, for an item whose bit at `depth` selects this side -/
theorem side_match (k depth : Nat) (hk : 1 ≤ k) (items : Trie Key) (pi pd : Key) (n : Nat) (i : Bool)
    (same other : Trie Key) (gs : Good same) (go : Good other)
    (hss : SK same) (hso : SK other) (hsi : SK items)
    (hws : WF (pd ++ [i]) same) (hwo : WF (pd ++ [!i]) other) (hwi : WF pi items)
    (hpi : pi.length = depth) (hpd : pd.length = depth)
    (hls : ∀ d ∈ keysL same, d.length = n) (hlo : ∀ d ∈ keysL other, d.length = n)
    (hli : ∀ x ∈ keysL items, x.length = n)
    (x : Key) (hx : x ∈ keysL items) (hb : bitAt x depth = i) :
    TopK x k (keysL same ++ keysL other)
      (asg (allocSide k depth items i same other (fun k' m => allocAt same k' (depth+1) m)
        (fun k' m => allocAt other k' (depth+1) m)) x) := by
  have hdisj : ∀ a ∈ keysL same, a ∉ keysL other := by
    intro a ha ha'
    have h1 := bitAt_of_isPre_snoc (hws.mem_isPre ha)
    have h2 := bitAt_of_isPre_snoc (hwo.mem_isPre ha')
    rw [h1.1] at h2
    cases i <;> simp at h2
  have hnds : (keysL same).Nodup := hws.nodup
  have hndo : (keysL other).Nodup := hwo.nodup
  -- x lies below pi ++ [i] as soon as some destination exists below this node
  have hxpre : ∀ d ∈ keysL same ++ keysL other, isPre (pi ++ [i]) x = true ∧ ∀ y ∈ keysL items, depth < y.length := by
    intro d hd
    have hdl : depth < d.length := by
      rcases List.mem_append.1 hd with h | h
      · have := (bitAt_of_isPre_snoc (hws.mem_isPre h)).2; omega
      · have := (bitAt_of_isPre_snoc (hwo.mem_isPre h)).2; omega
    have hdn : d.length = n := by
      rcases List.mem_append.1 hd with h | h
      · exact hls d h
      · exact hlo d h
    have hxl : pi.length < x.length := by rw [hli x hx, hpi]; omega
    have := isPre_snoc_of (hwi.mem_isPre hx) hxl
    rw [hpi, hb] at this
    exact ⟨this, fun y hy => by rw [hli y hy]; omega⟩
  have hcl : ∀ a ∈ keysL same, ∀ d ∈ keysL other, closer x a d = true := by
    intro a ha d hd
    have hxp := (hxpre d (List.mem_append.2 (Or.inr hd))).1
    exact closer_same_branch pd pi x a d i (by rw [hpi, hpd]) hxp (hws.mem_isPre ha) (hwo.mem_isPre hd)
  unfold allocSide
  cases hm : matchBranch items depth i with
  | none => exact absurd hb (mem_keysL_matchBranch_none items pi depth i hwi hpi hm x hx)
  | some m =>
    have hspec := mem_keysL_matchBranch_some items m pi depth i hwi hpi hm
    have hxm : x ∈ keysL m := (hspec x).2 ⟨hx, hb⟩
    have hsm : SK m := hsi.matchBranch hm
    have hxv : x ∈ values m := by rw [values_eq_valsL, hsm.valsL]; exact hxm
    have hlm : ∀ y ∈ keysL m, y.length = n := fun y hy => hli y ((hspec y).1 hy).1
    have hvs : values same = keysL same := by rw [values_eq_valsL, hss.valsL]
    have hvo : values other = keysL other := by rw [values_eq_valsL, hso.valsL]
    have hszs : same.size = (keysL same).length := (keysL_length same).symm
    have hszo : other.size = (keysL other).length := (keysL_length other).symm
    simp only []
    split
    · rename_i hle
      split
      · -- all of the same branch, nothing more
        rename_i hstop
        rw [hvs, asg_share _ _ _ hxv]
        refine ⟨hnds, ?_, fun a ha => List.mem_append.2 (Or.inl ha), ?_⟩
        · simp only [Bool.or_eq_true, beq_iff_eq] at hstop
          simp only [List.length_append]
          omega
        · intro a ha d hd hn
          rcases List.mem_append.1 hd with h | h
          · exact absurd h hn
          · exact hcl a ha d h
      · rename_i hstop
        simp only [Bool.or_eq_true, beq_iff_eq, not_or] at hstop
        split
        · -- everything
          rename_i hall
          rw [asg_append, hvs, hvo, asg_share _ _ _ hxv, asg_share _ _ _ hxv]
          refine ⟨?_, ?_, fun a ha => ha, ?_⟩
          · rw [List.nodup_append]
            exact ⟨hnds, hndo, fun a ha b hb' hab => hdisj a ha (hab ▸ hb')⟩
          · simp only [List.length_append]; omega
          · intro a _ d hd hn; exact absurd hd hn
        · -- the same branch plus the `missing` nearest of the other branch
          rename_i hmore
          have hne : ∃ d, d ∈ keysL other := by
            cases hko : keysL other with
            | nil => rw [hko] at hszo; simp at hszo; omega
            | cons d _ => exact ⟨d, by simp⟩
          obtain ⟨d0, hd0⟩ := hne
          have hwm : WF (pi ++ [i]) m :=
            hwi.matchBranch hpi (hxpre d0 (List.mem_append.2 (Or.inr hd0))).2 hm
          have ih := go (k - same.size) (depth+1) m (pi ++ [i]) (pd ++ [!i]) n hso hsm hwo hwm
            (by simp [hpi]) (by simp [hpd]) hlo hlm x hxm
          rw [asg_append, hvs, asg_share _ _ _ hxv]
          refine ⟨?_, ?_, ?_, ?_⟩
          · rw [List.nodup_append]
            exact ⟨hnds, ih.nodup, fun a ha b hb' hab => hdisj a ha (hab ▸ ih.sub b hb')⟩
          · simp only [List.length_append, ih.len]; omega
          · intro a ha
            rcases List.mem_append.1 ha with h | h
            · exact List.mem_append.2 (Or.inl h)
            · exact List.mem_append.2 (Or.inr (ih.sub a h))
          · intro a ha d hd hn
            have hn1 : d ∉ keysL same := fun h => hn (List.mem_append.2 (Or.inl h))
            have hn2 : d ∉ asg (allocAt other (k - same.size) (depth + 1) m) x :=
              fun h => hn (List.mem_append.2 (Or.inr h))
            have hdo : d ∈ keysL other := by
              rcases List.mem_append.1 hd with h | h
              · exact absurd h hn1
              · exact h
            rcases List.mem_append.1 ha with h | h
            · exact hcl a h d hdo
            · exact ih.near a h d hdo hn2
    · -- more than k destinations on the item's own side
      rename_i hgt
      have hne : ∃ d, d ∈ keysL same := by
        cases hks : keysL same with
        | nil => rw [hks] at hszs; simp at hszs; omega
        | cons d _ => exact ⟨d, by simp⟩
      obtain ⟨d0, hd0⟩ := hne
      have hwm : WF (pi ++ [i]) m :=
        hwi.matchBranch hpi (hxpre d0 (List.mem_append.2 (Or.inl hd0))).2 hm
      have ih := gs k (depth+1) m (pi ++ [i]) (pd ++ [i]) n hss hsm hws hwm
        (by simp [hpi]) (by simp [hpd]) hls hlm x hxm
      refine ⟨ih.nodup, ?_, fun a ha => List.mem_append.2 (Or.inl (ih.sub a ha)), ?_⟩
      · simp only [ih.len, List.length_append]; omega
      · intro a ha d hd hn
        rcases List.mem_append.1 hd with h | h
        · exact ih.near a ha d h hn
        · exact hcl a (ih.sub a ha) d h

/-- the other side of the loop hands the item nothing -/
theorem side_nomatch (k depth : Nat) (items : Trie Key) (pi : Key) (i : Bool)
    (same other : Trie Key) (hsi : SK items) (hwi : WF pi items) (hpi : pi.length = depth)
    (recSame recOther : Nat → Trie Key → List (Key × List Key))
    (hS : ∀ k' m, ∀ p ∈ recSame k' m, ∀ y ∈ p.2, y ∈ valsL m)
    (hO : ∀ k' m, ∀ p ∈ recOther k' m, ∀ y ∈ p.2, y ∈ valsL m)
    (x : Key) (hb : bitAt x depth ≠ i) :
    asg (allocSide k depth items i same other recSame recOther) x = [] := by
  apply asg_nil_of
  intro p hp hxp
  unfold allocSide at hp
  cases hm : matchBranch items depth i with
  | none => simp [hm] at hp
  | some m =>
    have hspec := mem_keysL_matchBranch_some items m pi depth i hwi hpi hm
    have hsm : SK m := hsi.matchBranch hm
    have hnot : x ∉ valsL m := by
      rw [hsm.valsL]
      intro h
      exact hb ((hspec x).1 h).2
    simp only [hm] at hp
    have inA : ∀ (ds : List Key), p ∈ ds.map (fun dst => (dst, values m)) → False := by
      intro ds h
      simp only [List.mem_map] at h
      obtain ⟨_, _, rfl⟩ := h
      exact hnot (by simpa [values_eq_valsL] using hxp)
    split at hp
    · split at hp
      · exact inA _ hp
      · split at hp
        · rcases List.mem_append.1 hp with h | h
          · exact inA _ h
          · exact inA _ h
        · rcases List.mem_append.1 hp with h | h
          · exact inA _ h
          · exact hnot (hO _ m p h x hxp)
    · exact hnot (hS _ m p hp x hxp)

theorem good_node (d0 d1 : Trie Key) (g0 : Good d0) (g1 : Good d1) : Good (node d0 d1) := by
  intro k depth items pi pd n hsd hsi hwd hwi hpi hpd hld hli x hx
  simp only [allocAt]
  split
  · rename_i hk
    have : k = 0 := by simpa using hk
    subst this
    exact ⟨by simp [asg], by simp [asg], by simp [asg], by simp [asg]⟩
  · rename_i hk
    have hk' : 1 ≤ k := by
      have : k ≠ 0 := by simpa using hk
      omega
    have hl0 : ∀ d ∈ keysL d0, d.length = n := fun d hd => hld d (by simp [keysL, hd])
    have hl1 : ∀ d ∈ keysL d1, d.length = n := fun d hd => hld d (by simp [keysL, hd])
    rw [asg_append]
    cases hb : bitAt x depth with
    | false =>
      have h1 := side_match k depth hk' items pi pd n false d0 d1 g0 g1 hsd.1 hsd.2 hsi hwd.1 hwd.2 hwi hpi hpd
        hl0 hl1 hli x hx hb
      have h2 := side_nomatch k depth items pi true d1 d0 hsi hwi hpi
        (fun k' m => allocAt d1 k' (depth+1) m) (fun k' m => allocAt d0 k' (depth+1) m)
        (fun k' m => allocAt_batch_sub d1 k' (depth+1) m) (fun k' m => allocAt_batch_sub d0 k' (depth+1) m)
        x (by rw [hb]; simp)
      rw [h2, List.append_nil]
      exact h1
    | true =>
      have h1 := side_match k depth hk' items pi pd n true d1 d0 g1 g0 hsd.2 hsd.1 hsi hwd.2 hwd.1 hwi hpi hpd
        hl1 hl0 hli x hx hb
      have h2 := side_nomatch k depth items pi false d0 d1 hsi hwi hpi
        (fun k' m => allocAt d0 k' (depth+1) m) (fun k' m => allocAt d1 k' (depth+1) m)
        (fun k' m => allocAt_batch_sub d0 k' (depth+1) m) (fun k' m => allocAt_batch_sub d1 k' (depth+1) m)
        x (by rw [hb]; simp)
      rw [h2, List.nil_append]
      exact h1.comm

theorem good_all (dests : Trie Key) : Good dests := by
  induction dests with
  | empty => exact good_empty
  | leaf k d => exact good_leaf k d
  | node l r ihl ihr => exact good_node l r ihl ihr

/-! ### naturality in the stored data: the allocation never looks at it -/

def mapv {γ : Type} (f : α → γ) : Trie α → Trie γ
  | empty => empty
  | leaf k d => leaf k (f d)
  | node l r => node (mapv f l) (mapv f r)

theorem size_mapv {γ : Type} (f : α → γ) (t : Trie α) : (mapv f t).size = t.size := by
  induction t with
  | empty => rfl
  | leaf k d => rfl
  | node l r ihl ihr => simp [mapv, size, ihl, ihr]

theorem valsL_mapv {γ : Type} (f : α → γ) (t : Trie α) : valsL (mapv f t) = (valsL t).map f := by
  induction t with
  | empty => rfl
  | leaf k d => rfl
  | node l r ihl ihr => simp [mapv, valsL, ihl, ihr]

theorem values_mapv {γ : Type} (f : α → γ) (t : Trie α) : (mapv f t).values = t.values.map f := by
  rw [values_eq_valsL, values_eq_valsL, valsL_mapv]

theorem matchBranch_mapv {γ : Type} (g : α → γ) (items : Trie α) (depth : Nat) (i : Bool) :
    matchBranch (mapv g items) depth i = (matchBranch items depth i).map (mapv g) := by
  cases items with
  | empty => rfl
  | leaf k d =>
    simp only [mapv, matchBranch_leaf]
    split <;> rfl
  | node l r =>
    cases i
    · simp only [mapv, matchBranch_node_false]
      cases l <;> simp [mapv, isEmptyLeaf]
    · simp only [mapv, matchBranch_node_true]
      cases r <;> simp [mapv, isEmptyLeaf]

theorem allocSide_mapv {α' β' : Type} (f : β → β') (g : α → α') (k depth : Nat) (items : Trie α) (i : Bool)
    (same other : Trie β) (recSame recOther : Nat → Trie α → List (β × List α))
    (recSame' recOther' : Nat → Trie α' → List (β' × List α'))
    (hS : ∀ k' m, recSame' k' (mapv g m) = (recSame k' m).map (fun p => (f p.1, p.2.map g)))
    (hO : ∀ k' m, recOther' k' (mapv g m) = (recOther k' m).map (fun p => (f p.1, p.2.map g))) :
    allocSide k depth (mapv g items) i (mapv f same) (mapv f other) recSame' recOther' =
      (allocSide k depth items i same other recSame recOther).map (fun p => (f p.1, p.2.map g)) := by
  unfold allocSide
  rw [matchBranch_mapv, size_mapv, size_mapv]
  cases matchBranch items depth i with
  | none => rfl
  | some m =>
    simp only [Option.map, values_mapv, hS, hO]
    split
    · split
      · simp [List.map_map, Function.comp_def]
      · split
        · simp [List.map_map, Function.comp_def]
        · simp [List.map_map, Function.comp_def]
    · rfl

/-- the allocation never inspects the data stored with items or destinations -/
theorem allocAt_mapv {α' β' : Type} (f : β → β') (g : α → α') (dests : Trie β) : ∀ (k depth : Nat) (items : Trie α),
    allocAt (mapv f dests) k depth (mapv g items) =
      (allocAt dests k depth items).map (fun p => (f p.1, p.2.map g)) := by
  induction dests with
  | empty => intro k depth items; rfl
  | leaf dk dv =>
    intro k depth items
    simp only [mapv, allocAt]
    split
    · rfl
    · simp [values_mapv]
  | node d0 d1 ih0 ih1 =>
    intro k depth items
    simp only [mapv, allocAt]
    split
    · rfl
    · rw [List.map_append]
      rw [allocSide_mapv f g k depth items false d0 d1 _ _ _ _ (fun k' m => ih0 k' (depth+1) m) (fun k' m => ih1 k' (depth+1) m)]
      rw [allocSide_mapv f g k depth items true d1 d0 _ _ _ _ (fun k' m => ih1 k' (depth+1) m) (fun k' m => ih0 k' (depth+1) m)]

theorem isEmptyLeaf_mapv {γ : Type} (f : α → γ) (t : Trie α) : (mapv f t).isEmptyLeaf = t.isEmptyLeaf := by
  cases t <;> rfl

theorem allocate_mapv {α' β' : Type} (f : β → β') (g : α → α') (items : Trie α) (dests : Trie β) (k : Nat) :
    allocate (mapv g items) (mapv f dests) k = (allocate items dests k).map (fun p => (f p.1, p.2.map g)) := by
  unfold allocate
  rw [isEmptyLeaf_mapv, isEmptyLeaf_mapv]
  split
  · rfl
  · exact allocAt_mapv f g dests k 0 items

/-! ### labelling: every leaf's data paired with, or replaced by, its key -/

def label : Trie α → Trie (Key × α)
  | empty => empty
  | leaf k d => leaf k (k, d)
  | node l r => node (label l) (label r)

theorem mapv_snd_label (t : Trie α) : mapv (·.2) (label t) = t := by
  induction t with
  | empty => rfl
  | leaf k d => rfl
  | node l r ihl ihr => simp [label, mapv, ihl, ihr]

/-- the trie with every leaf's data replaced by its key -/
def keyed (t : Trie α) : Trie Key := mapv (·.1) (label t)

theorem keyed_SK (t : Trie α) : SK (keyed t) := by
  induction t with
  | empty => trivial
  | leaf k d => rfl
  | node l r ihl ihr => exact ⟨ihl, ihr⟩

theorem keysL_keyed (t : Trie α) : keysL (keyed t) = keysL t := by
  induction t with
  | empty => rfl
  | leaf k d => rfl
  | node l r ihl ihr =>
    have hl : keysL (mapv (·.1) (label l)) = keysL l := ihl
    have hr : keysL (mapv (·.1) (label r)) = keysL r := ihr
    simp [keyed, label, mapv, keysL, hl, hr]

theorem WF_keyed (path : Key) (t : Trie α) : WF path (keyed t) ↔ WF path t := by
  induction t generalizing path with
  | empty => exact Iff.rfl
  | leaf k d => exact Iff.rfl
  | node l r ihl ihr => exact and_congr (ihl _) (ihr _)

theorem size_keyed (t : Trie α) : (keyed t).size = t.size := by
  rw [← keysL_length, ← keysL_length, keysL_keyed]

end Trie
end KadDHT

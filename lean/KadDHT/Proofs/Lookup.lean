/- Invariants of the lookup state machine (C01, C02, C03). -/
import KadDHT.Model.Lookup
import KadDHT.Proofs.Sort
set_option linter.unusedSectionVars false
namespace KadDHT.Lookup
open KadDHT

variable {P : Type} [DecidableEq P]

def ids (ps : PS P) : List P := ps.map (·.id)

/-! ### qpeerset operations -/

theorem ids_tryAdd (ps : PS P) (p r : P) :
    ids (tryAdd ps p r) = if p ∈ ids ps then ids ps else ids ps ++ [p] := by
  unfold tryAdd ids
  by_cases h : ps.any (·.id == p) = true
  · have : p ∈ ps.map (·.id) := by
      obtain ⟨e, he, hep⟩ := List.any_eq_true.1 h
      exact List.mem_map.2 ⟨e, he, by simpa using hep⟩
    simp [h, this]
  · have : p ∉ ps.map (·.id) := by
      intro hm
      obtain ⟨e, he, hep⟩ := List.mem_map.1 hm
      exact h (List.any_eq_true.2 ⟨e, he, by simp [hep]⟩)
    simp [h, this]

theorem ids_setState (ps : PS P) (p : P) (st : PState) : ids (setState ps p st) = ids ps := by
  unfold setState ids
  rw [List.map_map]
  apply List.map_congr_left
  intro e _
  simp only [Function.comp]
  split <;> rfl

theorem eq_of_nodup_map {α β : Type} (f : α → β) {l : List α} (h : (l.map f).Nodup) {a b : α}
    (ha : a ∈ l) (hb : b ∈ l) (hf : f a = f b) : a = b := by
  induction l with
  | nil => cases ha
  | cons x xs ih =>
    simp only [List.map_cons, List.nodup_cons] at h
    rcases List.mem_cons.1 ha with rfl | ha' <;> rcases List.mem_cons.1 hb with rfl | hb'
    · rfl
    · exact absurd (List.mem_map.2 ⟨b, hb', hf.symm⟩) h.1
    · exact absurd (List.mem_map.2 ⟨a, ha', hf⟩) h.1
    · exact ih h.2 ha' hb'

theorem getState_eq_some_iff (ps : PS P) (hn : (ids ps).Nodup) (p : P) (st : PState) :
    getState ps p = some st ↔ ∃ e ∈ ps, e.id = p ∧ e.state = st := by
  unfold getState
  constructor
  · intro h
    cases hf : ps.find? (·.id == p) with
    | none => simp [hf] at h
    | some e =>
      simp only [hf, Option.map_some, Option.some.injEq] at h
      exact ⟨e, List.mem_of_find?_eq_some hf, by simpa using List.find?_some hf, h⟩
  · rintro ⟨e, he, hid, hst⟩
    cases hf : ps.find? (·.id == p) with
    | none => have := List.find?_eq_none.1 hf e he; simp [hid] at this
    | some e' =>
      have he' := List.mem_of_find?_eq_some hf
      have hid' : e'.id = p := by simpa using List.find?_some hf
      have : e' = e := eq_of_nodup_map (fun (x : PEntry P) => x.id) (l := ps) hn he' he (by show e'.id = e.id; rw [hid, hid'])
      simp [this, hst]

theorem mem_setState (ps : PS P) (p : P) (st : PState) (x : PEntry P) :
    x ∈ setState ps p st ↔ ∃ e ∈ ps, x = if e.id == p then { e with state := st } else e := by
  unfold setState
  simp only [List.mem_map]
  constructor
  · rintro ⟨e, he, rfl⟩; exact ⟨e, he, rfl⟩
  · rintro ⟨e, he, rfl⟩; exact ⟨e, he, rfl⟩

theorem mem_tryAdd (ps : PS P) (p r : P) (x : PEntry P) :
    x ∈ tryAdd ps p r ↔ (x ∈ ps ∨ (p ∉ ids ps ∧ x = ⟨p, .heard, r⟩)) := by
  unfold tryAdd
  by_cases h : ps.any (·.id == p) = true
  · have : p ∈ ids ps := by
      obtain ⟨e, he, hep⟩ := List.any_eq_true.1 h
      exact List.mem_map.2 ⟨e, he, by simpa using hep⟩
    simp [h, this]
  · have : p ∉ ids ps := by
      intro hm
      obtain ⟨e, he, hep⟩ := List.mem_map.1 hm
      exact h (List.any_eq_true.2 ⟨e, he, by simp [hep]⟩)
    simp [h, this]

/-! ### the `heard` loop of `updateState` -/

def addHeard (cfg : Cfg P) (ps : PS P) (cause : P) (hs : List P) : PS P :=
  hs.foldl (fun acc p => if p == cfg.self then acc else tryAdd acc p cause) ps

theorem mem_ids_addHeard (cfg : Cfg P) (ps : PS P) (cause : P) (hs : List P) (p : P) :
    p ∈ ids (addHeard cfg ps cause hs) ↔ (p ∈ ids ps ∨ (p ∈ hs ∧ p ≠ cfg.self)) := by
  unfold addHeard
  induction hs generalizing ps with
  | nil => simp
  | cons h hs ih =>
    simp only [List.foldl_cons]
    rw [ih]
    by_cases hself : h = cfg.self
    · simp only [hself, beq_self_eq_true, ↓reduceIte, List.mem_cons]
      constructor
      · rintro (h1 | ⟨h1, h2⟩)
        · exact Or.inl h1
        · exact Or.inr ⟨Or.inr h1, h2⟩
      · rintro (h1 | ⟨h1 | h1, h2⟩)
        · exact Or.inl h1
        · exact absurd h1 h2
        · exact Or.inr ⟨h1, h2⟩
    · have : (h == cfg.self) = false := by simpa using hself
      simp only [this, Bool.false_eq_true, ↓reduceIte, ids_tryAdd, List.mem_cons]
      by_cases hin : h ∈ ids ps
      · simp only [hin, ↓reduceIte]
        constructor
        · rintro (h1 | ⟨h1, h2⟩)
          · exact Or.inl h1
          · exact Or.inr ⟨Or.inr h1, h2⟩
        · rintro (h1 | ⟨rfl | h1, h2⟩)
          · exact Or.inl h1
          · exact Or.inl hin
          · exact Or.inr ⟨h1, h2⟩
      · simp only [hin, ↓reduceIte, List.mem_append, List.mem_singleton]
        constructor
        · rintro ((h1 | rfl) | ⟨h1, h2⟩)
          · exact Or.inl h1
          · exact Or.inr ⟨Or.inl rfl, hself⟩
          · exact Or.inr ⟨Or.inr h1, h2⟩
        · rintro (h1 | ⟨rfl | h1, h2⟩)
          · exact Or.inl (Or.inl h1)
          · exact Or.inl (Or.inr rfl)
          · exact Or.inr ⟨h1, h2⟩

theorem addHeard_nodup (cfg : Cfg P) (ps : PS P) (cause : P) (hs : List P) (h : (ids ps).Nodup) :
    (ids (addHeard cfg ps cause hs)).Nodup := by
  unfold addHeard
  induction hs generalizing ps with
  | nil => simpa
  | cons x hs ih =>
    simp only [List.foldl_cons]
    apply ih
    split
    · exact h
    · rw [ids_tryAdd]
      split
      · exact h
      · rename_i hx
        rw [List.nodup_append]
        refine ⟨h, by simp, ?_⟩
        intro a ha b hb; simp at hb; subst hb; intro heq; subst heq; exact hx ha

/-- the loop only appends: old entries stay as they are, new ones are `heard` -/
theorem mem_addHeard (cfg : Cfg P) (ps : PS P) (cause : P) (hs : List P) (x : PEntry P) :
    x ∈ addHeard cfg ps cause hs → (x ∈ ps ∨ (x.state = .heard ∧ x.id ∉ ids ps)) := by
  unfold addHeard
  induction hs generalizing ps with
  | nil => intro h; exact Or.inl h
  | cons a hs ih =>
    simp only [List.foldl_cons]
    intro h
    rcases ih _ h with h1 | ⟨h1, h2⟩
    · split at h1
      · exact Or.inl h1
      · rcases (mem_tryAdd _ _ _ _).1 h1 with h3 | ⟨h3, rfl⟩
        · exact Or.inl h3
        · exact Or.inr ⟨rfl, h3⟩
    · refine Or.inr ⟨h1, ?_⟩
      intro hx; apply h2
      split
      · exact hx
      · rw [ids_tryAdd]; split
        · exact hx
        · exact List.mem_append_left _ hx

theorem addHeard_keeps (cfg : Cfg P) (ps : PS P) (cause : P) (hs : List P) (x : PEntry P) (hx : x ∈ ps) :
    x ∈ addHeard cfg ps cause hs := by
  unfold addHeard
  induction hs generalizing ps with
  | nil => exact hx
  | cons a hs ih =>
    simp only [List.foldl_cons]
    apply ih
    split
    · exact hx
    · exact (mem_tryAdd _ _ _ _).2 (Or.inl hx)

/-! ### `updateState` on the three kinds of update the loop ever sees -/

theorem applyUpdate_fail (cfg : Cfg P) (ps : PS P) (p : P) :
    applyUpdate cfg ps { cause := p, unreachable := [p] } =
      if p == cfg.self then .ok ps
      else if getState ps p == some .waiting then .ok (setState ps p .unreachable)
      else .error (Panic.badTransition "unreachable") := by
  by_cases h1 : p = cfg.self
  · simp [applyUpdate, h1, bind, Except.bind, pure, Except.pure]
  · by_cases h2 : getState ps p = some .waiting
    · simp [applyUpdate, h1, h2, bind, Except.bind, pure, Except.pure]
    · simp [applyUpdate, h1, h2, bind, Except.bind, pure, Except.pure, throw, throwThe, MonadExceptOf.throw]

theorem applyUpdate_resp (cfg : Cfg P) (ps : PS P) (p : P) (hs : List P) :
    applyUpdate cfg ps { cause := p, heard := hs, queried := [p] } =
      if p == cfg.self then .ok (addHeard cfg ps p hs)
      else if getState (addHeard cfg ps p hs) p == some .waiting then .ok (setState (addHeard cfg ps p hs) p .queried)
      else .error (Panic.badTransition "queried") := by
  have e : applyUpdate cfg ps { cause := p, heard := hs, queried := [p] } =
      (do
        let ps2 ← [p].foldlM (fun acc p =>
          if p == cfg.self then pure acc else
          if getState acc p == some .waiting then pure (setState acc p .queried)
          else throw (Panic.badTransition "queried")) (addHeard cfg ps p hs)
        ([] : List P).foldlM (fun acc p =>
          if p == cfg.self then pure acc else
          if getState acc p == some .waiting then pure (setState acc p .unreachable)
          else throw (Panic.badTransition "unreachable")) ps2) := rfl
  rw [e]
  generalize addHeard cfg ps p hs = A
  by_cases h1 : p = cfg.self
  · simp [h1, bind, Except.bind, pure, Except.pure]
  · by_cases h2 : getState A p = some .waiting
    · simp [h1, h2, bind, Except.bind, pure, Except.pure]
    · simp [h1, h2, bind, Except.bind, pure, Except.pure, throw, throwThe, MonadExceptOf.throw]

theorem applyUpdate_seed (cfg : Cfg P) (seeds : List P) :
    applyUpdate cfg [] { cause := cfg.self, heard := seeds } = .ok (addHeard cfg [] cfg.self seeds) := by
  simp [applyUpdate, bind, Except.bind, pure, Except.pure, addHeard]

def stateOf (ps : PS P) (p : P) (st : PState) : Prop := ∃ e ∈ ps, e.id = p ∧ e.state = st

theorem mem_ids_of_mem {ps : PS P} {e : PEntry P} (h : e ∈ ps) : e.id ∈ ids ps := List.mem_map.2 ⟨e, h, rfl⟩

theorem stateOf_unique {ps : PS P} (hn : (ids ps).Nodup) {p : P} {a b : PState} (ha : stateOf ps p a) (hb : stateOf ps p b) :
    a = b := by
  obtain ⟨e1, h1, i1, s1⟩ := ha
  obtain ⟨e2, h2, i2, s2⟩ := hb
  have : e1 = e2 := eq_of_nodup_map (fun (x : PEntry P) => x.id) (l := ps) hn h1 h2 (by show e1.id = e2.id; rw [i1, i2])
  subst this; rw [← s1, ← s2]

/-! ### setting several peers to one state -/

def setStates (ps : PS P) (qs : List P) (st : PState) : PS P := qs.foldl (fun acc p => setState acc p st) ps

theorem ids_setStates (ps : PS P) (qs : List P) (st : PState) : ids (setStates ps qs st) = ids ps := by
  unfold setStates
  induction qs generalizing ps with
  | nil => rfl
  | cons q qs ih => simp only [List.foldl_cons]; rw [ih, ids_setState]

theorem mem_setStates (ps : PS P) (qs : List P) (st : PState) (x : PEntry P) :
    x ∈ setStates ps qs st ↔ ∃ e ∈ ps, x = if e.id ∈ qs then { e with state := st } else e := by
  unfold setStates
  induction qs generalizing ps with
  | nil => simp
  | cons q qs ih =>
    simp only [List.foldl_cons]
    rw [ih]
    constructor
    · rintro ⟨e', he', rfl⟩
      obtain ⟨e, he, rfl⟩ := (mem_setState _ _ _ _).1 he'
      refine ⟨e, he, ?_⟩
      by_cases h1 : e.id = q
      · simp [h1]
      · have : (e.id == q) = false := by simpa using h1
        simp [this, h1]
    · rintro ⟨e, he, rfl⟩
      refine ⟨if e.id == q then { e with state := st } else e, (mem_setState _ _ _ _).2 ⟨e, he, rfl⟩, ?_⟩
      by_cases h1 : e.id = q
      · simp [h1]
      · have : (e.id == q) = false := by simpa using h1
        simp [this, h1]

/-! ### `GetClosestNInStates` -/

theorem mem_closestNIn (cfg : Cfg P) (ps : PS P) (n : Nat) (ok : PState → Bool) (p : P)
    (h : p ∈ closestNIn cfg ps n ok) : ∃ e ∈ ps, e.id = p ∧ ok e.state = true := by
  unfold closestNIn at h
  have := List.mem_of_mem_take h
  obtain ⟨e, he, rfl⟩ := List.mem_map.1 this
  have := List.mem_filter.1 he
  exact ⟨e, (mem_sortBy _ _ _).1 this.1, rfl, this.2⟩

theorem closestNIn_nodup (cfg : Cfg P) (ps : PS P) (n : Nat) (ok : PState → Bool) (hn : (ids ps).Nodup) :
    (closestNIn cfg ps n ok).Nodup := by
  unfold closestNIn
  refine List.Nodup.sublist (List.take_sublist _ _) ?_
  refine List.Nodup.sublist (List.filter_sublist.map _) ?_
  exact ((sortBy_perm _ ps).map _).nodup_iff.2 hn

theorem closestNIn_length (cfg : Cfg P) (ps : PS P) (n : Nat) (ok : PState → Bool) :
    (closestNIn cfg ps n ok).length ≤ n := by
  unfold closestNIn; rw [List.length_take]; exact Nat.min_le_left _ _

/-! ### the loop invariant -/

structure Inv (cfg : Cfg P) (s : LState P) : Prop where
  nodup : (ids s.ps).Nodup
  noSelf : cfg.self ∉ ids s.ps
  inflNodup : s.inflight.Nodup
  inflWaiting : ∀ p ∈ s.inflight, stateOf s.ps p .waiting
  waitingInfl : s.terminated = none → ∀ e ∈ s.ps, e.state = .waiting → e.id ∈ s.inflight

theorem decide_inv (cfg : Cfg P) (s : LState P) (stop : Bool) (h : Inv cfg s) : Inv cfg (decide cfg s stop) := by
  unfold decide
  split
  · exact h
  · split
    · exact ⟨h.nodup, h.noSelf, h.inflNodup, h.inflWaiting, by intro hc; cases hc⟩
    · split
      · exact ⟨h.nodup, h.noSelf, h.inflNodup, h.inflWaiting, by intro hc; cases hc⟩
      · split
        · exact ⟨h.nodup, h.noSelf, h.inflNodup, h.inflWaiting, by intro hc; cases hc⟩
        · -- spawn
          rename_i hterm _ _ _
          have hnone : s.terminated = none := by
            cases ht : s.terminated with
            | none => rfl
            | some r => simp [ht] at hterm
          have hq := mem_closestNIn cfg s.ps (cfg.α - numIn s.ps .waiting) (· == .heard)
          have hqn := closestNIn_nodup cfg s.ps (cfg.α - numIn s.ps .waiting) (· == .heard) h.nodup
          refine ⟨?_, ?_, ?_, ?_, ?_⟩
          · show (ids (setStates s.ps _ .waiting)).Nodup
            rw [ids_setStates]; exact h.nodup
          · show cfg.self ∉ ids (setStates s.ps _ .waiting)
            rw [ids_setStates]; exact h.noSelf
          · show (s.inflight ++ closestNIn cfg s.ps _ _).Nodup
            rw [List.nodup_append]
            refine ⟨h.inflNodup, hqn, ?_⟩
            intro a ha b hb heq
            subst heq
            obtain ⟨e, he, hid, hst⟩ := hq a hb
            have h1 := h.inflWaiting a ha
            have := stateOf_unique h.nodup h1 ⟨e, he, hid, rfl⟩
            rw [← this] at hst; simp at hst
          · intro p hp
            show stateOf (setStates s.ps _ .waiting) p .waiting
            rcases List.mem_append.1 hp with hp | hp
            · obtain ⟨e, he, hid, hst⟩ := h.inflWaiting p hp
              refine ⟨if e.id ∈ closestNIn cfg s.ps _ _ then { e with state := .waiting } else e,
                (mem_setStates _ _ _ _).2 ⟨e, he, rfl⟩, ?_, ?_⟩
              · split <;> exact hid
              · split
                · rfl
                · exact hst
            · obtain ⟨e, he, hid, _⟩ := hq p hp
              refine ⟨{ e with state := .waiting }, (mem_setStates _ _ _ _).2 ⟨e, he, ?_⟩, hid, rfl⟩
              rw [hid]; simp [hp]
          · intro _ x hx hw
            show x.id ∈ s.inflight ++ closestNIn cfg s.ps _ _
            obtain ⟨e, he, rfl⟩ := (mem_setStates _ _ _ _).1 hx
            by_cases hin : e.id ∈ closestNIn cfg s.ps (cfg.α - numIn s.ps .waiting) (· == .heard)
            · simp only [hin, ↓reduceIte]; exact List.mem_append_right _ hin
            · simp only [hin, ↓reduceIte] at hw ⊢
              exact List.mem_append_left _ (h.waitingInfl hnone e he hw)

/-- the state right after an update was applied for the in-flight peer `p` (before `decide`) -/
theorem inv_after_update (cfg : Cfg P) (s : LState P) (p : P) (hs : List P) (st : PState)
    (hst : st = .queried ∨ st = .unreachable) (h : Inv cfg s) (hp : p ∈ s.inflight) (hnone : s.terminated = none) :
    Inv cfg { s with ps := setState (addHeard cfg s.ps p hs) p st, inflight := s.inflight.erase p } := by
  have hne : st ≠ .waiting := by rcases hst with rfl | rfl <;> simp
  refine ⟨?_, ?_, ?_, ?_, ?_⟩
  · show (ids (setState _ p st)).Nodup
    rw [ids_setState]; exact addHeard_nodup cfg s.ps p hs h.nodup
  · show cfg.self ∉ ids (setState _ p st)
    rw [ids_setState]
    intro hm
    rcases (mem_ids_addHeard cfg s.ps p hs cfg.self).1 hm with h1 | ⟨_, h1⟩
    · exact h.noSelf h1
    · exact h1 rfl
  · exact h.inflNodup.erase p
  · intro q hq
    have hq' : q ∈ s.inflight := List.mem_of_mem_erase hq
    have hqp : q ≠ p := by
      intro heq; subst heq
      exact (List.Nodup.mem_erase_iff h.inflNodup).1 hq |>.1 rfl
    obtain ⟨e, he, hid, hw⟩ := h.inflWaiting q hq'
    refine ⟨e, (mem_setState _ _ _ _).2 ⟨e, addHeard_keeps cfg s.ps p hs e he, ?_⟩, hid, hw⟩
    have : (e.id == p) = false := by rw [hid]; simpa using hqp
    simp [this]
  · intro _ x hx hw
    show x.id ∈ s.inflight.erase p
    obtain ⟨e, he, rfl⟩ := (mem_setState _ _ _ _).1 hx
    by_cases hep : e.id = p
    · simp [hep] at hw; exact absurd hw hne
    · have hf : (e.id == p) = false := by simpa using hep
      simp only [hf, Bool.false_eq_true, ↓reduceIte] at hw ⊢
      rcases mem_addHeard cfg s.ps p hs e he with h1 | ⟨h1, _⟩
      · exact (List.Nodup.mem_erase_iff h.inflNodup).2 ⟨hep, h.waitingInfl hnone e h1 hw⟩
      · rw [h1] at hw; cases hw

/-- an in-flight peer is `waiting`, also after the `heard` loop ran -/
theorem getState_inflight (cfg : Cfg P) (s : LState P) (p : P) (hs : List P) (h : Inv cfg s) (hp : p ∈ s.inflight) :
    getState (addHeard cfg s.ps p hs) p = some .waiting ∧ p ≠ cfg.self := by
  obtain ⟨e, he, hid, hw⟩ := h.inflWaiting p hp
  refine ⟨(getState_eq_some_iff _ (addHeard_nodup cfg s.ps p hs h.nodup) p .waiting).2
    ⟨e, addHeard_keeps cfg s.ps p hs e he, hid, hw⟩, ?_⟩
  intro heq
  apply h.noSelf
  rw [← heq, ← hid]; exact mem_ids_of_mem he

theorem addHeard_nil (cfg : Cfg P) (ps : PS P) (c : P) : addHeard cfg ps c [] = ps := rfl

/-- One loop iteration never hits a protocol panic and keeps the invariant — whatever the event. -/
theorem step_ok (cfg : Cfg P) (accept : P → Bool) (stop : LState P → Bool) (s : LState P) (e : Ev P) (h : Inv cfg s) :
    ∃ s', step cfg accept stop s e = .ok s' ∧ Inv cfg s' := by
  cases e with
  | cancel =>
    simp only [step]
    split
    · exact ⟨s, rfl, h⟩
    · exact ⟨_, rfl, ⟨h.nodup, h.noSelf, h.inflNodup, h.inflWaiting, by intro hc; cases hc⟩⟩
  | deliver p o =>
    simp only [step]
    split
    · rename_i ht
      refine ⟨_, rfl, ⟨h.nodup, h.noSelf, h.inflNodup.erase p, fun q hq => h.inflWaiting q (List.mem_of_mem_erase hq), ?_⟩⟩
      intro hc; simp only at hc; rw [hc] at ht; simp at ht
    · rename_i ht
      have hnone : s.terminated = none := by
        cases hx : s.terminated with
        | none => rfl
        | some r => simp [hx] at ht
      split
      · exact ⟨s, rfl, h⟩
      · rename_i hp
        have hp' : p ∈ s.inflight := by simpa using hp
        cases o with
        | fail =>
          have hg := getState_inflight cfg s p [] h hp'
          rw [addHeard_nil] at hg
          simp only [applyUpdate_fail]
          have h1 : (p == cfg.self) = false := by simpa using hg.2
          simp only [h1, Bool.false_eq_true, ↓reduceIte, hg.1, beq_self_eq_true, bind, Except.bind, pure, Except.pure]
          have hinv := inv_after_update cfg s p [] .unreachable (Or.inr rfl) h hp' hnone
          rw [addHeard_nil] at hinv
          exact ⟨_, rfl, decide_inv cfg _ _ hinv⟩
        | resp peers =>
          have hg := getState_inflight cfg s p (ingest cfg accept peers) h hp'
          simp only [applyUpdate_resp]
          have h1 : (p == cfg.self) = false := by simpa using hg.2
          simp only [h1, Bool.false_eq_true, ↓reduceIte, hg.1, beq_self_eq_true, bind, Except.bind, pure, Except.pure]
          have hinv := inv_after_update cfg s p (ingest cfg accept peers) .queried (Or.inl rfl) h hp' hnone
          exact ⟨_, rfl, decide_inv cfg _ _ hinv⟩

theorem start_ok (cfg : Cfg P) (stop : LState P → Bool) (seeds : List P) :
    ∃ s, start cfg stop seeds = .ok s ∧ Inv cfg s := by
  simp only [start, applyUpdate_seed, bind, Except.bind, pure, Except.pure]
  refine ⟨_, rfl, decide_inv cfg _ _ ⟨?_, ?_, List.nodup_nil, by simp, ?_⟩⟩
  rotate_left 2
  · intro _ e he hw
    rcases mem_addHeard cfg [] cfg.self seeds e he with h1 | ⟨h1, _⟩
    · cases h1
    · rw [h1] at hw; cases hw
  · exact addHeard_nodup cfg [] cfg.self seeds (by simp [ids])
  · intro hm
    rcases (mem_ids_addHeard cfg [] cfg.self seeds cfg.self).1 hm with h1 | ⟨_, h1⟩
    · simp [ids] at h1
    · exact h1 rfl

theorem runEvs_ok (cfg : Cfg P) (accept : P → Bool) (stop : LState P → Bool) (s : LState P) (evs : List (Ev P))
    (h : Inv cfg s) : ∃ s', runEvs cfg accept stop s evs = .ok s' ∧ Inv cfg s' := by
  induction evs generalizing s with
  | nil => exact ⟨s, rfl, h⟩
  | cons e es ih =>
    obtain ⟨s1, h1, hi1⟩ := step_ok cfg accept stop s e h
    obtain ⟨s2, h2, hi2⟩ := ih s1 hi1
    exact ⟨s2, by simp only [runEvs, h1, bind, Except.bind]; exact h2, hi2⟩

/-- what a delivered outcome contributes: the peers heard and the state the queried peer moves to -/
def outcomeHeard (cfg : Cfg P) (accept : P → Bool) : Outcome P → List P
  | .fail => []
  | .resp peers => ingest cfg accept peers

def outcomeState : Outcome P → PState
  | .fail => .unreachable
  | .resp _ => .queried

/-- the explicit form of a loop iteration that processes an update -/
theorem step_deliver_eq (cfg : Cfg P) (accept : P → Bool) (stop : LState P → Bool) (s : LState P) (p : P) (o : Outcome P)
    (h : Inv cfg s) (hnone : s.terminated = none) (hp : p ∈ s.inflight) :
    step cfg accept stop s (.deliver p o) =
      .ok (decide cfg { s with ps := setState (addHeard cfg s.ps p (outcomeHeard cfg accept o)) p (outcomeState o),
                               inflight := s.inflight.erase p }
            (stop { s with ps := setState (addHeard cfg s.ps p (outcomeHeard cfg accept o)) p (outcomeState o),
                           inflight := s.inflight.erase p })) := by
  have hc : s.inflight.contains p = true := by simpa using hp
  cases o with
  | fail =>
    have hg := getState_inflight cfg s p [] h hp
    rw [addHeard_nil] at hg
    have h1 : (p == cfg.self) = false := by simpa using hg.2
    simp only [step, hnone, Option.isSome_none, Bool.false_eq_true, ↓reduceIte, hc, Bool.not_true, applyUpdate_fail, h1, hg.1,
      beq_self_eq_true, bind, Except.bind, pure, Except.pure, outcomeHeard, outcomeState, addHeard_nil]
  | resp peers =>
    have hg := getState_inflight cfg s p (ingest cfg accept peers) h hp
    have h1 : (p == cfg.self) = false := by simpa using hg.2
    simp only [step, hnone, Option.isSome_none, Bool.false_eq_true, ↓reduceIte, hc, Bool.not_true, applyUpdate_resp, h1, hg.1,
      beq_self_eq_true, bind, Except.bind, pure, Except.pure, outcomeHeard, outcomeState]

theorem ids_decide (cfg : Cfg P) (s : LState P) (stop : Bool) : ids (decide cfg s stop).ps = ids s.ps := by
  unfold decide
  split
  · rfl
  · split
    · rfl
    · split
      · rfl
      · split
        · rfl
        · exact ids_setStates _ _ _

/-- a loop iteration only ever learns peers named in the response it processes -/
theorem step_ids (cfg : Cfg P) (accept : P → Bool) (stop : LState P → Bool) (s s' : LState P) (e : Ev P) (h : Inv cfg s)
    (hs : step cfg accept stop s e = .ok s') (q : P) (hq : q ∈ ids s'.ps) :
    q ∈ ids s.ps ∨ ∃ p peers, e = .deliver p (.resp peers) ∧ q ∈ ingest cfg accept peers := by
  cases e with
  | cancel =>
    simp only [step] at hs
    split at hs <;> (cases hs; exact Or.inl hq)
  | deliver p o =>
    by_cases hnone : s.terminated = none
    · by_cases hp : p ∈ s.inflight
      · rw [step_deliver_eq cfg accept stop s p o h hnone hp] at hs
        cases hs
        rw [ids_decide] at hq
        simp only [ids_setState] at hq
        rcases (mem_ids_addHeard _ _ _ _ _).1 hq with h1 | ⟨h1, _⟩
        · exact Or.inl h1
        · cases o with
          | fail => simp [outcomeHeard] at h1
          | resp peers => exact Or.inr ⟨p, peers, rfl, h1⟩
      · have hc : s.inflight.contains p = false := by simpa using hp
        simp only [step, hnone, Option.isSome_none, Bool.false_eq_true, ↓reduceIte, hc, Bool.not_false] at hs
        cases hs; exact Or.inl hq
    · have : s.terminated.isSome = true := by
        cases hx : s.terminated with
        | none => exact absurd hx hnone
        | some _ => rfl
      simp only [step, this, ↓reduceIte] at hs
      cases hs; exact Or.inl hq

/-- the peers named by the responses of a schedule (after the 2K cap, without self, after the filter) -/
def namedBy (cfg : Cfg P) (accept : P → Bool) : List (Ev P) → List P
  | [] => []
  | .deliver _ (.resp peers) :: es => ingest cfg accept peers ++ namedBy cfg accept es
  | _ :: es => namedBy cfg accept es

theorem runEvs_ids (cfg : Cfg P) (accept : P → Bool) (stop : LState P → Bool) (s s' : LState P) (evs : List (Ev P))
    (h : Inv cfg s) (hs : runEvs cfg accept stop s evs = .ok s') (q : P) (hq : q ∈ ids s'.ps) :
    q ∈ ids s.ps ∨ q ∈ namedBy cfg accept evs := by
  induction evs generalizing s with
  | nil => simp only [runEvs, pure, Except.pure] at hs; cases hs; exact Or.inl hq
  | cons e es ih =>
    obtain ⟨s1, h1, hi1⟩ := step_ok cfg accept stop s e h
    simp only [runEvs, h1, bind, Except.bind] at hs
    rcases ih s1 hi1 hs with h2 | h2
    · rcases step_ids cfg accept stop s s1 e h h1 q h2 with h3 | ⟨p, peers, rfl, h3⟩
      · exact Or.inl h3
      · exact Or.inr (by simp only [namedBy]; exact List.mem_append_left _ h3)
    · refine Or.inr ?_
      cases e with
      | cancel => exact h2
      | deliver p o =>
        cases o with
        | fail => exact h2
        | resp peers => simp only [namedBy]; exact List.mem_append_right _ h2

theorem start_ids (cfg : Cfg P) (stop : LState P → Bool) (seeds : List P) (s : LState P)
    (hs : start cfg stop seeds = .ok s) (q : P) (hq : q ∈ ids s.ps) : q ∈ seeds := by
  simp only [start, applyUpdate_seed, bind, Except.bind, pure, Except.pure] at hs
  cases hs
  rw [ids_decide] at hq
  rcases (mem_ids_addHeard _ _ _ _ _).1 hq with h1 | ⟨h1, _⟩
  · simp [ids] at h1
  · exact h1

/-- "nearer to the key" is a strict total order on peers (distinct peers have distinct identifiers) -/
structure OrderOK (cfg : Cfg P) : Prop where
  irrefl : ∀ a, cfg.lt a a = false
  trans : ∀ a b c, cfg.lt a b = true → cfg.lt b c = true → cfg.lt a c = true
  total : ∀ a b, a ≠ b → cfg.lt a b = true ∨ cfg.lt b a = true

theorem OrderOK.asymm {cfg : Cfg P} (h : OrderOK cfg) (a b : P) (hab : cfg.lt a b = true) : cfg.lt b a = false := by
  cases hba : cfg.lt b a with
  | false => rfl
  | true => have := h.trans a b a hab hba; rw [h.irrefl] at this; cases this

theorem OrderOK.weak {cfg : Cfg P} (h : OrderOK cfg) : WeakOrder (fun (a b : PEntry P) => cfg.lt a.id b.id) := by
  refine ⟨fun a b hab => h.asymm _ _ hab, ?_⟩
  intro a b c h1 h2
  cases hca : cfg.lt c.id a.id with
  | false => rfl
  | true =>
    by_cases hab : a.id = b.id
    · have h2' : cfg.lt c.id b.id = false := h2
      rw [← hab, hca] at h2'; cases h2'
    · rcases h.total _ _ hab with h3 | h3
      · have h2' : cfg.lt c.id b.id = false := h2
        rw [h.trans _ _ _ hca h3] at h2'; cases h2'
      · have h1' : cfg.lt b.id a.id = false := h1
        rw [h3] at h1'; cases h1'

/-- the sorted, filtered id list `closestNIn` takes its prefix from -/
def candidates (cfg : Cfg P) (ps : PS P) (ok : PState → Bool) : List P :=
  ((sortBy (fun a b => cfg.lt a.id b.id) ps).filter fun e => ok e.state).map (·.id)

theorem closestNIn_eq_take (cfg : Cfg P) (ps : PS P) (n : Nat) (ok : PState → Bool) :
    closestNIn cfg ps n ok = (candidates cfg ps ok).take n := rfl

theorem mem_candidates (cfg : Cfg P) (ps : PS P) (ok : PState → Bool) (p : P) :
    p ∈ candidates cfg ps ok ↔ ∃ e ∈ ps, e.id = p ∧ ok e.state = true := by
  unfold candidates
  simp only [List.mem_map, List.mem_filter, mem_sortBy]
  constructor
  · rintro ⟨e, ⟨he, hok⟩, rfl⟩; exact ⟨e, he, rfl, hok⟩
  · rintro ⟨e, he, rfl, hok⟩; exact ⟨e, ⟨he, hok⟩, rfl⟩

theorem candidates_nodup (cfg : Cfg P) (ps : PS P) (ok : PState → Bool) (hn : (ids ps).Nodup) :
    (candidates cfg ps ok).Nodup := by
  unfold candidates
  refine List.Nodup.sublist (List.filter_sublist.map _) ?_
  exact ((sortBy_perm _ ps).map _).nodup_iff.2 hn

/-- candidates are in strictly ascending distance -/
theorem candidates_ascending (cfg : Cfg P) (ho : OrderOK cfg) (ps : PS P) (ok : PState → Bool) (hn : (ids ps).Nodup) :
    (candidates cfg ps ok).Pairwise (fun a b => cfg.lt a b = true) := by
  have hs := sortBy_sorted (fun (a b : PEntry P) => cfg.lt a.id b.id) ho.weak ps
  have h1 : ((sortBy (fun a b => cfg.lt a.id b.id) ps).filter fun e => ok e.state).Pairwise
      (NotAfter fun (a b : PEntry P) => cfg.lt a.id b.id) := hs.sublist List.filter_sublist
  have h2 : (candidates cfg ps ok).Pairwise (fun a b => cfg.lt b a = false) := by
    unfold candidates
    rw [List.pairwise_map]
    exact h1
  have hnd := candidates_nodup cfg ps ok hn
  -- distinct + "not after" = strictly before
  have : (candidates cfg ps ok).Pairwise (fun a b => cfg.lt b a = false ∧ a ≠ b) :=
    List.Pairwise.and h2 hnd
  refine this.imp ?_
  intro a b ⟨h3, h4⟩
  rcases ho.total a b h4 with h5 | h5
  · exact h5
  · rw [h5] at h3; cases h3

theorem take_ascending_before_rest {lt : P → P → Bool} (l : List P) (h : l.Pairwise (fun a b => lt a b = true)) (n : Nat)
    (q : P) (hq : q ∈ l) (hnq : q ∉ l.take n) : (l.take n).length = n ∧ ∀ p ∈ l.take n, lt p q = true := by
  have hd : q ∈ l.drop n := by
    have := List.take_append_drop n l
    rw [← this] at hq
    rcases List.mem_append.1 hq with h1 | h1
    · exact absurd h1 hnq
    · exact h1
  refine ⟨?_, fun p hp => take_le_drop l h n p hp q hd⟩
  rw [List.length_take]
  have : n < l.length := by
    by_cases hlt : n < l.length
    · exact hlt
    · rw [List.drop_eq_nil_of_le (by omega)] at hd; cases hd
  omega

/-! ### counting: the in-flight queries are exactly the `waiting` peers, at most α of them -/

theorem numIn_eq_length_of_bij (ps : PS P) (l : List P) (hn : (ids ps).Nodup) (hl : l.Nodup)
    (h1 : ∀ p ∈ l, stateOf ps p .waiting) (h2 : ∀ e ∈ ps, e.state = .waiting → e.id ∈ l) :
    numIn ps .waiting = l.length := by
  unfold numIn
  have hnd : ((ps.filter (·.state == .waiting)).map (·.id)).Nodup :=
    List.Nodup.sublist (List.filter_sublist.map _) hn
  have hperm : ((ps.filter (·.state == .waiting)).map (·.id)).Perm l := by
    rw [List.perm_ext_iff_of_nodup hnd hl]
    intro a
    simp only [List.mem_map, List.mem_filter, beq_iff_eq]
    constructor
    · rintro ⟨e, ⟨he, hw⟩, rfl⟩; exact h2 e he hw
    · intro ha
      obtain ⟨e, he, hid, hw⟩ := h1 a ha
      exact ⟨e, ⟨he, hw⟩, hid⟩
  have := hperm.length_eq
  simpa using this

structure Inv2 (cfg : Cfg P) (s : LState P) : Prop where
  base : Inv cfg s
  bound : s.inflight.length ≤ cfg.α
  /-- while the search runs something is in flight: the loop never waits for nothing -/
  progress : s.terminated = none → s.inflight ≠ []

theorem numIn_waiting (cfg : Cfg P) (s : LState P) (h : Inv cfg s) (hnone : s.terminated = none) :
    numIn s.ps .waiting = s.inflight.length :=
  numIn_eq_length_of_bij s.ps s.inflight h.nodup h.inflNodup h.inflWaiting (h.waitingInfl hnone)

theorem numIn_zero_iff (ps : PS P) (st : PState) : numIn ps st = 0 ↔ ∀ e ∈ ps, e.state ≠ st := by
  unfold numIn
  rw [List.length_eq_zero_iff, List.filter_eq_nil_iff]
  simp

theorem closestNIn_heard_ne_nil (cfg : Cfg P) (ps : PS P) (n : Nat) (hn : 0 < n) (hh : numIn ps .heard ≠ 0) :
    closestNIn cfg ps n (· == .heard) ≠ [] := by
  intro hnil
  apply hh
  rw [numIn_zero_iff]
  intro e he hs
  have : e.id ∈ candidates cfg ps (· == .heard) := (mem_candidates _ _ _ _).2 ⟨e, he, rfl, by simp [hs]⟩
  rw [closestNIn_eq_take] at hnil
  cases hc : candidates cfg ps (· == .heard) with
  | nil => rw [hc] at this; cases this
  | cons a l =>
    rw [hc] at hnil
    cases n with
    | zero => omega
    | succ m => simp at hnil

theorem decide_inv2 (cfg : Cfg P) (hα : 1 ≤ cfg.α) (s : LState P) (stop : Bool) (h : Inv cfg s)
    (hb : s.inflight.length ≤ cfg.α) : Inv2 cfg (decide cfg s stop) := by
  refine ⟨decide_inv cfg s stop h, ?_, ?_⟩
  · unfold decide
    split
    · exact hb
    · split
      · exact hb
      · split
        · exact hb
        · split
          · exact hb
          · rename_i ht _ _ _
            have hnone : s.terminated = none := by
              cases hx : s.terminated with
              | none => rfl
              | some r => simp [hx] at ht
            show (s.inflight ++ closestNIn cfg s.ps _ _).length ≤ cfg.α
            rw [List.length_append]
            have := closestNIn_length cfg s.ps (cfg.α - numIn s.ps .waiting) (· == .heard)
            rw [numIn_waiting cfg s h hnone] at this ⊢
            omega
  · unfold decide
    split
    · rename_i ht; intro hc; rw [hc] at ht; simp at ht
    · split
      · intro hc; cases hc
      · split
        · intro hc; cases hc
        · split
          · intro hc; cases hc
          · rename_i ht _ hstarv _
            have hnone : s.terminated = none := by
              cases hx : s.terminated with
              | none => rfl
              | some r => simp [hx] at ht
            intro _
            show s.inflight ++ closestNIn cfg s.ps _ _ ≠ []
            by_cases hi : s.inflight = []
            · -- nothing waiting: then something is heard (no starvation) and α ≥ 1 queries are spawned
              have hw : numIn s.ps .waiting = 0 := by rw [numIn_waiting cfg s h hnone, hi]; rfl
              have hh : numIn s.ps .heard ≠ 0 := by
                intro h0
                apply hstarv
                simp [starvation, h0, hw]
              have := closestNIn_heard_ne_nil cfg s.ps (cfg.α - numIn s.ps .waiting) (by rw [hw]; omega) hh
              intro hc
              exact this (List.append_eq_nil_iff.1 hc).2
            · intro hc; exact hi (List.append_eq_nil_iff.1 hc).1

theorem step_inv2 (cfg : Cfg P) (hα : 1 ≤ cfg.α) (accept : P → Bool) (stop : LState P → Bool) (s s' : LState P) (e : Ev P)
    (h : Inv2 cfg s) (hs : step cfg accept stop s e = .ok s') : Inv2 cfg s' := by
  cases e with
  | cancel =>
    simp only [step] at hs
    split at hs
    · cases hs; exact h
    · cases hs
      exact ⟨⟨h.base.nodup, h.base.noSelf, h.base.inflNodup, h.base.inflWaiting, by intro hc; cases hc⟩, h.bound,
        by intro hc; cases hc⟩
  | deliver p o =>
    by_cases hnone : s.terminated = none
    · by_cases hp : p ∈ s.inflight
      · rw [step_deliver_eq cfg accept stop s p o h.base hnone hp] at hs
        cases hs
        refine decide_inv2 cfg hα _ _ ?_ ?_
        · cases o with
          | fail => exact inv_after_update cfg s p _ .unreachable (Or.inr rfl) h.base hp hnone
          | resp peers => exact inv_after_update cfg s p _ .queried (Or.inl rfl) h.base hp hnone
        · show (s.inflight.erase p).length ≤ cfg.α
          have := List.length_erase_of_mem hp
          have := h.bound
          omega
      · have hc : s.inflight.contains p = false := by simpa using hp
        simp only [step, hnone, Option.isSome_none, Bool.false_eq_true, ↓reduceIte, hc, Bool.not_false] at hs
        cases hs; exact h
    · have hsome : s.terminated.isSome = true := by
        cases hx : s.terminated with
        | none => exact absurd hx hnone
        | some _ => rfl
      simp only [step, hsome, ↓reduceIte] at hs
      cases hs
      refine ⟨⟨h.base.nodup, h.base.noSelf, h.base.inflNodup.erase p,
        fun q hq => h.base.inflWaiting q (List.mem_of_mem_erase hq), ?_⟩, ?_, ?_⟩
      · intro hc; exact absurd hc hnone
      · show (s.inflight.erase p).length ≤ cfg.α
        have := List.length_erase_le (a := p) (l := s.inflight)
        have := h.bound
        omega
      · intro hc; exact absurd hc hnone

theorem start_inv2 (cfg : Cfg P) (hα : 1 ≤ cfg.α) (stop : LState P → Bool) (seeds : List P) (s : LState P)
    (hs : start cfg stop seeds = .ok s) : Inv2 cfg s := by
  simp only [start, applyUpdate_seed, bind, Except.bind, pure, Except.pure] at hs
  cases hs
  refine decide_inv2 cfg hα _ _ ⟨?_, ?_, List.nodup_nil, by simp, ?_⟩ (by simp)
  · exact addHeard_nodup cfg [] cfg.self seeds (by simp [ids])
  · intro hm
    rcases (mem_ids_addHeard cfg [] cfg.self seeds cfg.self).1 hm with h1 | ⟨_, h1⟩
    · simp [ids] at h1
    · exact h1 rfl
  · intro _ e he hw
    rcases mem_addHeard cfg [] cfg.self seeds e he with h1 | ⟨h1, _⟩
    · cases h1
    · rw [h1] at hw; cases hw

theorem runEvs_inv2 (cfg : Cfg P) (hα : 1 ≤ cfg.α) (accept : P → Bool) (stop : LState P → Bool) (s s' : LState P)
    (evs : List (Ev P)) (h : Inv2 cfg s) (hs : runEvs cfg accept stop s evs = .ok s') : Inv2 cfg s' := by
  induction evs generalizing s with
  | nil => simp only [runEvs, pure, Except.pure] at hs; cases hs; exact h
  | cons e es ih =>
    obtain ⟨s1, h1, _⟩ := step_ok cfg accept stop s e h.base
    simp only [runEvs, h1, bind, Except.bind] at hs
    exact ih s1 (step_inv2 cfg hα accept stop s s1 e h h1) hs

/-! ### every peer is asked at most once in the search phase; a terminated search is frozen -/

structure Inv3 (cfg : Cfg P) (s : LState P) : Prop where
  base : Inv cfg s
  spawnedNodup : s.spawned.Nodup
  /-- a spawned peer is never `heard` again -/
  spawnedNotHeard : ∀ p ∈ s.spawned, ¬ stateOf s.ps p .heard
  spawnedKnown : ∀ p ∈ s.spawned, p ∈ ids s.ps

theorem stateOf_setState_other (ps : PS P) (p q : P) (st a : PState) (hqp : q ≠ p) :
    stateOf (setState ps p st) q a ↔ stateOf ps q a := by
  unfold stateOf
  constructor
  · rintro ⟨x, hx, hid, hs⟩
    obtain ⟨e, he, rfl⟩ := (mem_setState _ _ _ _).1 hx
    by_cases hep : e.id = p
    · simp [hep] at hid; exact absurd hid.symm hqp
    · have : (e.id == p) = false := by simpa using hep
      simp only [this, Bool.false_eq_true, ↓reduceIte] at hid hs
      exact ⟨e, he, hid, hs⟩
  · rintro ⟨e, he, hid, hs⟩
    refine ⟨e, (mem_setState _ _ _ _).2 ⟨e, he, ?_⟩, hid, hs⟩
    have : (e.id == p) = false := by rw [hid]; simpa using hqp
    simp [this]

/-- `decide` either leaves peer set and spawn list alone or spawns the nearest `heard` peers -/
theorem decide_cases (cfg : Cfg P) (s : LState P) (stop : Bool) :
    ((decide cfg s stop).ps = s.ps ∧ (decide cfg s stop).spawned = s.spawned) ∨
    ((decide cfg s stop).ps = setStates s.ps (closestNIn cfg s.ps (cfg.α - numIn s.ps .waiting) (· == .heard)) .waiting ∧
     (decide cfg s stop).spawned = s.spawned ++ closestNIn cfg s.ps (cfg.α - numIn s.ps .waiting) (· == .heard)) := by
  unfold decide
  split
  · exact Or.inl ⟨rfl, rfl⟩
  · split
    · exact Or.inl ⟨rfl, rfl⟩
    · split
      · exact Or.inl ⟨rfl, rfl⟩
      · split
        · exact Or.inl ⟨rfl, rfl⟩
        · exact Or.inr ⟨rfl, rfl⟩

theorem decide_inv3 (cfg : Cfg P) (s : LState P) (stop : Bool) (h : Inv3 cfg s) : Inv3 cfg (decide cfg s stop) := by
  refine ⟨decide_inv cfg s stop h.base, ?_, ?_, ?_⟩
  · rcases decide_cases cfg s stop with ⟨_, h2⟩ | ⟨_, h2⟩
    · rw [h2]; exact h.spawnedNodup
    · rw [h2]
      have hq := mem_closestNIn cfg s.ps (cfg.α - numIn s.ps .waiting) (· == .heard)
      rw [List.nodup_append]
      refine ⟨h.spawnedNodup, closestNIn_nodup _ _ _ _ h.base.nodup, ?_⟩
      intro a ha b hb heq
      subst heq
      obtain ⟨e, he, hid, hst⟩ := hq a hb
      exact h.spawnedNotHeard a ha ⟨e, he, hid, by simpa using hst⟩
  · rcases decide_cases cfg s stop with ⟨h1, h2⟩ | ⟨h1, h2⟩
    · rw [h1, h2]; exact h.spawnedNotHeard
    · rw [h1, h2]
      intro p hp
      rintro ⟨x, hx, hid, hs⟩
      obtain ⟨e, he, rfl⟩ := (mem_setStates _ _ _ _).1 hx
      by_cases hin : e.id ∈ closestNIn cfg s.ps (cfg.α - numIn s.ps .waiting) (· == .heard)
      · simp [hin] at hs
      · simp only [hin, ↓reduceIte] at hid hs
        rcases List.mem_append.1 hp with hp | hp
        · exact h.spawnedNotHeard p hp ⟨e, he, hid, hs⟩
        · rw [← hid] at hp; exact hin hp
  · rcases decide_cases cfg s stop with ⟨h1, h2⟩ | ⟨h1, h2⟩
    · rw [h1, h2]; exact h.spawnedKnown
    · rw [h1, h2]
      intro p hp
      rw [ids_setStates]
      rcases List.mem_append.1 hp with hp | hp
      · exact h.spawnedKnown p hp
      · obtain ⟨e, he, hid, _⟩ := mem_closestNIn _ _ _ _ _ hp
        rw [← hid]; exact mem_ids_of_mem he

theorem step_inv3 (cfg : Cfg P) (accept : P → Bool) (stop : LState P → Bool) (s s' : LState P) (e : Ev P)
    (h : Inv3 cfg s) (hs : step cfg accept stop s e = .ok s') : Inv3 cfg s' := by
  cases e with
  | cancel =>
    simp only [step] at hs
    split at hs
    · cases hs; exact h
    · cases hs
      exact ⟨⟨h.base.nodup, h.base.noSelf, h.base.inflNodup, h.base.inflWaiting, by intro hc; cases hc⟩,
        h.spawnedNodup, h.spawnedNotHeard, h.spawnedKnown⟩
  | deliver p o =>
    by_cases hnone : s.terminated = none
    · by_cases hp : p ∈ s.inflight
      · rw [step_deliver_eq cfg accept stop s p o h.base hnone hp] at hs
        cases hs
        apply decide_inv3
        have hbase : Inv cfg { s with ps := setState (addHeard cfg s.ps p (outcomeHeard cfg accept o)) p (outcomeState o),
                                      inflight := s.inflight.erase p } := by
          cases o with
          | fail => exact inv_after_update cfg s p _ .unreachable (Or.inr rfl) h.base hp hnone
          | resp peers => exact inv_after_update cfg s p _ .queried (Or.inl rfl) h.base hp hnone
        refine ⟨hbase, h.spawnedNodup, ?_, ?_⟩
        · intro q hq
          show ¬ stateOf (setState (addHeard cfg s.ps p _) p _) q .heard
          rintro ⟨x, hx, hid, hst⟩
          obtain ⟨e, he, rfl⟩ := (mem_setState _ _ _ _).1 hx
          by_cases hep : e.id = p
          · simp only [hep, beq_self_eq_true, ↓reduceIte] at hst
            cases o <;> simp [outcomeState] at hst
          · have hf : (e.id == p) = false := by simpa using hep
            simp only [hf, Bool.false_eq_true, ↓reduceIte] at hid hst
            rcases mem_addHeard cfg s.ps p _ e he with h1 | ⟨_, h2⟩
            · exact h.spawnedNotHeard q hq ⟨e, h1, hid, hst⟩
            · rw [hid] at h2; exact h2 (h.spawnedKnown q hq)
        · intro q hq
          show q ∈ ids (setState (addHeard cfg s.ps p _) p _)
          rw [ids_setState]
          exact (mem_ids_addHeard _ _ _ _ _).2 (Or.inl (h.spawnedKnown q hq))
      · have hc : s.inflight.contains p = false := by simpa using hp
        simp only [step, hnone, Option.isSome_none, Bool.false_eq_true, ↓reduceIte, hc, Bool.not_false] at hs
        cases hs; exact h
    · have hsome : s.terminated.isSome = true := by
        cases hx : s.terminated with
        | none => exact absurd hx hnone
        | some _ => rfl
      simp only [step, hsome, ↓reduceIte] at hs
      cases hs
      exact ⟨⟨h.base.nodup, h.base.noSelf, h.base.inflNodup.erase p,
        fun q hq => h.base.inflWaiting q (List.mem_of_mem_erase hq), by intro hc; exact absurd hc hnone⟩,
        h.spawnedNodup, h.spawnedNotHeard, h.spawnedKnown⟩

/-- once terminated, the peer set and the list of queries issued never change again -/
theorem step_frozen (cfg : Cfg P) (accept : P → Bool) (stop : LState P → Bool) (s s' : LState P) (e : Ev P)
    (ht : s.terminated.isSome = true) (hs : step cfg accept stop s e = .ok s') :
    s'.ps = s.ps ∧ s'.spawned = s.spawned ∧ s'.terminated = s.terminated := by
  cases e with
  | cancel => simp only [step, ht, ↓reduceIte, pure, Except.pure] at hs; cases hs; exact ⟨rfl, rfl, rfl⟩
  | deliver p o => simp only [step, ht, ↓reduceIte, pure, Except.pure] at hs; cases hs; exact ⟨rfl, rfl, rfl⟩

/-! ### why the search ended -/

structure Inv4 (cfg : Cfg P) (s : LState P) : Prop where
  completed : s.terminated = some .completed → lookupTermination cfg s.ps = true
  starved : s.terminated = some .starvation → starvation s.ps = true

theorem decide_inv4 (cfg : Cfg P) (s : LState P) (stop : Bool) (h : Inv4 cfg s) : Inv4 cfg (decide cfg s stop) := by
  unfold decide
  split
  · exact h
  · rename_i ht
    have hnone : s.terminated = none := by
      cases hx : s.terminated with
      | none => rfl
      | some r => simp [hx] at ht
    split
    · exact ⟨(by intro hc; cases hc), (by intro hc; cases hc)⟩
    · split
      · rename_i hs; exact ⟨(by intro hc; cases hc), fun _ => hs⟩
      · split
        · rename_i hl; exact ⟨fun _ => hl, (by intro hc; cases hc)⟩
        · refine ⟨?_, ?_⟩ <;> (intro hc; simp only at hc; rw [hnone] at hc; cases hc)

theorem step_inv4 (cfg : Cfg P) (accept : P → Bool) (stop : LState P → Bool) (s s' : LState P) (e : Ev P)
    (hb : Inv cfg s) (h : Inv4 cfg s) (hs : step cfg accept stop s e = .ok s') : Inv4 cfg s' := by
  by_cases ht : s.terminated.isSome = true
  · obtain ⟨h1, _, h3⟩ := step_frozen cfg accept stop s s' e ht hs
    exact ⟨by rw [h1, h3]; exact h.completed, by rw [h1, h3]; exact h.starved⟩
  · have hnone : s.terminated = none := by
      cases hx : s.terminated with
      | none => rfl
      | some r => simp [hx] at ht
    cases e with
    | cancel =>
      simp only [step, ht, Bool.false_eq_true, ↓reduceIte, pure, Except.pure] at hs
      cases hs
      exact ⟨(by intro hc; cases hc), (by intro hc; cases hc)⟩
    | deliver p o =>
      by_cases hp : p ∈ s.inflight
      · rw [step_deliver_eq cfg accept stop s p o hb hnone hp] at hs
        cases hs
        apply decide_inv4
        exact ⟨(by intro hc; simp only at hc; rw [hnone] at hc; cases hc), (by intro hc; simp only at hc; rw [hnone] at hc; cases hc)⟩
      · have hc : s.inflight.contains p = false := by simpa using hp
        simp only [step, hnone, Option.isSome_none, Bool.false_eq_true, ↓reduceIte, hc, Bool.not_false] at hs
        cases hs; exact h

/-! ### honest networks -/

structure Net (P : Type) where
  peers : List P
  knows : P → List P

/-- an honest peer answers with the K nearest peers it knows, never itself and never the requester -/
def honestAnswer (cfg : Cfg P) (net : Net P) (c : P) : List P :=
  (sortBy cfg.lt ((net.knows c).filter fun x => x != c && x != cfg.self)).take cfg.K

/-- every event is the honest answer of the peer it comes from: nobody fails, nothing is cancelled -/
def HonestSched (cfg : Cfg P) (net : Net P) (evs : List (Ev P)) : Prop :=
  ∀ e ∈ evs, ∃ p, e = .deliver p (.resp (honestAnswer cfg net p))

structure NetOK (cfg : Cfg P) (net : Net P) : Prop where
  closed : ∀ c x, x ∈ net.knows c → x ∈ net.peers
  /-- the local node is a client: it is not part of the network it searches -/
  selfOut : cfg.self ∉ net.peers

theorem honestAnswer_sub (cfg : Cfg P) (net : Net P) (c x : P) (h : x ∈ honestAnswer cfg net c) :
    x ∈ net.knows c ∧ x ≠ c ∧ x ≠ cfg.self := by
  unfold honestAnswer at h
  have := (mem_sortBy _ _ _).1 (List.mem_of_mem_take h)
  have h2 := List.mem_filter.1 this
  exact ⟨h2.1, by simpa using h2.2⟩

theorem ingest_honest (cfg : Cfg P) (hdiv : cfg.divLimit = 0) (net : Net P) (c : P) :
    ingest cfg (fun _ => true) (honestAnswer cfg net c) = honestAnswer cfg net c := by
  unfold ingest divFilter
  simp only [hdiv, beq_self_eq_true, ↓reduceIte]
  have hl : (honestAnswer cfg net c).length ≤ 2 * cfg.K := by
    unfold honestAnswer; rw [List.length_take]; omega
  rw [List.take_of_length_le hl]
  apply List.filter_eq_self.2
  intro x hx
  have := honestAnswer_sub cfg net c x hx
  simp [this.2.2]

/-- under an honest schedule nobody is unreachable and the answers of queried peers have been absorbed -/
structure HonestInv (cfg : Cfg P) (net : Net P) (s : LState P) : Prop where
  noUnreachable : ∀ e ∈ s.ps, e.state ≠ .unreachable
  absorbed : ∀ e ∈ s.ps, e.state = .queried → ∀ x ∈ honestAnswer cfg net e.id, x ∈ ids s.ps

theorem decide_honest (cfg : Cfg P) (net : Net P) (s : LState P) (stop : Bool) (h : HonestInv cfg net s) :
    HonestInv cfg net (decide cfg s stop) := by
  rcases decide_cases cfg s stop with ⟨h1, _⟩ | ⟨h1, _⟩
  · exact ⟨by rw [h1]; exact h.noUnreachable, by rw [h1]; exact h.absorbed⟩
  · refine ⟨?_, ?_⟩
    · rw [h1]
      intro x hx
      obtain ⟨e, he, rfl⟩ := (mem_setStates _ _ _ _).1 hx
      split
      · simp
      · exact h.noUnreachable e he
    · rw [h1]
      intro x hx hq y hy
      rw [ids_setStates]
      obtain ⟨e, he, rfl⟩ := (mem_setStates _ _ _ _).1 hx
      by_cases hin : e.id ∈ closestNIn cfg s.ps (cfg.α - numIn s.ps .waiting) (· == .heard)
      · simp [hin] at hq
      · simp only [hin, ↓reduceIte] at hq hy
        exact h.absorbed e he hq y hy

theorem step_honest (cfg : Cfg P) (hdiv : cfg.divLimit = 0) (net : Net P) (stop : LState P → Bool) (s s' : LState P) (p : P)
    (hb : Inv cfg s) (h : HonestInv cfg net s)
    (hs : step cfg (fun _ => true) stop s (.deliver p (.resp (honestAnswer cfg net p))) = .ok s') : HonestInv cfg net s' := by
  by_cases ht : s.terminated.isSome = true
  · obtain ⟨h1, _, _⟩ := step_frozen cfg _ stop s s' _ ht hs
    exact ⟨by rw [h1]; exact h.noUnreachable, by rw [h1]; exact h.absorbed⟩
  · have hnone : s.terminated = none := by
      cases hx : s.terminated with
      | none => rfl
      | some r => simp [hx] at ht
    by_cases hp : p ∈ s.inflight
    · rw [step_deliver_eq cfg _ stop s p _ hb hnone hp] at hs
      cases hs
      apply decide_honest
      simp only [outcomeHeard, outcomeState, ingest_honest cfg hdiv]
      refine ⟨?_, ?_⟩
      · intro x hx
        obtain ⟨e, he, rfl⟩ := (mem_setState _ _ _ _).1 hx
        split
        · simp
        · rcases mem_addHeard cfg s.ps p _ e he with h1 | ⟨h1, _⟩
          · exact h.noUnreachable e h1
          · rw [h1]; simp
      · intro x hx hq y hy
        show y ∈ ids (setState (addHeard cfg s.ps p (honestAnswer cfg net p)) p .queried)
        rw [ids_setState]
        obtain ⟨e, he, rfl⟩ := (mem_setState _ _ _ _).1 hx
        by_cases hep : e.id = p
        · -- the peer that just answered: its answer was added by the `heard` loop
          simp only [hep, beq_self_eq_true, ↓reduceIte] at hy
          exact (mem_ids_addHeard _ _ _ _ _).2 (Or.inr ⟨hy, (honestAnswer_sub cfg net p y hy).2.2⟩)
        · have hf : (e.id == p) = false := by simpa using hep
          simp only [hf, Bool.false_eq_true, ↓reduceIte] at hq hy
          rcases mem_addHeard cfg s.ps p _ e he with h1 | ⟨h1, _⟩
          · exact (mem_ids_addHeard _ _ _ _ _).2 (Or.inl (h.absorbed e h1 hq y hy))
          · rw [h1] at hq; cases hq
    · have hc : s.inflight.contains p = false := by simpa using hp
      simp only [step, hnone, Option.isSome_none, Bool.false_eq_true, ↓reduceIte, hc, Bool.not_false] at hs
      cases hs; exact h

theorem runEvs_inv4 (cfg : Cfg P) (accept : P → Bool) (stop : LState P → Bool) (s s' : LState P) (evs : List (Ev P))
    (hb : Inv cfg s) (h : Inv4 cfg s) (hs : runEvs cfg accept stop s evs = .ok s') : Inv4 cfg s' := by
  induction evs generalizing s with
  | nil => simp only [runEvs, pure, Except.pure] at hs; cases hs; exact h
  | cons e es ih =>
    obtain ⟨s1, h1, hi1⟩ := step_ok cfg accept stop s e hb
    simp only [runEvs, h1, bind, Except.bind] at hs
    exact ih s1 hi1 (step_inv4 cfg accept stop s s1 e hb h h1) hs

theorem start_inv4 (cfg : Cfg P) (stop : LState P → Bool) (seeds : List P) (s : LState P)
    (hs : start cfg stop seeds = .ok s) : Inv4 cfg s := by
  simp only [start, applyUpdate_seed, bind, Except.bind, pure, Except.pure] at hs
  cases hs
  exact decide_inv4 cfg _ _ ⟨(by intro hc; cases hc), (by intro hc; cases hc)⟩

theorem runEvs_honest (cfg : Cfg P) (hdiv : cfg.divLimit = 0) (net : Net P) (stop : LState P → Bool) (s s' : LState P) (evs : List (Ev P))
    (hsched : HonestSched cfg net evs) (hb : Inv cfg s) (h : HonestInv cfg net s)
    (hs : runEvs cfg (fun _ => true) stop s evs = .ok s') : HonestInv cfg net s' := by
  induction evs generalizing s with
  | nil => simp only [runEvs, pure, Except.pure] at hs; cases hs; exact h
  | cons e es ih =>
    obtain ⟨s1, h1, hi1⟩ := step_ok cfg (fun _ => true) stop s e hb
    simp only [runEvs, h1, bind, Except.bind] at hs
    obtain ⟨p, rfl⟩ := hsched e (by simp)
    exact ih s1 (fun e he => hsched e (by simp [he])) hi1 (step_honest cfg hdiv net stop s s1 p hb h h1) hs

theorem start_honest (cfg : Cfg P) (net : Net P) (stop : LState P → Bool) (seeds : List P) (s : LState P)
    (hs : start cfg stop seeds = .ok s) : HonestInv cfg net s := by
  simp only [start, applyUpdate_seed, bind, Except.bind, pure, Except.pure] at hs
  cases hs
  apply decide_honest
  refine ⟨?_, ?_⟩
  · intro e he
    rcases mem_addHeard cfg [] cfg.self seeds e he with h1 | ⟨h1, _⟩
    · cases h1
    · rw [h1]; simp
  · intro e he hq
    rcases mem_addHeard cfg [] cfg.self seeds e he with h1 | ⟨h1, _⟩
    · cases h1
    · rw [h1] at hq; cases hq

theorem namedBy_honest (cfg : Cfg P) (hdiv : cfg.divLimit = 0) (net : Net P) (hn : NetOK cfg net) (evs : List (Ev P))
    (hsched : HonestSched cfg net evs) (q : P) (hq : q ∈ namedBy cfg (fun _ => true) evs) : q ∈ net.peers := by
  induction evs with
  | nil => cases hq
  | cons e es ih =>
    obtain ⟨p, rfl⟩ := hsched e (by simp)
    simp only [namedBy, List.mem_append] at hq
    rcases hq with h1 | h1
    · rw [ingest_honest cfg hdiv] at h1
      exact hn.closed p q (honestAnswer_sub cfg net p q h1).1
    · exact ih (fun e he => hsched e (by simp [he])) h1

/-- the nearest candidate: head of the ascending candidate list -/
theorem head_candidates_min (cfg : Cfg P) (ho : OrderOK cfg) (ps : PS P) (ok : PState → Bool) (hn : (ids ps).Nodup)
    (c0 : P) (rest : List P) (hc : candidates cfg ps ok = c0 :: rest) :
    ∀ y ∈ candidates cfg ps ok, y ≠ c0 → cfg.lt c0 y = true := by
  have hasc := candidates_ascending cfg ho ps ok hn
  rw [hc] at hasc ⊢
  intro y hy hne
  rcases List.mem_cons.1 hy with rfl | hy
  · exact absurd rfl hne
  · exact (List.pairwise_cons.1 hasc).1 y hy

/-- the key property a network needs for lookups to converge: a peer that is not the nearest one knows
    (and therefore names) somebody nearer than itself -/
def Converging (cfg : Cfg P) (net : Net P) : Prop :=
  ∀ c g, c ∈ net.peers → g ∈ net.peers → cfg.lt g c = true → ∃ x ∈ honestAnswer cfg net c, cfg.lt x c = true

/-- Convergence: in a converging network where everybody answers honestly, a lookup that ran to completion
    returns the globally nearest peer first. -/
theorem nearest_first_core (cfg : Cfg P) (hdiv : cfg.divLimit = 0) (ho : OrderOK cfg) (net : Net P) (hn : NetOK cfg net) (hconv : Converging cfg net)
    (hβ : 1 ≤ cfg.β) (hK : 1 ≤ cfg.K) (stop : LState P → Bool) (seeds : List P) (hseeds : ∀ p ∈ seeds, p ∈ net.peers)
    (evs : List (Ev P)) (hsched : HonestSched cfg net evs) (s0 s : LState P)
    (h0 : start cfg stop seeds = .ok s0) (h1 : runEvs cfg (fun _ => true) stop s0 evs = .ok s)
    (hterm : s.terminated = some .completed) (hne : (result cfg s).peers ≠ []) :
    ∃ c0, (result cfg s).peers.head? = some c0 ∧ c0 ∈ net.peers ∧ ∀ g ∈ net.peers, g ≠ c0 → cfg.lt c0 g = true := by
  obtain ⟨s0', h0', hi0⟩ := start_ok cfg stop seeds
  rw [h0] at h0'; cases h0'
  obtain ⟨s', h1', hinv⟩ := runEvs_ok cfg (fun _ => true) stop s0 evs hi0
  rw [h1] at h1'; cases h1'
  have hhon := runEvs_honest cfg hdiv net stop s0 s evs hsched hi0 (start_honest cfg net stop seeds s0 h0) h1
  have h4 := runEvs_inv4 cfg (fun _ => true) stop s0 s evs hi0 (start_inv4 cfg stop seeds s0 h0) h1
  have hlt := h4.completed hterm
  -- every known peer belongs to the network
  have hsub : ∀ q ∈ ids s.ps, q ∈ net.peers := by
    intro q hq
    rcases runEvs_ids cfg (fun _ => true) stop s0 s evs hi0 h1 q hq with h2 | h2
    · exact hseeds q (start_ids cfg stop seeds s0 h0 q h2)
    · exact namedBy_honest cfg hdiv net hn evs hsched q h2
  -- the candidate list is non-empty; call its head c0
  cases hc : candidates cfg s.ps notUnreachable with
  | nil => exact absurd (by show (candidates cfg s.ps notUnreachable).take cfg.K = []; rw [hc]; simp) hne
  | cons c0 rest =>
    have hmin := head_candidates_min cfg ho s.ps notUnreachable hinv.nodup c0 rest hc
    have hc0mem : c0 ∈ candidates cfg s.ps notUnreachable := by rw [hc]; simp
    obtain ⟨e0, he0, hid0, _⟩ := (mem_candidates _ _ _ _).1 hc0mem
    have hhead : (result cfg s).peers.head? = some c0 := by
      show ((candidates cfg s.ps notUnreachable).take cfg.K).head? = some c0
      rw [hc]
      cases hk : cfg.K with
      | zero => omega
      | succ k => rfl
    refine ⟨c0, hhead, hsub c0 (by rw [← hid0]; exact mem_ids_of_mem he0), ?_⟩
    -- c0 is among the β nearest, hence queried
    have hq0 : getState s.ps c0 = some .queried := by
      unfold lookupTermination at hlt
      rw [List.all_eq_true] at hlt
      have : c0 ∈ closestNIn cfg s.ps cfg.β notUnreachable := by
        rw [closestNIn_eq_take, hc]
        cases hb : cfg.β with
        | zero => omega
        | succ k => simp
      simpa using hlt c0 this
    obtain ⟨e, he, hid, hst⟩ := (getState_eq_some_iff s.ps hinv.nodup c0 .queried).1 hq0
    intro g hg hgne
    rcases ho.total c0 g (Ne.symm hgne) with h2 | h2
    · exact h2
    · -- somebody nearer than c0 exists: c0's answer names a peer nearer than c0, which must be a candidate
      exfalso
      obtain ⟨x, hx, hxlt⟩ := hconv c0 g (hsub c0 (by rw [← hid0]; exact mem_ids_of_mem he0)) hg h2
      have hxin : x ∈ ids s.ps := hhon.absorbed e he hst x (by rw [hid]; exact hx)
      obtain ⟨ex, hex, hxid⟩ := List.mem_map.1 hxin
      have hxc : x ∈ candidates cfg s.ps notUnreachable := by
        refine (mem_candidates _ _ _ _).2 ⟨ex, hex, hxid, ?_⟩
        have := hhon.noUnreachable ex hex
        cases hs : ex.state <;> simp_all [notUnreachable]
      have hxne : x ≠ c0 := by intro heq; rw [heq, ho.irrefl] at hxlt; cases hxlt
      have := hmin x hxc hxne
      rw [ho.asymm _ _ this] at hxlt; cases hxlt

/-- an honest peer that knows somebody (other than itself and the requester) nearer than itself names somebody
    nearer than itself -/
theorem honest_names_nearer (cfg : Cfg P) (ho : OrderOK cfg) (hK : 1 ≤ cfg.K) (net : Net P) (c m : P)
    (hmk : m ∈ net.knows c) (hmc : m ≠ c) (hms : m ≠ cfg.self) (hmlt : cfg.lt m c = true) :
    ∃ x ∈ honestAnswer cfg net c, cfg.lt x c = true := by
  unfold honestAnswer
  generalize hS : sortBy cfg.lt _ = S
  have hw : WeakOrder cfg.lt := by
    refine ⟨fun a b hab => ho.asymm _ _ hab, ?_⟩
    intro a b c' h1 h2
    cases hca : cfg.lt c' a with
    | false => rfl
    | true =>
      by_cases hab : a = b
      · rw [← hab, hca] at h2; cases h2
      · rcases ho.total _ _ hab with h3 | h3
        · rw [ho.trans _ _ _ hca h3] at h2; cases h2
        · rw [h3] at h1; cases h1
  have hmS : m ∈ S := by
    rw [← hS, mem_sortBy]
    refine List.mem_filter.2 ⟨hmk, ?_⟩
    simp only [bne_iff_ne, ne_eq, Bool.and_eq_true]
    exact ⟨hmc, hms⟩
  cases S with
  | nil => cases hmS
  | cons x rest =>
    have hmin : cfg.lt m x = false := by
      have hsorted : (x :: rest).Pairwise (NotAfter cfg.lt) := by
        rw [← hS]; exact sortBy_sorted _ hw _
      rcases List.mem_cons.1 hmS with rfl | hm'
      · exact ho.irrefl _
      · exact (List.pairwise_cons.1 hsorted).1 m hm'
    refine ⟨x, ?_, ?_⟩
    · cases hk : cfg.K with
      | zero => omega
      | succ k => simp
    · by_cases hxm : x = m
      · rw [hxm]; exact hmlt
      · rcases ho.total x m hxm with h1 | h1
        · exact ho.trans _ _ _ h1 hmlt
        · rw [h1] at hmin; cases hmin

/-- every peer knows the whole network, each peer once -/
structure FullKnowledge (net : Net P) : Prop where
  all : ∀ c ∈ net.peers, ∀ m ∈ net.peers, m ∈ net.knows c
  nodup : ∀ c, (net.knows c).Nodup

theorem converging_of_full (cfg : Cfg P) (ho : OrderOK cfg) (hK : 1 ≤ cfg.K) (net : Net P) (hn : NetOK cfg net)
    (hf : FullKnowledge net) : Converging cfg net := by
  intro c g hc hg hgc
  have hgne : g ≠ c := by intro heq; rw [heq, ho.irrefl] at hgc; cases hgc
  have hgs : g ≠ cfg.self := by intro heq; rw [heq] at hg; exact hn.selfOut hg
  exact honest_names_nearer cfg ho hK net c g (hf.all c hc g hg) hgne hgs hgc

/-- Exactness: when every peer knows the whole network and answers honestly, a lookup that ran to completion returns
    exactly the K globally nearest peers: the result is in strictly ascending distance, consists of network peers,
    and every network peer that is not returned is farther than all K returned ones. -/
theorem exact_K_core (cfg : Cfg P) (hdiv : cfg.divLimit = 0) (ho : OrderOK cfg) (net : Net P) (hn : NetOK cfg net)
    (hf : FullKnowledge net) (hβ : 1 ≤ cfg.β) (hK : 1 ≤ cfg.K) (stop : LState P → Bool) (seeds : List P)
    (hseeds : ∀ p ∈ seeds, p ∈ net.peers) (evs : List (Ev P)) (hsched : HonestSched cfg net evs) (s0 s : LState P)
    (h0 : start cfg stop seeds = .ok s0) (h1 : runEvs cfg (fun _ => true) stop s0 evs = .ok s)
    (hterm : s.terminated = some .completed) (hne : (result cfg s).peers ≠ []) :
    (result cfg s).peers.Pairwise (fun a b => cfg.lt a b = true) ∧ (∀ p ∈ (result cfg s).peers, p ∈ net.peers) ∧
    ∀ g ∈ net.peers, g ∉ (result cfg s).peers →
      (result cfg s).peers.length = cfg.K ∧ ∀ p ∈ (result cfg s).peers, cfg.lt p g = true := by
  obtain ⟨s0', h0', hi0⟩ := start_ok cfg stop seeds
  rw [h0] at h0'; cases h0'
  obtain ⟨s', h1', hinv⟩ := runEvs_ok cfg (fun _ => true) stop s0 evs hi0
  rw [h1] at h1'; cases h1'
  have hhon := runEvs_honest cfg hdiv net stop s0 s evs hsched hi0 (start_honest cfg net stop seeds s0 h0) h1
  have h4 := runEvs_inv4 cfg (fun _ => true) stop s0 s evs hi0 (start_inv4 cfg stop seeds s0 h0) h1
  have hlt := h4.completed hterm
  have hsub : ∀ q ∈ ids s.ps, q ∈ net.peers := by
    intro q hq
    rcases runEvs_ids cfg (fun _ => true) stop s0 s evs hi0 h1 q hq with h2 | h2
    · exact hseeds q (start_ids cfg stop seeds s0 h0 q h2)
    · exact namedBy_honest cfg hdiv net hn evs hsched q h2
  have hasc := candidates_ascending cfg ho s.ps notUnreachable hinv.nodup
  have hRC : (result cfg s).peers = (candidates cfg s.ps notUnreachable).take cfg.K := rfl
  -- everything known is a candidate (nobody is unreachable)
  have hcand : ∀ q ∈ ids s.ps, q ∈ candidates cfg s.ps notUnreachable := by
    intro q hq
    obtain ⟨ex, hex, hxid⟩ := List.mem_map.1 hq
    refine (mem_candidates _ _ _ _).2 ⟨ex, hex, hxid, ?_⟩
    have := hhon.noUnreachable ex hex
    cases hs : ex.state <;> simp_all [notUnreachable]
  refine ⟨?_, ?_, ?_⟩
  · rw [hRC]; exact hasc.sublist (List.take_sublist _ _)
  · intro p hp
    rw [hRC] at hp
    obtain ⟨e, he, hid, _⟩ := (mem_candidates _ _ _ _).1 (List.mem_of_mem_take hp)
    exact hsub p (by rw [← hid]; exact mem_ids_of_mem he)
  · intro g hg hgR
    rw [hRC] at hgR ⊢
    by_cases hgin : g ∈ ids s.ps
    · exact take_ascending_before_rest _ hasc cfg.K g (hcand g hgin) hgR
    · -- the nearest candidate c0 was queried; its answer (the K nearest others) has been absorbed
      cases hc : candidates cfg s.ps notUnreachable with
      | nil => exact absurd (by rw [hRC, hc]; simp) hne
      | cons c0 rest =>
        have hc0mem : c0 ∈ candidates cfg s.ps notUnreachable := by rw [hc]; simp
        obtain ⟨e0, he0, hid0, _⟩ := (mem_candidates _ _ _ _).1 hc0mem
        have hc0ps : c0 ∈ ids s.ps := by rw [← hid0]; exact mem_ids_of_mem he0
        have hq0 : getState s.ps c0 = some .queried := by
          unfold lookupTermination at hlt
          rw [List.all_eq_true] at hlt
          have : c0 ∈ closestNIn cfg s.ps cfg.β notUnreachable := by
            rw [closestNIn_eq_take, hc]
            cases hb : cfg.β with
            | zero => omega
            | succ k => simp
          simpa using hlt c0 this
        obtain ⟨e, he, hid, hst⟩ := (getState_eq_some_iff s.ps hinv.nodup c0 .queried).1 hq0
        have habs : ∀ x ∈ honestAnswer cfg net c0, x ∈ ids s.ps := by
          intro x hx; exact hhon.absorbed e he hst x (by rw [hid]; exact hx)
        have hgc0 : g ≠ c0 := fun heq => hgin (heq ▸ hc0ps)
        have hgs : g ≠ cfg.self := by intro heq; rw [heq] at hg; exact hn.selfOut hg
        -- g is known to c0 but was not among the K it named
        let F := (net.knows c0).filter fun x => x != c0 && x != cfg.self
        have hgF : g ∈ F := List.mem_filter.2 ⟨hf.all c0 (hsub c0 hc0ps) g hg, by simp [hgc0, hgs]⟩
        have hFnd : F.Nodup := (hf.nodup c0).sublist List.filter_sublist
        have hw : WeakOrder cfg.lt := by
          refine ⟨fun a b hab => ho.asymm _ _ hab, ?_⟩
          intro a b c' h1 h2
          cases hca : cfg.lt c' a with
          | false => rfl
          | true =>
            by_cases hab : a = b
            · rw [← hab, hca] at h2; cases h2
            · rcases ho.total _ _ hab with h3 | h3
              · rw [ho.trans _ _ _ hca h3] at h2; cases h2
              · rw [h3] at h1; cases h1
        have hSs : (sortBy cfg.lt F).Pairwise (NotAfter cfg.lt) := sortBy_sorted _ hw _
        have hSnd : (sortBy cfg.lt F).Nodup := (sortBy_perm cfg.lt F).nodup_iff.2 hFnd
        have hH : honestAnswer cfg net c0 = (sortBy cfg.lt F).take cfg.K := rfl
        have hgS : g ∈ sortBy cfg.lt F := (mem_sortBy _ _ _).2 hgF
        have hgH : g ∉ (sortBy cfg.lt F).take cfg.K := fun h => hgin (habs g (hH ▸ h))
        have hgd : g ∈ (sortBy cfg.lt F).drop cfg.K := by
          have := List.take_append_drop cfg.K (sortBy cfg.lt F)
          rw [← this] at hgS
          rcases List.mem_append.1 hgS with h | h
          · exact absurd h hgH
          · exact h
        have hHlen : (honestAnswer cfg net c0).length = cfg.K := by
          rw [hH, List.length_take]
          have : cfg.K < (sortBy cfg.lt F).length := by
            by_cases hl : cfg.K < (sortBy cfg.lt F).length
            · exact hl
            · rw [List.drop_eq_nil_of_le (by omega)] at hgd; cases hgd
          omega
        have hHnd : (honestAnswer cfg net c0).Nodup := by rw [hH]; exact hSnd.sublist (List.take_sublist _ _)
        have hHlt : ∀ x ∈ honestAnswer cfg net c0, cfg.lt x g = true := by
          intro x hx
          have hna : cfg.lt g x = false := take_le_drop _ hSs cfg.K x (hH ▸ hx) g hgd
          have hxg : x ≠ g := fun heq => hgH (heq ▸ (hH ▸ hx))
          rcases ho.total x g hxg with h | h
          · exact h
          · rw [h] at hna; cases hna
        have hHc0 : ∀ x ∈ honestAnswer cfg net c0, x ≠ c0 := fun x hx => (honestAnswer_sub cfg net c0 x hx).2.1
        -- c0 is the nearest peer of the network, in particular nearer than g
        have hc0g : cfg.lt c0 g = true := by
          rcases ho.total c0 g (Ne.symm hgc0) with h | h
          · exact h
          · exfalso
            obtain ⟨x, hx, hxlt⟩ := converging_of_full cfg ho hK net hn hf c0 g (hsub c0 hc0ps) hg h
            have hxc := hcand x (habs x hx)
            have hxne : x ≠ c0 := hHc0 x hx
            have := head_candidates_min cfg ho s.ps notUnreachable hinv.nodup c0 rest hc x hxc hxne
            rw [ho.asymm _ _ this] at hxlt; cases hxlt
        -- the K+1 peers c0 :: H are distinct candidates, all nearer than g
        let W := c0 :: honestAnswer cfg net c0
        have hWnd : W.Nodup := List.nodup_cons.2 ⟨fun h => hHc0 c0 h rfl, hHnd⟩
        have hWC : ∀ x ∈ W, x ∈ candidates cfg s.ps notUnreachable := by
          intro x hx
          rcases List.mem_cons.1 hx with rfl | hx
          · exact hc0mem
          · exact hcand x (habs x hx)
        have hWlt : ∀ x ∈ W, cfg.lt x g = true := by
          intro x hx
          rcases List.mem_cons.1 hx with rfl | hx
          · exact hc0g
          · exact hHlt x hx
        have hWlen : W.length = cfg.K + 1 := by simp [W, hHlen]
        rw [← hc]
        generalize hT : (candidates cfg s.ps notUnreachable).take cfg.K = T
        have hTlen : T.length ≤ cfg.K := by rw [← hT, List.length_take]; omega
        -- whoever of W is outside T is after every element of T
        have hout : ∀ x ∈ W, x ∉ T → T.length = cfg.K ∧ ∀ p ∈ T, cfg.lt p x = true := by
          intro x hx hxT
          rw [← hT] at hxT ⊢
          exact take_ascending_before_rest _ hasc cfg.K x (hWC x hx) hxT
        have hsome : ∃ x ∈ W, x ∉ T := by
          apply Classical.byContradiction
          intro hall
          have hsubW : W ⊆ T := by
            intro x hx
            apply Classical.byContradiction
            intro hxT; exact hall ⟨x, hx, hxT⟩
          have := hWnd.length_le_of_subset hsubW
          omega
        obtain ⟨x0, hx0, hx0T⟩ := hsome
        refine ⟨(hout x0 hx0 hx0T).1, ?_⟩
        intro p hp
        exact ho.trans _ _ _ ((hout x0 hx0 hx0T).2 p hp) (hWlt x0 hx0)

end KadDHT.Lookup

/- Helper lemmas for the keyspace model (C18). -/
import KadDHT.Model.Keyspace
import KadDHT.Proofs.Bits
namespace KadDHT
namespace Trie
variable {α : Type}

/-- keys in left-to-right order (independent of any `order` key) -/
def keysL : Trie α → List Key
  | empty => []
  | leaf k _ => [k]
  | node l r => keysL l ++ keysL r

/-- well-formedness of a trie rooted at `path`: every leaf key extends the path to its position -/
def WF : Key → Trie α → Prop
  | _, empty => True
  | path, leaf k _ => isPre path k = true
  | path, node l r => WF (path ++ [false]) l ∧ WF (path ++ [true]) r

theorem WF.mem_isPre {path : Key} {t : Trie α} (h : WF path t) {x : Key} (hx : x ∈ keysL t) :
    isPre path x = true := by
  induction t generalizing path with
  | empty => simp [keysL] at hx
  | leaf k d => simp [keysL] at hx; subst hx; exact h
  | node l r ihl ihr =>
    simp [keysL] at hx
    rcases hx with hx | hx
    · exact isPre_of_snoc (ihl h.1 hx)
    · exact isPre_of_snoc (ihr h.2 hx)

theorem mem_entriesAt (order : Key) (d : Nat) (t : Trie α) (x : Key) :
    x ∈ (entriesAt order d t).map (·.1) ↔ x ∈ keysL t := by
  induction t generalizing d with
  | empty => simp [entriesAt, keysL]
  | leaf k v => simp [entriesAt, keysL]
  | node l r ihl ihr =>
    simp only [entriesAt, keysL]
    split <;> simp [List.mem_append, ihl, ihr, or_comm]

theorem mem_keysIn (t : Trie α) (order x : Key) : x ∈ t.keysIn order ↔ x ∈ keysL t := by
  simp [keysIn, entries, mem_entriesAt]

theorem mem_keys (t : Trie α) (x : Key) : x ∈ t.keys ↔ x ∈ keysL t := mem_keysIn t [] x

theorem entriesAt_length (order : Key) (d : Nat) (t : Trie α) : (entriesAt order d t).length = t.size := by
  induction t generalizing d with
  | empty => rfl
  | leaf => rfl
  | node l r ihl ihr => simp only [entriesAt, size]; split <;> simp [ihl, ihr, Nat.add_comm]

theorem keysL_length (t : Trie α) : (keysL t).length = t.size := by
  induction t with
  | empty => rfl
  | leaf => rfl
  | node l r ihl ihr => simp [keysL, size, ihl, ihr]

/-- the keys of a well-formed trie are pairwise not prefix-related (hence distinct) -/
theorem WF.pairwise {path : Key} {t : Trie α} (h : WF path t) :
    (keysL t).Pairwise (fun a b => isPre a b = false ∧ isPre b a = false) := by
  induction t generalizing path with
  | empty => simp [keysL]
  | leaf => simp [keysL]
  | node l r ihl ihr =>
    simp only [keysL, List.pairwise_append]
    refine ⟨ihl h.1, ihr h.2, ?_⟩
    intro a ha b hb
    have h1 := h.1.mem_isPre ha
    have h2 := h.2.mem_isPre hb
    exact ⟨not_isPre_of_diverge (x := false) h1 h2, not_isPre_of_diverge (x := true) h2 h1⟩

theorem WF.nodup {path : Key} {t : Trie α} (h : WF path t) : (keysL t).Nodup := by
  have := h.pairwise
  refine this.imp ?_
  intro a b hab heq
  subst heq
  simp [isPre_refl] at hab

/-! ### FindPrefixOfKey -/

theorem findPrefixAt_sound (k : Key) (d : Nat) (t : Trie α) (p : Key)
    (h : findPrefixAt k d t = some p) : p ∈ keysL t ∧ isPre p k = true := by
  induction t generalizing d with
  | empty => simp [findPrefixAt] at h
  | leaf k' v =>
    simp only [findPrefixAt, cpl_eq_length_iff] at h
    split at h
    · simp at h; subst h; simp [keysL]; assumption
    · simp at h
  | node l r ihl ihr =>
    simp only [findPrefixAt] at h
    split at h
    · simp at h
    · split at h
      · have := ihr _ h; simp [keysL, this]
      · have := ihl _ h; simp [keysL, this]

theorem findPrefixAt_complete (k : Key) (path : Key) (t : Trie α) (p : Key) (hwf : WF path t)
    (hp : p ∈ keysL t) (hpk : isPre p k = true) : findPrefixAt k path.length t = some p := by
  induction t generalizing path with
  | empty => simp [keysL] at hp
  | leaf k' v =>
    simp [keysL] at hp; subst hp
    simp [findPrefixAt, cpl_eq_length_iff, hpk]
  | node l r ihl ihr =>
    simp only [keysL, List.mem_append] at hp
    simp only [findPrefixAt]
    have hlen : ∀ b, isPre (path ++ [b]) p = true → bitAt k path.length = b ∧ path.length < k.length := by
      intro b hb
      exact bitAt_of_isPre_snoc (isPre_trans hb hpk)
    rcases hp with hp | hp
    · have h1 := hlen false (hwf.1.mem_isPre hp)
      have hne : (path.length == k.length) = false := by simp; omega
      have := ihl (path ++ [false]) hwf.1 hp
      simp only [List.length_append, List.length_singleton] at this
      simp [hne, h1.1, this]
    · have h1 := hlen true (hwf.2.mem_isPre hp)
      have hne : (path.length == k.length) = false := by simp; omega
      have := ihr (path ++ [true]) hwf.2 hp
      simp only [List.length_append, List.length_singleton] at this
      simp [hne, h1.1, this]

/-! ### PruneSubtrie -/

theorem pruneAt_flag_empty (k : Key) (d : Nat) (t : Trie α) (h : (pruneAt k d t).2 = true) :
    (pruneAt k d t).1 = empty := by
  induction t generalizing d with
  | empty => simp [pruneAt] at h
  | leaf k' v => simp only [pruneAt] at *; split <;> simp_all
  | node l r ihl ihr =>
    simp only [pruneAt] at *
    split
    · rfl
    · split
      · split <;> simp_all
      · split <;> simp_all

theorem isEmptyLeaf_iff (t : Trie α) : t.isEmptyLeaf = true ↔ t = empty := by
  cases t <;> simp [isEmptyLeaf]

/-- `pruneAt` along a path that is a prefix of `k` keeps exactly the keys that do not extend `k`. -/
theorem mem_pruneAt (k path : Key) (t : Trie α) (hwf : WF path t) (hpk : isPre path k = true) (x : Key) :
    x ∈ keysL (pruneAt k path.length t).1 ↔ (x ∈ keysL t ∧ isPre k x = false) := by
  induction t generalizing path with
  | empty => simp [pruneAt, keysL]
  | leaf k' v =>
    simp only [pruneAt]
    split <;> rename_i hk
    · simp [keysL]; intro hx; subst hx; simp [hk]
    · simp [keysL]; intro hx; subst hx; simpa using hk
  | node l r ihl ihr =>
    simp only [pruneAt]
    by_cases hlen : path.length = k.length
    · -- path = k : everything below extends k
      have hpk' : path = k := (isPre_iff_prefix _ _).1 hpk |>.eq_of_length hlen
      simp only [hlen, beq_self_eq_true, ↓reduceIte, keysL, List.not_mem_nil, false_iff, not_and, Bool.not_eq_false]
      intro hx
      have : isPre path x = true := WF.mem_isPre (t := node l r) hwf (by simpa [keysL] using hx)
      rwa [hpk'] at this
    · have hlt : path.length < k.length := by
        have := isPre_length hpk; omega
      have hne : (path.length == k.length) = false := by simpa using hlen
      have hsn := isPre_snoc_of hpk hlt
      simp only [hne, Bool.false_eq_true, ↓reduceIte]
      cases hb : bitAt k path.length
      · -- descend left
        rw [hb] at hsn
        have ih := ihl (path ++ [false]) hwf.1 hsn
        simp only [List.length_append, List.length_singleton] at ih
        have hother : ∀ y ∈ keysL r, isPre k y = false := by
          intro y hy
          have h2 := hwf.2.mem_isPre hy
          cases hky : isPre k y with
          | false => rfl
          | true =>
            have h3 := not_isPre_of_diverge (x := false) hsn h2
            simp [hky] at h3
        simp only [Bool.false_eq_true, ↓reduceIte]
        split <;> rename_i hc
        · simp only [Bool.and_eq_true, isEmptyLeaf_iff] at hc
          have hemp := pruneAt_flag_empty k (path.length+1) l hc.1
          rw [hemp] at ih
          simp only [keysL, List.not_mem_nil, false_iff, not_and, Bool.not_eq_false] at ih
          simp only [keysL, List.not_mem_nil, false_iff, hc.2, List.append_nil, not_and, Bool.not_eq_false]
          exact ih
        · simp only [keysL, List.mem_append, ih]
          constructor
          · rintro (h | h)
            · exact ⟨Or.inl h.1, h.2⟩
            · exact ⟨Or.inr h, hother x h⟩
          · rintro ⟨h | h, h2⟩
            · exact Or.inl ⟨h, h2⟩
            · exact Or.inr h
      · rw [hb] at hsn
        have ih := ihr (path ++ [true]) hwf.2 hsn
        simp only [List.length_append, List.length_singleton] at ih
        have hother : ∀ y ∈ keysL l, isPre k y = false := by
          intro y hy
          have h2 := hwf.1.mem_isPre hy
          cases hky : isPre k y with
          | false => rfl
          | true =>
            have h3 := not_isPre_of_diverge (x := true) hsn h2
            simp [hky] at h3
        simp only [↓reduceIte]
        split <;> rename_i hc
        · simp only [Bool.and_eq_true, isEmptyLeaf_iff] at hc
          have hemp := pruneAt_flag_empty k (path.length+1) r hc.1
          rw [hemp] at ih
          simp only [keysL, List.not_mem_nil, false_iff, not_and, Bool.not_eq_false] at ih
          simp only [keysL, List.not_mem_nil, false_iff, hc.2, List.nil_append, not_and, Bool.not_eq_false]
          exact ih
        · simp only [keysL, List.mem_append, ih]
          constructor
          · rintro (h | h)
            · exact ⟨Or.inl h, hother x h⟩
            · exact ⟨Or.inr h.1, h.2⟩
          · rintro ⟨h | h, h2⟩
            · exact Or.inl h
            · exact Or.inr ⟨h, h2⟩

end Trie
end KadDHT

/- Helper lemmas for the keyspace model (C18). -/
import KadDHT.Model.Keyspace
import KadDHT.Proofs.Bits
namespace KadDHT
namespace Trie
variable {α β : Type}

/-- keys in left-to-right order (independent of any `order` key) -/
def keysL : Trie α → List Key
  | empty => []
  | leaf k _ => [k]
  | node l r => keysL l ++ keysL r

/-- well-formedness of a trie rooted at `path`: every leaf key extends the path to its position -/
def WF : Key → Trie α → Prop
  | _, empty => True
  | path, leaf k _ => isPre path k = true
  | path, node l r => WF (path ++ [false]) l ∧ WF (path ++ [true]) r

theorem WF.mem_isPre {path : Key} {t : Trie α} (h : WF path t) {x : Key} (hx : x ∈ keysL t) :
    isPre path x = true := by
  induction t generalizing path with
  | empty => simp [keysL] at hx
  | leaf k d => simp [keysL] at hx; subst hx; exact h
  | node l r ihl ihr =>
    simp [keysL] at hx
    rcases hx with hx | hx
    · exact isPre_of_snoc (ihl h.1 hx)
    · exact isPre_of_snoc (ihr h.2 hx)

theorem mem_entriesAt (order : Key) (d : Nat) (t : Trie α) (x : Key) :
    x ∈ (entriesAt order d t).map (·.1) ↔ x ∈ keysL t := by
  induction t generalizing d with
  | empty => simp [entriesAt, keysL]
  | leaf k v => simp [entriesAt, keysL]
  | node l r ihl ihr =>
    simp only [entriesAt, keysL]
    split <;> simp [List.mem_append, ihl, ihr, or_comm]

theorem mem_keysIn (t : Trie α) (order x : Key) : x ∈ t.keysIn order ↔ x ∈ keysL t := by
  simp [keysIn, entries, mem_entriesAt]

theorem mem_keys (t : Trie α) (x : Key) : x ∈ t.keys ↔ x ∈ keysL t := mem_keysIn t [] x

theorem entriesAt_length (order : Key) (d : Nat) (t : Trie α) : (entriesAt order d t).length = t.size := by
  induction t generalizing d with
  | empty => rfl
  | leaf => rfl
  | node l r ihl ihr => simp only [entriesAt, size]; split <;> simp [ihl, ihr, Nat.add_comm]

theorem keysL_length (t : Trie α) : (keysL t).length = t.size := by
  induction t with
  | empty => rfl
  | leaf => rfl
  | node l r ihl ihr => simp [keysL, size, ihl, ihr]

/-- the keys of a well-formed trie are pairwise not prefix-related (hence distinct) -/
theorem WF.pairwise {path : Key} {t : Trie α} (h : WF path t) :
    (keysL t).Pairwise (fun a b => isPre a b = false ∧ isPre b a = false) := by
  induction t generalizing path with
  | empty => simp [keysL]
  | leaf => simp [keysL]
  | node l r ihl ihr =>
    simp only [keysL, List.pairwise_append]
    refine ⟨ihl h.1, ihr h.2, ?_⟩
    intro a ha b hb
    have h1 := h.1.mem_isPre ha
    have h2 := h.2.mem_isPre hb
    exact ⟨not_isPre_of_diverge (x := false) h1 h2, not_isPre_of_diverge (x := true) h2 h1⟩

theorem WF.nodup {path : Key} {t : Trie α} (h : WF path t) : (keysL t).Nodup := by
  have := h.pairwise
  refine this.imp ?_
  intro a b hab heq
  subst heq
  simp [isPre_refl] at hab

/-! ### FindPrefixOfKey -/

theorem findPrefixAt_sound (k : Key) (d : Nat) (t : Trie α) (p : Key)
    (h : findPrefixAt k d t = some p) : p ∈ keysL t ∧ isPre p k = true := by
  induction t generalizing d with
  | empty => simp [findPrefixAt] at h
  | leaf k' v =>
    simp only [findPrefixAt, cpl_eq_length_iff] at h
    split at h
    · simp at h; subst h; simp [keysL]; assumption
    · simp at h
  | node l r ihl ihr =>
    simp only [findPrefixAt] at h
    split at h
    · simp at h
    · split at h
      · have := ihr _ h; simp [keysL, this]
      · have := ihl _ h; simp [keysL, this]

theorem findPrefixAt_complete (k : Key) (path : Key) (t : Trie α) (p : Key) (hwf : WF path t)
    (hp : p ∈ keysL t) (hpk : isPre p k = true) : findPrefixAt k path.length t = some p := by
  induction t generalizing path with
  | empty => simp [keysL] at hp
  | leaf k' v =>
    simp [keysL] at hp; subst hp
    simp [findPrefixAt, cpl_eq_length_iff, hpk]
  | node l r ihl ihr =>
    simp only [keysL, List.mem_append] at hp
    simp only [findPrefixAt]
    have hlen : ∀ b, isPre (path ++ [b]) p = true → bitAt k path.length = b ∧ path.length < k.length := by
      intro b hb
      exact bitAt_of_isPre_snoc (isPre_trans hb hpk)
    rcases hp with hp | hp
    · have h1 := hlen false (hwf.1.mem_isPre hp)
      have hne : (path.length == k.length) = false := by simp; omega
      have := ihl (path ++ [false]) hwf.1 hp
      simp only [List.length_append, List.length_singleton] at this
      simp [hne, h1.1, this]
    · have h1 := hlen true (hwf.2.mem_isPre hp)
      have hne : (path.length == k.length) = false := by simp; omega
      have := ihr (path ++ [true]) hwf.2 hp
      simp only [List.length_append, List.length_singleton] at this
      simp [hne, h1.1, this]

/-! ### PruneSubtrie -/

theorem pruneAt_flag_empty (k : Key) (d : Nat) (t : Trie α) (h : (pruneAt k d t).2 = true) :
    (pruneAt k d t).1 = empty := by
  induction t generalizing d with
  | empty => simp [pruneAt] at h
  | leaf k' v => simp only [pruneAt] at *; split <;> simp_all
  | node l r ihl ihr =>
    simp only [pruneAt] at *
    split
    · rfl
    · split
      · split <;> simp_all
      · split <;> simp_all

theorem isEmptyLeaf_iff (t : Trie α) : t.isEmptyLeaf = true ↔ t = empty := by
  cases t <;> simp [isEmptyLeaf]

/-- `pruneAt` along a path that is a prefix of `k` keeps exactly the keys that do not extend `k`. -/
theorem mem_pruneAt (k path : Key) (t : Trie α) (hwf : WF path t) (hpk : isPre path k = true) (x : Key) :
    x ∈ keysL (pruneAt k path.length t).1 ↔ (x ∈ keysL t ∧ isPre k x = false) := by
  induction t generalizing path with
  | empty => simp [pruneAt, keysL]
  | leaf k' v =>
    simp only [pruneAt]
    split <;> rename_i hk
    · simp [keysL]; intro hx; subst hx; simp [hk]
    · simp [keysL]; intro hx; subst hx; simpa using hk
  | node l r ihl ihr =>
    simp only [pruneAt]
    by_cases hlen : path.length = k.length
    · -- path = k : everything below extends k
      have hpk' : path = k := (isPre_iff_prefix _ _).1 hpk |>.eq_of_length hlen
      simp only [hlen, beq_self_eq_true, ↓reduceIte, keysL, List.not_mem_nil, false_iff, not_and, Bool.not_eq_false]
      intro hx
      have : isPre path x = true := WF.mem_isPre (t := node l r) hwf (by simpa [keysL] using hx)
      rwa [hpk'] at this
    · have hlt : path.length < k.length := by
        have := isPre_length hpk; omega
      have hne : (path.length == k.length) = false := by simpa using hlen
      have hsn := isPre_snoc_of hpk hlt
      simp only [hne, Bool.false_eq_true, ↓reduceIte]
      cases hb : bitAt k path.length
      · -- descend left
        rw [hb] at hsn
        have ih := ihl (path ++ [false]) hwf.1 hsn
        simp only [List.length_append, List.length_singleton] at ih
        have hother : ∀ y ∈ keysL r, isPre k y = false := by
          intro y hy
          have h2 := hwf.2.mem_isPre hy
          cases hky : isPre k y with
          | false => rfl
          | true =>
            have h3 := not_isPre_of_diverge (x := false) hsn h2
            simp [hky] at h3
        simp only [Bool.false_eq_true, ↓reduceIte]
        split <;> rename_i hc
        · simp only [Bool.and_eq_true, isEmptyLeaf_iff] at hc
          have hemp := pruneAt_flag_empty k (path.length+1) l hc.1
          rw [hemp] at ih
          simp only [keysL, List.not_mem_nil, false_iff, not_and, Bool.not_eq_false] at ih
          simp only [keysL, List.not_mem_nil, false_iff, hc.2, List.append_nil, not_and, Bool.not_eq_false]
          exact ih
        · simp only [keysL, List.mem_append, ih]
          constructor
          · rintro (h | h)
            · exact ⟨Or.inl h.1, h.2⟩
            · exact ⟨Or.inr h, hother x h⟩
          · rintro ⟨h | h, h2⟩
            · exact Or.inl ⟨h, h2⟩
            · exact Or.inr h
      · rw [hb] at hsn
        have ih := ihr (path ++ [true]) hwf.2 hsn
        simp only [List.length_append, List.length_singleton] at ih
        have hother : ∀ y ∈ keysL l, isPre k y = false := by
          intro y hy
          have h2 := hwf.1.mem_isPre hy
          cases hky : isPre k y with
          | false => rfl
          | true =>
            have h3 := not_isPre_of_diverge (x := true) hsn h2
            simp [hky] at h3
        simp only [↓reduceIte]
        split <;> rename_i hc
        · simp only [Bool.and_eq_true, isEmptyLeaf_iff] at hc
          have hemp := pruneAt_flag_empty k (path.length+1) r hc.1
          rw [hemp] at ih
          simp only [keysL, List.not_mem_nil, false_iff, not_and, Bool.not_eq_false] at ih
          simp only [keysL, List.not_mem_nil, false_iff, hc.2, List.nil_append, not_and, Bool.not_eq_false]
          exact ih
        · simp only [keysL, List.mem_append, ih]
          constructor
          · rintro (h | h)
            · exact ⟨Or.inl h, hother x h⟩
            · exact ⟨Or.inr h.1, h.2⟩
          · rintro ⟨h | h, h2⟩
            · exact Or.inl h
            · exact Or.inr ⟨h, h2⟩

/-! ### SubtractTrie -/

theorem WF.diverge {path k : Key} {b : Bool} {t : Trie α} (h : WF (path ++ [!b]) t)
    (hk : isPre (path ++ [b]) k = true) {y : Key} (hy : y ∈ keysL t) :
    isPre k y = false ∧ isPre y k = false := by
  have h2 := h.mem_isPre hy
  refine ⟨not_isPre_of_diverge hk h2, ?_⟩
  have := not_isPre_of_diverge (x := !b) (path := path) (a := y) (b := k) h2 (by simpa using hk)
  exact this

theorem mem_entries (t : Trie α) (order x : Key) : x ∈ (entries t order).map (·.1) ↔ x ∈ keysL t :=
  mem_entriesAt order 0 t x

theorem eq_path_of_short {path k : Key} (h : isPre path k = true) (hl : k.length ≤ path.length) : k = path :=
  (((isPre_iff_prefix _ _).1 h).eq_of_length (Nat.le_antisymm (isPre_length h) hl)).symm

theorem mem_subtractAt (d : Nat) (t0 : Trie α) (t1 : Trie β) (path : Key) (hd : path.length = d)
    (h0 : WF path t0) (h1 : WF path t1) (x : Key) :
    x ∈ (subtractAt d t0 t1).map (·.1) ↔ (x ∈ keysL t0 ∧ ∀ y ∈ keysL t1, isPre y x = false) := by
  fun_induction subtractAt d t0 t1 generalizing path with
  | case1 => simp [keysL]
  | case2 d t0 hne => simp [mem_entries, keysL]
  | case3 d k0 d0 k1 d1 hpre =>
    simp only [List.map_cons, List.map_nil, List.mem_singleton, keysL, forall_eq]
    constructor
    · intro h; subst h; exact ⟨rfl, by simpa using hpre⟩
    · intro h; exact h.1
  | case4 d k0 d0 k1 d1 hpre =>
    simp only [List.map_nil, List.not_mem_nil, keysL, List.mem_singleton, forall_eq, false_iff, not_and]
    intro h; subst h; simpa using hpre
  | case5 d k0 d0 l r hlen =>
    subst hd
    have hk : k0 = path := eq_path_of_short h0 hlen
    simp only [List.map_cons, List.map_nil, List.mem_singleton, keysL, List.mem_append]
    constructor
    · intro hx; subst hx
      refine ⟨rfl, ?_⟩
      intro y hy
      cases hyk : isPre y x with
      | false => rfl
      | true =>
        exfalso
        have hp : isPre path y = true := WF.mem_isPre (t := node l r) h1 (by simpa [keysL] using hy)
        have hl := isPre_length hyk
        rcases hy with hy | hy
        · have := isPre_length (h1.1.mem_isPre hy); simp at this; rw [hk] at hl; omega
        · have := isPre_length (h1.2.mem_isPre hy); simp at this; rw [hk] at hl; omega
    · intro h; exact h.1
  | case6 d k0 d0 l r hlen ih =>
    subst hd
    have hlt : path.length < k0.length := by omega
    have hsn : isPre (path ++ [bitAt k0 path.length]) k0 = true := isPre_snoc_of h0 hlt
    have ih' := ih (path ++ [bitAt k0 path.length]) (by simp) hsn
    simp only [keysL, List.mem_singleton, List.mem_append]
    cases hb : bitAt k0 path.length
    · simp only [hb, Bool.false_eq_true, ↓reduceDIte, ↓reduceIte] at ih' ⊢
      rw [ih' h1.1]
      simp only [keysL, List.mem_singleton]
      constructor
      · rintro ⟨hx, h⟩; subst hx
        refine ⟨rfl, ?_⟩
        rintro y (hy | hy)
        · exact h y hy
        · rw [hb] at hsn; exact (WF.diverge (b := false) h1.2 hsn hy).2
      · rintro ⟨hx, h⟩; exact ⟨hx, fun y hy => h y (Or.inl hy)⟩
    · simp only [hb, ↓reduceDIte, ↓reduceIte] at ih' ⊢
      rw [ih' h1.2]
      simp only [keysL, List.mem_singleton]
      constructor
      · rintro ⟨hx, h⟩; subst hx
        refine ⟨rfl, ?_⟩
        rintro y (hy | hy)
        · rw [hb] at hsn; exact (WF.diverge (b := true) h1.1 hsn hy).2
        · exact h y hy
      · rintro ⟨hx, h⟩; exact ⟨hx, fun y hy => h y (Or.inr hy)⟩
  | case7 d l r k1 d1 hlen =>
    subst hd
    have hk : k1 = path := eq_path_of_short h1 hlen
    simp only [List.map_nil, List.not_mem_nil, keysL, List.mem_singleton, forall_eq, false_iff, not_and,
      Bool.not_eq_false]
    intro hx
    rw [hk]; exact WF.mem_isPre (t := node l r) h0 (by simpa [keysL] using hx)
  | case8 d l r k1 d1 hlen hb ih =>
    subst hd
    have hlt : path.length < k1.length := by omega
    have hsn : isPre (path ++ [true]) k1 = true := by have := isPre_snoc_of h1 hlt; rwa [hb] at this
    have ih' := ih (path ++ [true]) (by simp) h0.2 hsn
    simp only [List.map_append, List.mem_append, mem_entries, ih', keysL, List.mem_singleton, forall_eq]
    constructor
    · rintro (h | h)
      · exact ⟨Or.inl h, (WF.diverge (b := true) h0.1 hsn h).1⟩
      · exact ⟨Or.inr h.1, h.2⟩
    · rintro ⟨h | h, h2⟩
      · exact Or.inl h
      · exact Or.inr ⟨h, h2⟩
  | case9 d l r k1 d1 hlen hb ih =>
    subst hd
    have hlt : path.length < k1.length := by omega
    have hb' : bitAt k1 path.length = false := by simpa using hb
    have hsn : isPre (path ++ [false]) k1 = true := by have := isPre_snoc_of h1 hlt; rwa [hb'] at this
    have ih' := ih (path ++ [false]) (by simp) h0.1 hsn
    simp only [List.map_append, List.mem_append, mem_entries, ih', keysL, List.mem_singleton, forall_eq]
    constructor
    · rintro (h | h)
      · exact ⟨Or.inr h, (WF.diverge (b := false) h0.2 hsn h).1⟩
      · exact ⟨Or.inl h.1, h.2⟩
    · rintro ⟨h | h, h2⟩
      · exact Or.inr ⟨h, h2⟩
      · exact Or.inl h
  | case10 d l0 r0 l1 r1 ihl ihr =>
    subst hd
    have il := ihl (path ++ [false]) (by simp) h0.1 h1.1
    have ir := ihr (path ++ [true]) (by simp) h0.2 h1.2
    simp only [List.map_append, List.mem_append, il, ir, keysL]
    constructor
    · rintro (⟨h, h2⟩ | ⟨h, h2⟩)
      · refine ⟨Or.inl h, ?_⟩
        rintro y (hy | hy)
        · exact h2 y hy
        · exact (WF.diverge (b := false) h1.2 (h0.1.mem_isPre h) hy).2
      · refine ⟨Or.inr h, ?_⟩
        rintro y (hy | hy)
        · exact (WF.diverge (b := true) h1.1 (h0.2.mem_isPre h) hy).2
        · exact h2 y hy
    · rintro ⟨h | h, h2⟩
      · exact Or.inl ⟨h, fun y hy => h2 y (Or.inl hy)⟩
      · exact Or.inr ⟨h, fun y hy => h2 y (Or.inr hy)⟩

/-! ### RegionsFromPeers / AssignKeysToRegions -/

def height : Trie α → Nat
  | node l r => max l.height r.height + 1
  | _ => 0

theorem regionsAt_spec (size : Nat) (order path : Key) (t : Trie α) (hwf : WF path t) :
    (∀ ps ∈ regionsAt size order path t, isPre path ps.1 = true ∧ WF ps.1 ps.2 ∧ ps.2 ≠ empty) ∧
    (∀ x, x ∈ (regionsAt size order path t).flatMap (fun ps => keysL ps.2) ↔ x ∈ keysL t) := by
  induction t generalizing path with
  | empty => simp [regionsAt, keysL]
  | leaf k d => simp [regionsAt, keysL, isPre_refl]; exact hwf
  | node l r ihl ihr =>
    simp only [regionsAt]
    split
    · have hl := ihl (path ++ [false]) hwf.1
      have hr := ihr (path ++ [true]) hwf.2
      split
      · refine ⟨?_, ?_⟩
        · intro ps hps
          rcases List.mem_append.1 hps with h | h
          · have := hr.1 ps h; exact ⟨isPre_of_snoc this.1, this.2⟩
          · have := hl.1 ps h; exact ⟨isPre_of_snoc this.1, this.2⟩
        · intro x; simp only [List.flatMap_append, List.mem_append, hl.2, hr.2, keysL, or_comm]
      · refine ⟨?_, ?_⟩
        · intro ps hps
          rcases List.mem_append.1 hps with h | h
          · have := hl.1 ps h; exact ⟨isPre_of_snoc this.1, this.2⟩
          · have := hr.1 ps h; exact ⟨isPre_of_snoc this.1, this.2⟩
        · intro x; simp only [List.flatMap_append, List.mem_append, hl.2, hr.2, keysL]
    · simp [isPre_refl]; exact hwf

/-- region prefixes are pairwise not prefix-related -/
theorem regionsAt_pairwise (size : Nat) (order path : Key) (t : Trie α) :
    ((regionsAt size order path t).map (·.1)).Pairwise (fun a b => isPre a b = false ∧ isPre b a = false) := by
  have hpre : ∀ (path : Key) (t : Trie α), ∀ p ∈ (regionsAt size order path t).map (·.1), isPre path p = true := by
    intro path t
    induction t generalizing path with
    | empty => simp [regionsAt]
    | leaf k d => simp [regionsAt, isPre_refl]
    | node l r ihl ihr =>
      simp only [regionsAt]
      split
      · split <;>
        · intro p hp
          simp only [List.map_append, List.mem_append] at hp
          rcases hp with h | h
          · first | exact isPre_of_snoc (ihr _ p h) | exact isPre_of_snoc (ihl _ p h)
          · first | exact isPre_of_snoc (ihl _ p h) | exact isPre_of_snoc (ihr _ p h)
      · simp [isPre_refl]
  induction t generalizing path with
  | empty => simp [regionsAt]
  | leaf k d => simp [regionsAt]
  | node l r ihl ihr =>
    simp only [regionsAt]
    split
    · split
      · simp only [List.map_append, List.pairwise_append]
        refine ⟨ihr _, ihl _, ?_⟩
        intro a ha b hb
        exact ⟨not_isPre_of_diverge (x := true) (hpre _ _ a ha) (hpre _ _ b hb),
               not_isPre_of_diverge (x := false) (hpre _ _ b hb) (hpre _ _ a ha)⟩
      · simp only [List.map_append, List.pairwise_append]
        refine ⟨ihl _, ihr _, ?_⟩
        intro a ha b hb
        exact ⟨not_isPre_of_diverge (x := false) (hpre _ _ a ha) (hpre _ _ b hb),
               not_isPre_of_diverge (x := true) (hpre _ _ b hb) (hpre _ _ a ha)⟩
    · simp

/-- every region holds at least `size` peers whenever the whole trie does -/
theorem regionsAt_size (size : Nat) (order path : Key) (t : Trie α) (h : size ≤ t.size) :
    ∀ ps ∈ regionsAt size order path t, size ≤ ps.2.size := by
  induction t generalizing path with
  | empty => simp [regionsAt]
  | leaf k d => simp [regionsAt]; exact h
  | node l r ihl ihr =>
    simp only [regionsAt]
    split <;> rename_i hc
    · simp only [ge_iff_le, Bool.and_eq_true, decide_eq_true_eq] at hc
      split <;>
      · intro ps hps
        rcases List.mem_append.1 hps with h | h
        · first | exact ihr _ hc.2 ps h | exact ihl _ hc.1 ps h
        · first | exact ihl _ hc.1 ps h | exact ihr _ hc.2 ps h
    · simp; exact h

/-- with `size ≥ 1` the region prefixes cover everything below `path` (for keys long enough to be
    routed to a leaf of the trie) -/
theorem regionsAt_cover (size : Nat) (hs : 1 ≤ size) (order path : Key) (t : Trie α) (hne : t ≠ empty)
    (h : Key) (hp : isPre path h = true) (hlen : path.length + t.height ≤ h.length) :
    ∃ p ∈ (regionsAt size order path t).map (·.1), isPre p h = true := by
  induction t generalizing path with
  | empty => exact absurd rfl hne
  | leaf k d => simp [regionsAt, hp]
  | node l r ihl ihr =>
    simp only [regionsAt]
    split <;> rename_i hc
    · simp only [ge_iff_le, Bool.and_eq_true, decide_eq_true_eq] at hc
      have hl : l ≠ empty := by intro h; subst h; simp [Trie.size] at hc; omega
      have hr : r ≠ empty := by intro h; subst h; simp [Trie.size] at hc; omega
      simp only [height] at hlen
      have hlt : path.length < h.length := by omega
      have hsn := isPre_snoc_of hp hlt
      have : ∃ p ∈ (regionsAt size order (path ++ [false]) l).map (·.1) ++ (regionsAt size order (path ++ [true]) r).map (·.1),
          isPre p h = true := by
        cases hb : bitAt h path.length
        · rw [hb] at hsn
          obtain ⟨p, hp1, hp2⟩ := ihl (path ++ [false]) hl hsn (by simp; omega)
          exact ⟨p, List.mem_append_left _ hp1, hp2⟩
        · rw [hb] at hsn
          obtain ⟨p, hp1, hp2⟩ := ihr (path ++ [true]) hr hsn (by simp; omega)
          exact ⟨p, List.mem_append_right _ hp1, hp2⟩
      obtain ⟨p, hp1, hp2⟩ := this
      split
      · refine ⟨p, ?_, hp2⟩
        simp only [List.map_append, List.mem_append] at hp1 ⊢; exact hp1.symm
      · refine ⟨p, ?_, hp2⟩
        simp only [List.map_append, List.mem_append] at hp1 ⊢; exact hp1
    · simp [hp]

end Trie

/-- a key matching some region prefix is assigned to a region whose prefix it matches; by
    `regionsAt_pairwise` that region is unique. -/
theorem assignKey_matches (ps : List Key) (h p : Key) (hp : p ∈ ps) (hm : isPre p h = true) :
    assignKey ps h ∈ ps ∧ isPre (assignKey ps h) h = true := by
  unfold assignKey
  cases hf : ps.find? (fun p => isPre p h) with
  | some q => exact ⟨List.mem_of_find?_eq_some hf, by simpa using List.find?_some hf⟩
  | none => simp [List.find?_eq_none] at hf; have := hf p hp; simp [hm] at this

theorem pairwise_sym_ne {α : Type} {R : α → α → Prop} (hs : ∀ a b, R a b → R b a) {l : List α}
    (hl : l.Pairwise R) {a b : α} (ha : a ∈ l) (hb : b ∈ l) (hne : a ≠ b) : R a b := by
  induction hl with
  | nil => simp at ha
  | cons hx _ ih =>
    rcases List.mem_cons.1 ha with rfl | ha' <;> rcases List.mem_cons.1 hb with rfl | hb'
    · exact absurd rfl hne
    · exact hx _ hb'
    · exact hs _ _ (hx _ ha')
    · exact ih ha' hb'

theorem assignKey_unique (ps : List Key) (h p : Key) (hp : p ∈ ps) (hm : isPre p h = true)
    (hpw : ps.Pairwise (fun a b => isPre a b = false ∧ isPre b a = false)) : assignKey ps h = p := by
  obtain ⟨h1, h2⟩ := assignKey_matches ps h p hp hm
  by_cases hne : assignKey ps h = p
  · exact hne
  · have h3 := pairwise_sym_ne (R := fun a b => isPre a b = false ∧ isPre b a = false)
      (fun a b h => ⟨h.2, h.1⟩) hpw h1 hp hne
    rcases isPre_total h2 hm with h4 | h4
    · simp [h4] at h3
    · simp [h4] at h3


end KadDHT

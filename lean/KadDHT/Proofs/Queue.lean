/- Helper lemmas for the queue model (C19). -/
import KadDHT.Model.Queue
import KadDHT.Proofs.Bits
namespace KadDHT.Queue
open KadDHT

/-- incomparable: neither is a prefix of the other -/
def Inc (a b : Key) : Prop := isPre a b = false ∧ isPre b a = false

theorem Inc.symm {a b : Key} (h : Inc a b) : Inc b a := ⟨h.2, h.1⟩

/-- a prefix queue is well-formed when its prefixes are pairwise incomparable (hence distinct) -/
def PF (q : PQ) : Prop := q.Pairwise Inc

theorem PF.nodup {q : PQ} (h : PF q) : q.Nodup := by
  refine List.Pairwise.imp ?_ h
  intro a b hab heq; subst heq; simp [Inc, isPre_refl] at hab

theorem PF.sublist {q q' : PQ} (h : PF q) (hs : q'.Sublist q) : PF q' := List.Pairwise.sublist hs h

theorem pf_inc {q : PQ} (h : PF q) {a b : Key} (ha : a ∈ q) (hb : b ∈ q) (hne : a ≠ b) : Inc a b := by
  induction h with
  | nil => simp at ha
  | cons hx _ ih =>
    rcases List.mem_cons.1 ha with rfl | ha' <;> rcases List.mem_cons.1 hb with rfl | hb'
    · exact absurd rfl hne
    · exact hx _ hb'
    · exact (hx _ ha').symm
    · exact ih ha' hb'

/-- in a well-formed queue, if `y` extends `p` then nothing else in the queue is a prefix of `p` -/
theorem pf_no_prefix_of {q : PQ} (h : PF q) {p x y : Key} (hx : x ∈ q) (hy : y ∈ q)
    (hpy : isPre p y = true) (hxp : isPre x p = true) : isPre p x = true := by
  by_cases hxy : x = y
  · subst hxy; exact hpy
  · have := pf_inc h hx hy hxy
    have : isPre x y = true := isPre_trans hxp hpy
    simp_all [Inc]

theorem mem_takeWhile_dropWhile_filter {α} (f : α → Bool) (q : List α) (x : α) :
    x ∈ q.takeWhile f ++ (q.dropWhile f).filter f ↔ (x ∈ q ∧ f x = true) := by
  induction q with
  | nil => simp
  | cons a q ih =>
    by_cases ha : f a = true
    · simp only [List.takeWhile_cons, ha, ↓reduceIte, List.dropWhile_cons, List.cons_append, List.mem_cons, ih]
      constructor
      · rintro (rfl | h); exact ⟨Or.inl rfl, ha⟩; exact ⟨Or.inr h.1, h.2⟩
      · rintro ⟨rfl | h, h2⟩; exact Or.inl rfl; exact Or.inr ⟨h, h2⟩
    · simp only [List.takeWhile_cons, ha, Bool.false_eq_true, ↓reduceIte, List.dropWhile_cons, List.nil_append,
        List.filter_cons, List.mem_filter, List.mem_cons]
      constructor
      · rintro ⟨h, h2⟩; exact ⟨Or.inr h, h2⟩
      · rintro ⟨rfl | h, h2⟩; exact absurd h2 ha; exact ⟨h, h2⟩

theorem takeWhile_holds {α} (f : α → Bool) (q : List α) {x : α} (h : x ∈ q.takeWhile f) : f x = true := by
  induction q with
  | nil => simp at h
  | cons a q ih =>
    by_cases ha : f a = true
    · simp only [List.takeWhile_cons, ha, ↓reduceIte, List.mem_cons] at h
      rcases h with rfl | h
      · exact ha
      · exact ih h
    · simp [List.takeWhile_cons, ha] at h

theorem takeWhile_dropWhile_filter_sublist {α} (f : α → Bool) (q : List α) :
    (q.takeWhile f ++ (q.dropWhile f).filter f).Sublist q := by
  have h1 : (q.takeWhile f ++ (q.dropWhile f).filter f).Sublist (q.takeWhile f ++ q.dropWhile f) :=
    List.Sublist.append (List.Sublist.refl _) List.filter_sublist
  simpa using h1

/-- membership after `push` -/
theorem mem_push (q : PQ) (p x : Key) :
    x ∈ push q p ↔
      (if q.any (isPre p ·) then (x = p ∨ (x ∈ q ∧ isPre p x = false))
       else if q.any (isPre · p) then x ∈ q else (x ∈ q ∨ x = p)) := by
  unfold push
  split
  · have := mem_takeWhile_dropWhile_filter (fun k => !isPre p k) q x
    simp only [List.mem_append, Bool.not_eq_true', List.mem_singleton] at this ⊢
    constructor
    · rintro ((h | h) | h)
      · exact Or.inr (this.1 (Or.inl h))
      · exact Or.inl h
      · exact Or.inr (this.1 (Or.inr h))
    · rintro (h | h)
      · exact Or.inl (Or.inr h)
      · rcases this.2 h with h | h
        · exact Or.inl (Or.inl h)
        · exact Or.inr h
  · split <;> simp

/-- `push` keeps the queue well-formed -/
theorem push_pf (q : PQ) (p : Key) (h : PF q) : PF (push q p) := by
  unfold push
  split
  · rename_i hany
    -- A ++ [p] ++ B
    have hsub := takeWhile_dropWhile_filter_sublist (fun k => !isPre p k) q
    have hAB : PF (q.takeWhile (fun k => !isPre p k) ++ (q.dropWhile (fun k => !isPre p k)).filter (fun k => !isPre p k)) :=
      h.sublist hsub
    obtain ⟨y, hy, hpy⟩ := List.any_eq_true.1 hany
    have hinc : ∀ x, x ∈ q → (!isPre p x) = true → Inc x p := by
      intro x hx hnx
      have hnx' : isPre p x = false := by simpa using hnx
      refine ⟨?_, hnx'⟩
      cases hxp : isPre x p with
      | false => rfl
      | true => have := pf_no_prefix_of h hx hy hpy hxp; simp [hnx'] at this
    unfold PF at *
    rw [List.pairwise_append] at hAB
    simp only [List.append_assoc, List.singleton_append]
    rw [List.pairwise_append]
    refine ⟨hAB.1, ?_, ?_⟩
    · rw [List.pairwise_cons]
      refine ⟨?_, hAB.2.1⟩
      intro b hb
      have := List.mem_filter.1 hb
      exact (hinc b (List.dropWhile_subset _ this.1) this.2).symm
    · intro a ha b hb
      rcases List.mem_cons.1 hb with rfl | hb'
      · have hmem := List.takeWhile_subset _ ha
        have := takeWhile_holds _ _ ha
        exact hinc a hmem this
      · exact hAB.2.2 a ha b hb'
  · split
    · exact h
    · rename_i h1 h2
      unfold PF at *
      rw [List.pairwise_append]
      refine ⟨h, by simp, ?_⟩
      intro a ha b hb
      simp only [List.mem_singleton] at hb; subst hb
      simp only [List.any_eq_true, not_exists, not_and, Bool.not_eq_true] at h1 h2
      exact ⟨h2 a ha, h1 a ha⟩

theorem pushMany_pf (q : PQ) (ps : List Key) (h : PF q) : PF (pushMany q ps) := by
  induction ps generalizing q with
  | nil => exact h
  | cons p ps ih => exact ih _ (push_pf q p h)

/-- after `push q p` the prefix `p` is covered: some queued prefix is a prefix of `p` -/
theorem push_covers (q : PQ) (p : Key) : ∃ x ∈ push q p, isPre x p = true := by
  by_cases h1 : q.any (isPre p ·) = true
  · exact ⟨p, by rw [mem_push]; simp [h1], isPre_refl p⟩
  · by_cases h2 : q.any (isPre · p) = true
    · obtain ⟨x, hx, hxp⟩ := List.any_eq_true.1 h2
      exact ⟨x, by rw [mem_push]; simp [h1, h2, hx], hxp⟩
    · exact ⟨p, by rw [mem_push]; simp [h1, h2], isPre_refl p⟩

/-- `push` never uncovers anything: what was under a queued prefix still is -/
theorem push_keeps_cover (q : PQ) (p k : Key) (h : ∃ x ∈ q, isPre x k = true) :
    ∃ x ∈ push q p, isPre x k = true := by
  obtain ⟨x, hx, hxk⟩ := h
  by_cases h1 : q.any (isPre p ·) = true
  · by_cases hpx : isPre p x = true
    · exact ⟨p, by rw [mem_push]; simp [h1], isPre_trans hpx hxk⟩
    · exact ⟨x, by rw [mem_push]; simp [h1]; right; exact ⟨hx, by simpa using hpx⟩, hxk⟩
  · by_cases h2 : q.any (isPre · p) = true
    · exact ⟨x, by rw [mem_push]; simp [h1, h2, hx], hxk⟩
    · exact ⟨x, by rw [mem_push]; simp [h1, h2, hx], hxk⟩

end KadDHT.Queue

namespace KadDHT.Queue
open KadDHT

/-! ### the provide queue invariant -/

structure Inv (s : PS) : Prop where
  pf : PF s.order
  nodup : s.keys.Nodup
  covered : ∀ k ∈ s.keys, ∃ p ∈ s.order, isPre p k = true
  nonempty : ∀ p ∈ s.order, ∃ k ∈ s.keys, isPre p k = true

theorem inv_empty : Inv PS.empty := ⟨List.Pairwise.nil, List.nodup_nil, by simp [PS.empty], by simp [PS.empty]⟩

theorem mem_addKeys (ks new : List Key) (x : Key) : x ∈ addKeys ks new ↔ x ∈ ks ∨ x ∈ new := by
  unfold addKeys
  induction new generalizing ks with
  | nil => simp
  | cons a new ih =>
    simp only [List.foldl_cons, ih, List.mem_cons]
    by_cases h : ks.contains a = true
    · simp only [h, ↓reduceIte]
      have : a ∈ ks := by simpa using h
      constructor
      · rintro (h | h); exact Or.inl h; exact Or.inr (Or.inr h)
      · rintro (h | rfl | h); exact Or.inl h; exact Or.inl this; exact Or.inr h
    · simp only [h, Bool.false_eq_true, ↓reduceIte, List.mem_append, List.mem_singleton]
      constructor
      · rintro ((h | h) | h); exact Or.inl h; exact Or.inr (Or.inl h); exact Or.inr (Or.inr h)
      · rintro (h | h | h); exact Or.inl (Or.inl h); exact Or.inl (Or.inr h); exact Or.inr h

theorem addKeys_nodup (ks new : List Key) (h : ks.Nodup) : (addKeys ks new).Nodup := by
  unfold addKeys
  induction new generalizing ks with
  | nil => simpa
  | cons a new ih =>
    simp only [List.foldl_cons]
    apply ih
    by_cases hc : ks.contains a = true
    · simp only [hc, ↓reduceIte]; exact h
    · simp only [hc, Bool.false_eq_true, ↓reduceIte]
      have : a ∉ ks := by simpa using hc
      rw [List.nodup_append]
      refine ⟨h, by simp, ?_⟩
      intro x hx y hy; simp at hy; subst hy; intro heq; subst heq; exact this hx

theorem enqueue_inv (s : PS) (p : Key) (ks : List Key) (h : Inv s) (hm : ∀ k ∈ ks, isPre p k = true) :
    Inv (enqueue s p ks) := by
  unfold enqueue
  split
  · exact h
  · rename_i hne
    refine ⟨push_pf _ _ h.pf, addKeys_nodup _ _ h.nodup, ?_, ?_⟩
    · intro k hk
      rcases (mem_addKeys _ _ _).1 hk with hk | hk
      · exact push_keeps_cover _ _ _ (h.covered k hk)
      · obtain ⟨x, hx, hxp⟩ := push_covers s.order p
        exact ⟨x, hx, isPre_trans hxp (hm k hk)⟩
    · intro x hx
      by_cases hxp : x = p
      · subst hxp
        cases ks with
        | nil => simp at hne
        | cons k ks => exact ⟨k, (mem_addKeys _ _ _).2 (Or.inr (by simp)), hm k (by simp)⟩
      · have hxq : x ∈ s.order := by
          rw [mem_push] at hx
          split at hx
          · rcases hx with h | h; exact absurd h hxp; exact h.1
          · split at hx
            · exact hx
            · rcases hx with h | h; exact h; exact absurd h hxp
        obtain ⟨k, hk, hxk⟩ := h.nonempty x hxq
        exact ⟨k, (mem_addKeys _ _ _).2 (Or.inl hk), hxk⟩

theorem dequeue_inv (s : PS) (h : Inv s) : Inv (dequeue s).2 := by
  unfold dequeue
  cases ho : s.order with
  | nil => simpa using h
  | cons p q =>
    have hpf := h.pf; rw [ho] at hpf
    have hpq : ∀ x ∈ q, Inc p x := (List.pairwise_cons.1 hpf).1
    refine ⟨(List.pairwise_cons.1 hpf).2, h.nodup.sublist List.filter_sublist, ?_, ?_⟩
    · intro k hk
      simp only [List.mem_filter, Bool.not_eq_true', ] at hk
      obtain ⟨x, hx, hxk⟩ := h.covered k hk.1
      rw [ho] at hx
      rcases List.mem_cons.1 hx with rfl | hx
      · simp [hk.2] at hxk
      · exact ⟨x, hx, hxk⟩
    · intro x hx
      obtain ⟨k, hk, hxk⟩ := h.nonempty x (by rw [ho]; exact List.mem_cons_of_mem _ hx)
      refine ⟨k, ?_, hxk⟩
      simp only [List.mem_filter, Bool.not_eq_true']
      refine ⟨hk, ?_⟩
      cases hpk : isPre p k with
      | false => rfl
      | true =>
        have := hpq x hx
        rcases isPre_total hpk hxk with h1 | h1 <;> simp_all [Inc]

theorem remove_pf (q : PQ) (p : Key) (h : PF q) : PF (remove q p).2 := h.sublist List.filter_sublist

theorem removeKeys_eq (s : PS) (ks : List Key) :
    removeKeys s ks =
      ⟨s.order.filter (fun x => !((s.order.filter fun p => ks.any (isPre p ·)).filter
          fun p => !(s.keys.filter (!ks.contains ·)).any (isPre p ·)).contains x),
       s.keys.filter (!ks.contains ·)⟩ := rfl

theorem removeKeys_inv (s : PS) (ks : List Key) (h : Inv s) : Inv (removeKeys s ks) := by
  rw [removeKeys_eq]
  refine ⟨h.pf.sublist List.filter_sublist, h.nodup.sublist List.filter_sublist, ?_, ?_⟩
  · intro k hk
    have hk' := List.mem_filter.1 hk
    obtain ⟨p, hp, hpk⟩ := h.covered k hk'.1
    refine ⟨p, List.mem_filter.2 ⟨hp, ?_⟩, hpk⟩
    simp only [Bool.not_eq_true', List.contains_eq_mem, decide_eq_false_iff_not, List.mem_filter, not_and,
      Bool.not_eq_false]
    intro _
    exact List.any_eq_true.2 ⟨k, by simpa using hk', hpk⟩
  · intro p hp
    have hp' := List.mem_filter.1 hp
    obtain ⟨k, hk, hpk⟩ := h.nonempty p hp'.1
    by_cases hkr : ks.contains k = true
    · have hnot := hp'.2
      simp only [Bool.not_eq_true', List.contains_eq_mem, decide_eq_false_iff_not, List.mem_filter, not_and,
        Bool.not_eq_false] at hnot
      have := hnot ⟨hp'.1, List.any_eq_true.2 ⟨k, by simpa using hkr, hpk⟩⟩
      obtain ⟨k', hk', hpk'⟩ := List.any_eq_true.1 this
      exact ⟨k', by simpa using hk', hpk'⟩
    · exact ⟨k, List.mem_filter.2 ⟨hk, by simpa using hkr⟩, hpk⟩

theorem pf_unique_prefix {q : PQ} (h : PF q) {x y k : Key} (hx : x ∈ q) (hy : y ∈ q)
    (hxk : isPre x k = true) (hyk : isPre y k = true) : x = y := by
  by_cases hxy : x = y
  · exact hxy
  · have := pf_inc h hx hy hxy
    rcases isPre_total hxk hyk with h1 | h1 <;> simp_all [Inc]

theorem dequeueMatching_inv (s : PS) (p : Key) (h : Inv s) : Inv (dequeueMatching s p).2 := by
  unfold dequeueMatching
  simp only [remove]
  split
  · exact h
  · rename_i hks
    have hks' : ∃ k0 ∈ s.keys, isPre p k0 = true := by
      cases hf : s.keys.filter (isPre p ·) with
      | nil => simp [hf] at hks
      | cons k0 _ =>
        have : k0 ∈ s.keys.filter (isPre p ·) := by rw [hf]; simp
        exact ⟨k0, (List.mem_filter.1 this).1, (List.mem_filter.1 this).2⟩
    obtain ⟨k0, hk0, hpk0⟩ := hks'
    have hnodup' : (s.keys.filter (!isPre p ·)).Nodup := h.nodup.sublist List.filter_sublist
    by_cases hrem : (List.any s.order fun x => isPre p x) = true
    · -- superstrings of p were queued and are removed
      simp only [hrem, ↓reduceIte]
      obtain ⟨y, hy, hpy⟩ := List.any_eq_true.1 hrem
      refine ⟨h.pf.sublist List.filter_sublist, hnodup', ?_, ?_⟩
      · intro k hk
        have hk' := List.mem_filter.1 hk
        obtain ⟨x, hx, hxk⟩ := h.covered k hk'.1
        refine ⟨x, List.mem_filter.2 ⟨hx, ?_⟩, hxk⟩
        cases hpx : isPre p x with
        | false => rfl
        | true => have := isPre_trans hpx hxk; simp_all
      · intro x hx
        have hx' := List.mem_filter.1 hx
        obtain ⟨k, hk, hxk⟩ := h.nonempty x hx'.1
        refine ⟨k, List.mem_filter.2 ⟨hk, ?_⟩, hxk⟩
        cases hpk : isPre p k with
        | false => rfl
        | true =>
          exfalso
          rcases isPre_total hpk hxk with h1 | h1
          · simp_all
          · have := pf_no_prefix_of h.pf hx'.1 hy hpy h1
            simp_all
    · simp only [hrem, Bool.false_eq_true, ↓reduceIte]
      have hnoext : ∀ y ∈ s.order, isPre p y = false := by
        intro y hy
        cases hpy : isPre p y with
        | false => rfl
        | true => exact absurd (List.any_eq_true.2 ⟨y, hy, hpy⟩) hrem
      -- the queued prefix covering k0 is a prefix of p
      obtain ⟨x0, hx0, hx0k⟩ := h.covered k0 hk0
      have hx0p : isPre x0 p = true := by
        rcases isPre_total hx0k hpk0 with h1 | h1
        · exact h1
        · rw [hnoext x0 hx0] at h1; cases h1
      -- common facts for the states that keep the order
      have hcov : ∀ k ∈ s.keys.filter (!isPre p ·), ∃ x ∈ s.order, isPre x k = true := by
        intro k hk; exact h.covered k (List.mem_filter.1 hk).1
      have hother : ∀ y ∈ s.order, y ≠ x0 → ∃ k ∈ s.keys.filter (!isPre p ·), isPre y k = true := by
        intro y hy hne
        obtain ⟨k, hk, hyk⟩ := h.nonempty y hy
        refine ⟨k, List.mem_filter.2 ⟨hk, ?_⟩, hyk⟩
        cases hpk : isPre p k with
        | false => rfl
        | true =>
          exfalso
          rcases isPre_total hpk hyk with h1 | h1
          · rw [hnoext y hy] at h1; cases h1
          · exact hne (pf_unique_prefix h.pf hy hx0 h1 hx0p)
      cases hf : s.order.find? (isPre · p) with
      | none =>
        exfalso
        have := List.find?_eq_none.1 hf x0 hx0
        simp [hx0p] at this
      | some shorter =>
        have hsh : shorter = x0 :=
          pf_unique_prefix h.pf (List.mem_of_find?_eq_some hf) hx0 (by simpa using List.find?_some hf) hx0p
        subst hsh
        simp only
        by_cases hany : ((List.filter (fun x => !isPre p x) s.keys).any fun x => isPre shorter x) = true
        · simp only [hany, ↓reduceIte]
          refine ⟨h.pf, hnodup', hcov, ?_⟩
          intro y hy
          by_cases hne : y = shorter
          · subst hne; obtain ⟨k, hk, hyk⟩ := List.any_eq_true.1 hany; exact ⟨k, hk, hyk⟩
          · exact hother y hy hne
        · simp only [hany, Bool.false_eq_true, ↓reduceIte]
          refine ⟨h.pf.sublist List.filter_sublist, hnodup', ?_, ?_⟩
          · intro k hk
            obtain ⟨x, hx, hxk⟩ := hcov k hk
            refine ⟨x, List.mem_filter.2 ⟨hx, ?_⟩, hxk⟩
            cases hsx : isPre shorter x with
            | false => rfl
            | true =>
              exfalso
              exact hany (List.any_eq_true.2 ⟨k, hk, isPre_trans hsx hxk⟩)
          · intro y hy
            have hy' := List.mem_filter.1 hy
            have hne : y ≠ shorter := by
              intro heq; subst heq; simp [isPre_refl] at hy'
            exact hother y hy'.1 hne


/-! ### persist / drain -/


theorem parseBits_show (p : Key) : parseBits (String.ofList (p.map fun b => if b then '1' else '0')) = p := by
  unfold parseBits
  simp only [String.toList_ofList, List.filterMap_map]
  induction p with
  | nil => rfl
  | cons b p ih => cases b <;> simp_all [Function.comp_def]

theorem parsePrefix_dsParts (i : Nat) (p : Key) : parsePrefix true (dsParts i p) = some p := by
  unfold dsParts parsePrefix
  cases p with
  | nil => simp
  | cons b p => simp only [List.isEmpty_cons, Bool.false_eq_true, ↓reduceIte]; rw [parseBits_show]

/-- what `Persist` writes, abstracted from positions and key syntax -/
def persisted (s : PS) : List (Key × List Key) :=
  s.order.filterMap fun p =>
    let ks := s.keys.filter (isPre p ·)
    if ks.isEmpty then none else some (p, ks)

def enqAll (acc : PS) (es : List (Key × List Key)) : PS := es.foldl (fun a e => enqueue a e.1 e.2) acc

theorem drain_persist_aux (s : PS) (l : List (Key × Nat)) (acc : PS) (left : List Entry) :
    (l.filterMap fun (p, i) =>
        let ks := s.keys.filter (isPre p ·)
        if ks.isEmpty then none else some (⟨i, dsParts i p, ks⟩ : Entry)).foldl
      (fun (acc : PS × List Entry) e =>
        match parsePrefix true e.parts with
        | none => (acc.1, acc.2 ++ [e])
        | some p => if e.keys.isEmpty then (acc.1, acc.2 ++ [e]) else (enqueue acc.1 p e.keys, acc.2)) (acc, left)
    = (enqAll acc ((l.map (·.1)).filterMap fun p =>
        let ks := s.keys.filter (isPre p ·)
        if ks.isEmpty then none else some (p, ks)), left) := by
  induction l generalizing acc with
  | nil => rfl
  | cons a l ih =>
    obtain ⟨p, i⟩ := a
    simp only [List.filterMap_cons, List.map_cons]
    by_cases he : (s.keys.filter (isPre p ·)).isEmpty = true
    · simp only [he, ↓reduceIte]; exact ih acc
    · simp only [he, Bool.false_eq_true, ↓reduceIte, List.foldl_cons, parsePrefix_dsParts, enqAll]
      exact ih _

theorem drain_persist (s acc : PS) : drain true acc (persist s) = (enqAll acc (persisted s), []) := by
  unfold drain persist persisted
  have := drain_persist_aux s s.order.zipIdx acc []
  have e : (s.order.zipIdx.map (·.1)) = s.order := List.zipIdx_map_fst 0 s.order
  rw [e] at this
  exact this


theorem push_append_of_pf (a : PQ) (p : Key) (h : PF (a ++ [p])) : push a p = a ++ [p] := by
  unfold PF at h
  rw [List.pairwise_append] at h
  have hinc : ∀ x ∈ a, Inc x p := fun x hx => h.2.2 x hx p (by simp)
  unfold push
  have h1 : a.any (isPre p ·) = false := by
    rw [List.any_eq_false]; intro x hx; simp [(hinc x hx).2]
  have h2 : a.any (isPre · p) = false := by
    rw [List.any_eq_false]; intro x hx; simp [(hinc x hx).1]
  simp [h1, h2]

theorem enqAll_order (acc : PS) (es : List (Key × List Key)) (hne : ∀ e ∈ es, e.2 ≠ [])
    (h : PF (acc.order ++ es.map (·.1))) : (enqAll acc es).order = acc.order ++ es.map (·.1) := by
  induction es generalizing acc with
  | nil => simp [enqAll]
  | cons e es ih =>
    simp only [enqAll, List.foldl_cons]
    have he : e.2 ≠ [] := hne e (by simp)
    have hpf1 : PF (acc.order ++ [e.1]) := by
      refine h.sublist ?_
      simp only [List.map_cons]
      exact List.Sublist.append (List.Sublist.refl _) (by simp)
    have hord : (enqueue acc e.1 e.2).order = acc.order ++ [e.1] := by
      unfold enqueue
      cases hk : e.2 with
      | nil => exact absurd hk he
      | cons k ks => simp [push_append_of_pf _ _ hpf1]
    have := ih (enqueue acc e.1 e.2) (fun e' he' => hne e' (by simp [he'])) (by rw [hord]; simpa using h)
    simp only [enqAll] at this
    rw [this, hord]; simp

theorem enqAll_keys (acc : PS) (es : List (Key × List Key)) (hne : ∀ e ∈ es, e.2 ≠ []) (k : Key) :
    k ∈ (enqAll acc es).keys ↔ (k ∈ acc.keys ∨ ∃ e ∈ es, k ∈ e.2) := by
  induction es generalizing acc with
  | nil => simp [enqAll]
  | cons e es ih =>
    simp only [enqAll, List.foldl_cons]
    have he : e.2 ≠ [] := hne e (by simp)
    have hk : (enqueue acc e.1 e.2).keys = addKeys acc.keys e.2 := by
      unfold enqueue
      cases hk : e.2 with
      | nil => exact absurd hk he
      | cons k ks => simp
    have := ih (enqueue acc e.1 e.2) (fun e' he' => hne e' (by simp [he']))
    simp only [enqAll] at this
    rw [this, hk, mem_addKeys]
    simp only [List.mem_cons, exists_eq_or_imp]
    constructor
    · rintro ((h | h) | h); exact Or.inl h; exact Or.inr (Or.inl h); exact Or.inr (Or.inr h)
    · rintro (h | h | h); exact Or.inl (Or.inl h); exact Or.inl (Or.inr h); exact Or.inr h

theorem enqAll_nodup (acc : PS) (es : List (Key × List Key)) (h : acc.keys.Nodup) : (enqAll acc es).keys.Nodup := by
  induction es generalizing acc with
  | nil => simpa [enqAll]
  | cons e es ih =>
    simp only [enqAll, List.foldl_cons]
    apply ih
    unfold enqueue
    split
    · exact h
    · exact addKeys_nodup _ _ h

theorem persisted_eq (s : PS) (h : Inv s) :
    persisted s = s.order.map fun p => (p, s.keys.filter (isPre p ·)) := by
  unfold persisted
  have : ∀ l : List Key, (∀ p ∈ l, p ∈ s.order) →
      (l.filterMap fun p => let ks := s.keys.filter (isPre p ·); if ks.isEmpty then none else some (p, ks))
        = l.map fun p => (p, s.keys.filter (isPre p ·)) := by
    intro l
    induction l with
    | nil => simp
    | cons p l ih =>
      intro hl
      obtain ⟨k, hk, hpk⟩ := h.nonempty p (hl p (by simp))
      have hne : (s.keys.filter (isPre p ·)).isEmpty = false := by
        cases hf : s.keys.filter (isPre p ·) with
        | nil => have : k ∈ s.keys.filter (isPre p ·) := List.mem_filter.2 ⟨hk, hpk⟩; simp [hf] at this
        | cons _ _ => rfl
      simp only [List.filterMap_cons, hne, Bool.false_eq_true, ↓reduceIte, List.map_cons]
      rw [ih (fun q hq => hl q (by simp [hq]))]
  exact this s.order (fun p hp => hp)

/-- persist + drain into a fresh queue restores prefixes, order and keys, and empties the datastore -/
theorem persist_drain_roundtrip' (s : PS) (h : Inv s) :
    let r := drain true PS.empty (persist s)
    r.1.order = s.order ∧ (∀ k, k ∈ r.1.keys ↔ k ∈ s.keys) ∧ r.1.keys.Nodup ∧ r.2 = [] := by
  intro r
  have hr : r = (enqAll PS.empty (persisted s), []) := drain_persist s PS.empty
  rw [hr, persisted_eq s h]
  have hne : ∀ e ∈ s.order.map (fun p => (p, s.keys.filter (isPre p ·))), e.2 ≠ [] := by
    intro e he
    obtain ⟨p, hp, rfl⟩ := List.mem_map.1 he
    obtain ⟨k, hk, hpk⟩ := h.nonempty p hp
    intro hnil
    have : k ∈ s.keys.filter (isPre p ·) := List.mem_filter.2 ⟨hk, hpk⟩
    simp only at hnil
    rw [hnil] at this; cases this
  refine ⟨?_, ?_, enqAll_nodup _ _ (by simp [PS.empty]), rfl⟩
  · rw [enqAll_order _ _ hne]
    · simp [PS.empty, List.map_map, Function.comp_def]
    · simpa [PS.empty, List.map_map, Function.comp_def] using h.pf
  · intro k
    rw [enqAll_keys _ _ hne]
    simp only [PS.empty, List.not_mem_nil, false_or]
    constructor
    · rintro ⟨e, he, hk⟩
      obtain ⟨p, _, rfl⟩ := List.mem_map.1 he
      exact (List.mem_filter.1 hk).1
    · intro hk
      obtain ⟨p, hp, hpk⟩ := h.covered k hk
      exact ⟨(p, s.keys.filter (isPre p ·)), List.mem_map.2 ⟨p, hp, rfl⟩, List.mem_filter.2 ⟨hk, hpk⟩⟩


end KadDHT.Queue

/- Invariants of the crawl work list (used by Props/C16). Core Lean only. -/
import KadDHT.Model.Crawler
namespace KadDHT.Crawler
variable {P : Type} [DecidableEq P]

theorem nodup_eraseDups {α : Type} [DecidableEq α] : ∀ (l : List α), l.eraseDups.Nodup
  | [] => by simp
  | a :: as => by
    rw [List.eraseDups_cons, List.nodup_cons]
    refine ⟨?_, nodup_eraseDups _⟩
    intro h
    have := List.mem_eraseDups.1 h
    simp at this
termination_by l => l.length
decreasing_by
  simp only [List.length_cons]
  exact Nat.lt_succ_of_le (List.length_filter_le _ _)

/-- every peer the crawl knows of, by where it stands: waiting, in flight, done -/
def allOf (s : CState P) : List P := s.toDial ++ s.outstanding ++ s.outcomes.map (·.1)

/-- did the network name somebody when `p` was asked? (what the code reports as success) -/
def answers (net : P → Option (List P)) (p : P) : Bool := match net p with | some (_ :: _) => true | _ => false

/-- reachability from the seeds through peers that answer -/
inductive Reach (net : P → Option (List P)) (seeds : List P) : P → Prop where
  | seed {p} : p ∈ seeds → Reach net seeds p
  | named {p q l} : Reach net seeds p → net p = some l → q ∈ l → Reach net seeds q

structure Inv (net : P → Option (List P)) (seeds : List P) (s : CState P) : Prop where
  nodup : (allOf s).Nodup
  seenEq : ∀ p, p ∈ allOf s ↔ p ∈ s.seen
  seedsSeen : ∀ p ∈ seeds, p ∈ s.seen
  sound : ∀ p ∈ s.seen, Reach net seeds p
  truthful : ∀ e ∈ s.outcomes, e.2 = answers net e.1
  closed : ∀ e ∈ s.outcomes, ∀ l, net e.1 = some l → ∀ q ∈ l, q ∈ s.seen

theorem inv_seed (net : P → Option (List P)) (hasAddr : P → Bool) (seeds : List P) :
    Inv net ((seeds.filter hasAddr).eraseDups) (seed hasAddr seeds) := by
  refine ⟨?_, ?_, ?_, ?_, ?_, ?_⟩
  · simp only [allOf, seed, List.map_nil, List.append_nil]; exact nodup_eraseDups _
  · intro p; simp [allOf, seed]
  · intro p hp; exact hp
  · intro p hp; exact Reach.seed hp
  · intro e he; simp [seed] at he
  · intro e he; simp [seed] at he

theorem step_inv (net : P → Option (List P)) (seeds : List P) (s s' : CState P) (ev : Ev P) (h : Inv net seeds s)
    (hs : step net s ev = some s') : Inv net seeds s' := by
  cases ev with
  | dispatch =>
    unfold step at hs
    cases htd : s.toDial with
    | nil => simp [htd] at hs
    | cons p rest =>
      simp only [htd, Option.some.injEq] at hs
      subst hs
      have hperm : (allOf { s with toDial := rest, outstanding := s.outstanding ++ [p] }).Perm (allOf s) := by
        simp only [allOf, htd, List.cons_append, List.append_assoc]
        have : (rest ++ (s.outstanding ++ ([p] ++ s.outcomes.map (·.1)))).Perm (p :: (rest ++ (s.outstanding ++ s.outcomes.map (·.1)))) := by
          have h1 : (s.outstanding ++ ([p] ++ s.outcomes.map (·.1))).Perm (p :: (s.outstanding ++ s.outcomes.map (·.1))) := by
            simpa using List.perm_middle (a := p) (l₁ := s.outstanding) (l₂ := s.outcomes.map (·.1))
          exact ((List.Perm.append_left rest h1).trans List.perm_middle)
        exact this
      refine ⟨hperm.nodup_iff.2 h.nodup, ?_, h.seedsSeen, h.sound, h.truthful, h.closed⟩
      intro q; rw [hperm.mem_iff]; exact h.seenEq q
  | result p =>
    unfold step at hs
    by_cases hout : s.outstanding.contains p = true
    · simp only [hout, Bool.not_true, Bool.false_eq_true, ↓reduceIte] at hs
      have hp : p ∈ s.outstanding := by simpa using hout
      have hpseen : p ∈ s.seen := (h.seenEq p).1 (by simp [allOf, hp])
      -- moving p from `outstanding` to the outcomes is a permutation
      have hmove : ∀ (b : Bool), (s.toDial ++ s.outstanding.erase p ++ (s.outcomes ++ [(p, b)]).map (·.1)).Perm (allOf s) := by
        intro b
        simp only [allOf, List.map_append, List.map_cons, List.map_nil, List.append_assoc]
        apply List.Perm.append_left
        have h1 : s.outstanding.Perm (p :: s.outstanding.erase p) := List.perm_cons_erase hp
        have h2 : (s.outstanding.erase p ++ (s.outcomes.map (·.1) ++ [p])).Perm (p :: (s.outstanding.erase p ++ s.outcomes.map (·.1))) := by
          have : (s.outstanding.erase p ++ (s.outcomes.map (·.1) ++ [p])) = (s.outstanding.erase p ++ s.outcomes.map (·.1)) ++ [p] := by simp
          rw [this]; exact List.perm_append_singleton _ _
        exact h2.trans ((List.Perm.append_right _ h1).symm.trans (by simp))
      cases hnet : net p with
      | none =>
        simp only [hnet, Option.some.injEq] at hs
        subst hs
        have hperm := hmove false
        refine ⟨hperm.nodup_iff.2 h.nodup, fun q => by
          show q ∈ (s.toDial ++ s.outstanding.erase p ++ (s.outcomes ++ [(p, false)]).map (·.1)) ↔ q ∈ s.seen
          rw [hperm.mem_iff]; exact h.seenEq q, h.seedsSeen, h.sound, ?_, ?_⟩
        · intro e he
          rcases List.mem_append.1 he with he | he
          · exact h.truthful e he
          · simp at he; subst he; simp [answers, hnet]
        · intro e he l hl q hq
          rcases List.mem_append.1 he with he | he
          · exact h.closed e he l hl q hq
          · simp at he; subst he; simp [hnet] at hl
      | some l =>
        cases l with
        | nil =>
          simp only [hnet, Option.some.injEq] at hs
          subst hs
          have hperm := hmove false
          refine ⟨hperm.nodup_iff.2 h.nodup, fun q => by
          show q ∈ (s.toDial ++ s.outstanding.erase p ++ (s.outcomes ++ [(p, false)]).map (·.1)) ↔ q ∈ s.seen
          rw [hperm.mem_iff]; exact h.seenEq q, h.seedsSeen, h.sound, ?_, ?_⟩
          · intro e he
            rcases List.mem_append.1 he with he | he
            · exact h.truthful e he
            · simp at he; subst he; simp [answers, hnet]
          · intro e he l hl q hq
            rcases List.mem_append.1 he with he | he
            · exact h.closed e he l hl q hq
            · simp at he; subst he; simp [hnet] at hl; subst hl; cases hq
        | cons q qs =>
          simp only [hnet, Option.some.injEq] at hs
          subst hs
          -- the fresh peers are new and distinct
          let fresh := ((q :: qs).eraseDups).filter fun x => !s.seen.contains x
          have hfn : fresh.Nodup := (nodup_eraseDups _).sublist List.filter_sublist
          have hfnew : ∀ x ∈ fresh, x ∉ s.seen := by
            intro x hx; have := (List.mem_filter.1 hx).2; simpa using this
          have hfl : ∀ x ∈ fresh, x ∈ q :: qs := by
            intro x hx; exact List.mem_eraseDups.1 (List.mem_filter.1 hx).1
          have hperm : (s.toDial ++ fresh ++ s.outstanding.erase p ++ (s.outcomes ++ [(p, true)]).map (·.1)).Perm (fresh ++ allOf s) := by
            have h1 := hmove true
            simp only [List.append_assoc] at h1 ⊢
            have : (s.toDial ++ (fresh ++ (s.outstanding.erase p ++ (s.outcomes ++ [(p, true)]).map (·.1)))).Perm
                (fresh ++ (s.toDial ++ (s.outstanding.erase p ++ (s.outcomes ++ [(p, true)]).map (·.1)))) := by
              have h2 : (s.toDial ++ fresh).Perm (fresh ++ s.toDial) := List.perm_append_comm
              have := List.Perm.append_right (s.outstanding.erase p ++ (s.outcomes ++ [(p, true)]).map (·.1)) h2
              simpa [List.append_assoc] using this
            exact this.trans (List.Perm.append_left fresh h1)
          refine ⟨?_, ?_, ?_, ?_, ?_, ?_⟩
          · show (s.toDial ++ fresh ++ s.outstanding.erase p ++ (s.outcomes ++ [(p, true)]).map (·.1)).Nodup
            rw [hperm.nodup_iff, List.nodup_append]
            refine ⟨hfn, h.nodup, ?_⟩
            intro a ha b hb hab
            subst hab
            exact hfnew a ha ((h.seenEq a).1 hb)
          · intro x
            show x ∈ (s.toDial ++ fresh ++ s.outstanding.erase p ++ (s.outcomes ++ [(p, true)]).map (·.1)) ↔ x ∈ s.seen ++ fresh
            rw [hperm.mem_iff]
            simp only [List.mem_append]
            constructor
            · rintro (hx | hx)
              · exact Or.inr hx
              · exact Or.inl ((h.seenEq x).1 hx)
            · rintro (hx | hx)
              · exact Or.inr ((h.seenEq x).2 hx)
              · exact Or.inl hx
          · intro x hx; exact List.mem_append_left _ (h.seedsSeen x hx)
          · intro x hx
            rcases List.mem_append.1 hx with hx | hx
            · exact h.sound x hx
            · exact Reach.named (h.sound p hpseen) hnet (hfl x hx)
          · intro e he
            rcases List.mem_append.1 he with he | he
            · exact h.truthful e he
            · simp at he; subst he; simp [answers, hnet]
          · intro e he l hl x hx
            rcases List.mem_append.1 he with he | he
            · exact List.mem_append_left _ (h.closed e he l hl x hx)
            · simp at he; subst he
              simp only [hnet, Option.some.injEq] at hl
              subst hl
              by_cases hseen : x ∈ s.seen
              · exact List.mem_append_left _ hseen
              · apply List.mem_append_right
                exact List.mem_filter.2 ⟨List.mem_eraseDups.2 hx, by simpa using hseen⟩
    · have hnp : p ∉ s.outstanding := by simpa using hout
      simp at hs
      exact absurd hs.1 hnp

theorem run_inv (net : P → Option (List P)) (seeds : List P) : ∀ (evs : List (Ev P)) (s s' : CState P),
    Inv net seeds s → run net s evs = some s' → Inv net seeds s'
  | [], s, s', h, hr => by simp [run] at hr; subst hr; exact h
  | e :: es, s, s', h, hr => by
    unfold run at hr
    cases hs : step net s e with
    | none => simp [hs] at hr
    | some s1 => simp only [hs] at hr; exact run_inv net seeds es s1 s' (step_inv net seeds s s1 e h hs) hr

end KadDHT.Crawler

/- Generic facts about the insertion sort `sortBy` used by the models wherever Go sorts. -/
import KadDHT.Basic.Bits
namespace KadDHT

variable {α : Type}

theorem insertBy_perm (lt : α → α → Bool) (x : α) (l : List α) : (insertBy lt x l).Perm (x :: l) := by
  induction l with
  | nil => exact List.Perm.refl _
  | cons y ys ih =>
    simp only [insertBy]
    split
    · exact List.Perm.refl _
    · exact (List.Perm.cons y ih).trans (List.Perm.swap x y ys)

theorem sortBy_perm (lt : α → α → Bool) (l : List α) : (sortBy lt l).Perm l := by
  induction l with
  | nil => exact List.Perm.refl _
  | cons x xs ih => exact (insertBy_perm lt x (sortBy lt xs)).trans (List.Perm.cons x ih)

theorem mem_sortBy (lt : α → α → Bool) (l : List α) (x : α) : x ∈ sortBy lt l ↔ x ∈ l :=
  (sortBy_perm lt l).mem_iff

theorem sortBy_length (lt : α → α → Bool) (l : List α) : (sortBy lt l).length = l.length :=
  (sortBy_perm lt l).length_eq

/-- "`a` may stand before `b`": `b` is not strictly smaller -/
def NotAfter (lt : α → α → Bool) (a b : α) : Prop := lt b a = false

/-- the order facts sorting needs: `lt` is asymmetric and its negation is transitive (a strict weak order) -/
structure WeakOrder (lt : α → α → Bool) : Prop where
  asymm : ∀ a b, lt a b = true → lt b a = false
  negTrans : ∀ a b c, lt b a = false → lt c b = false → lt c a = false

theorem insertBy_sorted (lt : α → α → Bool) (h : WeakOrder lt) (x : α) (l : List α)
    (hl : l.Pairwise (NotAfter lt)) : (insertBy lt x l).Pairwise (NotAfter lt) := by
  induction l with
  | nil => simp [insertBy]
  | cons y ys ih =>
    simp only [insertBy]
    rw [List.pairwise_cons] at hl
    split
    · rename_i hxy
      rw [List.pairwise_cons]
      refine ⟨?_, List.pairwise_cons.2 hl⟩
      intro b hb
      rcases List.mem_cons.1 hb with rfl | hb
      · exact h.asymm _ _ hxy
      · exact h.negTrans _ _ _ (h.asymm _ _ hxy) (hl.1 b hb)
    · rename_i hxy
      rw [List.pairwise_cons]
      refine ⟨?_, ih hl.2⟩
      intro b hb
      have := (insertBy_perm lt x ys).mem_iff.1 hb
      rcases List.mem_cons.1 this with rfl | hb'
      · simpa [NotAfter] using hxy
      · exact hl.1 b hb'

theorem sortBy_sorted (lt : α → α → Bool) (h : WeakOrder lt) (l : List α) : (sortBy lt l).Pairwise (NotAfter lt) := by
  induction l with
  | nil => exact List.Pairwise.nil
  | cons x xs ih => exact insertBy_sorted lt h x _ ih

/-- the first `n` elements of a sorted list are not after any of the remaining ones -/
theorem take_le_drop {R : α → α → Prop} (l : List α) (h : l.Pairwise R) (n : Nat) :
    ∀ a ∈ l.take n, ∀ b ∈ l.drop n, R a b := by
  have := List.take_append_drop n l
  rw [← this] at h
  exact (List.pairwise_append.1 h).2.2

end KadDHT

/- Helper lemmas for the accelerated client's closest-peers walk (used by Props/C16). Core Lean only. -/
import KadDHT.Model.FullRT
namespace KadDHT.FullRT

theorem length_le_of_nodup_subset {α : Type} [DecidableEq α] : ∀ {l m : List α}, l.Nodup → (∀ x ∈ l, x ∈ m) → l.length ≤ m.length
  | [], _, _, _ => Nat.zero_le _
  | a :: l, m, hn, hs => by
    have ham : a ∈ m := hs a (by simp)
    have hn' := List.nodup_cons.1 hn
    have : l.length ≤ (m.erase a).length := by
      apply length_le_of_nodup_subset hn'.2
      intro x hx
      have hxa : x ≠ a := fun h => hn'.1 (h ▸ hx)
      exact (List.mem_erase_of_ne hxa).2 (hs x (List.mem_cons_of_mem _ hx))
    have hl := List.length_erase_of_mem ham
    have : m.length ≥ 1 := List.length_pos_of_mem ham
    simp only [List.length_cons]; omega

theorem mem_members {c : Counts} {g p : Nat} : p ∈ members c g ↔ (g, p) ∈ c := by
  unfold members
  simp only [List.mem_map, List.mem_filter, beq_iff_eq]
  constructor
  · rintro ⟨⟨g', p'⟩, ⟨h, hg⟩, hp⟩; simp only at hg hp; subst hg; subst hp; exact h
  · intro h; exact ⟨(g, p), ⟨h, rfl⟩, rfl⟩

theorem members_nodup : ∀ {c : Counts}, c.Nodup → ∀ (g : Nat), (members c g).Nodup
  | [], _, _ => by simp [members]
  | e :: c, h, g => by
    have hn := List.nodup_cons.1 h
    have ih := members_nodup hn.2 g
    by_cases hg : e.1 = g
    · have : members (e :: c) g = e.2 :: members c g := by simp [members, List.filter_cons, hg]
      rw [this, List.nodup_cons]
      refine ⟨?_, ih⟩
      intro hm
      have := mem_members.1 hm
      apply hn.1
      have he : e = (g, e.2) := Prod.ext hg rfl
      rw [he]; exact this
    · have : members (e :: c) g = members c g := by simp [members, List.filter_cons, hg]
      rw [this]; exact ih

theorem addMember_nodup {c : Counts} (h : c.Nodup) (g p : Nat) : (addMember c g p).Nodup := by
  unfold addMember
  split
  · exact h
  · rename_i hc
    rw [List.nodup_append]
    refine ⟨h, by simp, ?_⟩
    intro a ha b hb
    simp at hb; subst hb
    intro hab; subst hab
    simp [ha] at hc

theorem mem_addMember {c : Counts} {g p : Nat} (e : Nat × Nat) : e ∈ addMember c g p ↔ e ∈ c ∨ e = (g, p) := by
  unfold addMember
  split
  · rename_i hc
    have : (g, p) ∈ c := by simpa using hc
    constructor
    · exact Or.inl
    · rintro (h | h); exact h; exact h ▸ this
  · simp

/-- the counts only ever mention peer `p` or what was there before -/
theorem visit_counts (limit p : Nat) : ∀ (gs : List Nat) (c : Counts) (e : Nat × Nat),
    e ∈ (visit limit p c gs).1 → e ∈ c ∨ (e.2 = p ∧ e.1 ∈ gs)
  | [], c, e, h => Or.inl h
  | g :: gs, c, e, h => by
    unfold visit at h
    split at h
    · rcases visit_counts limit p gs c e h with h | h
      · exact Or.inl h
      · exact Or.inr ⟨h.1, List.mem_cons_of_mem _ h.2⟩
    · split at h
      · exact Or.inl h
      · rcases visit_counts limit p gs _ e h with h | h
        · rcases (mem_addMember e).1 h with h | h
          · exact Or.inl h
          · exact Or.inr ⟨by rw [h], by rw [h]; simp⟩
        · exact Or.inr ⟨h.1, List.mem_cons_of_mem _ h.2⟩

theorem visit_mono (limit p : Nat) : ∀ (gs : List Nat) (c : Counts) (e : Nat × Nat), e ∈ c → e ∈ (visit limit p c gs).1
  | [], _, _, h => h
  | g :: gs, c, e, h => by
    unfold visit
    split
    · exact visit_mono limit p gs c e h
    · split
      · exact h
      · exact visit_mono limit p gs _ e ((mem_addMember e).2 (Or.inl h))

theorem visit_nodup (limit p : Nat) : ∀ (gs : List Nat) (c : Counts), c.Nodup → (visit limit p c gs).1.Nodup
  | [], _, h => h
  | g :: gs, c, h => by
    unfold visit
    split
    · exact visit_nodup limit p gs c h
    · split
      · exact h
      · exact visit_nodup limit p gs _ (addMember_nodup h g p)

/-- the per-group bound is an invariant of the inner loop -/
theorem visit_bound (limit p : Nat) : ∀ (gs : List Nat) (c : Counts),
    (∀ g, (members c g).length ≤ limit) → ∀ g, (members (visit limit p c gs).1 g).length ≤ limit
  | [], _, h => h
  | g :: gs, c, h => by
    unfold visit
    split
    · exact visit_bound limit p gs c h
    · split
      · exact h
      · rename_i hnm hlt
        apply visit_bound limit p gs
        intro g'
        unfold addMember
        split
        · exact h g'
        · by_cases hg : g' = g
          · subst hg
            have : members (c ++ [(g', p)]) g' = members c g' ++ [p] := by simp [members, List.filter_append]
            rw [this]; simp only [List.length_append, List.length_cons, List.length_nil]
            have := h g'; omega
          · have : members (c ++ [(g, p)]) g' = members c g' := by
              simp only [members, List.filter_append, List.map_append]
              have : (List.filter (fun e => e.1 == g') [(g, p)]) = [] := by
                simp only [List.filter_cons, List.filter_nil]
                have : (g == g') = false := by simpa using (fun h => hg h.symm)
                simp [this]
              simp [this]
            rw [this]; exact h g'

/-- a kept peer is counted in every one of its groups -/
theorem visit_keeps (limit p : Nat) : ∀ (gs : List Nat) (c : Counts), (visit limit p c gs).2 = true →
    ∀ g ∈ gs, (g, p) ∈ (visit limit p c gs).1
  | [], _, _, _, hg => by cases hg
  | g :: gs, c, hk, g', hg' => by
    unfold visit at hk ⊢
    split
    · rename_i hm
      simp only [hm, ↓reduceIte] at hk
      rcases List.mem_cons.1 hg' with rfl | hg'
      · exact visit_mono limit p gs c _ (mem_members.1 (by simpa using hm))
      · exact visit_keeps limit p gs c hk g' hg'
    · rename_i hm
      simp only [hm] at hk
      split
      · rename_i hge; simp [hge] at hk
      · rename_i hge
        simp only [hge, ↓reduceIte] at hk
        rcases List.mem_cons.1 hg' with rfl | hg'
        · exact visit_mono limit p gs _ _ ((mem_addMember _).2 (Or.inr rfl))
        · exact visit_keeps limit p gs _ hk g' hg'

end KadDHT.FullRT

namespace KadDHT.FullRT

/-- a table with distinct peer ids has one entry per peer -/
theorem entry_unique : ∀ {T : List (Nat × List Nat)}, (T.map (·.1)).Nodup → ∀ {e f : Nat × List Nat}, e ∈ T → f ∈ T →
    e.1 = f.1 → e.2 = f.2
  | [], _, _, _, he, _, _ => by cases he
  | x :: T, hn, e, f, he, hf, heq => by
    have hx : x.1 ∉ T.map (·.1) := (List.nodup_cons.1 hn).1
    have hT : (T.map (·.1)).Nodup := (List.nodup_cons.1 hn).2
    rcases List.mem_cons.1 he with he | he <;> rcases List.mem_cons.1 hf with hf | hf
    · rw [he, hf]
    · have : x.1 ∈ T.map (·.1) := List.mem_map.2 ⟨f, hf, by rw [← he]; exact heq.symm⟩
      exact absurd this hx
    · have : x.1 ∈ T.map (·.1) := List.mem_map.2 ⟨e, he, by rw [← hf]; exact heq⟩
      exact absurd this hx
    · exact entry_unique hT he hf heq

/-! ### the walk -/

/-- the walk, also returning the final counts -/
def walkC (K limit : Nat) : Counts → List Nat → List (Nat × List Nat) → Counts × List Nat
  | c, acc, [] => (c, acc)
  | c, acc, (p, gs) :: rest =>
    if acc.length ≥ K then (c, acc) else
    if limit == 0 then walkC K limit c (acc ++ [p]) rest
    else
      let r := visit limit p c gs
      if r.2 then walkC K limit r.1 (acc ++ [p]) rest else walkC K limit r.1 acc rest

theorem walk_eq_walkC (K limit : Nat) : ∀ (tbl : List (Nat × List Nat)) (c : Counts) (acc : List Nat),
    walk (visit limit) K limit c acc tbl = (walkC K limit c acc tbl).2
  | [], _, _ => rfl
  | (p, gs) :: rest, c, acc => by
    unfold walk walkC
    split
    · rfl
    · split
      · exact walk_eq_walkC K limit rest c _
      · simp only
        split
        · exact walk_eq_walkC K limit rest _ _
        · exact walk_eq_walkC K limit rest _ _

/-- the result extends `acc` by a sublist of the table's peers -/
theorem walkC_sublist (K limit : Nat) : ∀ (tbl : List (Nat × List Nat)) (c : Counts) (acc : List Nat),
    ∃ r, (walkC K limit c acc tbl).2 = acc ++ r ∧ r.Sublist (tbl.map (·.1))
  | [], _, acc => ⟨[], by simp [walkC], List.Sublist.refl _⟩
  | (p, gs) :: rest, c, acc => by
    unfold walkC
    split
    · exact ⟨[], by simp, List.nil_sublist _⟩
    · split
      · obtain ⟨r, h1, h2⟩ := walkC_sublist K limit rest c (acc ++ [p])
        exact ⟨p :: r, by rw [h1]; simp, by simpa using h2.cons_cons p⟩
      · simp only
        split
        · obtain ⟨r, h1, h2⟩ := walkC_sublist K limit rest (visit limit p c gs).1 (acc ++ [p])
          exact ⟨p :: r, by rw [h1]; simp, by simpa using h2.cons_cons p⟩
        · obtain ⟨r, h1, h2⟩ := walkC_sublist K limit rest (visit limit p c gs).1 acc
          exact ⟨r, h1, by simpa using h2.cons p⟩

theorem walkC_length (K limit : Nat) : ∀ (tbl : List (Nat × List Nat)) (c : Counts) (acc : List Nat),
    acc.length ≤ K → (walkC K limit c acc tbl).2.length ≤ K
  | [], _, _, h => h
  | (p, gs) :: rest, c, acc, h => by
    unfold walkC
    split
    · exact h
    · rename_i hlt
      have hlt' : (acc ++ [p]).length ≤ K := by simp only [List.length_append, List.length_cons, List.length_nil]; omega
      split
      · exact walkC_length K limit rest c _ hlt'
      · simp only
        split
        · exact walkC_length K limit rest _ _ hlt'
        · exact walkC_length K limit rest _ _ h

/-- invariant of the walk: counts are duplicate free, bounded per group, and every kept peer is counted in every group
    the table gives it -/
structure WInv (limit : Nat) (T : List (Nat × List Nat)) (c : Counts) (acc : List Nat) : Prop where
  nodup : c.Nodup
  bound : ∀ g, (members c g).length ≤ limit
  counted : ∀ p ∈ acc, ∀ e ∈ T, e.1 = p → ∀ g ∈ e.2, (g, p) ∈ c

theorem walkC_inv (K limit : Nat) (hl : limit > 0) (T : List (Nat × List Nat)) (hT : (T.map (·.1)).Nodup) :
    ∀ (tbl : List (Nat × List Nat)) (c : Counts) (acc : List Nat), (∀ e ∈ tbl, e ∈ T) → WInv limit T c acc →
      WInv limit T (walkC K limit c acc tbl).1 (walkC K limit c acc tbl).2
  | [], _, _, _, h => h
  | (p, gs) :: rest, c, acc, hsub, h => by
    have hz : (limit == 0) = false := by simp; omega
    have hrest : ∀ e ∈ rest, e ∈ T := fun e he => hsub e (List.mem_cons_of_mem _ he)
    unfold walkC
    split
    · exact h
    · simp only [hz, Bool.false_eq_true, ↓reduceIte]
      have hmono := visit_mono limit p gs c
      split
      · rename_i hk
        apply walkC_inv K limit hl T hT rest _ _ hrest
        refine ⟨visit_nodup limit p gs c h.nodup, visit_bound limit p gs c h.bound, ?_⟩
        intro q hq e he heq g hg
        rcases List.mem_append.1 hq with hq | hq
        · exact hmono _ (h.counted q hq e he heq g hg)
        · have hqp : q = p := by simpa using hq
          subst hqp
          -- the table has one entry per peer
          have : e = (q, gs) := by
            have hpT : (q, gs) ∈ T := hsub _ (by simp)
            exact Prod.ext_iff.2 ⟨heq, by
              have := KadDHT.FullRT.entry_unique hT he hpT heq
              exact this⟩
          rw [this] at hg
          exact visit_keeps limit q gs c hk g hg
      · apply walkC_inv K limit hl T hT rest _ _ hrest
        exact ⟨visit_nodup limit p gs c h.nodup, visit_bound limit p gs c h.bound,
          fun q hq e he heq g hg => hmono _ (h.counted q hq e he heq g hg)⟩

end KadDHT.FullRT

namespace KadDHT.FullRT

/-! ### exactness when no group is over the limit -/

theorem members_addMember_filter (c : Counts) (g p g2 : Nat) :
    (members (addMember c g p) g2).filter (· != p) = (members c g2).filter (· != p) := by
  unfold addMember
  split
  · rfl
  · by_cases hg : g = g2
    · subst hg
      simp [members, List.filter_append, List.filter_cons]
    · have : (g == g2) = false := by simpa using hg
      simp [members, List.filter_append, List.filter_cons, this]

theorem visit_keep_of_room (limit p : Nat) : ∀ (gs : List Nat) (c : Counts),
    (∀ g ∈ gs, ((members c g).filter (· != p)).length < limit) → (visit limit p c gs).2 = true
  | [], _, _ => rfl
  | g :: gs, c, h => by
    unfold visit
    split
    · exact visit_keep_of_room limit p gs c fun g' hg' => h g' (List.mem_cons_of_mem _ hg')
    · rename_i hm
      have hroom := h g (by simp)
      have hall : (members c g).filter (· != p) = members c g := by
        apply List.filter_eq_self.2
        intro a ha
        have : a ≠ p := fun hap => by subst hap; simp [ha] at hm
        simpa using this
      rw [hall] at hroom
      split
      · rename_i hge; omega
      · apply visit_keep_of_room limit p gs
        intro g' hg'
        rw [members_addMember_filter]
        exact h g' (List.mem_cons_of_mem _ hg')

/-- every count stems from a visited table entry that really has that group -/
def Prov (pre : List (Nat × List Nat)) (c : Counts) : Prop := ∀ e ∈ c, ∃ t ∈ pre, t.1 = e.2 ∧ e.1 ∈ t.2

theorem walkC_exact (K limit : Nat) (hl : limit > 0) (T : List (Nat × List Nat))
    (hroom : ∀ g, (T.filter fun e => e.2.contains g).length ≤ limit) :
    ∀ (rest pre : List (Nat × List Nat)) (c : Counts) (acc : List Nat), T = pre ++ rest → Prov pre c → c.Nodup →
      acc.length ≤ K → (walkC K limit c acc rest).2 = (acc ++ rest.map (·.1)).take K
  | [], _, _, acc, _, _, _, hK => by
    simp only [walkC, List.map_nil, List.append_nil]
    exact (List.take_of_length_le hK).symm
  | (p, gs) :: rest, pre, c, acc, hT, hprov, hn, hK => by
    have hz : (limit == 0) = false := by simp; omega
    unfold walkC
    split
    · rename_i hge
      have : acc.length = K := by omega
      simp only [List.map_cons]
      rw [List.take_append_of_le_length (by omega), List.take_of_length_le (by omega)]
    · rename_i hlt
      simp only [hz, Bool.false_eq_true, ↓reduceIte]
      -- the peer is kept: each of its groups has room
      have hkeep : (visit limit p c gs).2 = true := by
        apply visit_keep_of_room
        intro g hg
        have hF : ((members c g).filter (· != p)).Nodup := (members_nodup hn g).sublist List.filter_sublist
        have hS : ∀ x ∈ (members c g).filter (· != p), x ∈ (pre.filter fun e => e.2.contains g).map (·.1) := by
          intro x hx
          have hx' := (List.mem_filter.1 hx).1
          obtain ⟨t, ht, h1, h2⟩ := hprov (g, x) (mem_members.1 hx')
          exact List.mem_map.2 ⟨t, List.mem_filter.2 ⟨ht, by simpa using h2⟩, h1⟩
        have h1 := length_le_of_nodup_subset hF hS
        have h2 := hroom g
        rw [hT] at h2
        simp only [List.filter_append, List.length_append, List.filter_cons, List.length_map] at h1 h2
        have : gs.contains g = true := by simpa using hg
        simp only [this, ↓reduceIte, List.length_cons] at h2
        omega
      simp only [hkeep, ↓reduceIte]
      have := walkC_exact K limit hl T hroom rest (pre ++ [(p, gs)]) (visit limit p c gs).1 (acc ++ [p])
        (by rw [hT]; simp) ?_ (visit_nodup limit p gs c hn)
        (by simp only [List.length_append, List.length_cons, List.length_nil]; omega)
      · rw [this]; simp
      · intro e he
        rcases visit_counts limit p gs c e he with h | h
        · obtain ⟨t, ht, h1, h2⟩ := hprov e h
          exact ⟨t, List.mem_append_left _ ht, h1, h2⟩
        · exact ⟨(p, gs), by simp, h.1.symm, h.2⟩

theorem walk_limit0 (K : Nat) (vf : Nat → Counts → List Nat → Counts × Bool) : ∀ (tbl : List (Nat × List Nat)) (c : Counts) (acc : List Nat),
    acc.length ≤ K → walk vf K 0 c acc tbl = (acc ++ tbl.map (·.1)).take K
  | [], _, acc, hK => by simp only [walk, List.map_nil, List.append_nil]; exact (List.take_of_length_le hK).symm
  | (p, gs) :: rest, c, acc, hK => by
    unfold walk
    split
    · simp only [List.map_cons]
      rw [List.take_append_of_le_length (by omega), List.take_of_length_le (by omega)]
    · simp only [beq_self_eq_true, ↓reduceIte]
      rw [walk_limit0 K vf rest c (acc ++ [p]) (by simp only [List.length_append, List.length_cons, List.length_nil]; omega)]
      simp

end KadDHT.FullRT

/- The XOR metric on bit strings: order facts and the k-bucket lemma (C02). -/
import KadDHT.Proofs.Bits
namespace KadDHT

theorem bitsLt_irrefl (a : Key) : bitsLt a a = false := by
  induction a with
  | nil => rfl
  | cons x a ih => simp [bitsLt, ih]

theorem bitsLt_trans (a b c : Key) (h1 : bitsLt a b = true) (h2 : bitsLt b c = true) : bitsLt a c = true := by
  induction a generalizing b c with
  | nil =>
    cases b with
    | nil => simp [bitsLt] at h1
    | cons y b => cases c with
      | nil => simp [bitsLt] at h2
      | cons z c => rfl
  | cons x a ih =>
    cases b with
    | nil => simp [bitsLt] at h1
    | cons y b =>
      cases c with
      | nil => simp [bitsLt] at h2
      | cons z c =>
        simp only [bitsLt] at h1 h2 ⊢
        cases x <;> cases y <;> cases z <;> simp_all <;> exact ih b c h1 h2

theorem bitsLt_total (a b : Key) (h : a ≠ b) : bitsLt a b = true ∨ bitsLt b a = true := by
  induction a generalizing b with
  | nil =>
    cases b with
    | nil => exact absurd rfl h
    | cons y b => exact Or.inl rfl
  | cons x a ih =>
    cases b with
    | nil => exact Or.inr rfl
    | cons y b =>
      simp only [bitsLt]
      by_cases hxy : x = y
      · subst hxy
        simp only [beq_self_eq_true, ↓reduceIte]
        exact ih b (by intro heq; exact h (by rw [heq]))
      · cases x <;> cases y <;> simp_all

theorem kxor_inj (t a b : Key) (ha : a.length = t.length) (hb : b.length = t.length) (h : kxor a t = kxor b t) : a = b := by
  induction t generalizing a b with
  | nil =>
    cases a with
    | nil => cases b with
      | nil => rfl
      | cons _ _ => simp at hb
    | cons _ _ => simp at ha
  | cons z t ih =>
    cases a with
    | nil => simp at ha
    | cons x a =>
      cases b with
      | nil => simp at hb
      | cons y b =>
        simp only [kxor, List.cons.injEq] at h
        have hxy : x = y := by cases x <;> cases y <;> cases z <;> simp_all
        rw [hxy, ih a b (by simpa using ha) (by simpa using hb) h.2]

/-- The k-bucket lemma.  If `g` is nearer to `t` than `c`, then *every* peer `m` in the k-bucket of `c`
    that holds `g` (same common-prefix length with `c`) is nearer to `t` than `c`. -/
theorem bucket_lemma (t c g m : Key) (hc : c.length = t.length) (hg : g.length = t.length) (hm : m.length = t.length)
    (hgc : closer t g c = true) (hb : cpl c m = cpl c g) : closer t m c = true := by
  unfold closer at *
  induction t generalizing c g m with
  | nil =>
    cases c with
    | nil => cases g with
      | nil => simp [kxor, bitsLt] at hgc
      | cons _ _ => simp at hg
    | cons _ _ => simp at hc
  | cons z t ih =>
    cases c with
    | nil => simp at hc
    | cons x c =>
      cases g with
      | nil => simp at hg
      | cons y g =>
        cases m with
        | nil => simp at hm
        | cons w m =>
          simp only [kxor, bitsLt, cpl] at hgc hb ⊢
          by_cases hxy : x = y
          · -- same first bit: m shares it too, recurse
            subst hxy
            simp only [beq_self_eq_true, ↓reduceIte] at hb hgc
            by_cases hxw : x = w
            · subst hxw
              simp only [beq_self_eq_true, ↓reduceIte, Nat.add_right_cancel_iff] at hb ⊢
              exact ih c g m (by simpa using hc) (by simpa using hg) (by simpa using hm) hgc hb
            · have : (x == w) = false := by simpa using hxw
              simp [this] at hb
          · have hf : (x == y) = false := by simpa using hxy
            simp only [hf, Bool.false_eq_true, ↓reduceIte] at hb
            have hxw : (x == w) = false := by
              cases hh : (x == w) with
              | false => rfl
              | true => simp [hh] at hb
            -- m's first bit equals g's, which agrees with t
            cases x <;> cases y <;> cases w <;> cases z <;> simp_all

end KadDHT

/-
  Keys, prefixes, common prefix length and the XOR order.
  A Kademlia identifier (of a peer or of a content key) is a list of bits, most significant first.
  Core Lean only: this file is linked into the `kaddriver` executable.
-/
namespace KadDHT

abbrev Key := List Bool

/-- `isPre p k` : `p` is a (not necessarily strict) prefix of `k` — Go `IsPrefix`, `IsBitstrPrefix`. -/
def isPre : Key → Key → Bool
  | [], _ => true
  | _ :: _, [] => false
  | a :: p, b :: k => a == b && isPre p k

/-- common prefix length — Go `key.CommonPrefixLength`. -/
def cpl : Key → Key → Nat
  | a :: x, b :: y => if a == b then cpl x y + 1 else 0
  | _, _ => 0

/-- bitwise xor of two keys (truncating to the shorter). -/
def kxor : Key → Key → Key
  | a :: x, b :: y => (a != b) :: kxor x y
  | _, _ => []

/-- strict lexicographic order on bit lists, `false < true`, a proper prefix is smaller. -/
def bitsLt : Key → Key → Bool
  | [], [] => false
  | [], _ :: _ => true
  | _ :: _, [] => false
  | a :: x, b :: y => if a == b then bitsLt x y else (!a && b)

/-- `closer t a b` : `a` is strictly nearer to `t` than `b` in XOR distance. -/
def closer (t a b : Key) : Bool := bitsLt (kxor a t) (kxor b t)

/-- non-strict version -/
def closerEq (t a b : Key) : Bool := !closer t b a

/-- bit `i` of a key; out-of-range reads as `false` (callers state the range as a hypothesis). -/
def bitAt (k : Key) (i : Nat) : Bool := k.getD i false

def flipLast : Key → Key
  | [] => []
  | [b] => [!b]
  | a :: x => a :: flipLast x

/-- insertion into a list sorted by `lt` (stable: after equal elements). -/
def insertBy {α} (lt : α → α → Bool) (x : α) : List α → List α
  | [] => [x]
  | y :: ys => if lt x y then x :: y :: ys else y :: insertBy lt x ys

/-- stable insertion sort by `lt`; the models use it wherever Go sorts. -/
def sortBy {α} (lt : α → α → Bool) : List α → List α
  | [] => []
  | x :: xs => insertBy lt x (sortBy lt xs)

/-- parsing / printing helpers shared by all drivers -/
def parseBits (s : String) : Key :=
  s.toList.filterMap fun c => if c == '0' then some false else if c == '1' then some true else none

def showBits (k : Key) : String :=
  if k.isEmpty then "-" else String.ofList (k.map fun b => if b then '1' else '0')

def showList (xs : List String) : String :=
  if xs.isEmpty then "[]" else "[" ++ ",".intercalate xs ++ "]"

/-- split a comma separated field, "[]" / "" giving the empty list; surrounding brackets optional -/
def splitList (s : String) : List String :=
  let cs := s.toList
  let cs := if cs.head? == some '[' && cs.getLast? == some ']' then (cs.drop 1).dropLast else cs
  if cs.isEmpty then [] else (String.ofList cs).splitOn ","

/-- whitespace separated words of a line -/
def words (s : String) : List String :=
  (s.splitOn " ").filter (· ≠ "") |>.map fun w => String.ofList (w.toList.filter fun c => c ≠ '\n' && c ≠ '\r')

end KadDHT

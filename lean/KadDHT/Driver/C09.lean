/- Line-protocol driver for the server model (property C09). -/
import KadDHT.Driver.Common
import KadDHT.Model.Server
namespace KadDHT.Driver.C09
open KadDHT KadDHT.Driver KadDHT.Server

structure St where
  self : Nat := 0
  K : Nat := 20
  server : Bool := true
  values : Bool := true
  providers : Bool := true
  addrs : List (Nat × List Addr) := []          -- peerstore
  provs : List (String × List Nat) := []        -- provider store: key name ↦ providers
  vals : List String := []                      -- keys with a stored value
  streamDead : Bool := true

def kvOf (ws : List String) (k : String) : String :=
  match ws.find? (fun w => w.startsWith (k ++ "=")) with
  | some w => String.ofList (w.toList.drop (k.length + 1))
  | none => ""

def parseAddr (t : String) : Addr :=
  match t.splitOn ":" with
  | [id, len, v, p] => { id := id.toNat!, len := len.toNat!, valid := v == "1", passes := p == "1" }
  | _ => { len := 0 }

def parseAddrList (s : String) : List Addr :=
  if s == "-" || s == "" then [] else (s.splitOn ";").map parseAddr

def lookupAddrs (st : St) (p : Nat) : List Addr :=
  match st.addrs.find? (·.1 == p) with
  | some e => e.2
  | none => []

def parseType (n : Nat) : MsgType :=
  match n with
  | 0 => .putValue | 1 => .getValue | 2 => .addProvider | 3 => .getProviders | 4 => .findNode | 5 => .ping
  | n => .unknown n

def typeNum : MsgType → Nat
  | .putValue => 0 | .getValue => 1 | .addProvider => 2 | .getProviders => 3 | .findNode => 4 | .ping => 5
  | .unknown n => n

def b2s (b : Bool) : String := if b then "1" else "0"

def showPeers (ps : List OutPeer) (sorted : Bool) : String :=
  let ps := if sorted then sortBy (fun (a b : OutPeer) => a.id < b.id) ps else ps
  "[" ++ ",".intercalate (ps.map fun o => if o.truncated then s!"{o.id}:T" else s!"{o.id}:{o.addrs.length}") ++ "]"

/-- the peerstore merges addresses by identity; the model keeps (addr, identity) pairs per peer -/
structure PS where
  entries : List (Nat × List Addr) := []

def step (stps : St × PS) (line : String) : (St × PS) × String :=
  let (st, ps) := stps
  if line.startsWith "#" then (({}, {}), line) else
  let ws := words line
  match ws with
  | "srv" :: _ =>
    let st' : St := { self := (kvOf ws "self").toNat!, K := (kvOf ws "K").toNat!, server := kvOf ws "mode" == "s",
                      values := kvOf ws "values" == "1", providers := kvOf ws "providers" == "1" }
    ((st', {}), "handlers=[" ++ (if st'.server then "/verif/kad/1.0.0" else "") ++ "]")
  | ["peer", n, as] =>
    let p := n.toNat!
    let new := parseAddrList as
    let old := match ps.entries.find? (·.1 == p) with | some e => e.2 | none => []
    -- pstoremem keeps at most 64 unconnected addresses per peer (go-libp2p default)
    let merged := new.foldl (fun acc a => if acc.any (·.id == a.id) || acc.length ≥ 64 then acc else acc ++ [a]) old
    let ps' : PS := { entries := (p, merged) :: ps.entries.filter (·.1 != p) }
    ((st, ps'), "ok")
  | ["rt", _] => ((st, ps), "ok")
  | ["prov", k0, ns] =>
    let k := k0 ++ "/12"
    let new := (splitList ns).map String.toNat!
    let old := match st.provs.find? (·.1 == k) with | some e => e.2 | none => []
    let merged := new.foldl (fun acc a => if acc.contains a then acc else acc ++ [a]) old
    (({ st with provs := (k, merged) :: st.provs.filter (·.1 != k) }, ps), "ok")
  | ["val", k, _] => (({ st with vals := (k ++ "/12") :: st.vals }, ps), "ok")
  | "bound" :: _ =>
    let addrs := let t := kvOf ws "addrs"; if t == "-" || t == "" then [] else (t.splitOn ",").map String.toNat!
    let r := Wire.boundAddrs { idLen := (kvOf ws "idlen").toNat!, addrs := addrs, conn := (kvOf ws "conn").toNat! }
    ((st, ps), s!"kept={r.addrs.length}")
  | "fit" :: _ =>
    let sizes := let t := kvOf ws "sizes"; if t == "-" || t == "" then [] else (t.splitOn ",").map String.toNat!
    ((st, ps), s!"appended={Wire.appendFitting Wire.messageSizeMax (kvOf ws "base").toNat! sizes}")
  | "raw" :: _ =>
    -- malformed frames: an empty stream that is closed ends gracefully, everything else is reset
    let out := if !st.server then "reset" else if kvOf ws "kind" == "eof" then "closed" else "reset"
    (({ st with streamDead := true }, ps), out)
  | "req" :: _ =>
    let from_ := (kvOf ws "from").toNat!
    let typ := parseType (kvOf ws "type").toNat!
    let keyLen := (kvOf ws "keylen").toNat!
    -- the key bytes are determined by the key's name and its length
    let keyName := kvOf ws "key" ++ "/" ++ toString keyLen
    let target := let t := kvOf ws "target"; if t == "-" || t == "" then none else some t.toNat!
    let nearest := let n := kvOf ws "nearest"; if n == "-" || n == "" then [] else (n.splitOn ",").map String.toNat!
    let rec_ := kvOf ws "rec"
    let provRecs : List ProvRec :=
      let s := kvOf ws "provs"
      if s == "-" || s == "" then [] else
      (s.splitOn "|").map fun pr =>
        match pr.splitOn "=" with
        | [id, as] => { id := id.toNat!, addrs := parseAddrList as }
        | _ => { id := 0, addrs := [] }
    let addrsOf (p : Nat) : List Addr :=
      match ps.entries.find? (·.1 == p) with | some e => e.2 | none => []
    let srv : Srv := {
      self := st.self, K := st.K, serverMode := st.server, values := st.values, providers := st.providers,
      nearest := nearest, addrsOf := addrsOf,
      hasValue := st.vals.contains keyName,
      storedProviders := match st.provs.find? (·.1 == keyName) with | some e => e.2 | none => [] }
    let req : Req := {
      type := typ, keyLen := (if typ == .findNode && target.isSome && keyLen != 0 then 38 else keyLen), target := target,
      hasRecord := rec_ != "-", recordKeyMatches := rec_ == "m1" || rec_ == "m0", recordAccepted := rec_ == "m1",
      nCloser := (kvOf ws "ncloser").toNat!, providers := provRecs }
    let (resp, stored) := handle srv from_ req
    -- effects
    let st1 := match typ, resp with
      | .putValue, .msg .. => { st with vals := keyName :: st.vals }
      | _, _ => st
    let st2 := if stored.isEmpty then st1 else
      let old := match st1.provs.find? (·.1 == keyName) with | some e => e.2 | none => []
      let merged := stored.foldl (fun acc a => if acc.contains a.1 then acc else acc ++ [a.1]) old
      { st1 with provs := (keyName, merged) :: st1.provs.filter (·.1 != keyName) }
    -- the provider store also records the accepted (filtered) addresses in the peerstore, except for self
    let ps2 : PS := if stored.isEmpty then ps else
      stored.foldl (fun (acc : PS) (sp : Peer × List Addr) =>
        if sp.1 == st.self then acc else
        let old := match acc.entries.find? (·.1 == sp.1) with | some e => e.2 | none => []
        let merged := sp.2.foldl (fun m a => if m.any (·.id == a.id) || m.length ≥ 64 then m else m ++ [a]) old
        { entries := (sp.1, merged) :: acc.entries.filter (·.1 != sp.1) }) ps
    let out := match resp with
      | .reset => "reset"
      | .none => "none"
      | .msg t k r closer provs =>
        s!"resp t={typeNum t} key={b2s k} rec={b2s r} closer={showPeers closer false} provs={showPeers provs true}"
    ((st2, ps2), out)
  | _ => ((st, ps), "bad-op")

end KadDHT.Driver.C09

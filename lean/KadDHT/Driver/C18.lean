/- Line-protocol driver for the keyspace model (property C18; also used by C19/C17 through Trie ops). -/
import KadDHT.Driver.Common
import KadDHT.Model.Keyspace
namespace KadDHT.Driver.C18
open KadDHT KadDHT.Driver

/-- build a trie from ops `+k` (Add), `-k` (Remove), `^k` (PruneSubtrie); data = the key's text.
    `none` = Go would panic. -/
def buildTrie (spec : String) : Option (Trie String) :=
  (splitList spec).foldl (fun acc op =>
    match acc with
    | none => none
    | some t =>
      match op.toList with
      | '+' :: cs => let k := parseBits (String.ofList cs); t.add k (showBits k)
      | '-' :: cs => some (t.remove (parseBits (String.ofList cs))).1
      | '^' :: cs => some (t.prune (parseBits (String.ofList cs)))
      | _ => some t) (some Trie.empty)

def shape : Trie String → String
  | .empty => "."
  | .leaf k _ => showBits k
  | .node l r => "(" ++ shape l ++ " " ++ shape r ++ ")"

def sortStrings (xs : List String) : List String := sortBy (fun a b => a < b) xs

def showAlloc (a : List (String × List String)) : String :=
  let dests := sortStrings (a.map (·.1)).eraseDups
  showList (dests.map fun d =>
    d ++ ":" ++ "/".intercalate (sortStrings ((a.filter (·.1 == d)).flatMap (·.2))))

def handle (line : String) : String :=
  -- a trailing `@...` token carries harness-only data (raw ids) and is ignored by the model
  let ws := words line
  let ws := match ws.getLast? with
    | some w => if w.startsWith "@" then ws.dropLast else ws
    | none => ws
  match ws with
  | ["shape", t] => match buildTrie t with
    | some t => shape t
    | none => "panic"
  | ["entries", t, order] => match buildTrie t with
    | some t => showKeys (t.keysIn (parseBits order))
    | none => "panic"
  | ["findprefix", t, k] => match buildTrie t with
    | some t => showOptKey (t.findPrefixOfKey (parseBits k))
    | none => "panic"
  | ["findsub", t, k] => match buildTrie t with
    | some t => match t.findSubtrie (parseBits k) with
      | some s => shape s
      | none => "none"
    | none => "panic"
  | ["next", t, k, order] => match buildTrie t with
    | some t => showOptKey ((t.nextNonEmptyLeaf (parseBits k) (parseBits order)).map (·.1))
    | none => "panic"
  | ["coalesce", t] => match buildTrie t with
    | some t => shape t.coalesce
    | none => "panic"
  | ["subtract", t0, t1] => match buildTrie t0, buildTrie t1 with
    | some t0, some t1 => match t0.subtract t1 with
      | some r => shape r
      | none => "panic"
    | _, _ => "panic"
  | ["gaps", t, target, order] => match buildTrie t with
    | some t => showKeys (t.gaps (parseBits target) (parseBits order))
    | none => "panic"
  | ["alloc", items, dests, k] => match buildTrie items, buildTrie dests with
    | some it, some ds => showAlloc (it.allocate ds k.toNat!)
    | _, _ => "panic"
  | ["covered", t] => match buildTrie t with
    | some t => match t.covered with
      | some b => showBool b
      | none => "panic"
    | none => "panic"
  | ["regions", peers, size, order, cov] => match buildTrie peers with
    | some t => showList ((regionsFromPeers t size.toNat! (parseBits order) (parseBits cov)).map fun (p, sub) =>
        showBits p ++ ":" ++ "/".intercalate (sortStrings (sub.keys.map showBits)))
    | none => "panic"
  | ["regalloc", peers, r, order, cov, items] => match buildTrie peers with
    | some t =>
      let r := r.toNat!
      let order := parseBits order
      let regions := regionsFromPeers t r order (parseBits cov)
      let ps := regions.map (·.1)
      let its := parseKeys items
      showList (regions.map fun (p, sub) =>
        -- the region's peers in a trie of their own, rooted at depth 0 (extractMinimalRegions), and its keys
        let ptrie := (Trie.addMany Trie.empty (sub.entries order)).getD Trie.empty
        let ktrie := (Trie.addMany Trie.empty ((its.filter fun h => assignKey ps h == p).map fun h => (h, showBits h))).getD Trie.empty
        let a := ktrie.allocate ptrie r
        let dests := sortStrings (a.map (·.1)).eraseDups
        showBits p ++ ">" ++ "/".intercalate (sortStrings (sub.keys.map showBits)) ++ ">" ++
          ";".intercalate (dests.map fun d => d ++ ":" ++ "/".intercalate (sortStrings ((a.filter (·.1 == d)).flatMap (·.2)))))
    | none => "panic"
  | ["assign", prefixes, keys] =>
    let ps := parseKeys prefixes
    if ps.isEmpty then "[]" else
    showList ((parseKeys keys).map fun h => showBits (assignKey ps h))
  | ["shortest", target, sorted] =>
    let (p, ks) := shortestCovered (parseBits target) (parseKeys sorted)
    showBits p ++ " " ++ toString ks.length
  | ["extend", p, n] => showKeys (extendPrefix (parseBits p) n.toNat!)
  | ["siblings", k] => showKeys (siblingPrefixes (parseBits k))
  | ["sortorder", ks, order] => showKeys (sortByOrder (parseBits order) (parseKeys ks))
  | ["isprefix", a, b] => showBool (isPre (parseBits a) (parseBits b))
  | ["fliplast", a] => showBits (flipLast (parseBits a))
  | _ => "bad-op"

end KadDHT.Driver.C18

/- Line-protocol driver for the provider store model (property C07). -/
import KadDHT.Driver.Common
import KadDHT.Model.ProviderStore
namespace KadDHT.Driver.C07
open KadDHT KadDHT.Driver KadDHT.ProviderStore

def showNats (xs : List Nat) : String := showList (xs.map toString)
def sortNats (xs : List Nat) : List Nat := sortBy (fun a b => a < b) xs

def cacheStr (s : St) : String := "|cache=" ++ showNats (s.cache.map (·.1)).reverse   -- oldest first, as lru.Keys()

def outStr : Out → String
  | .ok => "ok"
  | .closed => "closed"
  | .provs ps => showNats (sortNats ps)

def diskStr (s : St) : String :=
  let es := sortBy (fun (a b : (K × P) × Time) => a.1.1 < b.1.1 || (a.1.1 == b.1.1 && a.1.2 < b.1.2)) s.disk
  showList (es.map fun e => s!"{e.1.1}/{e.1.2}@{e.2}")

def step (s : St) (line : String) : St × String :=
  if line.startsWith "#" then (init 1 0, line) else
  match words line with
  | ["new", cap, validity, _real] => let s' := init cap.toNat! validity.toNat!; (s', "ok" ++ cacheStr s')
  | ["par", k, p] =>
    -- a query and a concurrent addition for the same key: the manager's lock serialises them
    let (s1, o1) := get s k.toNat!
    let (s2, o2) := add s1 k.toNat! p.toNat!
    (s2, outStr o1 ++ "+" ++ outStr o2 ++ cacheStr s2)
  | ["rpar", k, p] =>
    -- an addition held inside its datastore write and a concurrent query: whatever the concurrent query saw, the
    -- query made after both have returned serves the provider
    let (s1, o1) := add s k.toNat! p.toNat!
    let (s2, _) := get s1 k.toNat!
    let (s3, o3) := get s2 k.toNat!
    (s3, outStr o1 ++ "+" ++ outStr o3 ++ cacheStr s3)
  | ["rparclose", k, p] =>
    let (s1, o1) := add s k.toNat! p.toNat!
    let s2 := close s1
    (s2, outStr o1 ++ "+ok" ++ cacheStr s2)
  | ["parclose", k] =>
    let (s1, o1) := get s k.toNat!
    let s2 := close s1
    (s2, outStr o1 ++ "+ok" ++ cacheStr s2)
  | ["new", cap, validity] => let s' := init cap.toNat! validity.toNat!; (s', "ok" ++ cacheStr s')
  | ["add", k, p] => let (s', o) := add s k.toNat! p.toNat!; (s', outStr o ++ cacheStr s')
  | ["get", k] => let (s', o) := get s k.toNat!; (s', outStr o ++ cacheStr s')
  | ["adv", d] => let s' := advance s d.toNat!; (s', "ok" ++ cacheStr s')
  | ["gc"] => let s' := gc s; (s', "ok" ++ cacheStr s')
  | ["gcclose"] =>
    -- a second manager's periodic sweep on the same datastore (interval 3), held inside its query for one more tick
    -- while Close waits for it: Close cancels the sweep, which gives up as soon as its query returns — as far as the
    -- store goes, only time passes
    let s' := advance s 4; (s', "ok" ++ cacheStr s')
  | ["restart"] => let s' := restart s; (s', "ok" ++ cacheStr s')
  | ["close"] => let s' := close s; (s', "ok" ++ cacheStr s')
  | ["disk"] => (s, diskStr s)
  | _ => (s, "bad-op")

end KadDHT.Driver.C07

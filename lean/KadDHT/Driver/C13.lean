/- Line-protocol driver for the mode model (property C13). -/
import KadDHT.Driver.Common
import KadDHT.Driver.C09
import KadDHT.Driver.C01
import KadDHT.Model.Mode
namespace KadDHT.Driver.C13
open KadDHT KadDHT.Driver KadDHT.Mode

def showSt (s : St) : String :=
  let m := if s.mode == .server then "server" else "client"
  let h := if s.handlers then "1" else "0"
  let alive := C01.sortNats ((s.streams.filter (·.alive)).map fun st => st.id) |>.map toString
  s!"mode={m} handler={h} open=[{",".intercalate alive}]"

def outStr : Out → String
  | .none => "-" | .nohandler => "nohandler" | .opened => "opened" | .answered => "answered" | .reset => "reset" | .dead => "dead"
  | .delivered => "delivered" | .nothing => "nothing"

def step (s : St) (line : String) : St × String :=
  if line.startsWith "#" then (init .auto, line) else
  let ws := words line
  match ws with
  | ["dht", opt] =>
    let o := match opt with
      | "auto" => ModeOpt.auto | "client" => .client | "server" => .server | _ => .autoServer
    let s' := init o
    (s', "- " ++ showSt s')
  | ["reach", r] =>
    let e := match r with | "public" => Reach.pub | "private" => .priv | _ => .unknown
    let (s', o) := Mode.step s (.reach e)
    (s', outStr o ++ " " ++ showSt s')
  | ["open", id, conn, dir] =>
    let (s', o) := Mode.step s (.openStream id.toNat! (dir == "in") (conn == "in"))
    (s', outStr o ++ " " ++ showSt s')
  | ["open", id, conn, dir, _on] =>
    -- the stream shares the connection of an earlier one: which connection carries a stream is irrelevant to the mode
    let (s', o) := Mode.step s (.openStream id.toNat! (dir == "in") (conn == "in"))
    (s', outStr o ++ " " ++ showSt s')
  | ["nego", id, conn] =>
    let (s', o) := Mode.step s (.negotiate id.toNat! (conn == "in"))
    (s', outStr o ++ " " ++ showSt s')
  | ["deliver", id] =>
    let (s', o) := Mode.step s (.deliver id.toNat!)
    (s', outStr o ++ " " ++ showSt s')
  | ["req", id] =>
    let (s', o) := Mode.step s (.request id.toNat!)
    (s', outStr o ++ " " ++ showSt s')
  | _ => (s, "bad-op")

end KadDHT.Driver.C13

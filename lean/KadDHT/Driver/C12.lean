/- Driver for routing-table membership (property C12). -/
import KadDHT.Driver.Common
import KadDHT.Driver.C09
import KadDHT.Driver.C01
import KadDHT.Model.RTMembership
namespace KadDHT.Driver.C12
open KadDHT KadDHT.Driver KadDHT.RTM

def showRt (s : St) : String := "rt=" ++ C01.showNats (C01.sortNats s.rt)
def showProbing (s : St) : String := "probing=" ++ C01.showNats (C01.sortNats s.probing)

def step (s : St) (line : String) : St × String :=
  if line.startsWith "#" then ({ self := 0 }, line) else
  let ws := words line
  let kv := C09.kvOf ws
  match ws.head? with
  | some "rt" => let s0 : St := { self := (kv "n").toNat! }; (s0, showRt s0)
  | some "ident" | some "proto" =>
    let s1 := RTM.step s (.identified (kv "p").toNat! (kv "proto" == "1") (kv "filt" == "1"))
    (s1, s!"{showRt s1} {showProbing s1}")
  | some "fixlow" =>
    -- `fixLowPeers`: while the table is small every connected peer is handed to `peerFound`, which starts an admission
    -- probe for those that advertise the protocol and pass the filter and are not members yet — the step an
    -- identification of such a peer takes; the others are left alone
    let valid := let t := kv "valid"; if t == "" then [] else (t.splitOn ",").map String.toNat!
    let s1 := if s.rt.length > 10 then s else valid.foldl (fun st p => RTM.step st (.identified p true true)) s
    (s1, s!"{showRt s1} {showProbing s1}")
  | some "probe" =>
    let p := (kv "p").toNat!
    if !s.probing.contains p then (s, showRt s ++ " noprobe") else
    -- the harness releases the oldest probe in flight for p; duplicates are separate probes
    let s1 := RTM.step s (if kv "res" == "fail" then .probeFail p else .probeOk p)
    (s1, s!"{showRt s1} {showProbing s1}")
  | some "lookup" =>
    let evs := if kv "events" == "" then [] else (kv "events").splitOn ","
    let s1 := evs.foldl (fun (st : St) (t : String) =>
      match t.splitOn ":" with
      | [p, "ok", _] => RTM.step st (.querySuccess p.toNat!)
      | [p, "fail", c] => RTM.step st (.queryFail p.toNat! (c == "1"))
      | _ => st) s
    (s1, showRt s1)
  | _ => (s, "bad-op")

/-- verdict state: the model state and the peers that have answered a request from this node so far -/
structure VSt where
  s : St := { self := 0 }
  answered : List Nat := []

/-- verdict on the real table: the local node is never a member; every member has answered a lookup query or an
    admission probe; a peer whose last outcome in an uncancelled lookup was a failure is not a member afterwards -/
def verdict (v : VSt) (line : String) : VSt × String :=
  if line.startsWith "#" then ({}, line) else
  let (inp, impl) := splitTab line
  let ws := words inp
  let kv := C09.kvOf ws
  let (s1, _) := step v.s inp
  let rt := (splitList (String.ofList (((words impl).headD "").toList.drop 3))).map String.toNat!
  let evs : List (Nat × Bool × Bool) :=
    if ws.head? != some "lookup" || kv "events" == "" then [] else ((kv "events").splitOn ",").filterMap fun t =>
      match t.splitOn ":" with
      | [p, r, c] => some (p.toNat!, r == "ok", c == "1")
      | _ => none
  let answered := v.answered ++ (evs.filter (·.2.1)).map (·.1) ++
    (if ws.head? == some "probe" && kv "res" != "fail" && v.s.probing.contains (kv "p").toNat! then [(kv "p").toNat!] else [])
  let v1 : VSt := { s := s1, answered := answered }
  -- the last outcome of each peer in this lookup
  let lastFailed := (evs.map (·.1)).eraseDups.filter fun p =>
    match (evs.filter (·.1 == p)).getLast? with
    | some (_, ok, cancelled) => !ok && !cancelled
    | none => false
  if rt.contains s1.self then (v1, "FAIL the local node is a member of its own routing table")
  else if rt.any (fun p => !answered.contains p) then (v1, "FAIL a member has never answered a request from this node")
  else if lastFailed.any (fun p => rt.contains p) then
    (v1, "FAIL a member that failed a dial or request in an uncancelled lookup is still in the table")
  else if (ws.head? == some "ident" || ws.head? == some "proto") && (kv "proto" == "0" || kv "filt" == "0")
      && rt.contains (kv "p").toNat! then
    (v1, "FAIL a member reported as no longer supporting the protocol (or no longer passing the filter) is still in the table")
  else (v1, "ok")

/-! ### refresh requests (sibling harness in package rtrefresh) -/

structure RV where
  r : RSt := {}
  s : St := { self := 1000000 }
  pings : List (Nat × String) := []
  old : List Nat := []
  q : String := "ok"
  issued : List Nat := []
  /-- hanging queries stretch a refresh over a minute or more, after which members of unknown number have gone
      stale: the table is no longer predicted -/
  rtUnknown : Bool := false

/-- the liveness phase of one refresh: stale members that do not answer leave -/
def livenessPhase (v : RV) : St :=
  v.old.foldl (fun st p =>
    match (v.pings.find? (·.1 == p)).map (·.2) with
    | some "ok" => RTM.step st (.pingOk p)
    | some _ => RTM.step st (.pingFail p)
    | none => st) v.s

def rStep (v : RV) (line : String) : RV × String :=
  if line.startsWith "#" then ({}, line) else
  let ws := words line
  let kv := C09.kvOf ws
  let showIds (v : RV) : String := "ids=" ++ C01.showNats (C01.sortNats v.r.answered)
  match ws.head? with
  | some "refresh-manager" =>
    let pings := if kv "pings" == "" then [] else ((kv "pings").splitOn ",").filterMap fun t =>
      match t.splitOn ":" with
      | [p, b] => some (p.toNat!, b)
      | _ => none
    ({ pings := pings, q := kv "q" }, "-")
  | some "member" =>
    let p := (kv "p").toNat!
    ({ v with s := RTM.step v.s (.querySuccess p), old := if kv "age" == "old" then v.old ++ [p] else v.old }, "-")
  | some "refresh" =>
    let id := (kv "id").toNat!
    if v.r.closed then
      -- the context has ended: the request is answered with the context error by its own goroutine
      match rrun v.r [.request id, .selfAnswer id] with
      | some r1 => let v1 := { v with r := r1, issued := v.issued ++ [id] }; (v1, showIds v1)
      | none => (v, "model-stuck")
    else
      -- the loop takes the request and runs the whole refresh before anything else happens, unless a ping or a
      -- query hangs (then it ends at the next `wait`)
      let hangs := v.q == "hang" || v.old.any fun p => (v.pings.find? (·.1 == p)).map (·.2) == some "hang" && v.s.rt.contains p
      match (if v.r.loop == .refreshing then none else rrun v.r [.request id, .accept id]) with
      | some r1 =>
        let v1 := { v with r := r1, issued := v.issued ++ [id] }
        if hangs then (v1, showIds v1) else
        match rstep r1 .endRefresh with
        | some r2 => let v2 := { v1 with r := r2, s := livenessPhase v1 }; (v2, showIds v2)
        | none => (v1, "model-stuck")
      | none =>
        -- a refresh is under way (hanging): the request waits to be taken
        match rstep v.r (.request id) with
        | some r1 => let v1 := { v with r := r1, issued := v.issued ++ [id] }; (v1, showIds v1)
        | none => (v, "model-stuck")
  | some "wait" =>
    if v.r.closed then let v1 := { v with r := drain v.r }; (v1, showIds v1) else
    -- everything that hangs has timed out by now: the refresh under way ends, queued requests are served by another
    let r1 := if v.r.loop == .refreshing then (rstep v.r .endRefresh).getD v.r else v.r
    let s1 := if v.r.loop == .refreshing then livenessPhase v else v.s
    let (r2, s2) := if r1.sending.isEmpty then (r1, s1) else
      let r' := { r1 with waiting := r1.sending, sending := [], loop := .refreshing }
      ((rstep r' .endRefresh).getD r', livenessPhase { v with s := s1 })
    -- ten minutes have passed: every member's last successful query is older than the grace period now
    let unk := v.rtUnknown || (v.q == "hang" && !r1.sending.isEmpty)
    let v1 := { v with r := r2, s := s2, old := s2.rt, rtUnknown := unk }
    (v1, showIds v1 ++ (if unk then "" else " rt=" ++ C01.showNats (C01.sortNats v1.s.rt)))
  | some "close" =>
    -- Close returns only when the loop and every request goroutine have ended
    let v1 := { v with r := drain { v.r with closed := true } }
    (v1, showIds v1)
  | _ => (v, "bad-op")

/-- verdict: every refresh request issued has received exactly one answer once the manager has been closed or has
    had time to finish -/
def rVerdict (v : RV) (line : String) : RV × String :=
  if line.startsWith "#" then ({}, line) else
  let (inp, impl) := splitTab line
  let (v1, _) := rStep v inp
  let ws := words inp
  if (impl.splitOn "BUBBLE").length > 1 then (v1, "FAIL Close or a refresh request never returns (blocked goroutines remain)") else
  let res := splitList (C09.kvOf (words impl) "res")
  let twice := res.any fun (t : String) => (t.splitOn "+").length > 1
  if twice then (v1, "FAIL a refresh request received two answers") else
  if ws.head? == some "wait" || ws.head? == some "close" then
    let ids := (splitList (C09.kvOf (words impl) "ids")).map String.toNat!
    if v1.issued.any (fun id => !ids.contains id) then (v1, "FAIL a refresh request has not been answered") else (v1, "ok")
  else (v1, "ok")

end KadDHT.Driver.C12

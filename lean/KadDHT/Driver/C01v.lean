/- Verdict driver for C01: the lookup result on the implementation's own output.
   The model's result is, by the theorems of Props/C01, exactly "the K nearest of the learned non-failed
   peers, ascending, without the local node".  When the implementation asked the same peers (same
   `asked=` multiset, hence processed the same answers) but returns another peer list, the property fails
   on this very input. -/
import KadDHT.Driver.C01
namespace KadDHT.Driver.C01v
open KadDHT KadDHT.Driver

def tokenOf (line key : String) : String :=
  match (words line).find? (fun w => w.startsWith (key ++ "=")) with
  | some w => String.ofList (w.toList.drop (key.length + 1))
  | none => ""

def step (st : C01.St) (line : String) : C01.St × String :=
  if line.startsWith "#" then ({}, line) else
  let (inp, impl) := splitTab line
  let (st', model) := C01.step st inp
  if impl.startsWith "panic" || impl.startsWith "HANG" then (st', "FAIL " ++ impl) else
  if (words inp).head? == some "finish" then
    -- (C10) at most 2K closer peers of one response enter the lookup
    let evs := (tokenOf impl "events").splitOn ";"
    let tooMany := evs.any fun e =>
      match e.splitOn ":" with
      | ["upd", _, "q", l] => (l.splitOn ".").length > 2 * st.cfg.K
      | _ => false
    if tooMany then (st', s!"FAIL more than 2K = {2 * st.cfg.K} closer peers of one response entered the lookup") else
    if tokenOf impl "asked" == tokenOf model "asked" && tokenOf impl "peers" != tokenOf model "peers" then
      (st', s!"FAIL result {tokenOf impl "peers"} is not the K nearest learned non-failed peers {tokenOf model "peers"}")
    else
      -- (C02) a result reported completed: the request was sent at least once to every returned peer
      let peers := splitList (tokenOf impl "peers")
      let asked := splitList (tokenOf impl "asked")
      if tokenOf impl "completed" == "1" && peers.any (fun p => !asked.contains p) then
        (st', s!"FAIL completed, but a returned peer was never sent the request: peers={tokenOf impl "peers"} asked={tokenOf impl "asked"}")
      else (st', "ok")
  else (st', "ok")

end KadDHT.Driver.C01v

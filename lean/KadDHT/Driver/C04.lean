/- Driver for the value search model (property C04): replays the concrete release log of a GetValue /
   SearchValue case and predicts the streamed values. -/
import KadDHT.Driver.Common
import KadDHT.Driver.C09
import KadDHT.Model.ValueSearch
namespace KadDHT.Driver.C04
open KadDHT KadDHT.Driver KadDHT.ValueSearch

structure St where
  kind : String := ""
  quorum : Nat := 0
  n : Nat := 0
  recs : List (Nat × Rec) := []
  ps : PState := {}
  cancelled : Bool := false
  noSeeds : Bool := false

def parseRec (v : String) : Rec :=
  if v == "-" || v == "" then .none
  else if v == "nil" then .nilValue
  else if v == "mis" || v == "mis2" then .miskeyed
  else if v == "bad" then .value ⟨7, 1⟩ false
  else if v.startsWith "r" then .value ⟨(String.ofList (v.toList.drop 1)).toNat!, 0⟩ true
  else if v.startsWith "s" then .value ⟨(String.ofList (v.toList.drop 1)).toNat!, 2⟩ true
  else .none

def showVal (v : Val) : String := if v.payload == 2 then s!"{v.rank}:alt" else s!"{v.rank}:ok"

/-- process one concrete release token such as `G5:ok` -/
def release (st : St) (tok : String) : St :=
  match tok.splitOn ":" with
  | [who, "ok"] =>
    if who.startsWith "G" && !st.cancelled then
      let p := (String.ofList (who.toList.drop 1)).toNat!
      match (st.recs.find? (·.1 == p)).map (·.2) with
      | some r =>
        match admitRec r with
        | .admitted v => { st with ps := receive st.quorum st.ps p v }
        | _ => st
      | none => st
    else st
  | _ => st

def step (st : St) (line : String) : St × String :=
  if line.startsWith "#" then ({}, line) else
  let ws := words line
  match ws with
  | "op" :: _ =>
    let n := (C09.kvOf ws "n").toNat!
    let recs := ((C09.kvOf ws "peers").splitOn "|").filterMap fun t =>
      match t.splitOn ":" with
      | id :: _ :: _ :: v :: _ => some (id.toNat!, parseRec v)
      | _ => none
    let st0 : St := { kind := C09.kvOf ws "kind", quorum := (C09.kvOf ws "quorum").toNat!, n := n, recs := recs,
                      noSeeds := C09.kvOf ws "rt" == "" }
    -- the local record is offered first
    let st1 := match parseRec (C09.kvOf ws "local") with
      | .value v true => { st0 with ps := receive st0.quorum st0.ps n v }
      | _ => st0
    (st1, "-")
  | ["rel", tok] => (release st tok, "-")
  | ["cancel"] => ({ st with cancelled := true }, "-")
  | "finish" :: rest =>
    let late := match rest.find? (·.startsWith "late=") with
      | some w => (String.ofList (w.toList.drop 5)).splitOn ","
      | none => []
    let st' := late.foldl release st
    if st'.kind == "getpublickey" then (st', "-") else
    let vals := if st'.kind == "getvalue" then (finalValue st'.ps).toList else st'.ps.emitted
    let err := if st'.kind == "getvalue" && vals.isEmpty then "notfound" else "nil"
    (st', s!"vals=[{",".intercalate (vals.map showVal)}] err={err}")
  | _ => (st, "-")

/-- verdict: only validator-approved values for the requested key are ever yielded, in strictly improving
    order; a returned public key hashes to the peer -/
def verdict (st : St) (line : String) : St × String :=
  if line.startsWith "#" then ({}, line) else
  let (inp, impl) := splitTab line
  let (st', _) := step st inp
  if (impl.splitOn "panic").length > 1 then (st', "FAIL panic") else
  if (words inp).head? != some "finish" then (st', "ok") else
  if (impl.splitOn "pk=MISMATCH").length > 1 then (st', "FAIL the returned public key does not hash to the peer id") else
  let vals := match (words impl).find? (·.startsWith "vals=") with
    | some w => splitList (String.ofList (w.toList.drop 5))
    | none => []
  if vals.any (fun v => v == "7:bad" || v == "9:ok") then (st', "FAIL an invalid or mis-keyed record was yielded: " ++ toString vals) else
  let ranks := vals.filterMap fun v => ((v.splitOn ":").headD "").toNat?
  let rec increasing : List Nat → Bool
    | a :: b :: rest => a < b && increasing (b :: rest)
    | _ => true
  if st'.kind == "searchvalue" && !increasing ranks then (st', "FAIL streamed values are not strictly improving: " ++ toString vals) else
  (st', "ok")

end KadDHT.Driver.C04

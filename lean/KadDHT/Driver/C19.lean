/- Line-protocol driver for the queue model (property C19). -/
import KadDHT.Driver.Common
import KadDHT.Model.Queue
namespace KadDHT.Driver.C19
open KadDHT KadDHT.Driver KadDHT.Queue

structure St where
  ps : PS := PS.empty
  ds : List Entry := []
  rq : PQ := []

def sortKeys (ks : List Key) : List Key := sortBy bitsLt ks

def dump (s : St) : String :=
  "|" ++ showKeys s.ps.order ++ "|" ++ showKeys (sortKeys s.ps.keys)

def step (s : St) (line : String) : St × String :=
  if line.startsWith "#" then ({}, line) else
  match words line with
  | ["new"] => let s' : St := {}; (s', "ok" ++ dump s')
  | ["enq", p, ks] =>
    let s' := { s with ps := enqueue s.ps (parseBits p) (parseKeys ks) }
    (s', "ok" ++ dump s')
  | ["deq"] =>
    let (r, ps') := dequeue s.ps
    let s' := { s with ps := ps' }
    (s', (match r with
      | none => "none"
      | some (p, ks) => showBits p ++ ":" ++ showKeys (sortKeys ks)) ++ dump s')
  | ["deqm", p] =>
    let (ks, ps') := dequeueMatching s.ps (parseBits p)
    let s' := { s with ps := ps' }
    (s', showKeys (sortKeys ks) ++ dump s')
  | ["rm", ks] =>
    let s' := { s with ps := removeKeys s.ps (parseKeys ks) }
    (s', "ok" ++ dump s')
  | ["clear"] =>
    let (n, ps') := clear s.ps
    let s' := { s with ps := ps' }
    (s', toString n ++ dump s')
  | ["persist"] =>
    let s' := { s with ds := persist s.ps }
    (s', "ok" ++ dump s')
  | ["persist", _batchSize] =>       -- the batch size must not matter
    let s' := { s with ds := persist s.ps }
    (s', "ok" ++ dump s')
  | ["restart"] =>
    let (ps', ds') := drain true PS.empty s.ds
    let s' := { s with ps := ps', ds := ds' }
    (s', "ok" ++ dump s')
  | ["drain"] =>
    let (ps', ds') := drain true s.ps s.ds
    let s' := { s with ps := ps', ds := ds' }
    (s', "ok" ++ dump s')
  | ["renq", ps] => let s' := { s with rq := pushMany s.rq (parseKeys ps) }; (s', "ok|" ++ showKeys s'.rq)
  | ["rdeq"] =>
    let (r, q') := pop s.rq
    let s' := { s with rq := q' }
    (s', showOptKey r ++ "|" ++ showKeys s'.rq)
  | ["rrm", p] =>
    let (r, q') := remove s.rq (parseBits p)
    let s' := { s with rq := q' }
    (s', showBool r ++ "|" ++ showKeys s'.rq)
  | ["rclear"] => let n := s.rq.length; let s' := { s with rq := [] }; (s', toString n ++ "|[]")
  | _ => (s, "bad-op")

end KadDHT.Driver.C19

/- Driver for the dual-DHT model (property C15): one operation per case. -/
import KadDHT.Driver.Common
import KadDHT.Driver.C09
import KadDHT.Driver.C01
import KadDHT.Model.Dual
namespace KadDHT.Driver.C15
open KadDHT KadDHT.Driver KadDHT.Addr KadDHT.Dual

def parseAddr (tok : String) : Addr :=
  let cs := tok.toList
  let relay := cs.getLast? == some 'r'
  let body := String.ofList (if relay then cs.dropLast else cs)
  let host : Host :=
    if body.startsWith "4:" then .ip4 (String.ofList (body.toList.drop 2)).toNat!
    else if body.startsWith "6:" then .ip6 (String.ofList (body.toList.drop 2)).toNat!
    else if body == "dl" then .dnsLocal else .dns
  { host := host, relay := relay }

/-- addresses travel with their token, so that the output can name them -/
abbrev TA := String × Addr

def parseAddrs (spec : String) : List TA :=
  if spec == "" || spec == "-" then [] else (spec.splitOn ",").map fun t => (t, parseAddr t)

def insertStr (x : String) : List String → List String
  | [] => [x]
  | y :: ys => if x < y then x :: y :: ys else y :: insertStr x ys
def sortStrs (l : List String) : List String := l.foldr insertStr []

def showToks (l : List TA) : String := "[" ++ ",".intercalate (sortStrs (l.map (·.1)).eraseDups) ++ "]"

def keepBy (f : Addr → Bool) (l : List TA) : List TA := l.filter fun x => f x.2

def sideFilter (s : Side) (l : List TA) : List TA :=
  match s with | .wan => keepBy manetPublic l | .lan => keepBy (fun a => !loopback a) l

def b2s (b : Bool) : String := if b then "1" else "0"

def errStr : Option Err → String
  | none => "nil"
  | some .lookupFailure => "lookupfailure"
  | some (.other 0) => "notfound"
  | some _ => "other"

def handle (line : String) : String :=
  if line.startsWith "#" then line else
  let ws := words line
  let kv := C09.kvOf ws
  let wanrt := kv "wanrt" == "1"
  let lanrt := kv "lanrt" == "1"
  let host := parseAddrs (kv "host")
  match kv "kind" with
  | "classify" =>
    let a := parseAddr (kv "addr")
    s!"pubq={b2s (publicQueryFilter [a])} privq={b2s (privateQueryFilter [a])} pubrt={b2s (publicQueryFilter [a])}" ++
      (if dhtPrivate a && !a.relay then " privrt=1" else "")
  | "provide" | "putvalue" =>
    let side := routeWrite (if wanrt then 1 else 0)
    let rtOk := match side with | .wan => wanrt | .lan => lanrt
    let n := match side with | .wan => 1 | .lan => 2
    if !rtOk then "wan=[] lan=[] payload=- err=lookupfailure" else
    let adv := sideFilter side host
    let (rpcs, payload) :=
      if kv "kind" == "putvalue" then (s!"F{n},V{n}", "-")
      else if adv.isEmpty then (s!"F{n}", "-") else (s!"F{n},A{n}", s!"1000000:{showToks adv}")
    let (w, l) := match side with | .wan => (rpcs, "") | .lan => ("", rpcs)
    s!"wan=[{w}] lan=[{l}] payload={payload} err=nil"
  | "getvalue" =>
    let res (rt : Bool) (v : String) : Except Err String :=
      -- the inner GetValue reports every failure, an empty routing table included, as not-found
      if !rt then .error (.other 0)
      else if v.startsWith "r" then .ok (String.ofList (v.toList.drop 1) ++ ":ok") else .error (.other 0)
    match getValue (res wanrt (kv "wv")) (res lanrt (kv "lv")) with
    | .ok v => s!"val={v} err=nil"
    | .error e => s!"val=- err={errStr e}"
  | "findpeer" =>
    if !wanrt && !lanrt then "addrs=[] err=lookupfailure" else
    let aw := parseAddrs (kv "aw")
    let al := parseAddrs (kv "al")
    let tbeh := kv "tbeh"
    let fin := ((kv "order").splitOn ".").foldl (fun (acc : List TA × Bool) st =>
      let (S, conn) := acc
      let learn (side : Side) (addrs : List TA) : List TA × Bool :=
        -- the target is always followed; its addresses pass the side's address filter unless it is connected
        let r := referral side true conn (addrs.map (·.2)) (S.map (·.2))
        let kept := (addrs ++ S).filter fun x => r.2.contains x.2
        ((S ++ kept), conn)
      match st with
      | "W" => if wanrt then learn .wan aw else acc
      | "L" => if lanrt then learn .lan al else acc
      | "tw" => if wanrt && tbeh != "dialfail" then (S, true) else acc
      | "tl" => if lanrt && tbeh != "dialfail" then (S, true) else acc
      | _ => acc) (([] : List TA), false)
    -- a target that could not be dialled is dropped from the lookup result: neither side finds it
    if tbeh == "dialfail" then "addrs=[] err=notfound" else
    s!"addrs={showToks fin.1} err=nil"
  | "findprovs" =>
    let ids (s : String) : List Nat := if s == "" || s == "-" then [] else (s.splitOn ",").map String.toNat!
    let union := ((if wanrt then ids (kv "pw") else []) ++ (if lanrt then ids (kv "pl") else [])).eraseDups
    let count := (kv "count").toNat!
    -- the model's answer for the arrival order "all of WAN then all of LAN"; any other order yields as many
    let m := merge count union
    if count == 0 || union.length ≤ count then s!"n={m.length} set={C01.showNats (C01.sortNats union)}"
    else s!"n={m.length}"
  | "learn" =>
    let side := if kv "side" == "lan" then Side.lan else Side.wan
    let refs : List (Nat × List TA) := ((kv "refs").splitOn "|").filterMap fun r =>
      match r.splitOn ":" with
      | id :: rest => some (id.toNat!, parseAddrs (":".intercalate rest))
      | [] => none
    let res : List (Nat × Bool × List TA) := refs.map fun ((id, addrs) : Nat × List TA) =>
      let r := referral side false false (addrs.map fun (x : TA) => x.2) []
      (id, r.1, addrs.filter fun (x : TA) => r.2.contains x.2)
    let followed := C01.sortNats ((res.filter (·.2.1)).map (·.1))
    s!"followed={C01.showNats followed} stored={"|".intercalate (res.map fun (id, _, st) => s!"{id}:{showToks st}")}"
  | "serve" =>
    let side := if kv "side" == "lan" then Side.lan else Side.wan
    let addrs := parseAddrs (kv "addrs")
    -- a provider entry without any address is ignored; one whose addresses are all filtered out is stored bare
    if addrs.isEmpty then "stored=none" else s!"stored={showToks (sideFilter side addrs)}"
  | _ => "bad-op"

/-- verdict on the real observation: the rules of the property that do not need the model's exact answer -/
def verdict (line : String) : String :=
  if line.startsWith "#" then line else
  let (inp, impl) := splitTab line
  if (impl.splitOn "panic").length > 1 || (impl.splitOn "BUBBLE").length > 1 then "FAIL panic or stuck goroutines" else
  let ws := words inp
  let kv := C09.kvOf ws
  let iw := words impl
  match kv "kind" with
  | "findprovs" =>
    let seq := (splitList (C09.kvOf iw "provs")).map String.toNat!
    let count := (kv "count").toNat!
    let ids (s : String) : List Nat := if s == "" || s == "-" then [] else (s.splitOn ",").map String.toNat!
    if seq.eraseDups.length != seq.length then "FAIL a provider was yielded twice"
    else if count > 0 && seq.length > count then s!"FAIL {seq.length} providers yielded, count is {count}"
    else if seq.any (fun p => !(ids (kv "pw") ++ ids (kv "pl")).contains p) then "FAIL a provider nobody named"
    else "ok"
  | "provide" =>
    -- no advertised address may fail the side's filter
    let payload := C09.kvOf iw "payload"
    let toks := if payload == "-" then [] else splitList (":".intercalate ((payload.splitOn ":").drop 1))
    let wanSent := !(splitList (C09.kvOf iw "wan")).isEmpty
    if wanSent && toks.any (fun t => !manetPublic (parseAddr t)) then "FAIL the WAN DHT advertised a non-public address"
    else if !wanSent && toks.any (fun t => loopback (parseAddr t)) then "FAIL the LAN DHT advertised a loopback address"
    else "ok"
  | _ => "ok"

end KadDHT.Driver.C15

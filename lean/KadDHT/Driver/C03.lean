/- Driver for C03: what every routing operation must look like from outside, whatever the schedule.
   The lookup state machine itself is replayed by the C01 driver; here only the outcome is fixed:
   the operation returned, its result channel is closed, nothing panicked, no goroutine is left. -/
import KadDHT.Driver.Common
namespace KadDHT.Driver.C03
open KadDHT KadDHT.Driver

def step (_ : Unit) (line : String) : Unit × String :=
  if line.startsWith "#" then ((), line) else
  match (words line).head? with
  | some "finish" => ((), "returned=1 closed=1 leak=0")
  | _ => ((), "-")

/-- verdict: the four clauses on the implementation's own observation -/
def verdict (_ : Unit) (line : String) : Unit × String :=
  if line.startsWith "#" then ((), line) else
  let (inp, impl) := splitTab line
  if (impl.splitOn "panic").length > 1 then ((), "FAIL panic: " ++ impl) else
  if (impl.splitOn "|BUBBLE").length > 1 then ((), "FAIL goroutines still blocked after Close and cancellation: " ++ impl) else
  match (words inp).head? with
  | some "cancelwait" =>
    if (impl.splitOn "back=1").length > 1 then ((), "ok")
    else ((), "FAIL the caller cancelled and every call bound to its context came back, yet the operation has not returned: " ++ impl)
  | some "finish" =>
    let iw := words impl
    let get (k : String) : String :=
      match iw.find? (fun w => w.startsWith (k ++ "=")) with
      | some w => String.ofList (w.toList.drop (k.length + 1))
      | none => ""
    if get "returned" != "1" then ((), "FAIL the operation did not return although every contacted peer answered, failed or timed out")
    else if get "closed" != "1" then ((), "FAIL result channel not closed")
    else if get "leak" != "0" then ((), "FAIL background goroutines remain after the operation returned and Close: leak=" ++ get "leak")
    else ((), "ok")
  | _ => ((), "ok")

end KadDHT.Driver.C03

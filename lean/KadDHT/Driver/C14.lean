/- Driver for the lifecycle checks (property C14): the expected observation of every case is the same — everything
   returned, nothing panicked, nothing is left running. -/
import KadDHT.Driver.Common
import KadDHT.Driver.C09
namespace KadDHT.Driver.C14
open KadDHT KadDHT.Driver

def handle (line : String) : String :=
  if line.startsWith "#" then line else "-"

/-- verdict on the observation of a lifecycle case -/
def verdict (line : String) : String :=
  if line.startsWith "#" then line else
  let (_, impl) := splitTab line
  let has (t : String) : Bool := (impl.splitOn t).length > 1
  if has "BUBBLE:deadlock" then "FAIL goroutines are still blocked after Close (something the instance started was left running, or Close / an operation hangs)"
  else if has "BUBBLE" then "FAIL panic"
  else if has "panic=true" then "FAIL a constructor panicked"
  else if has "bus=BLOCKED" then "FAIL a failed constructor left an event-bus subscription behind (the emitter blocks)"
  else
    let iw := words impl
    let frac (k : String) : Bool :=
      match (C09.kvOf iw k).splitOn "/" with
      | [a, b] => a == b
      | _ => true
    if !frac "returned" then "FAIL an operation in flight never returned after Close"
    else if !frac "closed" then "FAIL Close did not return"
    else if has "again=false" then "FAIL a repeated Close reported an error"
    else "ok"

/-- Close called concurrently on a fresh keystore: whoever closes, nobody panics (`Props C14 closeOnce_never_panics`) -/
def closeRaceHandle (line : String) : String :=
  if line.startsWith "closerace" then "panics=0" else "bad-op"

/-- Close of the dual sweeping-provider wrapper: it returns only when both providers have been closed (`early=0`), and
    reports an error iff one of them did -/
def dualCloseHandle (line : String) : String :=
  if line.startsWith "dualclose" then
    let kv := C09.kvOf (words line)
    s!"early=0 err={if kv "wanfail" == "1" || kv "lanfail" == "1" then 1 else 0}"
  else "bad-op"

end KadDHT.Driver.C14

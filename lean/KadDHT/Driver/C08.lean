/- Driver for the provider search model (property C08). -/
import KadDHT.Driver.Common
import KadDHT.Driver.C09
import KadDHT.Model.ProvSearch
namespace KadDHT.Driver.C08
open KadDHT KadDHT.Driver KadDHT.ProvSearch

structure DSt where
  count : Nat := 0
  provs : List (Nat × List Prov) := []
  s : St := {}
  cancelled : Bool := false
  active : Bool := false
  /-- verdict only: the requests that were in flight when the count was reached (read from the implementation's own
      report on that line); nothing else may be asked afterwards -/
  fullInflight : Option (List String) := none

def parseProvs (t : String) : List Prov :=
  if t == "" || t == "-" then [] else
  (t.splitOn ".").map fun x =>
    if x.endsWith "+" then ⟨(String.ofList (x.toList.dropLast)).toNat!, true⟩ else ⟨x.toNat!, false⟩

def showProv (p : Prov) : String := s!"{p.id}/{if p.hasAddrs then 1 else 0}"

def release (st : DSt) (tok : String) : DSt :=
  match tok.splitOn ":" with
  | [who, "ok"] =>
    if who.startsWith "P" && !st.cancelled then
      let p := (String.ofList (who.toList.drop 1)).toNat!
      match st.provs.find? (·.1 == p) with
      | some (_, l) => if full st.count st.s then st else { st with s := addAll st.count st.s l }
      | none => st
    else st
  | _ => st

def step (st : DSt) (line : String) : DSt × String :=
  if line.startsWith "#" then ({}, line) else
  let ws := words line
  match ws with
  | "op" :: _ =>
    let kind := C09.kvOf ws "kind"
    if kind != "findproviders" && kind != "findprovidersasync" then ({}, "-") else
    let count := if kind == "findproviders" then (C09.kvOf ws "K").toNat! else (C09.kvOf ws "count").toNat!
    let provs := ((C09.kvOf ws "peers").splitOn "|").filterMap fun t =>
      match t.splitOn ":" with
      | [id, _, _, _, ps] => some (id.toNat!, parseProvs ps)
      | _ => none
    let loc := C09.kvOf ws "local"
    let localProvs := if loc.startsWith "p" then parseProvs (String.ofList (loc.toList.drop 1)) else []
    ({ count := count, provs := provs, s := addAll count {} localProvs, active := true }, "-")
  | ["rel", tok] => (release st tok, "-")
  | ["cancel"] => ({ st with cancelled := true }, "-")
  | "finish" :: rest =>
    if !st.active then (st, "-") else
    let late := match rest.find? (·.startsWith "late=") with
      | some w => (String.ofList (w.toList.drop 5)).splitOn ","
      | none => []
    let st' := late.foldl release st
    if st'.cancelled then (st', "pseq=*") else
    (st', "pseq=[" ++ ",".intercalate (st'.s.yielded.map showProv) ++ "]")
  | _ => (st, "-")

/-- verdict: only named providers, at most `count` distinct, a repeat only adds addresses -/
def verdict (st : DSt) (line : String) : DSt × String :=
  if line.startsWith "#" then ({}, line) else
  let (inp, impl) := splitTab line
  let (st1, _) := step st inp
  -- "… and then stops asking further peers": from the moment `count` providers have been found, the only requests that
  -- still come back are those that were already under way
  let nowFull := st1.active && st1.count > 0 && full st1.count st1.s && !st1.cancelled
  let inflightNow : List String := match (words impl).find? (·.startsWith "inflight=") with
    | some w => splitList (String.ofList (w.toList.drop 9))
    | none => []
  let released : List String := match words inp with
    | ["rel", tok] => [(tok.splitOn ":").headD ""]
    | "finish" :: rest => (match rest.find? (·.startsWith "late=") with
        | some w => ((String.ofList (w.toList.drop 5)).splitOn ",").map fun t => (t.splitOn ":").headD ""
        | none => [])
    | _ => []
  let (late, remaining) : List String × Option (List String) := match st.fullInflight with
    | some allowed => if st1.cancelled then ([], none) else
        let r := released.foldl (fun (acc : List String × List String) t =>
          if acc.2.contains t then (acc.1, acc.2.erase t) else (acc.1 ++ [t], acc.2)) ([], allowed)
        (r.1.filter (·.startsWith "P"), some r.2)
    | none => ([], if nowFull && (words inp).head? != some "finish" then some inflightNow else none)
  let st' := { st1 with fullInflight := remaining }
  if (impl.splitOn "panic").length > 1 then (st', "FAIL panic") else
  if !late.isEmpty then
    (st', s!"FAIL {late.headD ""} was asked for providers after the requested number had been found (it was not under way at that moment)") else
  if (words inp).head? != some "finish" || !st'.active then (st', "ok") else
  let seq : List (Nat × Bool) := match (words impl).find? (·.startsWith "pseq=") with
    | some w => (splitList (String.ofList (w.toList.drop 5))).map fun (t : String) =>
        match t.splitOn "/" with
        | [id, n] => (id.toNat!, n != "0")
        | _ => (0, false)
    | none => []
  let named : List Nat := (st'.provs.flatMap (·.2)).map (·.id)
  let ids := seq.map (·.1)
  let distinct := ids.eraseDups
  if (impl.splitOn "closed=0").length > 1 then (st', "FAIL result channel not closed") else
  if ids.any (fun i => !named.contains i && !(st'.s.ps.map (·.id)).contains i) then (st', "FAIL a peer was yielded that nobody named as provider") else
  if st'.count > 0 && distinct.length > st'.count then (st', s!"FAIL {distinct.length} distinct providers yielded, count is {st'.count}") else
  -- a repeated peer: exactly one repeat, first without addresses, then with
  let badRepeat := distinct.any fun i =>
    let occ := seq.filter (·.1 == i)
    occ.length > 2 || (occ.length == 2 && !(occ == [(i, false), (i, true)]))
  if badRepeat then (st', "FAIL a provider was repeated other than to add addresses it first lacked") else
  (st', "ok")

end KadDHT.Driver.C08

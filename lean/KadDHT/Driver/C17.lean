/- Driver for the sweeping provider (property C17): the reprovide-set bookkeeping, and the end-to-end monitor evaluated
   on the real provider's log of ADD_PROVIDER messages. -/
import KadDHT.Driver.Common
import KadDHT.Driver.C09
import KadDHT.Driver.C01
import KadDHT.Model.Sched
namespace KadDHT.Driver.C17
open KadDHT KadDHT.Driver KadDHT.Sched

structure DSt where
  kept : List Nat := []
  online : Bool := true
  /-- keys stopped and not advertised since; value = observation windows seen since the stop -/
  stopped : List (Nat × Nat) := []
  /-- provide-once keys not kept: windows seen since -/
  onces : List (Nat × Nat) := []
  /-- kept keys that were not re-advertised in the previous online window -/
  pending : List Nat := []
  /-- strict scenarios (several scheduled prefixes at all times, swarm well above the replication factor): a key that
      skips one window is a failure.  Otherwise only a key missed in two consecutive windows is: with a single scheduled
      prefix the provider arms its timer for exactly one interval, and in virtual time its handler then reads the clock at
      exactly the deadline — a coincidence a real clock does not produce — and shifts slots by up to one interval -/
  strict : Bool := false
  /-- reprovide interval of the scenario, seconds -/
  interval : Nat := 3600
  /-- per kept key: the latest instant (virtual seconds) at which it was advertised, or from which the obligation runs -/
  last : List (Nat × Nat) := []
  /-- the instant the node was last told to be online again, plus the time allowed for noticing it and catching up the
      work missed meanwhile: an outage excuses a late advertisement up to then, not for a whole further interval -/
  grace : Nat := 0
  deriving Repr

def ids (s : String) : List Nat := if s == "" || s == "-" then [] else (s.splitOn ",").map String.toNat!

def opsOf (ws : List String) : List Op :=
  let kv := C09.kvOf ws
  match ws.head? with
  | some "start" => (ids (kv "keys")).map (.start (kv "force" == "1"))
  | some "stop" => (ids (kv "keys")).map .stop
  | some "once" => (ids (kv "keys")).map .once
  | some "batch" => ((kv "ops").splitOn ",").filterMap fun t =>
      let n := (String.ofList (t.toList.drop 1)).toNat!
      match t.toList.head? with
      | some 's' => some (.start false n) | some 'S' => some (.start true n)
      | some 'x' => some (.stop n) | some 'o' => some (.once n) | _ => none
  | _ => []

def step (d : DSt) (line : String) : DSt × String :=
  if line.startsWith "#" then ({}, line) else
  let ws := words line
  let d1 : DSt := match ws.head? with
    | some "offline" => { d with online := false, pending := [] }
    | some "restart" => { d with pending := [] }
    | some "online" => { d with online := true }
    | some "sp" => { strict := C09.kvOf ws "strict" == "1", interval := ((C09.kvOf ws "interval").toNat?).getD 3600 }
    | _ => d
  let kept := sequential d1.kept (opsOf ws)
  ({ d1 with kept := kept }, s!"set={C01.showNats (C01.sortNats kept)}")

def parseMap (s : String) : List (Nat × List Nat) :=
  if s == "" then [] else (s.splitOn "|").filterMap fun t =>
    match t.splitOn ":" with
    | [k, ps] => some (k.toNat!, if ps == "" then [] else (ps.splitOn ".").map String.toNat!)
    | _ => none

/-- the end-to-end monitor over observation windows -/
def verdictW (d : DSt) (line : String) : DSt × String :=
  if line.startsWith "#" then ({}, line) else
  let (inp, impl) := splitTab line
  let (d1, _) := step d inp
  let ws := words inp
  let iw := words impl
  if (impl.splitOn "BUBBLE").length > 1 then (d1, "FAIL panic, deadlock or goroutines left behind") else
  if C09.kvOf iw "badaddr" != "0" && C09.kvOf iw "badaddr" != "" then
    (d1, "FAIL an ADD_PROVIDER did not carry exactly the local peer with its current address") else
  let sent := parseMap (C09.kvOf iw "sent")
  let near := parseMap (C09.kvOf iw "near")
  let sentTo (k : Nat) : List Nat := ((sent.find? (·.1 == k)).map (·.2)).getD []
  let nearOf (k : Nat) : List Nat := ((near.find? (·.1 == k)).map (·.2)).getD []
  let covered (k : Nat) : Bool := (nearOf k).all fun p => (sentTo k).contains p
  -- bookkeeping of stopped / provide-once keys over the observation windows
  let ops := opsOf ws
  let isWindow := ws.head? == some "advance"
  let stoppedNow := ops.filterMap fun o => match o with | .stop k => some k | _ => none
  let startedNow := ops.filterMap fun o => match o with | .start _ k => some k | _ => none
  let oncesNow := ops.filterMap fun o => match o with | .once k => some k | _ => none
  let age (l : List (Nat × Nat)) : List (Nat × Nat) :=
    (l.filter fun e => !startedNow.contains e.1 && !oncesNow.contains e.1).map fun e => (e.1, if isWindow then e.2 + 1 else e.2)
  let stopped' := age d.stopped ++ ((stoppedNow.eraseDups.filter fun k => !d1.kept.contains k).map fun k => (k, 0))
  let onces' := age d.onces ++ ((oncesNow.eraseDups.filter fun k => !d1.kept.contains k).map fun k => (k, 0))
  let d2 : DSt := { d1 with stopped := stopped', onces := onces', pending := d1.pending.filter fun k => d1.kept.contains k }
  match ws.head? with
  | some "advance" =>
    if !d.online then (d2, "ok") else
    -- a whole reprovide interval plus the allowed delay has passed online (the swarm did not change meanwhile)
    let missing := d.kept.filter fun k => !covered k
    let zombie := (d.stopped ++ d.onces).filter fun e => e.2 ≥ 1 && !d.kept.contains e.1 && !(sentTo e.1).isEmpty
    -- a key missed in two consecutive windows is never coming back; a key missed once and advertised in the next
    -- window skipped one slot of its schedule
    let still := missing.filter fun k => d.pending.contains k
    let late := d.pending.filter fun k => d.kept.contains k && covered k
    let d3 : DSt := { d2 with pending := missing.filter fun k => !d.pending.contains k }
    let uncov := C09.kvOf iw "uncovered"
    if C09.kvOf iw "overlap" == "1" then (d3, "FAIL the reprovide schedule holds two prefix-related prefixes")
    else if uncov != "" && uncov != "[]" then
      (d3, s!"FAIL after a whole window online kept keys {uncov} are covered by no scheduled prefix: they will not be reprovided")
    else if !still.isEmpty then
      (d3, s!"FAIL key {still.headD 0} kept for reproviding was not re-advertised to all of its nearest peers in two consecutive windows of one interval plus the allowed delay")
    else if !zombie.isEmpty then
      (d3, s!"FAIL key {(zombie.headD (0, 0)).1} is still advertised in a later cycle although it is no longer kept")
    else if !late.isEmpty && d.strict then
      (d3, s!"FAIL key {late.headD 0} kept for reproviding skipped a whole window (gap longer than one interval plus the allowed delay) [late by one cycle]")
    else (d3, "ok")
  | some "start" | some "once" | some "batch" =>
    if !d.online then (d2, "ok") else
    -- a forced start, a first start and a provide-once advertise at once
    let must := ops.filterMap fun o => match o with
      | .start true k => some k
      | .start false k => if d.kept.contains k then none else some k
      | .once k => some k
      | _ => none
    -- within a batch a key may be stopped again: it may be dropped before anything is sent
    let must := if ws.head? == some "batch" then must.filter fun k => d1.kept.contains k else must
    let missing := must.filter fun k => !covered k
    if !missing.isEmpty then (d2, s!"FAIL key {missing.headD 0} was not advertised to all of its nearest peers when it was provided")
    else (d2, "ok")
  | _ => (d2, "ok")

/-- walk the send instants of one key: the first gap longer than `bound` -/
def firstGap (bound grace : Nat) : Nat → List Nat → Option (Nat × Nat)
  | _, [] => none
  | r, t :: ts => if t > max (r + bound) grace then some (r, t) else firstGap bound grace (max r t) ts

/-- the end-to-end monitor: the window monitor, and in strict scenarios the gap between two consecutive advertisements of
    a key that stayed kept while the node stayed online and the swarm stayed the same (restarts included): at most one
    interval plus the allowed delay (a twelfth of the interval in the harness) plus five minutes for the work itself -/
def verdict (d : DSt) (line : String) : DSt × String :=
  if line.startsWith "#" then ({}, line) else
  let (d', out) := verdictW d line
  let (inp, impl) := splitTab line
  let ws := words inp
  let iw := words impl
  let now := ((C09.kvOf iw "now").toNat?).getD 0
  let times := parseMap (C09.kvOf iw "times")
  let timesOf (k : Nat) : List Nat := ((times.find? (·.1 == k)).map (·.2)).getD []
  let named := (opsOf ws).map fun o => match o with | .start _ k => k | .stop k => k | .once k => k
  let resetAll := ws.head? == some "swarm" || ws.head? == some "sp" || (C09.kvOf iw "now") == ""
  -- while the node is cut off nothing can be sent and nothing is checked; the obligations keep running, and once it is
  -- back it has ten minutes to notice and catch up whatever fell due meanwhile
  let cutOff := !d.online || !d'.online || ws.head? == some "online"
  let grace := if ws.head? == some "online" then now + 600 else d'.grace
  let bound := d'.interval + d'.interval / 12 + 300
  let refOf (k : Nat) : Option Nat := (d.last.find? (·.1 == k)).map (·.2)
  let checked := if d'.strict && !resetAll && !cutOff then d.kept.filter fun k => d'.kept.contains k && !named.contains k else []
  let gaps := checked.filterMap fun k =>
    match refOf k with
    | none => none
    | some r => (firstGap bound grace r (timesOf k ++ [now])).map fun g => (k, g)
  let last' := d'.kept.map fun k =>
    match refOf k with
    | some r => if resetAll || named.contains k then (k, now) else (k, (timesOf k).foldl max r)
    | none => (k, now)
  let d'' := { d' with last := last', grace := grace }
  match gaps.head? with
  | some (k, (a, b)) =>
    if out == "ok" then
      (d'', s!"FAIL key {k} kept for reproviding was not advertised between t={a}s and t={b}s ({b - a}s; the swarm unchanged, outages excused up to ten minutes after their end): longer than one interval plus the allowed delay [gap]")
    else (d'', out)
  | none => (d'', out)

end KadDHT.Driver.C17

/- Driver for the accelerated client (property C16): closest-peers selection, operations on an empty table or with a
   disabled subsystem, value lookups through the crawled table. -/
import KadDHT.Driver.Common
import KadDHT.Driver.C09
import KadDHT.Driver.C01
import KadDHT.Model.FullRT
import KadDHT.Model.Crawler
import KadDHT.Generated.Facts
namespace KadDHT.Driver.C16
open KadDHT KadDHT.Driver KadDHT.FullRT

def parseGroups (spec : String) : List Nat :=
  if spec == "" then [] else (spec.splitOn ".").map fun g => (g.toList.headD 'a').toNat

def parseTable (spec : String) (n : Nat) : List (Nat × List Nat) :=
  let specs := if spec == "" then [] else spec.splitOn "|"
  (List.range n).map fun i => (i, parseGroups (specs.getD i ""))

def limitOf (s : String) : Nat := if s == "none" || s == "" then 3 else s.toNat!

/-- does some group hold more crawled peers than the limit? -/
def overfull (limit : Nat) (table : List (Nat × List Nat)) : Bool :=
  let groups := (table.flatMap (·.2)).eraseDups
  groups.any fun g => (table.filter fun e => e.2.contains g).length > limit

def handle (line : String) : String :=
  if line.startsWith "#" then line else
  let ws := words line
  let kv := C09.kvOf ws
  let n := (kv "n").toNat!
  let K := (kv "K").toNat!
  match kv "kind" with
  | "closest" =>
    s!"peers={C01.showNats (closest K (limitOf (kv "limit")) (parseTable (kv "peers") n))} err=nil size={n}"
  | "emptyop" =>
    let op := kv "op"
    let needsValues := ["putmany", "putvalue", "getvalue", "searchvalue"].contains op
    let needsProviders := ["providemany", "provide", "findproviders"].contains op
    if (needsValues && kv "values" == "0") || (needsProviders && kv "providers" == "0") then "returned=1 panic=0 err=notsupported"
    else if n == 0 then
      match op with
      | "providemany" | "putmany" =>
        match chunkSize 1 K 0 with
        | .error _ => "returned=1 panic=0 err=error"
        | .ok _ => "returned=1 panic=0"
      | "provide" | "putvalue" => "returned=1 panic=0 err=error"
      | "getvalue" | "findpeer" => "returned=1 panic=0 err=notfound"
      | _ => "returned=1 panic=0 err=nil"
    else "returned=1 panic=0"
  | "construct" => "constructed=1 panic=0 err=nil"
  | "getvalue" =>
    let vals := (kv "vals").splitOn ","
    let peers := List.range (min K n)
    let valid (v : String) : Bool := v != "-" && (v.splitOn ":").getD 1 "" == "ok"
    let rankOf (v : String) : Nat := ((v.splitOn ":").headD "0").toNat!
    let cands := (if valid (kv "local") then [kv "local"] else []) ++ (peers.map fun p => vals.getD p "-").filter valid
    let best := cands.foldl (fun (b : Option String) v => match b with
      | none => some v
      | some x => if rankOf v > rankOf x then some v else some x) none
    -- the accelerated client stops listening once enough peers have answered ("good enough" heuristic of
    -- execOnMany): which of the answers are processed is not determined, so only the extremes are predicted
    match best with
    | none => "val=- err=notfound puts=[]"
    | some _ => "-"
  | "findprov" => "closed=1"
  | _ => "bad-op"

/-- verdict on the real result -/
def verdict (line : String) : String :=
  if line.startsWith "#" then line else
  let (inp, impl) := splitTab line
  let ws := words inp
  let kv := C09.kvOf ws
  let iw := words impl
  if (impl.splitOn "BUBBLE").length > 1 then "FAIL panic or stuck goroutines" else
  match kv "kind" with
  | "closest" =>
    let n := (kv "n").toNat!
    let K := (kv "K").toNat!
    let limit := limitOf (kv "limit")
    let table := parseTable (kv "peers") n
    let res := (splitList (C09.kvOf iw "peers")).map String.toNat!
    let groupsOf (p : Nat) : List Nat := ((table.find? (·.1 == p)).map (·.2)).getD []
    let allGroups := (table.flatMap (·.2)).eraseDups
    if !(res.zip (res.drop 1)).all (fun (a, b) => a < b) then "FAIL result not in ascending distance"
    else if res.length > K then "FAIL more than K peers"
    else if limit > 0 && allGroups.any (fun g => (res.filter fun p => (groupsOf p).contains g).length > limit) then
      s!"FAIL more than {limit} returned peers share an IP group"
    else if (limit == 0 || !overfull limit table) && res != List.range (min K n) then
      "FAIL no IP group exceeds the limit, yet the result is not the K nearest crawled peers"
    else "ok"
  | "construct" =>
    if C09.kvOf iw "panic" == "1" then "FAIL NewFullRT panicked (a construction option is missing)" else "ok"
  | "emptyop" =>
    if C09.kvOf iw "panic" == "1" then "FAIL the operation panicked"
    else if C09.kvOf iw "returned" == "0" then "FAIL the operation hangs"
    else if (kv "n") == "0" && ["providemany", "putmany", "provide", "putvalue", "getvalue"].contains (kv "op") &&
        C09.kvOf iw "err" == "nil" then "FAIL no error although the table is empty"
    else "ok"
  | "findprov" =>
    -- C08 for the accelerated client: the stream closes; nothing is yielded twice; everything yielded was named by the
    -- local store or by one of the K nearest peers; at most `count` results when a count is given; with no count the
    -- locally stored providers are all there (which remote answers are processed is up to the "good enough" exit)
    let n := (kv "n").toNat!
    let K := (kv "K").toNat!
    let count := (kv "count").toNat!
    let nums (t : String) : List Nat := if t == "-" || t == "" then [] else (t.splitOn ".").map String.toNat!
    let localP := nums (kv "local")
    let lists := ((kv "provs").splitOn "|").map nums
    let remote := ((List.range (min K n)).map fun r => lists.getD r []).flatten
    let got := (splitList (C09.kvOf iw "yield")).map String.toNat!
    if C09.kvOf iw "closed" != "1" then "FAIL the provider stream was not closed"
    else if got.eraseDups.length != got.length then "FAIL a provider was yielded twice"
    else if got.any (fun p => !(localP ++ remote).contains p) then "FAIL a provider nobody named was yielded"
    else if count > 0 && got.length > count then "FAIL more providers than asked for"
    else if count == 0 && localP.any (fun p => !got.contains p) then "FAIL a locally stored provider is missing"
    else "ok"
  | "getvalue" =>
    -- a value the validator rejects now must never be returned (C04 for the accelerated client); the value returned
    -- was supplied by somebody; corrective puts carry it, go to result peers only, once each, with a live context
    let v := C09.kvOf iw "val"
    let n := (kv "n").toNat!
    let K := (kv "K").toNat!
    let vals := (kv "vals").splitOn ","
    let puts := (splitList (C09.kvOf iw "puts")).map fun (t : String) =>
      match t.splitOn "=" with
      | [r, rest] => (r.toNat!, (rest.splitOn "/").headD "", (rest.splitOn "/").getD 1 "")
      | _ => (0, "", "")
    if v != "-" && (v.splitOn ":").getD 1 "" != "ok" then "FAIL GetValue returned a value its validator rejects"
    else if v != "-" && v != kv "local" && !((List.range (min K n)).any fun p => vals.getD p "-" == v) then
      "FAIL GetValue returned a value nobody supplied"
    else if puts.any (fun x => x.2.2 == "dead") then
      "FAIL a corrective put was issued with an already cancelled context (it cannot be delivered)"
    else if puts.any (fun x => x.2.1 != v) then "FAIL a corrective put does not carry the value that was returned"
    else if puts.any (fun x => x.1 ≥ min K n) then "FAIL a corrective put went to a peer outside the closest peers"
    else if (puts.map (·.1)).eraseDups.length != puts.length then "FAIL a peer was sent two corrective puts"
    else "ok"
  | _ => "ok"

/-! ### the crawl (sibling harness in package crawler) -/

structure CPeer where
  id : Nat
  beh : String
  neigh : List Nat

def parseCrawl (ws : List String) : List CPeer × List (Nat × Bool) :=
  let kv := C09.kvOf ws
  let peers := ((kv "peers").splitOn "|").filterMap fun t =>
    match t.splitOn ":" with
    | [id, beh, ns] => some { id := id.toNat!, beh := beh, neigh := if ns == "" then [] else (ns.splitOn ".").map String.toNat! : CPeer }
    | _ => none
  let seeds := ((kv "seeds").splitOn ",").filterMap fun t =>
    if t == "" || t == "-" then none
    else if t.endsWith "x" then some ((String.ofList t.toList.dropLast).toNat!, false) else some (t.toNat!, true)
  (peers, seeds)

def crawlNet (peers : List CPeer) (p : Nat) : Option (List Nat) :=
  match peers.find? (·.id == p) with
  | some sp => if sp.beh == "ok" then some sp.neigh else if sp.beh == "empty" then some [] else none
  | none => some []

def crawlHandle (line : String) : String :=
  if line.startsWith "#" then line else
  let ws := words line
  let (peers, seeds) := parseCrawl ws
  -- a seed is scheduled when some occurrence of it carries an address (the peerstore is empty)
  let hasAddr (p : Nat) : Bool := seeds.any fun s => s.1 == p && s.2
  let s0 := Crawler.seed (fun (s : Nat × Bool) => s.2) seeds
  let s0' : Crawler.CState Nat := { toDial := (s0.toDial.map (·.1)).eraseDups, seen := (s0.seen.map (·.1)).eraseDups }
  let _ := hasAddr
  let fin := Crawler.crawlSeq (crawlNet peers) (4 * (peers.length + 4) + 10) s0'
  let q := C01.sortNats (fin.outcomes.map (·.1))
  let oks := C01.sortNats ((fin.outcomes.filter (·.2)).map (·.1))
  let fails := C01.sortNats ((fin.outcomes.filter (!·.2)).map (·.1))
  s!"finished=1 queried={C01.showNats q} ok={C01.showNats oks} fail={C01.showNats fails}"

/-- the peers reachable from the seeds that have an address (by `finished_crawl_queried_exactly_the_reachable` the
    outcome set of the model's crawl) -/
def reachable (ws : List String) : List Nat :=
  let (peers, seeds) := parseCrawl ws
  let s0 := Crawler.seed (fun (s : Nat × Bool) => s.2) seeds
  let s0' : Crawler.CState Nat := { toDial := (s0.toDial.map (·.1)).eraseDups, seen := (s0.seen.map (·.1)).eraseDups }
  C01.sortNats ((Crawler.crawlSeq (crawlNet peers) (4 * (peers.length + 4) + 10) s0').outcomes.map (·.1))

def crawlVerdict (line : String) : String :=
  if line.startsWith "#" then line else
  let (inp, impl) := splitTab line
  let iw := words impl
  let q := (splitList (C09.kvOf iw "queried")).map String.toNat!
  let outs := ((splitList (C09.kvOf iw "ok")) ++ (splitList (C09.kvOf iw "fail"))).map String.toNat!
  if C09.kvOf iw "finished" == "0" then "FAIL the crawl does not end"
  else if q.eraseDups.length != q.length then "FAIL a peer was queried more than once in one crawl"
  else if C01.sortNats outs != C01.sortNats q then "FAIL the outcomes reported are not exactly one per queried peer"
  else if C01.sortNats q != reachable (words inp) then "FAIL the queried peers are not exactly the peers reachable from the seeds"
  else "ok"

/-- closest-peers queries racing with the swap of a finished crawl: the table a query reads is the table of one crawl
    (`FullRT.swap_atomic`), so no answer is a mixture of two crawls -/
def swapHandle (line : String) : String :=
  if line.startsWith "swaprace" then "mixed=0"
  else if line.startsWith "bulkrace" then "panics=0"   -- `chunkSize` returns an error on an empty table: never a panic
  else "bad-op"

end KadDHT.Driver.C16

/- Driver for the schedule-level correspondence harness of C17 (sibling harness C17u): the scheduling functions and the
   reprovide history are called directly on a bare provider and compared with `KadDHT.SchedT`. -/
import KadDHT.Driver.Common
import KadDHT.Driver.C09
import KadDHT.Model.SchedT
namespace KadDHT.Driver.C17u
open KadDHT KadDHT.Driver KadDHT.Sched KadDHT.SchedT

structure DSt where
  I : Nat := 3600
  D : Nat := 300
  order : Key := []
  now : Nat := 0
  S : Entries := []
  h : Hist := {}

def bitsOf (s : String) : Key := if s == "e" then [] else s.toList.map (· == '1')
def showBits (k : Key) : String := if k.isEmpty then "e" else String.ofList (k.map fun b => if b then '1' else '0')

def insertStr (x : String) : List String → List String
  | [] => [x]
  | y :: ys => if x < y then x :: y :: ys else y :: insertStr x ys
def sortStrs (l : List String) : List String := l.foldl (fun acc x => insertStr x acc) []

def showEntries (S : Entries) : String :=
  "[" ++ ",".intercalate (sortStrs (S.map fun e => s!"{showBits e.1}:{e.2}")) ++ "]"

def step (d : DSt) (line : String) : DSt × String :=
  if line.startsWith "#" then ({}, line) else
  let ws := words line
  let kv := C09.kvOf ws
  let nat (k : String) : Nat := ((kv k).toNat?).getD 0
  match ws.head? with
  | some "u" => ({ I := nat "I", D := nat "D", order := bitsOf (kv "order") }, "ok")
  | some "put" =>
    let es := ((kv "entries").splitOn ",").filterMap fun t =>
      match t.splitOn ":" with
      | [p, t] => some (bitsOf p, (t.toNat?).getD 0)
      | _ => none
    let d1 := { d with S := d.S ++ es }
    (d1, showEntries d1.S)
  | some "sched" =>
    let d1 := { d with S := schedulePrefix d.I d.D (nat "cur") d.order d.S (bitsOf (kv "p")) (kv "just" == "1") }
    (d1, showEntries d1.S)
  | some "unsched" =>
    let d1 := { d with S := unschedule d.S (bitsOf (kv "p")) }
    (d1, showEntries d1.S)
  | some "group" =>
    let keys := ((kv "keys").splitOn ",").map bitsOf
    let g := groupKeys d.I d.D (nat "cur") (nat "avg") (kv "valid" == "1") (kv "sched" == "1") d.order d.S keys
    let gs := sortStrs (g.groups.map fun e => s!"{showBits e.1}:{e.2.length}")
    let d1 := { d with S := g.S }
    (d1, "groups=[" ++ ",".intercalate gs ++ "] " ++ showEntries d1.S)
  | some "slot" => (d, toString (slotT d.I d.order (bitsOf (kv "p"))))
  | some "tb" => (d, toString (timeBetween d.I (nat "a") (nat "b")))
  | some "sleep" => ({ d with now := d.now + nat "s" }, "ok")
  | some "hist" => ({ d with h := persist d.I d.now d.h (bitsOf (kv "p")) }, "ok")
  | some "recent" =>
    let (h1, R) := loadRecent d.I d.D d.now (nat "cur") d.S d.h
    ({ d with h := h1 }, "[" ++ ",".intercalate (sortStrs (R.map showBits)) ++ "]")
  | _ => (d, "bad-op")

end KadDHT.Driver.C17u

/- Line-protocol driver for the client model (property C10). -/
import KadDHT.Driver.Common
import KadDHT.Driver.C09
import KadDHT.Model.Client
namespace KadDHT.Driver.C10
open KadDHT KadDHT.Driver KadDHT.Client

/-- `idlen/conn/l1:d1;l2:d2` -/
def parsePeer (t : String) : RawPeer :=
  match t.splitOn "/" with
  | [idlen, conn, as] =>
    { idLen := idlen.toNat!, conn := conn.toNat!,
      addrs := if as == "-" || as == "" then [] else (as.splitOn ";").map fun a =>
        match a.splitOn ":" with
        | [l, d] => (l.toNat!, d == "1")
        | _ => (0, false) }
  | _ => { idLen := 0, conn := 0, addrs := [] }

def parsePeers (s : String) : List RawPeer :=
  if s == "-" || s == "" then [] else (s.splitOn "|").map parsePeer

def showCounts (ps : List (List Nat)) : String := "[" ++ ",".intercalate (ps.map fun p => toString p.length) ++ "]"

def handle (line : String) : String :=
  let ws := words line
  match ws with
  | "call" :: m :: _ =>
    let meth := match m with
      | "putValue" => Method.putValue | "getValue" => .getValue | "getClosestPeers" => .getClosestPeers
      | "getProviders" => .getProviders | _ => .ping
    let recTok := C09.kvOf ws "rec"
    let rec_ : Option (Bool × Bool) :=
      if recTok == "-" || recTok == "" then none else
      match recTok.splitOn ":" with
      | [k, v] => some (k == "1", v == "1")
      | _ => none
    let r : Resp := { type := (C09.kvOf ws "type").toNat!, record := rec_, closer := parsePeers (C09.kvOf ws "closer"),
                      provs := parsePeers (C09.kvOf ws "provs") }
    match call true meth r with
    | .ok hr c p => s!"ok rec={if hr then 1 else 0} closer={showCounts c} provs={showCounts p}"
    | .err e => "err:" ++ e
    | .panic => "panic"
  | _ => "bad-op"

end KadDHT.Driver.C10

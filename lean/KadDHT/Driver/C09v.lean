/- Verdict driver for C09: the property's own clauses evaluated on the implementation's responses. -/
import KadDHT.Driver.C09
namespace KadDHT.Driver.C09v
open KadDHT KadDHT.Driver KadDHT.Driver.C09

structure V where
  self : Nat := 0
  K : Nat := 20
  server : Bool := true

/-- `closer=[a:n,b:m]` → ids -/
def idsOf (tok : String) : List Nat :=
  (splitList tok).map fun e => ((e.splitOn ":").headD "").toNat!

def isSubseq : List Nat → List Nat → Bool
  | [], _ => true
  | _ :: _, [] => false
  | a :: as, b :: bs => if a == b then isSubseq as bs else isSubseq (a :: as) bs

def fail (s : String) : String := "FAIL " ++ s

def step (v : V) (line : String) : V × String :=
  if line.startsWith "#" then ({}, line) else
  let (inp, impl) := splitTab line
  let ws := words inp
  match ws with
  | "srv" :: _ =>
    ({ self := (kvOf ws "self").toNat!, K := (kvOf ws "K").toNat!, server := kvOf ws "mode" == "s" }, "ok")
  | "bound" :: _ => (v, if (impl.splitOn "OVERSIZE").length > 1 then fail "peer record over 8 KiB" else "ok")
  | "fit" :: _ => (v, if (impl.splitOn "OVERSIZE").length > 1 then fail "GET_PROVIDERS response over the transport limit" else "ok")
  | "raw" :: _ =>
    (v, if impl.startsWith "resp" then fail "malformed frame answered" else if impl.startsWith "panic" then fail "panic" else "ok")
  | "req" :: _ =>
    if impl.startsWith "panic" then (v, fail "panic") else
    let parts := impl.splitOn " + "
    let out := parts.foldl (fun (acc : String) (r : String) =>
      if acc != "ok" then acc else
      if (r.splitOn "OVERSIZE").length > 1 then fail "response or peer record over the size limit" else
      if r == "UNDECODABLE-RESPONSE" || r == "PARTIAL-RESPONSE" then fail "malformed response" else
      if !r.startsWith "resp" then "ok" else
      if !v.server then fail "client mode answered" else
      let rw := words r
      let typ := (kvOf ws "type").toNat!
      let from_ := (kvOf ws "from").toNat!
      let target := let t := kvOf ws "target"; if t == "-" || t == "" then none else some t.toNat!
      let nearest := let n := kvOf ws "nearest"; if n == "-" || n == "" then [] else (n.splitOn ",").map String.toNat!
      let closer := idsOf (kvOf rw "closer")
      let provs := idsOf (kvOf rw "provs")
      -- FIND_NODE may list the requested peer first
      let (closer', extra) :=
        if typ == 4 then
          match closer, target with
          | c :: cs, some t => if c == t then (cs, [c]) else (closer, [])
          | _, _ => (closer, [])
        else (closer, [])
      let _ := extra
      if typ == 5 || typ == 0 then
        (if closer.isEmpty && provs.isEmpty then "ok" else fail "echo carries peer records")
      else if closer'.length > v.K then fail "more than K closer peers"
      else if closer'.contains v.self then fail "lists itself"
      else if closer'.contains from_ then fail "lists the requester"
      else if !isSubseq closer' nearest then fail "closer peers not nearest-first"
      else "ok") "ok"
    -- ADD_PROVIDER accepted only with a record of the sender carrying a decodable address, key 1..80 bytes
    let out := if out != "ok" then out else
      if (kvOf ws "type") == "2" && impl == "none" then
        let from_ := kvOf ws "from"
        let keyLen := (kvOf ws "keylen").toNat!
        let s := kvOf ws "provs"
        let ok := (s.splitOn "|").any fun pr =>
          match pr.splitOn "=" with
          | [id, as] => id == from_ && (parseAddrList as).any (·.valid)
          | _ => false
        if !v.server then fail "client mode handled ADD_PROVIDER"
        else if keyLen == 0 || keyLen > 80 then fail "ADD_PROVIDER accepted for a key outside 1..80 bytes"
        else if !ok then fail "ADD_PROVIDER accepted without a valid record of the sender" else "ok"
      else out
    (v, out)
  | _ => (v, "ok")

end KadDHT.Driver.C09v

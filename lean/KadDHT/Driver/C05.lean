/- Driver for the value store interleaving model (property C05): accepts or rejects the recorded trace of datastore
   accesses and predicts every caller's result. -/
import KadDHT.Driver.Common
import KadDHT.Driver.C09
import KadDHT.Model.ValueStore
namespace KadDHT.Driver.C05
open KadDHT KadDHT.Driver KadDHT.VS

/-- `n`, `c`, `r<rank>k<ekey>e<exp>v<valid>` -/
def parseTok (t : String) : Option Stored :=
  if t == "n" || t == "" then none
  else if t == "c" then some { ekey := 0, rank := 0, valid := false, expired := false, corrupt := true }
  else
    let cs := t.toList
    let num (l : List Char) : Nat := (String.ofList (l.takeWhile Char.isDigit)).toNat!
    let after (c : Char) : List Char := (cs.dropWhile (· != c)).drop 1
    some { ekey := num (after 'k'), rank := num (after 'r'), valid := num (after 'v') == 1, expired := num (after 'e') == 1 }

/-- equality of what the datastore holds, up to the write stamp -/
def sameStored (a b : Option Stored) : Bool :=
  match a, b with
  | none, none => true
  | some x, some y => x.corrupt == y.corrupt && (x.corrupt || (x.ekey == y.ekey && x.rank == y.rank && x.valid == y.valid && x.expired == y.expired))
  | _, _ => false

def valOf (v : String) : Nat × Bool := if v == "bad" then (7, false) else ((String.ofList (v.toList.drop 1)).toNat!, true)

def parseOp (s : String) : Option Op :=
  match s.splitOn ":" with
  | ["hput", mk, rk, v] => let (r, ok) := valOf v; some (.hput mk.toNat! { ekey := rk.toNat!, rank := r, valid := ok, expired := false })
  | ["hget", k] => some (.hget k.toNat!)
  | ["lput", k, v] => let (r, ok) := valOf v; some (.lput k.toNat! r ok)
  | _ => none

def showResult (op : Op) : Option Result → String
  | some .ok => (match op with | .lput _ _ _ => "stored" | _ => "ok")
  | some .old => "old"
  | some .invalid => "invalid"
  | some .mismatch => "mismatch"
  | some .refused => "refused"
  | some .none => "none"
  | some (.val r) => s!"val{r}"
  | none => "unfinished"

def kindOf : String → Kind | "put" => .put | "del" => .del | _ => .get

/-- replay one trace entry `tid:kind:key:tok` -/
def accept (w : World) (entry : String) : Except String World :=
  match entry.splitOn ":" with
  | [tid, kind, key, tok] =>
    let tid := tid.toNat!
    match w.threads tid with
    | none => .error s!"unknown thread {tid}"
    | some t0 =>
      let t := if t0.pc == .start then begin t0 else t0
      match nextAccess t with
      | none => .error s!"thread {tid} performs an access the model does not expect: {entry}"
      | some (k, ky, _) =>
        if k != kindOf kind || ky != key.toNat! then .error s!"thread {tid}: the model expects another access than {entry}"
        else if k == .get && !sameStored (lookup w ky) (parseTok tok) then
          .error s!"thread {tid} read {tok}, the model's datastore holds something else"
        else match wstep w tid with
          | some w' => .ok w'
          | none => .error s!"thread {tid} accesses key {key} while another caller holds its lock stripe"
  | _ => .error s!"bad trace entry {entry}"

def step (w : World) (line : String) : World × String :=
  if line.startsWith "#" then ({}, line) else
  let ws := words line
  let kv := C09.kvOf ws
  match ws.head? with
  | some "seed" =>
    let k := (kv "k").toNat!
    let (r, _) := valOf (kv "val")
    let v : Stored := match kv "kind" with
      | "corrupt" => { ekey := 0, rank := 0, valid := false, expired := false, corrupt := true }
      | "miskeyed" => { ekey := k + 2, rank := r, valid := true, expired := false }
      | "invalid" => { ekey := k, rank := 7, valid := false, expired := false }
      | "old" => { ekey := k, rank := r, valid := true, expired := true }
      | _ => { ekey := k, rank := r, valid := true, expired := false }
    (write w k v, "-")
  | some "run" =>
    let ops := ((kv "threads").splitOn "|").filterMap parseOp
    let idx := List.range ops.length
    let w0 : World := { w with threads := fun i => (ops[i]?).map fun o => ({ op := o } : Thread), locks := fun _ => none }
    let trace := if kv "trace" == "" then [] else (kv "trace").splitOn ","
    let res := trace.foldl (fun (acc : Except String World) e => match acc with
      | .ok w => accept w e
      | .error m => .error m) (.ok w0)
    match res with
    | .error m => (w0, "REJECTED " ++ m.replace " " "_")
    | .ok w1 =>
      -- callers that finish without any access
      let w2 := idx.foldl (fun (w : World) i => match (w.threads i).map (·.pc) with
        | some PC.start => (wstep w i).getD w
        | _ => w) w1
      let rs := (idx.zip ops).map fun (i, o) => s!"T{i}:{showResult o (resultOf w2 i)}"
      -- what a reader gets now (Get discards what it must not serve)
      let (w3, fin) := (List.range 4).foldl (fun (acc : World × List String) k =>
        let wk : World := { acc.1 with threads := fun i => if i = 99 then some { op := .hget k } else none }
        let rec go (fuel : Nat) (w : World) : World := match fuel with
          | 0 => w
          | f + 1 => match wstep w 99 with | some w' => go f w' | none => w
        let wk' := go 4 wk
        ({ wk' with threads := acc.1.threads }, acc.2 ++ [s!"{k}:{showResult (.hget k) (resultOf wk' 99)}"])) (w2, [])
      (w3, s!"results=[{",".intercalate rs}] final=[{",".intercalate fin}]")
  | _ => (w, "bad-op")

/-- verdict on the real observations: nothing the validator rejects and nothing mis-keyed is ever written or served,
    no write replaces a better valid record, no delete removes bytes other than the ones the reader saw -/
def verdict (w : World) (line : String) : World × String :=
  if line.startsWith "#" then ({}, line) else
  let (inp, impl) := splitTab line
  let (w1, _) := step w inp
  let ws := words inp
  if ws.head? != some "run" then (w1, "ok") else
  let kv := C09.kvOf ws
  if (impl.splitOn "STUCK").length > 1 then (w1, "FAIL callers are stuck (deadlock)") else
  if (impl.splitOn "MISKEYED").length > 1 then (w1, "FAIL a record with a different embedded key was served") else
  let trace := if kv "trace" == "" then [] else (kv "trace").splitOn ","
  -- replay the writes on the observed values only
  let r := trace.foldl (fun (acc : List (Nat × Option Stored) × List (Nat × Option Stored) × Option String) (e : String) =>
    let (store, seen, failed) := acc
    if failed.isSome then acc else
    match e.splitOn ":" with
    | [tid, kind, key, tok] =>
      let tid := tid.toNat!; let key := key.toNat!
      let known := (store.find? (·.1 == key)).isSome
      let cur := ((store.find? (·.1 == key)).map (·.2)).getD none
      match kind with
      | "get" => ((store.filter (·.1 != key)) ++ [(key, parseTok tok)], (seen.filter (·.1 != tid)) ++ [(tid, parseTok tok)], none)
      | "put" =>
        match parseTok tok with
        | some v =>
          if !v.valid then (store, seen, some "FAIL a record the validator rejects was written")
          else if v.ekey != key then (store, seen, some "FAIL a record was written under a key other than its own")
          else match (if known then usable cur else none) with
            | some o => if v.rank < o.rank then (store, seen, some s!"FAIL a stored record of rank {o.rank} was replaced by one of rank {v.rank}")
                        else ((store.filter (·.1 != key)) ++ [(key, some v)], seen, none)
            | none => ((store.filter (·.1 != key)) ++ [(key, some v)], seen, none)
        | none => (store, seen, some "FAIL unreadable write")
      | "del" =>
        let saw := ((seen.find? (·.1 == tid)).map (·.2)).getD none
        if known && !sameStored cur saw then (store, seen, some "FAIL a delete removed a record other than the one its reader saw")
        else match cur with
          | some v => if !(VS.bad key v) then (store, seen, some "FAIL a servable record was deleted") else ((store.filter (·.1 != key)) ++ [(key, none)], seen, none)
          | none => (store, seen, none)
      | _ => acc
    | _ => acc) (([] : List (Nat × Option Stored)), [], none)
  match r.2.2 with
  | some m => (w1, m)
  | none =>
    -- a local PutValue whose last read of the key showed a better valid value must not go on to publish
    let ops := ((kv "threads").splitOn "|").filterMap parseOp
    let results := splitList (C09.kvOf (words impl) "results")
    let wrong := (List.range ops.length).any fun i =>
      match ops[i]? with
      | some (.lput _ rank true) =>
        let lastGet := (trace.filter fun (e : String) => (e.splitOn ":").take 2 == [toString i, "get"]).getLast?
        let sawBetter := match lastGet with
          | some e => (match usable (parseTok ((e.splitOn ":").getD 3 "")) with | some o => rank < o.rank | none => false)
          | none => false
        sawBetter && results.contains s!"T{i}:stored"
      | _ => false
    -- a PUT_VALUE whose record is keyed differently from the request must be turned down, whatever else happens
    let miskeyedAccepted := (List.range ops.length).any fun i =>
      match ops[i]? with
      | some (.hput mk rec) => mk != rec.ekey && (results.contains s!"T{i}:ok" || results.contains s!"T{i}:stored")
      | _ => false
    if wrong then (w1, "FAIL a local PutValue went on although a better value was already stored")
    else if miskeyedAccepted then (w1, "FAIL a PUT_VALUE carrying a record keyed differently from the request was accepted")
    else (w1, "ok")

end KadDHT.Driver.C05

/- Shared pieces of the line-protocol drivers (core Lean only). -/
import KadDHT.Basic.Bits
namespace KadDHT.Driver

/-- read stdin line by line, thread a state, print one output line per input line -/
partial def runLoop {σ : Type} (step : σ → String → σ × String) (s : σ) : IO Unit := do
  let stdin ← IO.getStdin
  let stdout ← IO.getStdout
  let rec loop (s : σ) : IO Unit := do
    let line ← stdin.getLine
    if line.isEmpty then return ()
    let l := String.ofList (line.toList.filter fun c => c ≠ '\n' && c ≠ '\r')
    let (s', out) := step s l
    stdout.putStrLn out
    loop s'
  loop s
  stdout.flush

def runPure (f : String → String) : IO Unit := runLoop (fun (_ : Unit) l => ((), f l)) ()

def showKeys (ks : List Key) : String := showList (ks.map showBits)
def parseKeys (s : String) : List Key := (splitList s).map parseBits
def showBool (b : Bool) : String := if b then "true" else "false"
def showOptKey : Option Key → String | some k => showBits k | none => "none"

/-- split `a\tb` into the input part and the implementation's observation -/
def splitTab (s : String) : String × String :=
  match s.splitOn "\t" with
  | [a] => (a, "")
  | a :: rest => (a, "\t".intercalate rest)
  | [] => ("", "")

end KadDHT.Driver

/- Verdict driver for C02: convergence on the implementation's own result.
   In a bucket-complete (resp. full-knowledge) honest network an uncancelled lookup that completed must
   return the globally nearest peer (rank 0) first (resp. exactly the K nearest: ranks 0..K-1). -/
import KadDHT.Driver.C01
namespace KadDHT.Driver.C02v
open KadDHT KadDHT.Driver

structure V where
  mode : String := ""
  K : Nat := 0
  n : Nat := 0

def step (v : V) (line : String) : V × String :=
  if line.startsWith "#" then ({}, line) else
  let (inp, impl) := splitTab line
  let ws := words inp
  match ws.head? with
  | some "lookup" => ({ mode := C09.kvOf ws "mode", K := (C09.kvOf ws "K").toNat!, n := (C09.kvOf ws "n").toNat! }, "ok")
  | some "finish" =>
    if impl.startsWith "panic" || impl.startsWith "HANG" then (v, "FAIL " ++ impl) else
    let iw := words impl
    let term := C09.kvOf iw "term"
    let peers := C09.kvOf iw "peers"
    if term != "completed" then
      -- an honest network where everybody answers can only end "completed" or, with nothing to ask, "starvation"
      (v, if term == "starvation" || term == "none" || ws.contains "abandon" then "ok" else "FAIL unexpected termination " ++ term)
    else if v.mode == "@bc" || v.mode == "@full" then
      let want := if v.mode == "@full" then C01.showNats (List.range (min v.K v.n)) else ""
      if !(peers.startsWith "[0," || peers == "[0]") then (v, "FAIL the nearest peer (rank 0) is not returned first: " ++ peers)
      else if v.mode == "@full" && peers != want then (v, s!"FAIL full knowledge: got {peers}, the K nearest are {want}")
      else (v, "ok")
    else (v, "ok")
  | _ => (v, if impl.startsWith "panic" then "FAIL panic" else "ok")

end KadDHT.Driver.C02v

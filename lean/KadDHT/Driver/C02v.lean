/- Verdict driver for C02: convergence on the implementation's own result.
   In a bucket-complete (resp. full-knowledge) honest network an uncancelled lookup that completed must
   return the globally nearest peer (rank 0) first (resp. exactly the K nearest: ranks 0..K-1). -/
import KadDHT.Driver.C01
namespace KadDHT.Driver.C02v
open KadDHT KadDHT.Driver

structure V where
  mode : String := ""
  K : Nat := 0
  n : Nat := 0
  β : Nat := 0

def step (v : V) (line : String) : V × String :=
  if line.startsWith "#" then ({}, line) else
  let (inp, impl) := splitTab line
  let ws := words inp
  match ws.head? with
  | some "lookup" => ({ mode := C09.kvOf ws "mode", K := (C09.kvOf ws "K").toNat!, n := (C09.kvOf ws "n").toNat!,
                        β := (C09.kvOf ws "b").toNat! }, "ok")
  | some "finish" =>
    if impl.startsWith "panic" || impl.startsWith "HANG" then (v, "FAIL " ++ impl) else
    let iw := words impl
    let term := C09.kvOf iw "term"
    let peers := C09.kvOf iw "peers"
    let states := (C09.kvOf iw "states").toList
    let asked := splitList (C09.kvOf iw "asked")
    -- a lookup that ended by itself as "completed" has answers from the beta nearest non-failed peers it learned
    if term == "completed" && (states.take v.β).any (· != 'q') then
      (v, s!"FAIL terminated as completed although one of the {v.β} nearest peers has not answered: states={String.ofList states}")
    -- a result reported completed: the request was sent at least once to every returned peer
    else if C09.kvOf iw "completed" == "1" && (splitList peers).any (fun p => !asked.contains p) then
      (v, s!"FAIL completed, but a returned peer was never sent the request: peers={peers} asked={C09.kvOf iw "asked"}")
    else
    if term != "completed" then
      -- an honest network where everybody answers can only end "completed" or, with nothing to ask, "starvation"
      (v, if term == "starvation" || term == "none" || ws.contains "abandon" then "ok" else "FAIL unexpected termination " ++ term)
    else if v.mode == "@bc" || v.mode == "@full" then
      let want := if v.mode == "@full" then C01.showNats (List.range (min v.K v.n)) else ""
      if !(peers.startsWith "[0," || peers == "[0]") then (v, "FAIL the nearest peer (rank 0) is not returned first: " ++ peers)
      else if v.mode == "@full" && peers != want then (v, s!"FAIL full knowledge: got {peers}, the K nearest are {want}")
      else (v, "ok")
    else (v, "ok")
  | _ => (v, if impl.startsWith "panic" then "FAIL panic" else "ok")

end KadDHT.Driver.C02v

/- Driver for the keystore model (property C20). -/
import KadDHT.Driver.Common
import KadDHT.Driver.C09
import KadDHT.Driver.C01
import KadDHT.Model.Keystore
namespace KadDHT.Driver.C20
open KadDHT KadDHT.Driver KadDHT.KS

structure DSt where
  st : St := {}
  pb : Nat := 8
  mode : String := "plain"
  bits : List (Nat × Key) := []
  /-- a Sync that failed is only logged by the keystore: from then on an acknowledged write may be lost by a crash that
      drops unsynced writes -/
  syncFailed : Bool := false
  deriving Repr

def ids (s : String) : List Nat := if s == "" || s == "-" then [] else (s.splitOn ",").map String.toNat!
def showL (l : List Nat) : String := "[" ++ ",".intercalate (l.map toString) ++ "]"
def showSorted (l : List Nat) : String := showL (C01.sortNats l)
def bitsOf (d : DSt) (id : Nat) : Key := ((d.bits.find? (·.1 == id)).map (·.2)).getD []
def pfxOf (s : String) : Key := (s.toList.drop 1).map (· == '1')
def contents (st : St) : String := s!"set={showSorted st.keys} size={st.size}"

/-- ids whose kademlia identifier starts with the prefix, computed the way the keystore does: query + post-filter -/
def matching (d : DSt) (p : Key) : List Nat :=
  d.st.keys.filter fun id => (KS.get d.pb [bitsOf d id] p).length == 1

/-- number of datastore calls of a put / delete of `n` distinct keys before the commit: Batch, one Has each, Commit -/
def failsBeforeCommit (fail nDistinct : Nat) : Bool := fail > 0 && fail ≤ nDistinct + 2

def step (d : DSt) (line : String) : DSt × String :=
  if line.startsWith "#" then ({}, line) else
  let ws := words line
  let kv := C09.kvOf ws
  match ws.head? with
  | some "ks" =>
    let bits := ((kv "bits").splitOn ",").filterMap fun t =>
      match t.splitOn ":" with
      | [i, b] => some (i.toNat!, b.toList.map (· == '1'))
      | _ => none
    ({ pb := (kv "prefixbits").toNat!, mode := kv "mode", bits := bits }, "-")
  | some "put" =>
    let ks := ids (kv "keys")
    let fail := (kv "fail").toNat!
    if failsBeforeCommit fail ks.eraseDups.length then (d, "new=[] err=injected") else
    let (st', nk) := put d.st ks
    ({ d with st := st', syncFailed := d.syncFailed || fail == ks.eraseDups.length + 3 }, s!"new={showL nk} err=nil")
  | some "putclose" =>
    -- Close (twice, concurrently) while the Put is inside its first datastore call: the operation in flight completes and
    -- is acknowledged, both Closes return, the reopened keystore holds the result
    let (st', nk) := put d.st (ids (kv "keys"))
    ({ d with st := st' }, s!"new={showL nk} err=nil closes=2 {contents st'}")
  | some "del" =>
    let ks := ids (kv "keys")
    let fail := (kv "fail").toNat!
    if ks.isEmpty then (d, "err=nil") else
    if failsBeforeCommit fail ks.eraseDups.length then (d, "err=injected") else
    ({ d with st := delete d.st ks, syncFailed := d.syncFailed || fail == ks.eraseDups.length + 3 }, "err=nil")
  | some "get" => (d, s!"keys={showSorted (matching d (pfxOf (kv "p")))} err=nil")
  | some "count" => (d, s!"n={countUpTo (matching d (pfxOf (kv "p"))).length (kv "limit").toNat!} err=nil")
  | some "has" => (d, s!"found={if (matching d (pfxOf (kv "p"))).isEmpty then "false" else "true"} err=nil")
  | some "empty" => ({ d with st := {} }, "err=nil")
  | some "size" | some "restart" | some "crash" => (d, contents d.st)
  | some "reset" =>
    if d.mode == "plain" then (d, "unsupported") else
    -- the history recorded by the harness: which puts were acknowledged, how the reset ended
    let hist := kv "hist"
    let errCls := ((hist.splitOn "err:").getD 1 "").splitOn "," |>.headD ""
    let putsS := (hist.splitOn "puts:").getD 1 ""
    let puts : List (List Nat × String) := if putsS == "" then [] else (putsS.splitOn "|").filterMap fun t =>
      match t.splitOn "@" with
      | [ks, rest] => some (ids ks, (rest.splitOn "/").getD 2 "")
      | _ => none
    let acked := (puts.filter (·.2 == "nil")).flatMap (·.1)
    let base : St := if errCls == "nil" then (put {} (ids (kv "keys"))).1 else d.st
    let st' := (put base acked).1
    ({ d with st := st', syncFailed := d.syncFailed || kv "failat" != "" }, s!"before={(contents d.st).replace " " ";"} after={(contents st').replace " " ";"}")
  | _ => (d, "bad-op")

/-- verdict: sizes always match; every crash point of a reset recovers the complete previous or the complete new set -/
def verdict (d : DSt) (line : String) : DSt × String :=
  if line.startsWith "#" then ({}, line) else
  let (inp, impl) := splitTab line
  let (d1, _) := step d inp
  let ws := words inp
  let kv := C09.kvOf ws
  if (impl.splitOn "BUBBLE").length > 1 then (d1, "FAIL panic, deadlock or goroutines left behind") else
  let sizeOk (s : String) : Bool :=
    -- "set=[..];size=n" or with spaces
    let parts := (s.replace ";" " ").splitOn " "
    match parts.find? (·.startsWith "set="), parts.find? (·.startsWith "size=") with
    | some a, some b => (splitList (String.ofList (a.toList.drop 4))).length == (String.ofList (b.toList.drop 5)).toNat!
    | _, _ => true
  match ws.head? with
  | some "size" | some "restart" | some "crash" =>
    if !sizeOk impl then (d1, "FAIL the reported size differs from the number of stored keys") else (d1, "ok")
  | some "put" =>
    -- returned keys: exactly the new ones, each once
    let ret := (splitList (C09.kvOf (words impl) "new")).map String.toNat!
    if ret.eraseDups.length != ret.length then (d1, "FAIL Put returned a key twice")
    else if ret.any (fun k => d.st.keys.contains k) then (d1, "FAIL Put returned a key that was already stored") else (d1, "ok")
  | some "reset" =>
    if d.mode == "plain" then (d1, "ok") else
    let hist := kv "hist"
    let num (tag : String) : Nat := ((((hist.splitOn tag).getD 1 "").splitOn ",").headD "").toNat!
    let ret := num "ret:"
    let errCls := ((hist.splitOn "err:").getD 1 "").splitOn "," |>.headD ""
    let putsS := (hist.splitOn "puts:").getD 1 ""
    -- (keys, issued, acked?) per put
    let puts : List (List Nat × Nat × Option Nat) := if putsS == "" then [] else (putsS.splitOn "|").filterMap fun t =>
      match t.splitOn "@" with
      | [ks, rest] =>
        let f := rest.splitOn "/"
        some (ids ks, (f.getD 0 "0").toNat!, if f.getD 2 "" == "nil" then (f.getD 1 "0").toNat? else none)
      | _ => none
    let old := d.st.keys
    let new := (ids (kv "keys")).eraseDups
    let scans := if C09.kvOf (words impl) "scans" == "" then [] else (C09.kvOf (words impl) "scans").splitOn "~"
    let subset (a b : List Nat) : Bool := a.all fun x => b.contains x
    let bad := scans.find? fun (sc : String) =>
      match sc.splitOn ":" with
      | [pos, rest] =>
        let cut := ((pos.splitOn "/").headD "0").toNat!
        let dropped := (pos.splitOn "/").getD 1 "0" == "1"
        let parts := rest.splitOn ";"
        let set := match parts.find? (·.startsWith "set=") with
          | some a => (splitList (String.ofList (a.toList.drop 4))).map String.toNat!
          | none => []
        let ackedBy := (puts.filter fun p => match p.2.2 with | some a => a ≤ cut | none => false).flatMap (·.1)
        let issuedBy := (puts.filter fun p => p.2.1 ≤ cut).flatMap (·.1)
        let oldOK := subset (old ++ ackedBy) set && subset set (old ++ issuedBy)
        let newOK := subset (new ++ ackedBy) set && subset set (new ++ issuedBy)
        let decided := cut ≥ ret
        let okSet := if decided then (if errCls == "nil" then newOK else oldOK) else (oldOK || newOK)
        let _ := dropped
        !(okSet && sizeOk rest)
      | _ => false
    match bad with
    | some sc =>
      let tag := if (kv "failat" != "" || d.syncFailed) && (sc.splitOn "/1:").length > 1 then " [after an injected datastore error, unsynced writes dropped]" else ""
      (d1, s!"FAIL a crash during the reset recovers neither the complete previous nor the complete new set (or a wrong size): {sc}{tag}")
    | none => (d1, "ok")
  | _ => (d1, "ok")

end KadDHT.Driver.C20

/- Verdict driver for C18: evaluates the declarative definitions on the implementation's outputs. -/
import KadDHT.Driver.C18
import KadDHT.Spec.Keyspace
namespace KadDHT.Driver.C18v
open KadDHT KadDHT.Driver

/-- key set denoted by a builder spec (set-level reading of Add / Remove / PruneSubtrie) -/
def buildSet (spec : String) : List Key :=
  (splitList spec).foldl (fun ks op =>
    match op.toList with
    | '+' :: cs => let k := parseBits (String.ofList cs); if ks.contains k then ks else ks ++ [k]
    | '-' :: cs => let k := parseBits (String.ofList cs); ks.filter (· != k)
    | '^' :: cs => Spec.prune ks (parseBits (String.ofList cs))
    | _ => ks) []

/-- keys occurring in a shape string such as `((00 01) 1)` -/
def shapeKeys (s : String) : List Key :=
  let toks := (String.ofList (s.toList.map fun c => if c == '(' || c == ')' then ' ' else c)).splitOn " "
  (toks.filter fun t => t ≠ "" && t ≠ "." && t ≠ "nil").map parseBits

def verdict (b : Bool) (what : String) : String := if b then "ok" else "FAIL " ++ what

def parseAlloc (s : String) : List (Key × List Key) :=
  (splitList s).map fun part =>
    match part.splitOn ":" with
    | [d, items] => (parseBits d, (items.splitOn "/").filter (· ≠ "") |>.map parseBits)
    | _ => ([], [])

def handle (line : String) : String :=
  let (inp, impl) := splitTab line
  let ws := words inp
  let ws := match ws.getLast? with
    | some w => if w.startsWith "@" then ws.dropLast else ws
    | none => ws
  if impl.startsWith "panic" then "FAIL panic" else
  match ws with
  | ["shape", t] => verdict (Spec.sameSet (shapeKeys impl) (buildSet t)) "shape-keys"
  | ["entries", t, order] =>
    let ks := parseKeys impl
    verdict (Spec.sameSet ks (buildSet t) && Spec.sortedBy (orderBefore (parseBits order)) ks) "entries sorted permutation"
  | ["findprefix", t, k] =>
    verdict (impl == showOptKey (Spec.findPrefix (buildSet t) (parseBits k))) "findPrefixOfKey"
  | ["findsub", t, k] =>
    let want := (buildSet t).filter (isPre (parseBits k) ·)
    if impl == "none" then verdict want.isEmpty "findSubtrie none"
    else verdict (!want.isEmpty && want.all ((shapeKeys impl).contains ·)) "findSubtrie keys"
  | ["next", t, k, order] =>
    let ks := buildSet t
    -- the declarative successor is defined for keys of one common length
    if ks.all (·.length == (parseBits k).length) then
      verdict (impl == showOptKey (Spec.nextInOrder ks (parseBits k) (parseBits order))) "cyclic successor"
    else verdict (impl == "none" || ks.contains (parseBits impl)) "next in set"
  | ["coalesce", t] => verdict (Spec.coalesceOk (buildSet t) (shapeKeys impl)) "coalesce"
  | ["subtract", t0, t1] =>
    verdict (Spec.sameSet (shapeKeys impl) (Spec.subtract (buildSet t0) (buildSet t1))) "subtract"
  | ["gaps", t, target, order] =>
    verdict (Spec.gapsOk (buildSet t) (parseBits target) (parseBits order) (parseKeys impl)) "gaps contract"
  | ["alloc", items, dests, k] =>
    let a := parseAlloc impl
    let its := buildSet items
    let ds := buildSet dests
    let assigned (x : Key) : List Key := (a.filter fun (_, xs) => xs.contains x).flatMap fun (d, xs) =>
      List.replicate (xs.count x) d
    let noStray := a.all fun (_, xs) => xs.all (its.contains ·)
    verdict (noStray && Spec.allocOk its ds k.toNat! assigned) "allocation exact"
  | ["covered", t] => verdict (impl == showBool (Spec.covered (buildSet t) [])) "covered"
  | ["regions", peers, size, _order, cov] =>
    let regions := (splitList impl).map fun part =>
      match part.splitOn ":" with
      | [p, ks] => (parseBits p, (ks.splitOn "/").filter (· ≠ "") |>.map parseBits)
      | _ => ([], [])
    verdict (Spec.regionsOk (buildSet peers) size.toNat! (parseBits cov) regions) "regions partition"
  | ["regalloc", peers, r, _order, cov, items] =>
    -- the composition the provider performs: regions partition the peers, every key is placed in exactly one region,
    -- and inside its region it goes to exactly the min(r, |region|) XOR-nearest peers of that region
    let r := r.toNat!
    let its := parseKeys items
    let parsed : List (Key × List Key × List (Key × List Key)) := (splitList impl).map fun part =>
      match part.splitOn ">" with
      | [p, ks, al] =>
        (parseBits p, (ks.splitOn "/").filter (· ≠ "") |>.map parseBits,
          ((al.splitOn ";").filter (· ≠ "")).map fun (e : String) =>
            match e.splitOn ":" with
            | [d, xs] => (parseBits d, (xs.splitOn "/").filter (· ≠ "") |>.map parseBits)
            | _ => ([], []))
      | _ => ([], [], [])
    let regions := parsed.map fun (p, ks, _) => (p, ks)
    let ps := regions.map (·.1)
    if (buildSet peers).isEmpty then verdict (impl == "[]") "no peers, no regions" else
    let regOk := Spec.regionsOk (buildSet peers) r (parseBits cov) regions
    -- where every key ended up
    let placedIn (x : Key) : List Key := (parsed.filter fun (_, _, al) => al.any fun (_, xs) => xs.contains x).map (·.1)
    let placeOk := regions.isEmpty || its.all fun x =>
      match placedIn x with
      | [p] => Spec.assignOk ps x p
      | _ => false
    let allocOk := parsed.all fun (p, ks, al) =>
      let mine := its.filter fun x => placedIn x == [p]
      let assigned (x : Key) : List Key := (al.filter fun (_, xs) => xs.contains x).flatMap fun (d, xs) =>
        List.replicate (xs.count x) d
      al.all (fun (_, xs) => xs.all (mine.contains ·)) && Spec.allocOk mine ks r assigned
    verdict (regOk && placeOk && allocOk)
      (if !regOk then "regions partition" else if !placeOk then "every key in exactly one region"
       else "allocation inside a region is to the nearest peers of the region")
  | ["assign", prefixes, keys] =>
    let ps := parseKeys prefixes
    let hs := parseKeys keys
    let placed := splitList impl
    verdict (placed.length == hs.length &&
      (hs.zip placed).all fun (h, p) => !(p.toList.contains '+') && Spec.assignOk ps h (parseBits p)) "assign exactly one"
  | ["shortest", target, sorted] =>
    let (p, n) := Spec.shortest (parseBits target) (parseKeys sorted)
    verdict (impl == showBits p ++ " " ++ toString n) "shortest covered prefix"
  | _ => if impl == C18.handle inp then "ok" else "FAIL basic"

end KadDHT.Driver.C18v

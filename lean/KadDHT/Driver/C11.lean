/- Driver for the message sender model (property C11). -/
import KadDHT.Driver.Common
import KadDHT.Driver.C09
import KadDHT.Driver.C01
import KadDHT.Model.MsgSender
namespace KadDHT.Driver.C11
open KadDHT KadDHT.Driver KadDHT.MsgSender

def parseBeh : String → Beh
  | "reset" => .reset | "garbage" => .garbage | "silent" => .silent | "eof" => .eof | _ => .ok

def showRes : Res → String
  | .reply id => toString id
  | .sent => "sent"
  | .err c => c

def addScript (w : World) (p : Nat) (behs : List Beh) (opens : List Bool) : World :=
  let bs := if w.behs.any (·.1 == p) then w.behs.map fun e => if e.1 == p then (p, e.2 ++ behs) else e else w.behs ++ [(p, behs)]
  let os := if w.opens.any (·.1 == p) then w.opens.map fun e => if e.1 == p then (p, e.2 ++ opens) else e else w.opens ++ [(p, opens)]
  { w with behs := bs, opens := os }

def step (w : World) (line : String) : World × String :=
  if line.startsWith "#" then ({}, line) else
  let ws := words line
  let kv := C09.kvOf ws
  let p := (kv "p").toNat!
  match ws.head? with
  | some "script" =>
    let behs := if kv "behs" == "" || kv "behs" == "-" then [] else ((kv "behs").splitOn ",").map parseBeh
    let opens := if kv "opens" == "" || kv "opens" == "-" then [] else ((kv "opens").splitOn ",").map (· == "1")
    (addScript w p behs opens, "-")
  | some "req" =>
    let (w1, r) := call w p (kv "id").toNat! true (kv "cancel" == "1")
    (w1, s!"res={showRes r} opened={w1.opened - w.opened} live={if live w1 p then 1 else 0}")
  | some "reqpre" =>
    -- the context had ended before the call: whether the caller still got the lock was observed, not predicted
    let w0 := { w with behs := w.behs.filter (·.1 != p), opens := w.opens.filter (·.1 != p) }
    let opened := (kv "opened").toNat!
    let lv := kv "live" == "1"
    let old := (getSender w0 p).getD {}
    let s1 : Sender :=
      if lv then (if opened > 0 then { old with stream := some (w0.nextStream, false) } else old)
      else { old with stream := none }
    let w1 := setSender { w0 with nextStream := w0.nextStream + opened, opened := w0.opened + opened } p s1
    (w1, s!"res=canceled-or-own opened={opened} live={if lv then 1 else 0}")
  | some "msg" =>
    let (w1, r) := call w p (kv "id").toNat! false false
    (w1, s!"res={showRes r} opened={w1.opened - w.opened} live={if live w1 p then 1 else 0}")
  | some "disconnect" => (disconnect w p, "live=0")
  | some "parfail" =>
    -- the first request's NewStream fails while others wait behind it on the same sender: the sender is invalid from then
    -- on, the waiters fail without opening anything, and the request that follows gets a sender and a stream of its own
    let w0 := disconnect { w with behs := w.behs.filter (fun e => e.1 != p), opens := w.opens.filter (fun e => e.1 != p) } p
    let waiters := ((kv "waiters").splitOn ",").map fun t => s!"{t}:error"
    let (w1, r) := call w0 p (kv "then").toNat! true false
    (w1, s!"first=open waiters=[{",".intercalate waiters}] then={showRes r} opened={w1.opened - w.opened} live={if live w1 p then 1 else 0} maxlive=1")
  | some "abandon" =>
    -- a caller that gives up while it waits for the peer's sender leaves no trace: the request in progress keeps the
    -- sender, the next one follows on the same stream
    let w0 := disconnect { w with behs := w.behs.filter (fun e => e.1 != p), opens := w.opens.filter (fun e => e.1 != p) } p
    let (w1, r1) := call w0 p (kv "first").toNat! true false
    let (w2, r2) := call w1 p (kv "then").toNat! true false
    (w2, s!"first={showRes r1} abandoned=canceled then={showRes r2} opened={w2.opened - w.opened} live={if live w2 p then 1 else 0} maxlive=1")
  | some "par" =>
    let calls : List (Nat × Nat) := ((kv "reqs").splitOn ",").filterMap fun t =>
      match t.splitOn ":" with
      | [a, b] => some (a.toNat!, b.toNat!)
      | _ => none
    let peers := (calls.map (·.1)).eraseDups
    -- healthy remotes during a concurrent burst
    let w0 := { w with behs := w.behs.filter (fun e => !peers.contains e.1), opens := w.opens.filter (fun e => !peers.contains e.1) }
    let (w1, rs) := calls.foldl (fun (acc : World × List String) c =>
      let (w', r) := call acc.1 c.1 c.2 true false
      (w', acc.2 ++ [s!"{c.2}:{showRes r}"])) (w0, [])
    (w1, s!"res=[{",".intercalate (C15sort rs)}] opened={w1.opened - w.opened} maxlive=[{",".intercalate ((C01.sortNats peers).map fun p => s!"{p}:1")}]")
  | _ => (w, "bad-op")
where
  C15sort (l : List String) : List String := l.foldr (fun x acc =>
    let rec ins (x : String) : List String → List String
      | [] => [x]
      | y :: ys => if x < y then x :: y :: ys else y :: ins x ys
    ins x acc) []

/-- verdict: every reply that was returned is the reply to that very request; never two streams to one peer at once -/
def verdict (_ : Unit) (line : String) : Unit × String :=
  if line.startsWith "#" then ((), line) else
  let (inp, impl) := splitTab line
  let ws := words inp
  let iw := words impl
  let kv := C09.kvOf ws
  match ws.head? with
  | some "reqpre" =>
    let res := C09.kvOf iw "res"
    if res.toNat?.isSome && res != kv "id" then ((), s!"FAIL request {kv "id"} was handed the reply to request {res}") else ((), "ok")
  | some "req" =>
    let res := C09.kvOf iw "res"
    if res.toNat?.isSome && res != kv "id" then ((), s!"FAIL request {kv "id"} was handed the reply to request {res}")
    else if res == "" then ((), s!"FAIL request {kv "id"} came back without an error and without a reply (a peer that never answered counts as having answered)")
    else if (C09.kvOf iw "live").toNat! > 1 then ((), "FAIL more than one stream open to the peer") else ((), "ok")
  | some "parfail" =>
    let bad := (splitList (C09.kvOf iw "waiters")).any fun (t : String) => match t.splitOn ":" with
      | [a, b] => b.toNat?.isSome && a != b
      | _ => false
    let th := C09.kvOf iw "then"
    if bad || (th.toNat?.isSome && th != kv "then") then ((), "FAIL a request was handed another request's reply")
    else if (C09.kvOf iw "maxlive").toNat! > 1 then ((), "FAIL two streams to one peer were open at the same time") else ((), "ok")
  | some "abandon" =>
    let f := C09.kvOf iw "first"
    let th := C09.kvOf iw "then"
    if (f.toNat?.isSome && f != kv "first") || (th.toNat?.isSome && th != kv "then") then
      ((), "FAIL a request was handed another request's reply")
    else if (C09.kvOf iw "maxlive").toNat! > 1 then ((), "FAIL two streams to one peer were open at the same time")
    else ((), "ok")
  | some "par" =>
    let rs := splitList (C09.kvOf iw "res")
    let bad := rs.any fun (t : String) => match t.splitOn ":" with
      | [a, b] => b.toNat?.isSome && a != b
      | _ => false
    let over := (splitList (C09.kvOf iw "maxlive")).any fun (t : String) => match t.splitOn ":" with
      | [_, n] => n.toNat! > 1
      | _ => false
    if bad then ((), "FAIL a concurrent request was handed another request's reply")
    else if over then ((), "FAIL two streams to one peer were open at the same time") else ((), "ok")
  | _ => ((), "ok")

end KadDHT.Driver.C11

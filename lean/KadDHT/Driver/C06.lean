/- Driver for the publish plans (property C06): replays the lookup of a PutValue / Provide / value search with the
   C01 lookup model and predicts the recipients. -/
import KadDHT.Driver.C01
import KadDHT.Driver.C04
import KadDHT.Model.Publish
namespace KadDHT.Driver.C06
open KadDHT KadDHT.Driver KadDHT.Publish

structure St where
  kind : String := ""
  lk : C01.St := {}
  vs : C04.St := {}
  known : List (Nat × List Nat) := []
  n : Nat := 0
  K : Nat := 0
  value : String := ""
  local_ : String := ""
  naddrs : Nat := 0
  opt : Bool := false
  /-- peers that cannot be dialled: no message ever reaches them -/
  undialable : List Nat := []
  active : Bool := false

def honest (known : List Nat) (self requester K : Nat) : List Nat :=
  (((C01.sortNats known).eraseDups).filter fun x => x != self && x != requester).take K

/-- translate a release token of the ops harness into a line of the C01 protocol -/
def toLookupLine (st : St) (tok : String) : Option String :=
  match tok.splitOn ":" with
  | [who, res] =>
    let letter := who.toList.headD ' '
    let p := (String.ofList (who.toList.drop 1)).toNat!
    if letter == 'F' || letter == 'G' || letter == 'P' || letter == 'D' then
      let misKeyed := letter == 'G' && (st.vs.recs.find? (·.1 == p)).map (·.2) == some ValueSearch.Rec.miskeyed
      if res == "ok" && !misKeyed then
        let kn := match st.known.find? (·.1 == p) with | some (_, l) => l | none => []
        some s!"deliver {p} resp={",".intercalate ((honest kn p st.n st.K).map toString)}"
      else some s!"deliver {p} fail"
    else none
  | _ => none

def feed (st : St) (tok : String) : St :=
  let st := { st with vs := C04.release st.vs tok }
  match toLookupLine st tok with
  | some l => { st with lk := (C01.step st.lk l).1 }
  | none => st

def step (st : St) (line : String) : St × String :=
  if line.startsWith "#" then ({}, line) else
  let ws := words line
  match ws with
  | "op" :: _ =>
    let kind := C09.kvOf ws "kind"
    let n := (C09.kvOf ws "n").toNat!
    let known := ((C09.kvOf ws "peers").splitOn "|").filterMap fun t =>
      match t.splitOn ":" with
      | id :: _ :: kn :: _ => some (id.toNat!, if kn == "" then [] else (kn.splitOn ".").map String.toNat!)
      | _ => none
    let undial := ((C09.kvOf ws "peers").splitOn "|").filterMap fun t =>
      match t.splitOn ":" with
      | id :: beh :: _ => if beh.startsWith "d" then some id.toNat! else none
      | _ => none
    let hdr := s!"lookup n={n} key=0 K={C09.kvOf ws "K"} a={C09.kvOf ws "a"} b={C09.kvOf ws "b"} api=public rt={C09.kvOf ws "rt"} peers={C09.kvOf ws "peers"}"
    let (lk, _) := C01.step {} hdr
    let (vs, _) := C04.step {} line
    ({ kind := kind, lk := lk, vs := vs, known := known, n := n, K := (C09.kvOf ws "K").toNat!,
       value := C09.kvOf ws "value", local_ := C09.kvOf ws "local",
       naddrs := (let a := C09.kvOf ws "addrs"; let filt := C09.kvOf ws "filt" == "1"
                  if a == "-" then 0 else (a.toList.filter fun c => !(filt && c == 'r')).length), opt := C09.kvOf ws "opt" == "1", undialable := undial,
       active := kind == "putvalue" || kind == "provide" || kind == "searchvalue" || kind == "getvalue" }, "-")
  | ["rel", tok] => (feed st tok, "-")
  | ["cancel"] => ({ st with lk := (C01.step st.lk "cancel").1, vs := (C04.step st.vs "cancel").1 }, "-")
  | "finish" :: rest =>
    if !st.active then (st, "-") else
    let late := match rest.find? (·.startsWith "late=") with
      | some w => (String.ofList (w.toList.drop 5)).splitOn ","
      | none => []
    let st' := late.foldl feed st
    let (_, fin) := C01.step st'.lk "finish"
    let fw := words fin
    let peers := (splitList (C09.kvOf fw "peers")).map String.toNat!
    let lookupOk := C09.kvOf fw "err" == "nil"
    let showV (l : List (Rpc String)) : String :=
      "[" ++ ",".intercalate ((C01.sortNats (l.map (·.to))).map fun p =>
        s!"V{p}={(l.find? (·.to == p)).map (·.payload) |>.getD ""}") ++ "]"
    if st'.kind == "putvalue" then
      let rk (v : String) : Option Nat := if v.startsWith "r" then some (String.ofList (v.toList.drop 1)).toNat! else none
      let (stored, rpcs) := putValuePlan (st'.value != "bad") ((rk st'.value).getD 0) (rk st'.local_) lookupOk peers
        (s!"{(rk st'.value).getD 0}:ok")
      (st', s!"recipients={showV rpcs} localhas={if stored then 1 else 0}")
    else if st'.kind == "provide" then
      if st'.opt then (st', "recipients=*") else
      let rpcs := providePlan st'.n (List.range st'.naddrs) (fun _ => true) lookupOk peers
      (st', "recipients=[" ++ ",".intercalate ((C01.sortNats (rpcs.map (·.to))).map fun p => s!"A{p}={st'.n}/{st'.naddrs}") ++ "] localhas=1")
    else
      -- value search: corrective puts to the closest peers that did not return the best value
      if st'.vs.cancelled || st'.lk.cancelled then (st', "recipients=*") else
      let best := ValueSearch.finalValue st'.vs.ps
      let rpcs := correctivePlan (best.map C04.showVal) st'.vs.ps.aborted peers st'.vs.ps.withBest
      (st', "recipients=" ++ showV rpcs)
  | _ => (st, "-")

/-- verdict on the real recipients: nobody is sent the same publish RPC twice, every ADD_PROVIDER names exactly the
    local peer with its non-empty filter-passing addresses, every PUT_VALUE carries the put value (or the best value
    of the search), the local store came first, and a peer that returned the best value gets no corrective put -/
def verdict (st : St) (line : String) : St × String :=
  if line.startsWith "#" then ({}, line) else
  let (inp, impl) := splitTab line
  let (st', _) := step st inp
  if (impl.splitOn "panic").length > 1 then (st', "FAIL panic") else
  if (words inp).head? != some "finish" || !st'.active then (st', "ok") else
  let iw := words impl
  let toks := splitList (C09.kvOf iw "recipients")
  let parsed : List (Char × Nat × String) := toks.map fun (t : String) =>
    match t.splitOn "=" with
    | who :: rest => (who.toList.headD ' ', (String.ofList (who.toList.drop 1)).toNat!, "=".intercalate rest)
    | [] => (' ', 0, "")
  let ranks := parsed.map (·.2.1)
  if toks.any (fun t => (t.splitOn "~cancelled").length > 1) then
    (st', "FAIL a publish RPC was cut short although the caller neither cancelled nor ran out of time") else
  if ranks.eraseDups.length != ranks.length then (st', "FAIL a peer was sent the same record twice") else
  if C09.kvOf iw "localfirst" == "0" then (st', "FAIL a recipient was contacted before the record was stored locally") else
  if st'.kind == "provide" then
    if parsed.any (fun x => x.1 != 'A' || x.2.2 != s!"{st'.n}/{st'.naddrs}") then
      (st', s!"FAIL an ADD_PROVIDER does not name exactly the local peer with its {st'.naddrs} filter-passing addresses")
    else if st'.naddrs == 0 && !parsed.isEmpty then (st', "FAIL announced without any address")
    else
      -- every peer of the lookup's result (the K nearest learned peers that did not fail, from the published lookup events)
      -- is sent an ADD_PROVIDER — classic and optimistic provide alike — unless the caller gave up or there is no address
      let lookupRes := (splitList (C09.kvOf iw "lookupres")).map String.toNat!
      let missing := lookupRes.filter fun r => !ranks.contains r && !st'.undialable.contains r
      if C09.kvOf iw "err" == "nil" && !st'.lk.cancelled && st'.naddrs > 0 && !missing.isEmpty then
        (st', s!"FAIL peer {missing.headD 0} is among the peers the lookup returned but was sent no ADD_PROVIDER")
      else (st', "ok")
  else if st'.kind == "putvalue" then
    if parsed.any (fun x => x.1 != 'V' || x.2.2 != s!"{(String.ofList (st'.value.toList.drop 1))}:ok") then
      (st', "FAIL a PUT_VALUE does not carry the record that was put")
    else (st', "ok")
  else
    let best := (ValueSearch.finalValue st'.vs.ps).map C04.showVal
    if !st'.vs.cancelled && parsed.any (fun x => some x.2.2 != best) then (st', "FAIL a corrective put does not carry the best value")
    else if !st'.vs.cancelled && parsed.any (fun x => st'.vs.ps.withBest.contains x.2.1) then
      (st', "FAIL a peer that returned the best value was sent a corrective put")
    else (st', "ok")

end KadDHT.Driver.C06

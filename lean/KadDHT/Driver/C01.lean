/- Line-protocol driver for the lookup model (properties C01, C02, C03): peers are ranks by distance. -/
import KadDHT.Driver.Common
import KadDHT.Driver.C09
import KadDHT.Model.Lookup
namespace KadDHT.Driver.C01
open KadDHT KadDHT.Driver KadDHT.Lookup

structure St where
  cfg : Cfg Nat := { K := 20, α := 10, β := 3, self := 0, lt := fun a b => a < b }
  s : LState Nat := {}
  panic : Option String := none
  pub : Bool := false
  cancelled : Bool := false
  /-- processed updates, for the event log -/
  evs : List String := []
  /-- peers whose dial fails (they never receive a request) -/
  undialable : List Nat := []
  /-- follow-up phase: `none` = not started; `some l` = follow-up requests still outstanding -/
  fuPending : Option (List Nat) := none
  fuAsked : List Nat := []
  /-- `completed` was cleared by a cancellation before or during the follow-ups -/
  cleared : Bool := false
  /-- the context was cancelled before the call returned -/
  errCancelled : Bool := false
  /-- query filter classes by rank (`qf=`): `x` = every address the node can know of the peer is rejected by the filter;
      `p` = the response carries a passing address, `k` = it carries none but the peerstore already holds a passing one.
      Empty = no filter. -/
  qf : List Char := []

def showNats (xs : List Nat) : String := "[" ++ ",".intercalate (xs.map toString) ++ "]"
def sortNats (xs : List Nat) : List Nat := sortBy (fun a b => a < b) xs
def dotted (xs : List Nat) : String := ".".intercalate (xs.map toString)

def stLetter : PState → String
  | .heard => "h" | .waiting => "w" | .queried => "q" | .unreachable => "u"

def reasonStr : Reason → String
  | .stopped => "stopped" | .cancelled => "cancelled" | .starvation => "starvation" | .completed => "completed"

def acceptOf (qf : List Char) (p : Nat) : Bool := qf.getD p 'p' != 'x'
def noStop (_ : LState Nat) : Bool := false

/-- the `ask:` events of the peers spawned by the last step -/
def askEvs (before after : LState Nat) : List String :=
  (after.spawned.drop before.spawned.length).map fun p => s!"ask:{p}"

def inflightStr (s : LState Nat) : String := "inflight=" ++ showNats (sortNats s.inflight)

/-- once the search has terminated and its leftover goroutines have returned, `runLookupWithFollowup`
    issues the follow-up requests -/
def advance (st : St) : St :=
  if st.s.terminated.isSome && st.s.inflight.isEmpty && st.fuPending.isNone && st.panic.isNone then
    let fus := followups (result st.cfg st.s)
    if fus.isEmpty then { st with fuPending := some [] }
    else if st.cancelled then { st with fuPending := some [], cleared := true }
    else { st with fuPending := some fus, fuAsked := fus }
  else st

def showInflight (st : St) : String :=
  match st.fuPending with
  | some l => "inflight=" ++ showNats (sortNats l)
  | none => inflightStr st.s

partial def step (st : St) (line : String) : St × String :=
  if line.startsWith "#" then ({}, line) else
  let ws := words line
  match ws with
  | "lookup" :: _ =>
    let n := (C09.kvOf ws "n").toNat!
    let gs := max 1 ((C09.kvOf ws "gs").toNat?.getD 1)
    let cfg : Cfg Nat := { K := (C09.kvOf ws "K").toNat!, α := (C09.kvOf ws "a").toNat!, β := (C09.kvOf ws "b").toNat!,
                           self := n, lt := fun a b => a < b,
                           divLimit := (C09.kvOf ws "div").toNat?.getD 0, group := fun r => r / gs }
    let undial := ((C09.kvOf ws "peers").splitOn "|").filterMap fun t =>
      match t.splitOn ":" with
      | id :: "d" :: _ => some id.toNat!
      | _ => none
    let rt := let t := C09.kvOf ws "rt"; if t == "-" || t == "" then [] else (t.splitOn ",").map String.toNat!
    -- `routingTable.NearestPeers(key, K)`
    let seeds := (sortNats rt).take cfg.K
    if seeds.isEmpty then ({ cfg := cfg, pub := C09.kvOf ws "api" == "public", panic := some "nolookup" }, "inflight=[]") else
    match start cfg noStop seeds with
    | .ok s =>
      let evs := [s!"upd:{n}:seed:{dotted seeds}"] ++ askEvs {} s
      let qf := let t := C09.kvOf ws "qf"; if t == "-" || t == "" then [] else t.toList
      let st' := advance { cfg := cfg, s := s, pub := C09.kvOf ws "api" == "public", evs := evs, undialable := undial, qf := qf }
      (st', showInflight st')
    | .error _ => ({ cfg := cfg, panic := some "panic" }, "panic")
  | ["nop"] => (st, showInflight st)
  | ["deliver", p, o] =>
    if st.panic.isSome then (st, "inflight=[]") else
    let p := p.toNat!
    -- a follow-up request returns: its outcome does not matter
    if (st.fuPending.getD []).contains p then
      let st' := { st with fuPending := some ((st.fuPending.getD []).erase p) }
      (st', showInflight st')
    else
    if !st.s.inflight.contains p then (st, "not-inflight") else
    let out : Outcome Nat := if o == "fail" then .fail else
      let t := String.ofList (o.toList.drop 5)
      .resp (if t == "" then [] else (t.splitOn ",").map String.toNat!)
    match Lookup.step st.cfg (acceptOf st.qf) noStop st.s (.deliver p out) with
    | .ok s' =>
      let upd := if st.s.terminated.isSome then [] else
        match out with
        | .fail => [s!"upd:{p}:u:"]
        | .resp peers => [s!"upd:{p}:q:{dotted (ingest st.cfg (acceptOf st.qf) peers)}"]
      let st' := advance { st with s := s', evs := st.evs ++ upd ++ askEvs st.s s' }
      (st', showInflight st')
    | .error _ => ({ st with panic := some "panic" }, "panic")
  | ["cancel"] =>
    if st.panic.isSome then (st, "inflight=[]") else
    match Lookup.step st.cfg (acceptOf st.qf) noStop st.s .cancel with
    | .ok s' =>
      -- a cancellation while follow-ups are outstanding clears `completed`
      let cl := st.cleared || !(st.fuPending.getD []).isEmpty
      let returned := st.s.terminated.isSome && st.s.inflight.isEmpty && st.fuPending == some []
      let st' := advance { st with s := s', cancelled := true, cleared := cl, errCancelled := st.errCancelled || !returned }
      (st', showInflight st')
    | .error _ => ({ st with panic := some "panic" }, "panic")
  | ["finish", "abandon"] =>
    -- the schedule ended while requests were still outstanding: the caller cancels
    step (step st "cancel").1 "finish"
  | ["finish"] =>
    match st.panic with
    | some "nolookup" =>
      -- no peer in the routing table: the lookup fails at once
      (st, (if st.pub then "peers=[] err=" else "nores err=") ++ "failed to find any peer in table" ++
        (if st.cancelled then " events=(cancelled)" else " term=none events="))
    | some _ => (st, "panic")
    | none =>
      -- without any further event a lookup that is still running is abandoned by its caller: the
      -- harness fails the calls still parked, which the model sees as failures of the peers in flight
      -- leftovers of the search phase return (their context is cancelled), then the follow-ups run
      let st := advance { st with s := { st.s with inflight := [] } }
      let s := st.s
      let r := result st.cfg s
      let completed := r.completed && !st.cleared
      -- only the public wrapper reports the context error
      let errS := if st.errCancelled && st.pub then "canceled" else "nil"
      let asked := sortNats ((s.spawned.filter fun p => !st.undialable.contains p) ++ st.fuAsked)
      let body :=
        if st.pub then s!"peers={showNats r.peers} err={errS} asked={showNats asked}"
        else s!"peers={showNats r.peers} states={"".intercalate (r.states.map stLetter)} closest={showNats r.closest} completed={if completed then 1 else 0} err={errS} asked={showNats asked}"
      let tail := if st.cancelled then " events=(cancelled)" else
        " term=" ++ (match s.terminated with | some r => reasonStr r | none => "none") ++ " events=" ++ ";".intercalate st.evs
      (st, body ++ tail)
  | _ => (st, "bad-op")

end KadDHT.Driver.C01

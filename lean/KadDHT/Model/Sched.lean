/-
  Model of the sweeping provider's cycle arithmetic (provider/provider.go `timeOffset`, `timeBetween`,
  `reprovideTimeForPrefix`), of the reprovide-set bookkeeping of Start/Stop/ProvideOnce, and of the buffered wrapper's
  operation coalescing (provider/buffered/provider.go `getOperations` + the worker's execution order) — property C17.
  Durations are natural numbers of nanoseconds.  Core Lean only.
-/
import KadDHT.Basic.Bits
namespace KadDHT.Sched
open KadDHT

/-- `timeBetween(from, to)` for two offsets inside the cycle -/
def timeBetween (I from_ to : Nat) : Nat := (to + I - 1 - from_) % I + 1

/-- the integer value of a bit string, most significant bit first -/
def valOf (bits : List Bool) : Nat := bits.foldl (fun acc b => 2 * acc + (if b then 1 else 0)) 0

/-- `reprovideTimeForPrefix`: the prefix XORed with the order key, as a fraction of the interval -/
def slot (I : Nat) (order pfx : Key) : Nat := I * valOf (kxor pfx (order.take pfx.length)) / 2 ^ pfx.length

/-! ### the reprovide set -/

inductive Op where
  | start (force : Bool) (k : Nat)
  | stop (k : Nat)
  | once (k : Nat)
  deriving DecidableEq, Repr

/-- the keys kept for reproviding -/
def apply (s : List Nat) : Op → List Nat
  | .start _ k => if s.contains k then s else s ++ [k]
  | .stop k => s.filter (· != k)
  | .once _ => s

def sequential (s : List Nat) (ops : List Op) : List Nat := ops.foldl apply s

/-- does a start of `k` occur in the operations? -/
def hasStart (ops : List Op) (k : Nat) : Bool := ops.any fun o => match o with | .start _ k' => k' == k | _ => false

/-- `getOperations`: a stop is kept only if no start of the same key follows it in the batch -/
def stopsKept : List Op → List Nat
  | [] => []
  | .stop k :: rest => if hasStart rest k then stopsKept rest else k :: (stopsKept rest).filter (· != k)
  | _ :: rest => stopsKept rest

def isForced : Op → Bool | .start true _ => true | _ => false
def isStart : Op → Bool | .start false _ => true | _ => false
def isOnce : Op → Bool | .once _ => true | _ => false

/-- the buffered worker's order: forced starts, starts, provide-once, then the stops that were kept -/
def batched (s : List Nat) (ops : List Op) : List Nat :=
  (stopsKept ops).foldl (fun acc k => apply acc (.stop k))
    (sequential s (ops.filter isForced ++ ops.filter isStart ++ ops.filter isOnce))

/-! ### slots that must not be lost: restart (F24) and a new prefix that subsumes scheduled regions (F25) -/

/-- `loadRecentlyReprovidedRegions`, the test on one history entry as repaired: a region reprovided at `ts` counts as
    recently reprovided at `now` only if the scheduled regions overlapping it, due in `untilDue`, come no later than one
    interval plus the allowed delay after `ts` -/
def recentRepaired (I D now ts untilDue : Nat) : Bool := decide (now + untilDue ≤ ts + I + D)

/-- … and as it was: every entry younger than one interval (older ones are garbage-collected) -/
def recentLegacy (I now ts : Nat) : Bool := decide (now < ts + I)

/-- when the keys of the entry's region are advertised next: at their region's slot if the entry is recent, otherwise at
    once (`enqueueExpiredRegionsNoLock` hands the region to the catch-up queue) -/
def nextAdvert (recent : Bool) (now untilDue : Nat) : Nat := if recent then now + untilDue else now

/-- `schedulePrefixNoLock` of a prefix that was not just reprovided, as repaired: among its own slot and the slots of the
    scheduled regions it subsumes, the one that comes first from the current offset of the cycle -/
def takeOver (I cur own : Nat) (subs : List Nat) : Nat :=
  subs.foldl (fun best t => if timeBetween I cur t < timeBetween I cur best then t else best) own

/-! ### one kept key's timeline: when it was last advertised and when the region that covers it is next due -/

structure TL where
  now : Nat
  /-- the key's last advertisement -/
  last : Nat
  /-- the instant at which the scheduled region that covers the key is next due -/
  due : Nat
  deriving Repr, DecidableEq

/-- what can happen to the key's region, as the repaired code does it (workers keep up: a due or queued region is
    reprovided at once) -/
inductive TStep (I D : Nat) : TL → TL → Prop
  /-- time passes, not beyond the region's slot -/
  | wait (s : TL) (t : Nat) (h1 : s.now ≤ t) (h2 : t ≤ s.due) : TStep I D s { s with now := t }
  /-- `handleReprovide` at the slot; `reschedulePrefix`: the next slot is `timeBetween` away (at most one interval), or
      capped at interval + max delay when the region grew (`schedulePrefixNoLock`, justReprovided) -/
  | fire (s : TL) (u : Nat) (h : s.now = s.due) (h1 : 1 ≤ u) (h2 : u ≤ I + D) :
      TStep I D s { now := s.now, last := s.now, due := s.now + u }
  /-- the key is advertised before its slot: a forced start, a merge found while a sibling region is reprovided
      (`batchReprovide` reprovides every key under the covered prefix), the catch-up after an outage -/
  | early (s : TL) (u : Nat) (h1 : 1 ≤ u) (h2 : u ≤ I + D) : TStep I D s { now := s.now, last := s.now, due := s.now + u }
  /-- a new key's prefix subsumes the key's region (`schedulePrefixNoLock`, not justReprovided): the new prefix takes
      over the earliest pending slot among its own and the subsumed ones -/
  | subsume (s : TL) (cur own told : Nat) (subs : List Nat) (hm : told ∈ subs) (hd : s.due = s.now + timeBetween I cur told) :
      TStep I D s { s with due := s.now + timeBetween I cur (takeOver I cur own subs) }
  /-- restart: the schedule is rebuilt, the region that now covers the key is due in `u`; the history entry decides
      whether the key waits for that slot or is caught up at once -/
  | restart (s : TL) (u : Nat) (h1 : 1 ≤ u) (h2 : u ≤ I) :
      TStep I D s (if recentRepaired I D s.now s.last u then { s with due := s.now + u }
                   else { now := s.now, last := s.now, due := s.now + u })

def TLInv (I D : Nat) (s : TL) : Prop := s.last ≤ s.now ∧ s.now ≤ s.due ∧ s.due ≤ s.last + I + D

instance (I D : Nat) (s : TL) : Decidable (TLInv I D s) := by unfold TLInv; infer_instance

/-- … and with outages: the node is cut off until `tEnd`; nothing is sent meanwhile; once it is back, a region whose slot
    fell due meanwhile is caught up within `G` (the time to notice and to work off the queue), one whose slot is still
    ahead keeps it -/
inductive OStep (I D G : Nat) : TL → TL → Prop
  | base (s s' : TL) (h : TStep I D s s') : OStep I D G s s'
  | outage (s : TL) (tEnd g u : Nat) (h1 : s.now ≤ tEnd) (hg : g ≤ G) (hu1 : 1 ≤ u) (hu2 : u ≤ I + D) :
      OStep I D G s (if s.due ≤ tEnd + g then { now := tEnd + g, last := tEnd + g, due := tEnd + g + u }
                     else { s with now := tEnd })

inductive TReach (I D : Nat) (s0 : TL) : TL → Prop
  | refl : TReach I D s0 s0
  | step {s s' : TL} : TReach I D s0 s → TStep I D s s' → TReach I D s0 s'

end KadDHT.Sched

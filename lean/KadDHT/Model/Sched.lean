/-
  Model of the sweeping provider's cycle arithmetic (provider/provider.go `timeOffset`, `timeBetween`,
  `reprovideTimeForPrefix`), of the reprovide-set bookkeeping of Start/Stop/ProvideOnce, and of the buffered wrapper's
  operation coalescing (provider/buffered/provider.go `getOperations` + the worker's execution order) — property C17.
  Durations are natural numbers of nanoseconds.  Core Lean only.
-/
import KadDHT.Basic.Bits
namespace KadDHT.Sched
open KadDHT

/-- `timeBetween(from, to)` for two offsets inside the cycle -/
def timeBetween (I from_ to : Nat) : Nat := (to + I - 1 - from_) % I + 1

/-- the integer value of a bit string, most significant bit first -/
def valOf (bits : List Bool) : Nat := bits.foldl (fun acc b => 2 * acc + (if b then 1 else 0)) 0

/-- `reprovideTimeForPrefix`: the prefix XORed with the order key, as a fraction of the interval -/
def slot (I : Nat) (order pfx : Key) : Nat := I * valOf (kxor pfx (order.take pfx.length)) / 2 ^ pfx.length

/-! ### the reprovide set -/

inductive Op where
  | start (force : Bool) (k : Nat)
  | stop (k : Nat)
  | once (k : Nat)
  deriving DecidableEq, Repr

/-- the keys kept for reproviding -/
def apply (s : List Nat) : Op → List Nat
  | .start _ k => if s.contains k then s else s ++ [k]
  | .stop k => s.filter (· != k)
  | .once _ => s

def sequential (s : List Nat) (ops : List Op) : List Nat := ops.foldl apply s

/-- does a start of `k` occur in the operations? -/
def hasStart (ops : List Op) (k : Nat) : Bool := ops.any fun o => match o with | .start _ k' => k' == k | _ => false

/-- `getOperations`: a stop is kept only if no start of the same key follows it in the batch -/
def stopsKept : List Op → List Nat
  | [] => []
  | .stop k :: rest => if hasStart rest k then stopsKept rest else k :: (stopsKept rest).filter (· != k)
  | _ :: rest => stopsKept rest

def isForced : Op → Bool | .start true _ => true | _ => false
def isStart : Op → Bool | .start false _ => true | _ => false
def isOnce : Op → Bool | .once _ => true | _ => false

/-- the buffered worker's order: forced starts, starts, provide-once, then the stops that were kept -/
def batched (s : List Nat) (ops : List Op) : List Nat :=
  (stopsKept ops).foldl (fun acc k => apply acc (.stop k))
    (sequential s (ops.filter isForced ++ ops.filter isStart ++ ops.filter isOnce))

/-! ### slots that must not be lost: restart (F24) and a new prefix that subsumes scheduled regions (F25) -/

/-- `loadRecentlyReprovidedRegions`, the test on one history entry as repaired: a region reprovided at `ts` counts as
    recently reprovided at `now` only if the scheduled regions overlapping it, due in `untilDue`, come no later than one
    interval plus the allowed delay after `ts` -/
def recentRepaired (I D now ts untilDue : Nat) : Bool := decide (now + untilDue ≤ ts + I + D)

/-- … and as it was: every entry younger than one interval (older ones are garbage-collected) -/
def recentLegacy (I now ts : Nat) : Bool := decide (now < ts + I)

/-- when the keys of the entry's region are advertised next: at their region's slot if the entry is recent, otherwise at
    once (`enqueueExpiredRegionsNoLock` hands the region to the catch-up queue) -/
def nextAdvert (recent : Bool) (now untilDue : Nat) : Nat := if recent then now + untilDue else now

/-- `schedulePrefixNoLock` of a prefix that was not just reprovided, as repaired: among its own slot and the slots of the
    scheduled regions it subsumes, the one that comes first from the current offset of the cycle -/
def takeOver (I cur own : Nat) (subs : List Nat) : Nat :=
  subs.foldl (fun best t => if timeBetween I cur t < timeBetween I cur best then t else best) own

end KadDHT.Sched

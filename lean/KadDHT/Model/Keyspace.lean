/-
  Model of provider/internal/keyspace (trie.go, key.go) and of the go-libdht trie primitives it
  relies on.  Every function is a literal structural-recursion transcription of the Go function
  named in its doc comment; Go's `depth` argument is kept.  Core Lean only.
-/
import KadDHT.Basic.Bits
namespace KadDHT

/-- go-libdht `trie.Trie`: keys only in leaves, leaves at any depth; a leaf stores its *full* key. -/
inductive Trie (α : Type) where
  | empty : Trie α
  | leaf (k : Key) (d : α) : Trie α
  | node (l r : Trie α) : Trie α
  deriving Repr, BEq, Inhabited

namespace Trie
variable {α : Type}

/-- `t.Branch(b)`; on a leaf Go returns nil, which every caller treats like an empty leaf. -/
def br : Trie α → Bool → Trie α
  | node l r, b => if b then r else l
  | _, _ => empty

def mk (b : Bool) (sub other : Trie α) : Trie α := if b then node other sub else node sub other

def isLeaf : Trie α → Bool | node .. => false | _ => true
def isEmptyLeaf : Trie α → Bool | empty => true | _ => false
def isNonEmptyLeaf : Trie α → Bool | leaf .. => true | _ => false

def size : Trie α → Nat
  | empty => 0 | leaf .. => 1 | node l r => l.size + r.size

/-- `trieIterAtDepth` / `AllEntries(t, order)` -/
def entriesAt (order : Key) : Nat → Trie α → List (Key × α)
  | _, empty => []
  | _, leaf k d => [(k, d)]
  | depth, node l r =>
    if bitAt order depth then entriesAt order (depth+1) r ++ entriesAt order (depth+1) l
    else entriesAt order (depth+1) l ++ entriesAt order (depth+1) r

def entries (t : Trie α) (order : Key) : List (Key × α) := entriesAt order 0 t
def keysIn (t : Trie α) (order : Key) : List Key := (entries t order).map (·.1)
def valuesIn (t : Trie α) (order : Key) : List α := (entries t order).map (·.2)
/-- keys in the all-zero order (`zeroKey`) -/
def keys (t : Trie α) : List Key := keysIn t []
def values (t : Trie α) : List α := valuesIn t []

/-- go-libdht `addManyAtDepth` for a single entry (`Trie.Add`).  `fuel` bounds the descent (a key of
    `n` bits needs at most `n+1` steps); the Go index panic when the stored key is a proper prefix
    of the new key is `none`. -/
def addAt (k : Key) (d : α) : Nat → Nat → Trie α → Option (Trie α)
  | 0, _, t => some t
  | _+1, _, empty => some (leaf k d)
  | fuel+1, depth, leaf k' d' =>
    if k' == k then some (leaf k' d') else
    if k'.length ≤ depth then none else                      -- (*tr.key).Bit(depth) out of range
    let b := bitAt k' depth
    if k.length ≤ depth then some (mk b (leaf k' d') empty)  -- split done, new key skipped
    else
      let nb := bitAt k depth
      if nb == b then (addAt k d fuel (depth+1) (leaf k' d')).map fun s => mk b s empty
      else some (mk b (leaf k' d') (leaf k d))
  | fuel+1, depth, node l r =>
    if k.length ≤ depth then some (node l r) else
    if bitAt k depth then (addAt k d fuel (depth+1) r).map fun s => node l s
    else (addAt k d fuel (depth+1) l).map fun s => node s r

def add (t : Trie α) (k : Key) (d : α) : Option (Trie α) := addAt k d (k.length + 2) 0 t

def addMany (t : Trie α) : List (Key × α) → Option (Trie α)
  | [] => some t
  | (k, d) :: es => match add t k d with
    | some t' => addMany t' es
    | none => none

/-- `shrink` -/
def shrink : Trie α → Trie α
  | node empty empty => empty
  | node empty (leaf k d) => leaf k d
  | node (leaf k d) empty => leaf k d
  | t => t

/-- `removeAtDepth` (`Trie.Remove`), with the "removed" flag -/
def removeAt (k : Key) : Nat → Trie α → Trie α × Bool
  | _, empty => (empty, false)
  | _, leaf k' d => if k' == k then (empty, true) else (leaf k' d, false)
  | depth, node l r =>
    if bitAt k depth then
      let (s, rm) := removeAt k (depth+1) r
      if rm then (shrink (node l s), true) else (node l r, false)
    else
      let (s, rm) := removeAt k (depth+1) l
      if rm then (shrink (node s r), true) else (node l r, false)

def remove (t : Trie α) (k : Key) : Trie α × Bool := removeAt k 0 t

/-- `findPrefixOfKeyAtDepth` -/
def findPrefixAt (k : Key) : Nat → Trie α → Option Key
  | _, empty => none
  | _, leaf k' _ => if cpl k' k == k'.length then some k' else none
  | depth, node l r =>
    if depth == k.length then none
    else if bitAt k depth then findPrefixAt k (depth+1) r else findPrefixAt k (depth+1) l

def findPrefixOfKey (t : Trie α) (k : Key) : Option Key := findPrefixAt k 0 t

/-- `FindSubtrie` loop body, `i` = loop index, `branch` = current node; returns none for "(t,false)". -/
def findSubAt (k : Key) : Nat → Trie α → Option (Trie α)
  | _, empty => none
  | i, leaf k' d =>
    if i ≥ k.length then some (leaf k' d)
    else if cpl k' k == k.length then some (leaf k' d) else none
  | i, node l r =>
    if i ≥ k.length then some (node l r)
    else if bitAt k i then findSubAt k (i+1) r else findSubAt k (i+1) l

def findSubtrie (t : Trie α) (k : Key) : Option (Trie α) :=
  if t.isEmptyLeaf then none else findSubAt k 0 t

/-- `nextNonEmptyLeafAtDepth` with `hitBottom = true` -/
def firstLeaf (order : Key) : Nat → Trie α → Option (Key × α)
  | _, empty => none
  | _, leaf k d => some (k, d)
  | depth, node l r =>
    let ob := bitAt order depth
    match (if ob then firstLeaf order (depth+1) r else firstLeaf order (depth+1) l) with
    | some e => some e
    | none => if ob then firstLeaf order (depth+1) l else firstLeaf order (depth+1) r

/-- `nextNonEmptyLeafAtDepth` with `hitBottom = false` -/
def nextLeafAt (k order : Key) : Nat → Trie α → Option (Key × α)
  | _, empty => none
  | depth, leaf k' d =>
    if depth == 0 then some (k', d) else
    let c := cpl k k'
    if c < k.length && c < order.length && bitAt order c == bitAt k c then some (k', d) else none
  | depth, node l r =>
    let kb := bitAt k depth
    match (if kb then nextLeafAt k order (depth+1) r else nextLeafAt k order (depth+1) l) with
    | some e => some e
    | none =>
      let ob := bitAt order depth
      if kb == ob || depth == 0 then
        match firstLeaf order (depth+1) (if kb then l else r) with
        | some e => some e
        | none => if depth == 0 then firstLeaf order (depth+1) (if kb then r else l) else none
      else none

def nextNonEmptyLeaf (t : Trie α) (k order : Key) : Option (Key × α) := nextLeafAt k order 0 t

/-- `pruneSubtrieAtDepth`: new trie and the "this node became empty" flag -/
def pruneAt (k : Key) : Nat → Trie α → Trie α × Bool
  | _, empty => (empty, false)
  | _, leaf k' d => if isPre k k' then (empty, true) else (leaf k' d, false)
  | depth, node l r =>
    if depth == k.length then (empty, true) else
    if bitAt k depth then
      let (s, pr) := pruneAt k (depth+1) r
      if pr && l.isEmptyLeaf then (empty, true) else (node l s, false)
    else
      let (s, pr) := pruneAt k (depth+1) l
      if pr && r.isEmptyLeaf then (empty, true) else (node s r, false)

def prune (t : Trie α) (k : Key) : Trie α := (pruneAt k 0 t).1

/-- `CoalesceTrie` -/
def coalesce [Inhabited α] : Trie α → Trie α
  | node l r =>
    let l' := coalesce l
    let r' := coalesce r
    match l', r' with
    | leaf k0 _, leaf k1 _ =>
      if k0.length ≥ 1 && k0.length == k1.length && cpl k0 k1 == k0.length - 1
      then leaf (k0.take (k0.length - 1)) default
      else node l' r'
    | _, _ => node l' r'
  | t => t

/-- `subtractTrieAtDepth`: the entries handed to `res.Add/AddMany`, in call order -/
def subtractAt {β : Type} : Nat → Trie α → Trie β → List (Key × α)
  | _, empty, _ => []
  | _, t0, empty => entries t0 []
  | _, leaf k0 d0, leaf k1 _ => if !isPre k1 k0 then [(k0, d0)] else []
  | depth, leaf k0 d0, node l r =>
    if k0.length ≤ depth then [(k0, d0)]
    else subtractAt (depth+1) (leaf k0 d0) (if bitAt k0 depth then r else l)
  | depth, node l r, leaf k1 d1 =>
    if k1.length ≤ depth then [] else
    if bitAt k1 depth then entries l [] ++ subtractAt (depth+1) r (leaf k1 d1)
    else entries r [] ++ subtractAt (depth+1) l (leaf k1 d1)
  | depth, node l0 r0, node l1 r1 =>
    subtractAt (depth+1) l0 l1 ++ subtractAt (depth+1) r0 r1
termination_by _ t0 t1 => sizeOf t0 + sizeOf t1
decreasing_by all_goals simp_wf; all_goals (try split) <;> omega

def subtract {β : Type} (t0 : Trie α) (t1 : Trie β) : Option (Trie α) :=
  addMany empty (subtractAt 0 t0 t1)

end Trie

/-- `SiblingPrefixes` -/
def siblingPrefixes (k : Key) : List Key :=
  (List.range k.length).map fun i => flipLast (k.take (i+1))

/-- comparator of `sortBitstrKeysByOrder` as a strict "a before b" -/
def orderBefore (order a b : Key) : Bool :=
  let rec go : Key → Key → Key → Bool
    | x :: a', y :: b', o :: o' => if x != y then x == o else go a' b' o'
    | _ :: _, [], _ :: _ => true      -- len a > len b, order not exhausted: a first (-1)
    | _, _, _ => false
  go a b order

def sortByOrder (order : Key) (ks : List Key) : List Key := sortBy (orderBefore order) ks

namespace Trie
variable {α : Type}

/-- one iteration of the `for _, i := range []int{b, 1-b}` loop of `trieGapsAtDepth` for branch `i`
    (= `sub`) of a node at `depth`; gaps are relative to that node (Go prepends the branch bit). -/
def gapsBr (target order : Key) : Nat → Bool → Trie α → List Key
  | depth, i, empty =>
    if depth < target.length && i != bitAt target depth then [] else [[i]]
  | depth, i, leaf k _ =>
    if depth < target.length && i != bitAt target depth then [] else
    if k.length > depth + 1 then
      (sortByOrder order ((siblingPrefixes k).drop (depth+1))).map fun s => s.drop depth
    else []
  | depth, i, node sl sr =>
    if depth < target.length && i != bitAt target depth then [] else
    let inner :=
      if bitAt order (depth+1)
      then gapsBr target order (depth+1) true sr ++ gapsBr target order (depth+1) false sl
      else gapsBr target order (depth+1) false sl ++ gapsBr target order (depth+1) true sr
    inner.map fun g => i :: g

/-- `trieGapsAtDepth` at the root -/
def gapsAt (target order : Key) (t : Trie α) : List Key :=
  match t with
  | node l r =>
    if bitAt order 0 then gapsBr target order 0 true r ++ gapsBr target order 0 false l
    else gapsBr target order 0 false l ++ gapsBr target order 0 true r
  | _ => []

/-- `TrieGaps` -/
def gaps (t : Trie α) (target order : Key) : List Key :=
  match t with
  | empty => [target]
  | leaf k _ =>
    if isPre target k then sortByOrder order ((siblingPrefixes k).drop target.length)
    else if isPre k target then []
    else [target]
  | node l r => gapsAt target order (node l r)

/-- `matchingItemsBranch` of `allocateToKClosestAtDepth`: branch `i` of the items trie, or the items trie itself
    when it is a single leaf whose key has bit `i` at `depth`; `none` = `continue`. -/
def matchBranch (items : Trie α) (depth : Nat) (i : Bool) : Option (Trie α) :=
  let m0 := items.br i
  if m0.isEmptyLeaf then
    match items with
    | leaf ik _ => if bitAt ik depth == i then some items else none
    | _ => none
  else some m0

/-- body of the `for i := range 2` loop of `allocateToKClosestAtDepth`; the two possible recursive
    calls are passed in as functions so that the recursion of `allocAt` stays structural. -/
def allocSide {β : Type} (k depth : Nat) (items : Trie α) (i : Bool) (same other : Trie β)
    (recSame recOther : Nat → Trie α → List (β × List α)) : List (β × List α) :=
  let sameCount := same.size
  let otherCount := other.size
  match matchBranch items depth i with
  | none => []
  | some m =>
    if sameCount ≤ k then
      let batch := values m
      let a := (values same).map fun dst => (dst, batch)
      if sameCount == k || otherCount == 0 then a else
      let missing := k - sameCount
      if otherCount ≤ missing then a ++ (values other).map fun dst => (dst, batch)
      else a ++ recOther missing m
    else recSame k m

/-- `allocateToKClosestAtDepth`: the `(dest, batch)` appends in program order -/
def allocAt {β : Type} : Trie β → Nat → Nat → Trie α → List (β × List α)
  | empty, _, _, _ => []
  | leaf _ dest, k, _, items => if k == 0 then [] else [(dest, values items)]
  | node d0 d1, k, depth, items =>
    if k == 0 then [] else
    allocSide k depth items false d0 d1 (fun k' m => allocAt d0 k' (depth+1) m) (fun k' m => allocAt d1 k' (depth+1) m)
    ++ allocSide k depth items true d1 d0 (fun k' m => allocAt d1 k' (depth+1) m) (fun k' m => allocAt d0 k' (depth+1) m)

/-- `AllocateToKClosest` -/
def allocate {β : Type} (items : Trie α) (dests : Trie β) (k : Nat) : List (β × List α) :=
  if dests.isEmptyLeaf || items.isEmptyLeaf || k == 0 then [] else allocAt dests k 0 items

end Trie

/-- `KeyspaceCovered`'s stack loop over the keys in zero order; `none` = Go index panic. -/
def coveredLoop : List Key → List Key → Option Bool
  | [], stack => some stack.isEmpty
  | p :: ps, stack =>
    match stack.getLast? with
    | none => none
    | some top =>
      if p.length < top.length then some false else
      -- inner loop
      let rec inner (fuel : Nat) (p : Key) (stack : List Key) : Option (Option (List Key)) :=
        -- some none = "return false"-free continue outer with stack; encoded below
        match fuel with
        | 0 => none
        | fuel+1 =>
          match stack.getLast? with
          | none => none
          | some top =>
            if p.length == top.length then
              if top.length == 1 && top == p then some (some stack.dropLast)   -- continue outerLoop
              else
                let p' := p.take (top.length - 1)
                let stack' := stack.dropLast
                if stack'.isEmpty then none else inner fuel p' stack'
            else some (some (stack ++ [flipLast p]))
      match inner (p.length + 2) p stack with
      | none => none
      | some none => some false
      | some (some st) => coveredLoop ps st

namespace Trie
/-- `KeyspaceCovered` -/
def covered {α} (t : Trie α) : Option Bool :=
  match t with
  | empty => some false
  | leaf k _ => some (k == [])
  | node l r => coveredLoop (keys (node l r)) [[true], [false]]

/-- `extractMinimalRegions` : list of (prefix, peers-subtrie) -/
def regionsAt {α} (size : Nat) (order : Key) : Key → Trie α → List (Key × Trie α)
  | _, empty => []
  | path, leaf k d => [(path, leaf k d)]
  | path, node l r =>
    if l.size ≥ size && r.size ≥ size then
      let b := bitAt order path.length
      if b then regionsAt size order (path ++ [true]) r ++ regionsAt size order (path ++ [false]) l
      else regionsAt size order (path ++ [false]) l ++ regionsAt size order (path ++ [true]) r
    else [(path, node l r)]

/-- navigation loop of `RegionsFromPeers` -/
def descend {α} : Key → Trie α → Option (Trie α)
  | [], t => some t
  | b :: rest, t =>
    if t.isLeaf then some t else
    let s := t.br b
    if s.isEmptyLeaf then none else descend rest s

end Trie

/-- `RegionsFromPeers` on the already-built peers trie -/
def regionsFromPeers {α} (peers : Trie α) (size : Nat) (order covered : Key) : List (Key × Trie α) :=
  if peers.isEmptyLeaf then [] else
  match Trie.descend covered peers with
  | none => []
  | some t => Trie.regionsAt size order covered t

/-- `closestRegionPrefix` -/
def closestRegionPrefix (prefixes : List Key) (h : Key) : Key :=
  let rec go : List Key → Key → Int → Key
    | [], best, _ => best
    | p :: ps, best, bc => let c : Int := cpl p h; if c > bc then go ps p c else go ps best bc
  go prefixes (prefixes.headD []) (-1)

/-- `AssignKeysToRegions`: for each key the prefix of the region it is placed in -/
def assignKey (prefixes : List Key) (h : Key) : Key :=
  match prefixes.find? (fun p => isPre p h) with
  | some p => p
  | none => closestRegionPrefix prefixes h

/-- `ExtendBinaryPrefix` -/
def extendPrefix (pre : Key) (n : Nat) : List Key :=
  if n < pre.length then [] else
  let rec go : Nat → List Key → List Key
    | 0, acc => acc
    | e+1, acc => go e (acc.flatMap fun s => [s ++ [false], s ++ [true]])
  go (n - pre.length) [pre]

/-- `ShortestCoveredPrefix` on peers already sorted by distance to target (the `kb.SortClosestPeers`
    step is external); returns covered prefix and number of leading peers kept. For one peer the Go
    code returns the peer's full key when it matches. -/
def shortestCovered (target : Key) (sorted : List Key) : Key × List Key :=
  match sorted with
  | [] => ([], [])
  | [p] => if isPre target p then (p, [p]) else ([], [])
  | _ =>
    let rec go : List Key → Nat → Nat → Nat → Nat → Nat × Nat
      | [], _, _, covered, last => (covered, last)
      | p :: ps, i, minCpl, covered, last =>
        let c := cpl target p
        if c < minCpl then go ps (i+1) c (c+1) i else go ps (i+1) minCpl covered last
    let (cov, last) := go sorted 0 target.length 0 0
    (target.take cov, sorted.take last)

end KadDHT

/-
  Model of the operating-mode logic (dht.go `New`/`setMode`/`moveToServerMode`/`moveToClientMode`,
  subscriber_notifee.go `handleLocalReachabilityChangedEvent`, the per-message mode check of dht_net.go).
  Core Lean only.
-/
namespace KadDHT.Mode

inductive ModeOpt where | auto | client | server | autoServer
  deriving Repr, DecidableEq
inductive Reach where | unknown | pub | priv
  deriving Repr, DecidableEq
inductive Mode where | client | server
  deriving Repr, DecidableEq

/-- `New`: the mode a node starts in -/
def initial : ModeOpt → Mode
  | .auto => .client | .client => .client | .autoServer => .server | .server => .server

/-- `handleLocalReachabilityChangedEvent` -/
def target : ModeOpt → Reach → Mode
  | _, .priv => .client
  | opt, .unknown => if opt == .autoServer then .server else .client
  | _, .pub => .server

/-- only the automatic modes subscribe to reachability events -/
def isAuto : ModeOpt → Bool | .auto => true | .autoServer => true | _ => false

structure Stream where
  id : Nat
  /-- stream direction: inbound = opened by the remote peer -/
  inbound : Bool
  /-- direction of the connection carrying it (must not matter) -/
  connInbound : Bool
  alive : Bool := true
  /-- the protocol negotiation has finished but the host has not yet recorded the protocol on the stream and called the
      handler it looked up: for the mode switch this is not a DHT stream yet -/
  pending : Bool := false
  deriving Repr, DecidableEq

structure St where
  opt : ModeOpt
  mode : Mode
  handlers : Bool              -- stream handler registered with the host
  streams : List Stream
  deriving Repr, DecidableEq

def init (opt : ModeOpt) : St := ⟨opt, initial opt, initial opt == .server, []⟩

inductive Ev where
  | reach (r : Reach)
  /-- a DHT stream with the given id is opened on a connection (inbound ones go through the handler) -/
  | openStream (id : Nat) (inbound connInbound : Bool)
  /-- an inbound stream finishes its protocol negotiation (the handler is looked up now) -/
  | negotiate (id : Nat) (connInbound : Bool)
  /-- … and is handed to that handler, which checks the mode before it reads the first message -/
  | deliver (id : Nat)
  /-- the remote sends a request on the stream -/
  | request (id : Nat)
  deriving Repr, DecidableEq

inductive Out where
  | none | nohandler | opened | answered | reset | dead | delivered | nothing
  deriving Repr, DecidableEq

def setMode (s : St) (m : Mode) : St :=
  if m == s.mode then s else
  match m with
  | .server => { s with mode := .server, handlers := true }
  | .client =>
    { s with mode := .client, handlers := false,
             streams := s.streams.map fun st => if st.inbound && !st.pending then { st with alive := false } else st }

def step (s : St) : Ev → St × Out
  | .reach r => if isAuto s.opt then (setMode s (target s.opt r), .none) else (s, .none)
  | .openStream id inbound connInbound =>
    if inbound && !s.handlers then (s, .nohandler)
    else ({ s with streams := s.streams ++ [⟨id, inbound, connInbound, true, false⟩] }, .opened)
  | .negotiate id connInbound =>
    if !s.handlers then (s, .nohandler)
    else ({ s with streams := s.streams ++ [⟨id, true, connInbound, true, true⟩] }, .opened)
  | .deliver id =>
    if s.streams.any (fun st => st.id == id && st.pending) then
      ({ s with streams := s.streams.map fun st =>
          if st.id == id && st.pending then { st with pending := false, alive := st.alive && s.mode == .server } else st }, .delivered)
    else (s, .nothing)
  | .request id =>
    match s.streams.find? (·.id == id) with
    | none => (s, .dead)
    | some st =>
      if !st.alive || !st.inbound || st.pending then (s, .dead) else
      -- dht_net.go: the mode is checked before every message is read
      if s.mode == .server then (s, .answered)
      else ({ s with streams := s.streams.map fun x => if x.id == id then { x with alive := false } else x }, .reset)

def run (s : St) : List Ev → St
  | [] => s
  | e :: es => run (step s e).1 es

end KadDHT.Mode

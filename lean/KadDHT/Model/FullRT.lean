/-
  Model of the accelerated client's closest-peers selection (fullrt/dht.go `GetClosestPeers`) and of the chunk-size
  computation of `bulkMessageSend` (property C16).  The crawled table is given as the list of crawled peers in
  ascending XOR distance from the key (go-libp2p-xor's `ClosestN` is a dependency: that it returns the n nearest keys
  in order is compared on every run), each with the IP groups of its addresses in the order the code visits them.
  Core Lean only.
-/
namespace KadDHT.FullRT

/-- `ipGroupCounts`: the set of (group, peer) pairs counted so far -/
abbrev Counts := List (Nat × Nat)

/-- the peers counted in group `g` -/
def members (c : Counts) (g : Nat) : List Nat := (c.filter fun e => e.1 == g).map (·.2)

def addMember (c : Counts) (g p : Nat) : Counts := if c.contains (g, p) then c else c ++ [(g, p)]

/-- the inner address loop of the code **as it stands at the pinned commit**: a group already holding `limit` peers
    makes the peer be skipped — even when the peer itself is one of the counted ones (defect F3) — and the groups
    visited before the skip keep the peer counted.  Result: (new counts, keep?) -/
def visitLegacy (limit : Nat) (p : Nat) : Counts → List Nat → Counts × Bool
  | c, [] => (c, true)
  | c, g :: gs => if (members c g).length ≥ limit then (c, false) else visitLegacy limit p (addMember c g p) gs

/-- the repaired inner loop: a peer already counted in a group is not tested against that group again -/
def visit (limit : Nat) (p : Nat) : Counts → List Nat → Counts × Bool
  | c, [] => (c, true)
  | c, g :: gs =>
    if (members c g).contains p then visit limit p c gs
    else if (members c g).length ≥ limit then (c, false) else visit limit p (addMember c g p) gs

/-- the walk over the crawled peers, nearest first, until K are kept -/
def walk (visitFn : Nat → Counts → List Nat → Counts × Bool) (K : Nat) (limit : Nat) :
    Counts → List Nat → List (Nat × List Nat) → List Nat
  | _, acc, [] => acc
  | c, acc, (p, gs) :: rest =>
    if acc.length ≥ K then acc else
    if limit == 0 then walk visitFn K limit c (acc ++ [p]) rest
    else
      let r := visitFn p c gs
      if r.2 then walk visitFn K limit r.1 (acc ++ [p]) rest else walk visitFn K limit r.1 acc rest

/-- `GetClosestPeers` (repaired) -/
def closest (K limit : Nat) (table : List (Nat × List Nat)) : List Nat :=
  if K == 0 then [] else walk (visit limit) K limit [] [] table

/-- `GetClosestPeers` at the pinned commit -/
def closestLegacy (K limit : Nat) (table : List (Nat × List Nat)) : List Nat :=
  if K == 0 then [] else walk (visitLegacy limit) K limit [] [] table

/-- Go integer division panics on a zero divisor -/
def goDiv (a b : Nat) : Option Nat := if b == 0 then none else some (a / b)

/-- `bulkMessageSend`'s chunk size at the pinned commit: `none` = run-time panic (integer divide by zero, defect F2) -/
def chunkSizeLegacy (nKeys K numPeers : Nat) : Option Nat :=
  (goDiv (nKeys * K * 2) numPeers).map fun c => if c == 0 then 1 else c

/-- repaired: an empty table is an error before anything is computed -/
def chunkSize (nKeys K numPeers : Nat) : Except Unit Nat :=
  if numPeers == 0 then .error () else .ok (let c := nKeys * K * 2 / numPeers; if c == 0 then 1 else c)

/-! ### the accelerated client's provider search (fullrt/dht.go `findProvidersAsyncRoutine`) -/

/-- `psTryAdd` under its lock: a provider is accepted once, and only while fewer than `count` were accepted
    (`count` = 0: no bound) -/
def psTryAdd (count : Nat) (ps : List Nat) (p : Nat) : List Nat × Bool :=
  if !ps.contains p && (ps.length < count || count == 0) then (ps ++ [p], true) else (ps, false)

/-- the providers yielded when the candidates (the local store's, then the answers' in whatever order the concurrent
    requests deliver them) arrive in this order: every accepted candidate is sent on the channel once -/
def yielded (count : Nat) (arrivals : List Nat) : List Nat :=
  arrivals.foldl (fun ps p => (psTryAdd count ps p).1) []

end KadDHT.FullRT

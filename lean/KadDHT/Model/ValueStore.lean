/-
  Model of records/value_store.go (`Put`, `Get`, `discardIfUnchanged`, the striped put locks), of the PUT_VALUE /
  GET_VALUE handlers and of the local part of routing.go `PutValue` (property C05), as an interleaving system: each
  caller is a small program whose steps are its datastore accesses; a schedule decides whose access comes next.
  The datastore is assumed linearizable per access.  Core Lean only.
-/
namespace KadDHT.VS

/-- a stored datastore value -/
structure Stored where
  ekey : Nat            -- the key embedded in the record
  rank : Nat            -- the validator's ranking of the value (higher is better; the incoming record wins ties)
  valid : Bool          -- does the validator accept the value?
  expired : Bool        -- older than the maximum record age
  corrupt : Bool := false   -- bytes that do not parse as a record
  stamp : Nat := 0      -- distinguishes two writes of the same record (the receive time is part of the bytes)
  deriving DecidableEq, Repr

/-- what a caller wants -/
inductive Op where
  | hput (msgKey : Nat) (rec : Stored)   -- a PUT_VALUE request: message key + record
  | hget (key : Nat)                     -- a GET_VALUE request / a local read
  | lput (key : Nat) (rank : Nat) (valid : Bool)   -- local PutValue(key, value)
  deriving DecidableEq, Repr

inductive Result where
  | ok | old | invalid | mismatch | refused | none | val (rank : Nat)
  deriving DecidableEq, Repr

/-- where a caller stands -/
inductive PC where
  | start
  | getRead          -- Get: about to read the key (no lock)
  | discardRead      -- discardIfUnchanged: holds the stripe lock, about to re-read
  | discardDel       -- … about to delete what it saw
  | putRead          -- Put: holds the stripe lock, about to read the existing record
  | putWrite         -- … about to write
  | done (r : Result)
  deriving DecidableEq, Repr

structure Thread where
  op : Op
  pc : PC := .start
  seen : Option Stored := none      -- what the last read returned
  afterGet : Bool := false          -- lput: the getLocal part is over

inductive Kind where | get | put | del
  deriving DecidableEq, Repr

structure World where
  store : Nat → Option Stored := fun _ => none
  /-- stripe ↦ holder -/
  locks : Nat → Option Nat := fun _ => none
  threads : Nat → Option Thread := fun _ => none
  clock : Nat := 1

def stripe (key : Nat) : Nat := key % 2     -- keys 0,2,… share a stripe; so do 1,3,…

def lookup (w : World) (key : Nat) : Option Stored := w.store key
def write (w : World) (key : Nat) (v : Stored) : World :=
  { w with store := fun k => if k = key then some v else w.store k }
def delete (w : World) (key : Nat) : World := { w with store := fun k => if k = key then none else w.store k }
def setThread (w : World) (tid : Nat) (t : Thread) : World :=
  { w with threads := fun i => if i = tid then some t else w.threads i }
def lock (w : World) (s tid : Nat) : World := { w with locks := fun x => if x = s then some tid else w.locks x }
def unlock (w : World) (tid : Nat) : World := { w with locks := fun x => if w.locks x = some tid then none else w.locks x }

def keyOf : Op → Nat
  | .hput _ rec => rec.ekey
  | .hget k => k
  | .lput k _ _ => k

/-- the record a put-type operation writes -/
def recOf : Op → Option Stored
  | .hput _ rec => some rec
  | .lput k rank valid => some { ekey := k, rank := rank, valid := valid, expired := false }
  | .hget _ => none

/-- a stored value as `existingForSelect` sees it: corrupt or invalid records count as absent -/
def usable (v : Option Stored) : Option Stored := match v with
  | some s => if s.corrupt || !s.valid then none else some s
  | none => none

/-- must `Get` discard what it read? -/
def bad (key : Nat) (s : Stored) : Bool := s.corrupt || s.ekey != key || s.expired

/-- first move of a caller: checks that need no datastore access -/
def begin (t : Thread) : Thread :=
  match t.op with
  | .hput msgKey rec =>
    if msgKey != rec.ekey then { t with pc := .done .mismatch }
    else if !rec.valid then { t with pc := .done .invalid } else { t with pc := .putRead }
  | .hget _ => { t with pc := .getRead }
  | .lput _ _ valid => if !valid then { t with pc := .done .invalid } else { t with pc := .getRead }

/-- the access a caller performs next: kind, key, needs the stripe lock? -/
def nextAccess (t : Thread) : Option (Kind × Nat × Bool) :=
  let k := keyOf t.op
  match t.pc with
  | .getRead => some (.get, k, false)
  | .discardRead => some (.get, k, true)
  | .discardDel => some (.del, k, true)
  | .putRead => some (.get, k, true)
  | .putWrite => some (.put, k, true)
  | _ => none

/-- after the getLocal part of a local PutValue: refuse when a different, better value is stored (`Select` passes over
    a stored value the validator no longer accepts) -/
def afterLocalGet (t : Thread) (old : Option Stored) : Thread :=
  match t.op with
  | .lput _ rank _ =>
    match old with
    | some o => if o.valid && o.rank != rank && rank < o.rank then { t with pc := .done .refused, afterGet := true }
                else { t with pc := .putRead, afterGet := true }
    | none => { t with pc := .putRead, afterGet := true }
  | _ => { t with pc := .done (match old with | some o => .val o.rank | none => .none) }

/-- what an access does to the datastore -/
inductive StoreEff where
  | keep | write (v : Stored) | del
  deriving DecidableEq, Repr

/-- the outcome of one access for the caller: its new state, the effect on the key, whether it releases its lock -/
structure Eff where
  t : Thread
  eff : StoreEff := .keep
  release : Bool := false

/-- one access of a caller standing at `t.pc`, given what the datastore holds under its key -/
def perform (clock key : Nat) (cur : Option Stored) (t : Thread) : Option Eff :=
  match t.pc with
  | .getRead =>
    match cur with
    | none => some { t := afterLocalGet t none }
    | some s => if bad key s then some { t := { t with pc := .discardRead, seen := some s } }
                else some { t := afterLocalGet t (some s) }
  | .discardRead =>
    if cur == t.seen && cur.isSome then some { t := { t with pc := .discardDel } }
    else some { t := afterLocalGet t none, release := true }
  | .discardDel => some { t := afterLocalGet t none, eff := .del, release := true }
  | .putRead =>
    match recOf t.op with
    | none => none
    | some rec =>
      match usable cur with
      | some e => if rec.rank < e.rank then some { t := { t with pc := .done .old }, release := true }
                  else some { t := { t with pc := .putWrite, seen := cur } }
      | none => some { t := { t with pc := .putWrite, seen := cur } }
  | .putWrite =>
    match recOf t.op with
    | none => none
    | some rec => some { t := { t with pc := .done .ok }, eff := .write { rec with stamp := clock }, release := true }
  | _ => none

def applyEff (w : World) (tid key : Nat) (e : Eff) : World :=
  let w1 := match e.eff with
    | .keep => w
    | .write v => { write w key v with clock := w.clock + 1 }
    | .del => delete w key
  let w2 := setThread w1 tid e.t
  if e.release then unlock w2 tid else w2

/-- one access of thread `tid`; `none`: not enabled (finished, or the stripe lock is held by somebody else) -/
def wstep (w : World) (tid : Nat) : Option World :=
  match w.threads tid with
  | none => none
  | some t0 =>
    let t := if t0.pc == .start then begin t0 else t0
    match nextAccess t with
    | none =>
      -- only the access-free first move
      if t0.pc == .start then some (setThread w tid t) else none
    | some (_, key, locked) =>
      let holder := w.locks (stripe key)
      if locked && holder.isSome && holder != some tid then none else
      let w1 := if locked && holder.isNone then lock w (stripe key) tid else w
      (perform w1.clock key (lookup w1 key) t).map (applyEff w1 tid key)

def wrun (w : World) : List Nat → Option World
  | [] => some w
  | t :: ts => match wstep w t with | some w' => wrun w' ts | none => none

def resultOf (w : World) (tid : Nat) : Option Result :=
  match w.threads tid with
  | some t => match t.pc with | .done r => some r | _ => none
  | none => none

end KadDHT.VS

/-
  Model of provider/keystore (property C20).

  Part 1: the datastore key layout (`dsKey`: one path component per bit for the first `prefixBits` bits, then the
  remaining bytes as one component), the prefix query with its post-filter for long prefixes, and the set-level
  operations with the size counter.  Part 2: the two-slot reset as a journal of durable steps with a crash anywhere.
  Core Lean only.
-/
import KadDHT.Basic.Bits
namespace KadDHT.KS
open KadDHT

/-! ### Part 1: layout and operations -/

/-- the datastore key of a full key: its first `pb` bits as path components, and the rest (from byte `pb / 8` on) as
    the final component -/
def dsKey (pb : Nat) (k : Key) : List Bool × List Bool := (k.take pb, k.drop (pb / 8 * 8))

/-- the datastore prefix a query for `pfx` uses: at most `pb` bits of it -/
def queryPrefix (pb : Nat) (pfx : Key) : Key := pfx.take pb

/-- does the datastore's prefix query return the entry of `k`? (component-wise prefix of the path) -/
def queryHit (pb : Nat) (pfx k : Key) : Bool := isPre (queryPrefix pb pfx) (dsKey pb k).1

/-- `get`: prefix query, plus the per-key filter when the prefix is longer than the path -/
def get (pb : Nat) (store : List Key) (pfx : Key) : List Key :=
  store.filter fun k => queryHit pb pfx k && (decide (pfx.length ≤ pb) || isPre pfx k)

/-- the keystore as a set with its size counter -/
structure St where
  keys : List Nat := []      -- stored key ids, duplicate free
  size : Nat := 0
  deriving Repr, DecidableEq

/-- `put`: the keys not stored yet, each once, in the order given -/
def newOf (st : St) (ks : List Nat) : List Nat := (ks.eraseDups).filter fun k => !st.keys.contains k

def put (st : St) (ks : List Nat) : St × List Nat :=
  let nk := newOf st ks
  ({ keys := st.keys ++ nk, size := st.size + nk.length }, nk)

def delete (st : St) (ks : List Nat) : St :=
  let gone := (ks.eraseDups).filter fun k => st.keys.contains k
  { keys := st.keys.filter fun k => !gone.contains k, size := st.size - gone.length }

/-- `put` at the pinned commit: the `seen` map is keyed by a struct holding a pointer, so a key given twice in one
    call is not recognised — it is returned twice and counted twice (defect F13) -/
def putLegacy (st : St) (ks : List Nat) : St × List Nat :=
  let nk := ks.filter fun k => !st.keys.contains k
  ({ keys := st.keys ++ nk.eraseDups, size := st.size + nk.length }, nk)

def countUpTo (nmatch limit : Nat) : Nat := if limit > 0 then min nmatch limit else nmatch

/-! ### Part 2: reset with a crash anywhere -/

/-- what is durable -/
structure Disk where
  slot0 : List Nat := []
  slot1 : List Nat := []
  marker : Nat := 0          -- which slot is active
  deriving Repr, DecidableEq

def active (d : Disk) : List Nat := if d.marker == 0 then d.slot0 else d.slot1

/-- the durable steps of a successful reset from active slot `a` to the other one, in the order the **repaired** code
    performs them: fill and sync the new slot (each write may be lost until the sync), write and sync the marker,
    only then tear down the old slot -/
inductive RStep where
  | fill (ks : List Nat)     -- new-slot writes, synced before the marker
  | flip                     -- the marker write + sync
  | teardown                 -- the old slot is emptied / destroyed
  | teardownActive           -- pinned commit, marker write failed: the slot the durable marker still names is emptied
  deriving Repr, DecidableEq

def applyStep (d : Disk) : RStep → Disk
  | .fill ks => if d.marker == 0 then { d with slot1 := d.slot1 ++ ks } else { d with slot0 := d.slot0 ++ ks }
  | .flip => { d with marker := 1 - d.marker }
  | .teardown => if d.marker == 0 then { d with slot1 := [] } else { d with slot0 := [] }
  | .teardownActive => if d.marker == 0 then { d with slot0 := [] } else { d with slot1 := [] }

/-- the program of a reset installing `new`, written in `n` chunks -/
def resetProgram (chunks : List (List Nat)) : List RStep := chunks.map .fill ++ [.flip, .teardown]

/-- a crash after the first `cut` durable steps -/
def crashAt (d : Disk) (prog : List RStep) (cut : Nat) : Disk := (prog.take cut).foldl applyStep d

/-- the pinned commit when the marker write fails (defect F8): the failure is only logged, the in-memory swap and the
    teardown of the old slot go ahead, although the durable marker still names that slot -/
def legacyFailedFlip (chunks : List (List Nat)) : List RStep := chunks.map .fill ++ [.teardownActive]

end KadDHT.KS

/-
  Model of the address classification used to separate the WAN and the LAN DHT (property C15):
  dht_filters.go `isPublicAddr`, `isPrivateAddr`, `isRelayAddr`, `PublicQueryFilter`, `PrivateQueryFilter`, and the
  go-multiaddr functions the dual DHT's address filters are built from (`manet.IsPublicAddr`, `manet.IsIPLoopback`)
  with their CIDR tables (transcribed from go-multiaddr/net/private.go; compared on every run with the real functions
  at every table boundary +-1 and on random addresses).  Core Lean only.
-/
namespace KadDHT.Addr

/-- the first component of a multiaddr -/
inductive Host where
  | ip4 (n : Nat)            -- 32-bit value
  | ip6 (n : Nat)            -- 128-bit value
  | dns                      -- an ordinary resolvable name
  | dnsLocal                 -- a special-use name (.localhost, .local, .test, .invalid, ...)
  deriving DecidableEq, Repr

structure Addr where
  host : Host
  relay : Bool := false      -- contains /p2p-circuit
  deriving DecidableEq, Repr

/-- `ip` (a `bits`-bit value) lies in the network `base/len` -/
def inCidr (bits : Nat) (base len : Nat) (ip : Nat) : Bool := ip >>> (bits - len) == base >>> (bits - len)

def ip4 (a b c d : Nat) : Nat := ((a * 256 + b) * 256 + c) * 256 + d

/-- manet.Private4 -/
def private4 : List (Nat × Nat) :=
  [(ip4 127 0 0 0, 8), (ip4 10 0 0 0, 8), (ip4 100 64 0 0, 10), (ip4 172 16 0 0, 12), (ip4 192 168 0 0, 16), (ip4 169 254 0 0, 16)]

/-- manet.Unroutable4 -/
def unroutable4 : List (Nat × Nat) :=
  [(ip4 0 0 0 0, 8), (ip4 192 0 0 0, 26), (ip4 192 0 2 0, 24), (ip4 192 88 99 0, 24), (ip4 198 18 0 0, 15),
   (ip4 198 51 100 0, 24), (ip4 203 0 113 0, 24), (ip4 224 0 0 0, 4), (ip4 240 0 0 0, 4), (ip4 255 255 255 255, 32)]

def hex16 (gs : List Nat) : Nat := gs.foldl (fun acc g => acc * 65536 + g) 0

/-- manet.Private6: ::1/128, fc00::/7, fe80::/10 -/
def private6 : List (Nat × Nat) :=
  [(1, 128), (hex16 [0xfc00, 0, 0, 0, 0, 0, 0, 0], 7), (hex16 [0xfe80, 0, 0, 0, 0, 0, 0, 0], 10)]

/-- manet.Unroutable6: ff00::/8, 2001:db8::/32 -/
def unroutable6 : List (Nat × Nat) :=
  [(hex16 [0xff00, 0, 0, 0, 0, 0, 0, 0], 8), (hex16 [0x2001, 0xdb8, 0, 0, 0, 0, 0, 0], 32)]

/-- 2000::/3 -/
def global6 : List (Nat × Nat) := [(hex16 [0x2000, 0, 0, 0, 0, 0, 0, 0], 3)]

/-- 64:ff9b:1::/48, 64:ff9b::/96 -/
def nat64 : List (Nat × Nat) :=
  [(hex16 [0x64, 0xff9b, 1, 0, 0, 0, 0, 0], 48), (hex16 [0x64, 0xff9b, 0, 0, 0, 0, 0, 0], 96)]

def inRange (bits : Nat) (nets : List (Nat × Nat)) (ip : Nat) : Bool := nets.any fun (b, l) => inCidr bits b l ip

/-- Go's `net.IP.To4` on a 16-byte address: the IPv4-mapped form ::ffff:a.b.c.d -/
def to4 (n : Nat) : Option Nat := if n >>> 32 == 0xffff then some (n % 2 ^ 32) else none

/-- `net.IPNet.Contains` on a 16-byte address converts an IPv4-mapped one to 4 bytes first, after which it
    matches no IPv6 network -/
def inRange6 (nets : List (Nat × Nat)) (n : Nat) : Bool := (to4 n).isNone && inRange 128 nets n

/-- dht_filters.go `isPublicAddr` (stricter than manet for IPv6: only 2000::/3) -/
def dhtPublic (a : Addr) : Bool :=
  match a.host with
  | .ip4 n => !inRange 32 private4 n && !inRange 32 unroutable4 n
  | .ip6 n =>
    match to4 n with
    | some v => !inRange 32 private4 v && !inRange 32 unroutable4 v
    | none => inRange 128 global6 n
  | _ => false

/-- dht_filters.go `isPrivateAddr` -/
def dhtPrivate (a : Addr) : Bool :=
  match a.host with
  | .ip4 n => inRange 32 private4 n
  | .ip6 n =>
    match to4 n with
    | some v => inRange 32 private4 v
    | none => !inRange 128 global6 n && !inRange 128 unroutable6 n
  | _ => false

/-- `manet.IsPublicAddr` (decided by the first component) -/
def manetPublic (a : Addr) : Bool :=
  match a.host with
  | .ip4 n => !inRange 32 private4 n && !inRange 32 unroutable4 n
  | .ip6 n => (inRange6 global6 n && !inRange6 unroutable6 n) || inRange6 nat64 n
  | .dns => true
  | .dnsLocal => false

/-- `manet.IsIPLoopback` (`net.IP.IsLoopback`) -/
def loopback (a : Addr) : Bool :=
  match a.host with
  | .ip4 n => n >>> 24 == 127
  | .ip6 n => match to4 n with
    | some v => v >>> 24 == 127
    | none => n == 1
  | _ => false

/-- `PublicQueryFilter`: some address is public and not a relay address -/
def publicQueryFilter (addrs : List Addr) : Bool := addrs.any fun a => !a.relay && dhtPublic a

/-- `PrivateQueryFilter`: any address at all -/
def privateQueryFilter (addrs : List Addr) : Bool := !addrs.isEmpty

/-- the address filter dual.New gives the WAN DHT -/
def wanAddrFilter (addrs : List Addr) : List Addr := addrs.filter manetPublic

/-- the address filter dual.New gives the LAN DHT -/
def lanAddrFilter (addrs : List Addr) : List Addr := addrs.filter fun a => !loopback a

end KadDHT.Addr

/-
  Model of dual/dual.go (property C15): write routing by WAN liveness, GetValue's WAN-first rule, FindPeer's
  address union, the FindProvidersAsync merge, `combineErrors`, and how each inner DHT (as configured by dual.New)
  treats a referral in a response (query.go `queryPeer`: query filter, then `maybeAddAddrs` through the address filter).
  Core Lean only.
-/
import KadDHT.Model.Addr
namespace KadDHT.Dual
open KadDHT.Addr

inductive Side where | wan | lan
  deriving DecidableEq, Repr

/-- Provide / PutValue go to the WAN DHT exactly when its routing table is non-empty -/
def routeWrite (wanRtSize : Nat) : Side := if wanRtSize > 0 then .wan else .lan

/-- errors as far as `combineErrors` distinguishes them -/
inductive Err where
  | lookupFailure            -- kb.ErrLookupFailure: no peer in the routing table
  | other (tag : Nat)        -- any other error value (tag = identity)
  | joined (a b : Nat)       -- errors.Join of two different errors
  deriving DecidableEq, Repr

def combineErrors (a b : Option Err) : Option Err :=
  if a = b then a
  else if a = some .lookupFailure then b
  else if b = some .lookupFailure then a
  else match a, b with
    | some (.other x), some (.other y) => some (.joined x y)
    | some x, none => some x
    | none, some y => some y
    | x, _ => x

/-- GetValue: the WAN result when the WAN lookup succeeded, otherwise the LAN result, otherwise the combined error -/
def getValue {V : Type} (wan lan : Except Err V) : Except (Option Err) V :=
  match wan with
  | .ok v => .ok v
  | .error we =>
    match lan with
    | .ok v => .ok v
    | .error le => .error (combineErrors (some we) (some le))

/-- FindPeer's address merge: the union of both address sets without duplicates -/
def findPeerAddrs {A : Type} [DecidableEq A] (wan lan : List A) : List A :=
  if wan.isEmpty then lan else if lan.isEmpty then wan else (wan ++ lan).eraseDups

/-- FindPeer's error: none as soon as one side succeeded -/
def findPeerErr (wan lan : Option Err) : Option Err :=
  if wan.isNone || lan.isNone then none else combineErrors wan lan

/-- state of the FindProvidersAsync merge loop -/
structure MState where
  found : List Nat := []      -- yielded so far, in order
  left : Nat := 0             -- remaining count (ignored when zeroCount)
  deriving Repr

/-- one provider arriving from either inner channel -/
def mergeStep (zeroCount : Bool) (s : MState) (p : Nat) : MState :=
  if !(zeroCount || s.left > 0) then s            -- the loop has ended
  else if s.found.contains p then s               -- already found
  else { found := s.found ++ [p], left := s.left - 1 }

/-- the whole merge over any interleaving of the two channels -/
def merge (count : Nat) (arrivals : List Nat) : List Nat :=
  (arrivals.foldl (mergeStep (count == 0)) { left := count }).found

/-- a referral `(addrs, isTarget)` in a response, as an inner DHT treats it: followed? and which addresses enter the
    peerstore (`known`: what the peerstore already holds for that peer; `connected`: a live connection exists) -/
def referral (side : Side) (isTarget connected : Bool) (addrs known : List Addr) : Bool × List Addr :=
  let all := addrs ++ known
  let pass := match side with | .wan => publicQueryFilter all | .lan => privateQueryFilter all
  if isTarget || pass then
    (true, if connected then [] else match side with | .wan => wanAddrFilter all | .lan => lanAddrFilter all)
  else (false, [])

/-- own addresses advertised in a provider record by either side -/
def advertised (side : Side) (hostAddrs : List Addr) : List Addr :=
  match side with | .wan => wanAddrFilter hostAddrs | .lan => lanAddrFilter hostAddrs

end KadDHT.Dual

/-
  Protobuf size arithmetic and the two size bounds of the wire layer (pb/message.go
  `boundPeerRecordAddrs`, handlers.go `appendFittingProviderPeers`).  Core Lean only.
-/
namespace KadDHT.Wire

/-- `protowire.SizeVarint`: 1 byte per started group of 7 bits -/
def sizeVarint (n : Nat) : Nat :=
  if n < 128 then 1 else
  if n < 16384 then 2 else
  if n < 2097152 then 3 else
  if n < 268435456 then 4 else
  if n < 34359738368 then 5 else
  if n < 4398046511104 then 6 else
  if n < 562949953421312 then 7 else
  if n < 72057594037927936 then 8 else
  if n < 9223372036854775808 then 9 else 10

/-- `protowire.SizeTag` for field numbers below 16 (all fields of dht.proto) -/
def sizeTag : Nat := 1

/-- `protowire.SizeBytes` -/
def sizeBytes (n : Nat) : Nat := sizeVarint n + n

/-- the per-record ceiling, `MaxPeerRecordSize`; the value is re-read from the source by factgen -/
def maxPeerRecordSize : Nat := 8192
/-- `network.MessageSizeMax` (go-libp2p) -/
def messageSizeMax : Nat := 4194304

/-- a peer record as the size computation sees it: id length, address lengths, connection enum value
    (as the unsigned 64-bit reinterpretation protowire sizes it with) -/
structure PeerRec where
  idLen : Nat
  addrs : List Nat
  conn : Nat
  deriving Repr, DecidableEq

def fixedSize (r : PeerRec) : Nat := sizeTag + sizeBytes r.idLen + (sizeTag + sizeVarint r.conn)

/-- the loop of `boundPeerRecordAddrs`: keep addresses while the running size stays within the limit -/
def keepAddrs (limit : Nat) : Nat → List Nat → List Nat
  | _, [] => []
  | size, a :: as =>
    let size' := size + (sizeTag + sizeBytes a)
    if size' > limit then [] else a :: keepAddrs limit size' as

/-- `boundPeerRecordAddrs` -/
def boundAddrs (r : PeerRec) : PeerRec := { r with addrs := keepAddrs maxPeerRecordSize (fixedSize r) r.addrs }

/-- the size `boundPeerRecordAddrs` accounts for (= `proto.Size` of a freshly built record; a zero
    connection value is not serialised by proto3, which only makes the real size smaller) -/
def recSize (r : PeerRec) : Nat := fixedSize r + (r.addrs.map fun a => sizeTag + sizeBytes a).sum

/-- `appendFittingProviderPeers`: `base` = size of the message so far, `recs` = `proto.Size` of each
    candidate record, result = how many are appended -/
def appendFitting (limit : Nat) : Nat → List Nat → Nat
  | _, [] => 0
  | size, r :: rs =>
    let size' := size + (sizeTag + sizeBytes r)
    if size' > limit then 0 else 1 + appendFitting limit size' rs

def sizeAfter (base : Nat) (recs : List Nat) : Nat := base + (recs.map fun r => sizeTag + sizeBytes r).sum

end KadDHT.Wire

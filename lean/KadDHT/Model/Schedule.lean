/-
  The reprovide schedule of the sweeping provider at the level of sets of prefixes (provider/provider.go:
  schedulePrefixNoLock, unscheduleSubsumedPrefixesNoLock, batchReprovide, individualProvide).  The schedule trie maps a
  prefix to its slot in the cycle; here only which prefixes are scheduled matters.  Core Lean only.
-/
import KadDHT.Basic.Bits
namespace KadDHT.Schedule

abbrev Sched := List Key

/-- some scheduled prefix covers the key: the key will be reprovided with that region -/
def covered (S : Sched) (k : Key) : Bool := S.any (isPre · k)

/-- `unscheduleSubsumedPrefixesNoLock`: PruneSubtrie(schedule, p) -/
def unscheduleSubsumed (S : Sched) (p : Key) : Sched := S.filter fun q => !isPre p q

/-- `schedulePrefixNoLock`: nothing if a scheduled prefix already covers `p` (FindPrefixOfKey), otherwise the scheduled
    extensions of `p` are dropped and `p` is added -/
def schedule (S : Sched) (p : Key) : Sched :=
  if S.any (isPre · p) then S else unscheduleSubsumed S p ++ [p]

/-- `batchReprovide` of a scheduled prefix whose exploration covered `c`: everything below `c` is unscheduled, then every
    region that holds keys is scheduled again (`provideRegions` → `reschedulePrefix`) -/
def batchReprovide (S : Sched) (c : Key) (regionsWithKeys : List Key) : Sched :=
  regionsWithKeys.foldl schedule (unscheduleSubsumed S c)

/-- `individualProvide` of the one key of scheduled prefix `p`, whose lookup covered `c`, as repaired: the covered prefix
    is scheduled only when it does not widen the region -/
def individualReprovide (S : Sched) (p c : Key) : Sched :=
  if c.length ≥ p.length then schedule S c else schedule S p

/-- … and as it was: the covered prefix is scheduled whatever its length -/
def individualReprovideLegacy (S : Sched) (_p c : Key) : Sched := schedule S c

end KadDHT.Schedule

/-
  Model of crawler/crawler.go `DefaultCrawler.Run` (property C16): the work list with its `peersSeen` /
  `peersQueried` sets, jobs handed to workers one at a time and results coming back in any order.  The network is a
  function `net : P → Option (List P)` (`none`: the query failed, `some []`: an answer naming nobody — reported as a
  failure by the code — `some l`: the peers named).  Core Lean only.
-/
namespace KadDHT.Crawler

structure CState (P : Type) where
  toDial : List P := []
  seen : List P := []
  outstanding : List P := []
  /-- one entry per reported outcome: (peer, success?) -/
  outcomes : List (P × Bool) := []

variable {P : Type} [DecidableEq P]

/-- seeding at the pinned commit: every starting peer with an address is scheduled, duplicates included (defect F7) -/
def seedLegacy (hasAddr : P → Bool) (seeds : List P) : CState P :=
  let s := seeds.filter hasAddr
  { toDial := s, seen := s.eraseDups }

/-- repaired seeding: a starting peer already seen is not scheduled again -/
def seed (hasAddr : P → Bool) (seeds : List P) : CState P :=
  let s := (seeds.filter hasAddr).eraseDups
  { toDial := s, seen := s }

inductive Ev (P : Type) where
  | dispatch            -- `jobCh <- nextPeerID`
  | result (p : P)      -- a worker's result for p arrives

/-- `none`: the event is impossible in this state -/
def step (net : P → Option (List P)) (s : CState P) : Ev P → Option (CState P)
  | .dispatch =>
    match s.toDial with
    | [] => none
    | p :: rest => some { s with toDial := rest, outstanding := s.outstanding ++ [p] }
  | .result p =>
    if !s.outstanding.contains p then none else
    let out := s.outstanding.erase p
    match net p with
    | some (q :: qs) =>
      let fresh := ((q :: qs).eraseDups).filter fun x => !s.seen.contains x
      some { toDial := s.toDial ++ fresh, seen := s.seen ++ fresh, outstanding := out, outcomes := s.outcomes ++ [(p, true)] }
    | _ => some { s with outstanding := out, outcomes := s.outcomes ++ [(p, false)] }

def finished (s : CState P) : Bool := s.toDial.isEmpty && s.outstanding.isEmpty

def run (net : P → Option (List P)) (s : CState P) : List (Ev P) → Option (CState P)
  | [] => some s
  | e :: es => match step net s e with | some s' => run net s' es | none => none

/-- a deterministic schedule (one job at a time) with fuel, used by the driver to compute the crawl's answer -/
def crawlSeq (net : P → Option (List P)) : Nat → CState P → CState P
  | 0, s => s
  | fuel + 1, s =>
    match s.toDial with
    | [] => s
    | p :: _ =>
      match step net s .dispatch with
      | some s1 => match step net s1 (.result p) with
        | some s2 => crawlSeq net fuel s2
        | none => s1
      | none => s

end KadDHT.Crawler

/-
  Model of routing-table membership (property C12): dht.go `peerFound` / `validPeerFound` / `peerStoppedDHT` /
  `rtPeerLoop`, query.go `queryPeer`'s add / evict, subscriber_notifee.go `handlePeerChangeEvent`, and the liveness
  probe of rtrefresh `pingAndEvictPeers`; and the request bookkeeping of rtrefresh `Refresh` / `loop`.
  The table is kept below bucket capacity (kbucket's replacement policy is a dependency), so `TryAddPeer` succeeds
  for every peer but the local one.  Core Lean only.
-/
namespace KadDHT.RTM

structure St where
  self : Nat
  rt : List Nat := []          -- members
  probing : List Nat := []     -- admission probes in flight
  deriving Repr

inductive Ev where
  /-- identification completed / protocols updated for `p`: it (now) advertises the DHT protocol? passes the filter? -/
  | identified (p : Nat) (proto filt : Bool)
  | probeOk (p : Nat)
  | probeFail (p : Nat)
  /-- a lookup asked `p` and got an answer -/
  | querySuccess (p : Nat)
  /-- a lookup failed to dial `p` or its request failed; `cancelled`: the lookup's context had ended -/
  | queryFail (p : Nat) (cancelled : Bool)
  /-- the liveness probe of a refresh failed (connect or ping) -/
  | pingFail (p : Nat)
  | pingOk (p : Nat)
  deriving DecidableEq, Repr

def add (s : St) (p : Nat) : St := if p == s.self || s.rt.contains p then s else { s with rt := s.rt ++ [p] }
def evict (s : St) (p : Nat) : St := { s with rt := s.rt.filter (· != p) }

def step (s : St) : Ev → St
  | .identified p proto filt =>
    if proto && filt then
      -- `UsefulNewPeer`: not a member yet (and room, which there always is here)
      if s.rt.contains p || p == s.self then s else { s with probing := s.probing ++ [p] }
    else evict s p
  | .probeOk p => if s.probing.contains p then add { s with probing := s.probing.erase p } p else s
  | .probeFail p => { s with probing := s.probing.erase p }
  | .querySuccess p => add s p
  | .queryFail p cancelled => if cancelled then s else evict s p
  | .pingFail p => evict s p
  | .pingOk _ => s

def run (s : St) (evs : List Ev) : St := evs.foldl step s

/-- does the event prove that `p` answered a DHT request from this node? -/
def admits (s : St) (p : Nat) : Ev → Bool
  | .probeOk q => q == p && s.probing.contains p
  | .querySuccess q => q == p
  | _ => false

/-- does the event make `p` leave? -/
def evicts (p : Nat) : Ev → Bool
  | .identified q proto filt => q == p && !(proto && filt)
  | .queryFail q c => q == p && !c
  | .pingFail q => q == p
  | _ => false

/-! ### refresh requests -/

/-- where the refresh loop stands -/
inductive Loop where
  | idle          -- at the top-level select
  | refreshing    -- pinging / querying, with the batch of `waiting` requests to answer afterwards
  | exited
  deriving DecidableEq, Repr

structure RSt where
  loop : Loop := .idle
  closed : Bool := false
  sending : List Nat := []     -- `Refresh` goroutines that have not handed over their request yet
  waiting : List Nat := []     -- requests taken by the loop, to be answered when the refresh ends
  answered : List Nat := []    -- one entry per answer delivered
  deriving Repr

inductive REv where
  | request (r : Nat)          -- `Refresh(force)` is called
  | accept (r : Nat)           -- the loop takes r's request from the channel (at the top select or while batching)
  | endRefresh                 -- pings and queries are over: every waiting request gets the result
  | close                      -- `Close` cancels the context
  | selfAnswer (r : Nat)       -- r's goroutine sees the context end and answers itself
  | loopExit                   -- the loop sees the context end at its top-level select
  deriving DecidableEq, Repr

/-- `none`: not enabled -/
def rstep (s : RSt) : REv → Option RSt
  | .request r => some { s with sending := s.sending ++ [r] }
  | .accept r =>
    if s.sending.contains r && s.loop != .exited then
      some { s with sending := s.sending.erase r, waiting := s.waiting ++ [r], loop := .refreshing }
    else none
  | .endRefresh =>
    if s.loop == .refreshing then some { s with loop := .idle, answered := s.answered ++ s.waiting, waiting := [] } else none
  | .close => some { s with closed := true }
  | .selfAnswer r =>
    if s.closed && s.sending.contains r then some { s with sending := s.sending.erase r, answered := s.answered ++ [r] } else none
  | .loopExit => if s.closed && s.loop == .idle then some { s with loop := .exited } else none

def rrun (s : RSt) : List REv → Option RSt
  | [] => some s
  | e :: es => match rstep s e with | some s' => rrun s' es | none => none

/-- what remains to happen after `Close`: the refresh under way ends, the loop exits, the senders answer themselves -/
def drain (s : RSt) : RSt :=
  let s1 := if s.loop == .refreshing then { s with loop := .idle, answered := s.answered ++ s.waiting, waiting := [] } else s
  { s1 with loop := .exited, answered := s1.answered ++ s1.sending, sending := [] }

/-- the seeded variant of C12-m2: the loop returns after the liveness phase when the context has ended -/
def exitDuringRefresh (s : RSt) : Option RSt :=
  if s.closed && s.loop == .refreshing then some { s with loop := .exited } else none

end KadDHT.RTM

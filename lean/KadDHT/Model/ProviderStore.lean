/-
  Model of records/providers_manager.go + provider_set.go (property C07).
  Keys and peers are opaque naturals, time is a natural number of nanoseconds.  Core Lean only.
-/
namespace KadDHT.ProviderStore

abbrev K := Nat
abbrev P := Nat
abbrev Time := Nat

/-- a provider set / the records of one key: provider ↦ time of the addition it remembers -/
abbrev PSet := List (P × Time)

def PSet.setVal (s : PSet) (p : P) (t : Time) : PSet :=
  if s.any (·.1 == p) then s.map fun e => if e.1 == p then (p, t) else e else s ++ [(p, t)]

/-- `time.Since(t) > validity` -/
def expired (validity now t : Time) : Bool := now - t > validity

structure St where
  cap : Nat                      -- LRU capacity (≥ 1)
  validity : Time
  now : Time
  disk : List ((K × P) × Time)   -- datastore: one record per (key, provider)
  cache : List (K × PSet)        -- LRU, most recently used first
  stopped : Bool
  deriving Repr

def init (cap validity : Nat) : St := ⟨cap, validity, 0, [], [], false⟩

def diskPut (d : List ((K × P) × Time)) (k : K) (p : P) (t : Time) : List ((K × P) × Time) :=
  if d.any (·.1 == (k, p)) then d.map fun e => if e.1 == (k, p) then ((k, p), t) else e else d ++ [((k, p), t)]

/-- simplelru `Get`: on a hit the entry moves to the front -/
def cacheGet (c : List (K × PSet)) (k : K) : Option PSet × List (K × PSet) :=
  match c.find? (·.1 == k) with
  | some e => (some e.2, e :: c.filter (·.1 != k))
  | none => (none, c)

/-- simplelru `Add` of a key that is not cached: push front, evict the oldest beyond capacity -/
def cacheAdd (cap : Nat) (c : List (K × PSet)) (k : K) (s : PSet) : List (K × PSet) :=
  ((k, s) :: c.filter (·.1 != k)).take cap

def cacheSet (c : List (K × PSet)) (k : K) (s : PSet) : List (K × PSet) :=
  c.map fun e => if e.1 == k then (k, s) else e

inductive Out where
  | ok
  | closed
  | provs (ps : List P)
  deriving Repr, DecidableEq

/-- `AddProvider` -/
def add (s : St) (k : K) (p : P) : St × Out :=
  if s.stopped then (s, .closed) else
  let (hit, c1) := cacheGet s.cache k
  let c2 := match hit with
    | some set => cacheSet c1 k (set.setVal p s.now)
    | none => c1
  ({ s with cache := c2, disk := diskPut s.disk k p s.now }, .ok)

/-- `GetProviders` (the provider order is shuffled by the code: compare as sets) -/
def get (s : St) (k : K) : St × Out :=
  if s.stopped then (s, .closed) else
  let (hit, c1) := cacheGet s.cache k
  match hit with
  | some set =>
    let set' := set.filter fun e => !expired s.validity s.now e.2
    ({ s with cache := cacheSet c1 k set' }, .provs (set'.map (·.1)))
  | none =>
    -- loadProviderSet: valid records form the set, expired ones are deleted from the datastore
    let recs := s.disk.filter (·.1.1 == k)
    let set := (recs.filter fun e => !expired s.validity s.now e.2).map fun e => (e.1.2, e.2)
    let disk' := s.disk.filter fun e => !(e.1.1 == k && expired s.validity s.now e.2)
    let c2 := if set.isEmpty then s.cache else cacheAdd s.cap s.cache k set
    ({ s with cache := c2, disk := disk' }, .provs (set.map (·.1)))

/-- `collectExpired` as one atomic sweep -/
def gc (s : St) : St := { s with disk := s.disk.filter fun e => !expired s.validity s.now e.2 }

def advance (s : St) (d : Time) : St := { s with now := s.now + d }

/-- a new manager on the same datastore -/
def restart (s : St) : St := { s with cache := [], stopped := false }

def close (s : St) : St := { s with stopped := true }

inductive Op where
  | add (k : K) (p : P)
  | get (k : K)
  | adv (d : Time)
  | gc
  | restart
  | close
  deriving Repr

def step (s : St) : Op → St × Out
  | .add k p => add s k p
  | .get k => get s k
  | .adv d => (advance s d, .ok)
  | .gc => (gc s, .ok)
  | .restart => (restart s, .ok)
  | .close => (close s, .ok)

/-! ### the abstract specification: the last addition of every (key, provider) -/

structure Spec where
  validity : Time
  now : Time
  last : List ((K × P) × Time)
  stopped : Bool

def Spec.init (validity : Time) : Spec := ⟨validity, 0, [], false⟩

def specStep (s : Spec) : Op → Spec × Out
  | .add k p => if s.stopped then (s, .closed) else ({ s with last := diskPut s.last k p s.now }, .ok)
  | .get k =>
    if s.stopped then (s, .closed) else
    (s, .provs (((s.last.filter (·.1.1 == k)).filter fun e => !expired s.validity s.now e.2).map (·.1.2)))
  | .adv d => ({ s with now := s.now + d }, .ok)
  | .gc => (s, .ok)
  | .restart => ({ s with stopped := false }, .ok)
  | .close => ({ s with stopped := true }, .ok)

end KadDHT.ProviderStore

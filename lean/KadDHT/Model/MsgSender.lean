/-
  Model of internal/net/message_manager.go (property C11).

  Part 1 (`World`, `request`, `message`, `disconnect`): the per-peer sender with its stream, the single retry, the
  one-message-per-stream fallback and the sender map, run one exchange at a time (the per-peer lock serialises
  exchanges) against a scripted remote; used by the driver to predict what the real sender does.
  Part 2 (`LState`, `lstep`): the lock protocol itself as a small-step system over concurrently running callers, used
  for the theorems about every interleaving.  Core Lean only.
-/
namespace KadDHT.MsgSender

/-! ### Part 1: exchanges against a scripted remote -/

/-- what the remote does with the next request or message it reads from a peer's stream -/
inductive Beh where
  | ok        -- answers (requests) / takes it (messages)
  | reset     -- resets the stream
  | garbage   -- answers with bytes that are not a message
  | silent    -- never answers (the read times out)
  | eof       -- closes its side without answering
  deriving DecidableEq, Repr

structure Sender where
  /-- the open stream: its number, and whether the remote has already reset it -/
  stream : Option (Nat × Bool) := none
  invalid : Bool := false
  singleMes : Nat := 0
  deriving Repr

structure World where
  senders : List (Nat × Sender) := []        -- strmap
  nextStream : Nat := 0
  behs : List (Nat × List Beh) := []         -- per peer: the remote's script (missing / exhausted: ok)
  opens : List (Nat × List Bool) := []       -- per peer: outcomes of NewStream (missing / exhausted: success)
  opened : Nat := 0                          -- streams opened so far
  deriving Repr

inductive Res where
  | reply (id : Nat)
  | sent
  | err (cls : String)
  deriving DecidableEq, Repr

def streamReuseTries : Nat := 3

def popBeh (w : World) (p : Nat) : Beh × World :=
  match w.behs.find? (·.1 == p) with
  | some (_, b :: bs) => (b, { w with behs := w.behs.map fun e => if e.1 == p then (p, bs) else e })
  | _ => (.ok, w)

def popOpen (w : World) (p : Nat) : Bool × World :=
  match w.opens.find? (·.1 == p) with
  | some (_, b :: bs) => (b, { w with opens := w.opens.map fun e => if e.1 == p then (p, bs) else e })
  | _ => (true, w)

def getSender (w : World) (p : Nat) : Option Sender := (w.senders.find? (·.1 == p)).map (·.2)
def setSender (w : World) (p : Nat) (s : Sender) : World :=
  if w.senders.any (·.1 == p) then { w with senders := w.senders.map fun e => if e.1 == p then (p, s) else e }
  else { w with senders := w.senders ++ [(p, s)] }
def dropSender (w : World) (p : Nat) : World := { w with senders := w.senders.filter (·.1 != p) }

/-- `prep`: make sure a stream is open; no sender in the result = NewStream failed -/
def prep (w : World) (p : Nat) (s : Sender) : World × Option Sender :=
  match s.stream with
  | some _ => (w, some s)
  | none =>
    let (ok, w1) := popOpen w p
    if ok then ({ w1 with nextStream := w1.nextStream + 1, opened := w1.opened + 1 }, some { s with stream := some (w1.nextStream, false) })
    else (w1, none)

/-- after a successful exchange: one message per stream once reuse has failed too often -/
def afterSuccess (s : Sender) (retried : Bool) : Sender :=
  if s.singleMes > streamReuseTries then { s with stream := none }
  else if retried then { s with singleMes := s.singleMes + 1 } else s

/-- one attempt of `SendRequest` (`isReq`) / `SendMessage`; `none` in the result = try again -/
def attempt (w : World) (p : Nat) (s : Sender) (id : Nat) (isReq cancelled retried : Bool) : World × Sender × Option Res :=
  if s.invalid then (w, s, some (.err "invalidated")) else
  match prep w p s with
  | (w1, none) => (w1, s, some (.err "open"))
  | (w1, some s1) =>
    match s1.stream with
    | none => (w1, s1, some (.err "open"))
    | some (_, remoteReset) =>
      if remoteReset then
        -- the write fails: the stream is reset and dropped
        (w1, { s1 with stream := none }, if retried then some (.err "error") else none)
      else
        let (b, w2) := popBeh w1 p
        if !isReq then
          -- a message is only written; what the remote does with it shows on the next use of the stream
          let s2 := match b with
            | .reset => { s1 with stream := s1.stream.map fun x => (x.1, true) }
            | _ => s1
          (w2, afterSuccess s2 retried, some .sent)
        else
          match b with
          | .ok => (w2, afterSuccess s1 retried, some (.reply id))
          | .silent =>
            if cancelled then (w2, { s1 with stream := none }, some (.err "canceled"))
            else (w2, { s1 with stream := none }, if retried then some (.err "timeout") else none)
          | _ => (w2, { s1 with stream := none }, if retried then some (.err "error") else none)

/-- a whole exchange: at most one retry -/
def exchange (w : World) (p : Nat) (s : Sender) (id : Nat) (isReq cancelled : Bool) : World × Sender × Res :=
  match attempt w p s id isReq cancelled false with
  | (w1, s1, some r) => (w1, s1, r)
  | (w1, s1, none) =>
    match attempt w1 p s1 id isReq cancelled true with
    | (w2, s2, some r) => (w2, s2, r)
    | (w2, s2, none) => (w2, s2, .err "error")

/-- `messageSenderForPeer` followed by the exchange -/
def call (w : World) (p id : Nat) (isReq cancelled : Bool) : World × Res :=
  match getSender w p with
  | some s =>
    let (w1, s1, r) := exchange w p s id isReq cancelled
    (setSender w1 p s1, r)
  | none =>
    -- a new sender: it must open its stream first, or it is thrown away
    match prep w p {} with
    | (w1, none) => (w1, .err "open")
    | (w1, some s1) =>
      let (w2, s2, r) := exchange w1 p s1 id isReq cancelled
      (setSender w2 p s2, r)

/-- `OnDisconnect`: the sender leaves the map and is invalidated (its stream reset) -/
def disconnect (w : World) (p : Nat) : World := dropSender w p

/-- is a stream kept open for `p`? -/
def live (w : World) (p : Nat) : Bool := match getSender w p with | some s => s.stream.isSome | none => false

/-! ### Part 2: the per-peer lock protocol, every interleaving -/

/-- where a caller stands -/
inductive PC where
  | waiting      -- before `lk.Lock`
  | locked       -- holds the lock, nothing written yet (also: between two attempts)
  | written      -- has written its request on the current stream, waits for the reply
  | done (r : Option Nat)   -- released the lock; `some x`: got the reply produced for request x
  deriving DecidableEq, Repr

structure LState where
  /-- requests written on the kept stream whose replies have not been read (the remote answers in order) -/
  pending : Option (List Nat) := none      -- `none`: no stream
  holder : Option Nat := none
  /-- caller id (= its request id) ↦ where it stands; any number of callers -/
  pcs : Nat → PC := fun _ => .waiting

def pcOf (s : LState) (t : Nat) : PC := s.pcs t
def setPc (s : LState) (t : Nat) (pc : PC) : LState := { s with pcs := fun t' => if t' = t then pc else s.pcs t' }

inductive Act where
  | acquire (t : Nat)
  | write (t : Nat)          -- prep (opening a stream if none) + writeMsg
  | readOk (t : Nat)         -- the next reply on the stream arrives and is returned
  | readFail (t : Nat)       -- read error / timeout / cancellation: reset, drop the stream; back to `locked`
  | giveUp (t : Nat)         -- return an error (after the failed attempt) and release
  | finish (t : Nat)         -- unreachable for requests; messages: release after the write
  | invalidate               -- OnDisconnect's goroutine, when it holds the lock: reset + drop the stream
  | quit (t : Nat)           -- `lk.Lock(ctx)` fails (context ended while waiting): return without ever holding the lock
  deriving DecidableEq, Repr

/-- `none`: the action is not enabled -/
def lstep (s : LState) : Act → Option LState
  | .acquire t =>
    if s.holder.isNone && pcOf s t == .waiting then some { setPc s t .locked with holder := some t } else none
  | .write t =>
    if s.holder == some t && pcOf s t == .locked then
      some { setPc s t .written with pending := some ((s.pending.getD []) ++ [t]) }
    else none
  | .readOk t =>
    if s.holder == some t && pcOf s t == .written then
      match s.pending with
      | some (x :: rest) => some { setPc s t (.done (some x)) with pending := some rest, holder := none }
      | _ => none
    else none
  | .readFail t =>
    if s.holder == some t && pcOf s t == .written then some { setPc s t .locked with pending := none } else none
  | .giveUp t =>
    if s.holder == some t && pcOf s t == .locked then some { setPc s t (.done none) with holder := none } else none
  | .finish _ => none
  | .invalidate => if s.holder.isNone then some { s with pending := none } else none
  | .quit t => if pcOf s t == .waiting then some (setPc s t (.done none)) else none

def lrun (s : LState) : List Act → Option LState
  | [] => some s
  | a :: as => match lstep s a with | some s' => lrun s' as | none => none

/-- the seeded variant of C11-m5: the deferred `Unlock` is registered before the result of `Lock(ctx)` is looked at, so a
    caller that gives up while waiting releases the lock of whoever holds it -/
def quitUnlocking (s : LState) (t : Nat) : Option LState :=
  if pcOf s t == .waiting then some { setPc s t (.done none) with holder := none } else none

/-- the seeded variant of C11-m1: a caller whose context ended after the write returns without resetting the stream -/
def abandon (s : LState) (t : Nat) : Option LState :=
  if s.holder == some t && pcOf s t == .written then some { setPc s t (.done none) with holder := none } else none

end KadDHT.MsgSender

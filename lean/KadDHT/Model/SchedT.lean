/-
  The sweeping provider's schedule with its time slots, and the persisted reprovide history, at the level of the
  functions themselves (provider/provider.go: `reprovideTimeForPrefix`, `timeBetween`, `timeUntil`,
  `schedulePrefixNoLock`, `unscheduleSubsumedPrefixesNoLock`, `persistSuccessfulReprovide`,
  `gcReprovideHistoryIfNeeded`, `loadRecentlyReprovidedRegions`, `timeUntilScheduled`).  Durations are whole seconds;
  the code computes in int64 nanoseconds: the two agree as long as interval_ns * 2^min(len, 24) < 2^63 (prefixes of at
  most 16 bits at the default 22 h interval), which is the domain the correspondence harness stays in.  Core Lean only.
-/
import KadDHT.Model.Sched
import KadDHT.Model.Schedule
namespace KadDHT.SchedT
open KadDHT KadDHT.Sched

/-- `maxPrefixSize` -/
def maxPrefixSize : Nat := 24

/-- `reprovideTimeForPrefix`: longer prefixes are truncated before the slot is computed -/
def slotT (I : Nat) (order p : Key) : Nat := slot I order (p.take maxPrefixSize)

abbrev Entries := List (Key × Nat)

/-- `schedulePrefixNoLock` on the schedule's entries (prefix, slot): nothing if a scheduled prefix covers `p`;
    otherwise the entries below `p` are dropped and `p` is added — at its own slot when it was just reprovided (the cap
    of interval + max delay from the current offset never binds on an offset), at the earliest pending slot among its
    own and the dropped ones when it was not -/
def schedulePrefix (I D cur : Nat) (order : Key) (S : Entries) (p : Key) (just : Bool) : Entries :=
  let own := slotT I order p
  if S.any (fun e => isPre e.1 p) then S else
  let subs := (S.filter fun e => isPre p e.1).map (·.2)
  let next := if just then min own (cur + I + D) else takeOver I cur own subs
  (S.filter fun e => !isPre p e.1) ++ [(p, next)]

/-- `unscheduleSubsumedPrefixesNoLock` -/
def unschedule (S : Entries) (p : Key) : Entries := S.filter fun e => !isPre p e.1

/-- `timeUntilScheduled`: the scheduled prefix that covers `q`, else the latest of the scheduled prefixes below `q` -/
def untilScheduled (I cur : Nat) (S : Entries) (q : Key) : Nat :=
  match S.find? (fun e => isPre e.1 q) with
  | some e => timeBetween I cur e.2
  | none => ((S.filter fun e => isPre q e.1).map fun e => timeBetween I cur e.2).foldl max 0

/-! ### `groupAndScheduleKeysByPrefix` -/

/-- `getAvgPrefixLenNoLock` (for a node that is online): the cached estimate while it is valid, afterwards the mean
    length of the scheduled prefixes (rounded down), which also replaces the cached value -/
def avgPrefixLen (cached : Nat) (valid : Bool) (S : Entries) : Nat :=
  if valid || S.isEmpty then cached else (S.map (·.1.length)).foldl (· + ·) 0 / S.length

structure GSt where
  S : Entries
  /-- the groups built so far: prefix and its keys -/
  groups : List (Key × List Key) := []
  seen : List Key := []
  /-- the average prefix length, read once, when the first key without a scheduled prefix is met -/
  avg : Option Nat := none

/-- one key of the loop -/
def groupKey (I D cur cached : Nat) (valid doSched : Bool) (order : Key) (g : GSt) (k : Key) : GSt :=
  if g.seen.contains k then g else
  let g := { g with seen := g.seen ++ [k] }
  match g.groups.find? (fun e => isPre e.1 k) with
  | some e => { g with groups := g.groups.map fun x => if x.1 == e.1 then (x.1, x.2 ++ [k]) else x }
  | none =>
    let (prefix_, g) : Key × GSt :=
      match g.S.find? (fun e => isPre e.1 k) with
      | some e => (e.1, g)
      | none =>
        let avg := match g.avg with | some a => a | none => avgPrefixLen cached valid g.S
        let p := k.take avg
        (p, { g with avg := some avg, S := if doSched then schedulePrefix I D cur order g.S p false else g.S })
    let below := g.groups.filter fun e => isPre prefix_ e.1
    let ks := [k] ++ (below.map (·.2)).flatten
    { g with groups := (g.groups.filter fun e => !isPre prefix_ e.1) ++ [(prefix_, ks)] }

def groupKeys (I D cur cached : Nat) (valid doSched : Bool) (order : Key) (S : Entries) (keys : List Key) : GSt :=
  keys.foldl (groupKey I D cur cached valid doSched order) { S := S }

structure Hist where
  /-- (instant, prefix), kept in datastore key order: by instant, then by prefix text -/
  entries : List (Nat × Key) := []
  lastGC : Option Nat := none
  deriving Repr

/-- bit strings in the order of their text ("" < "0" < "00" < "01" < "1") -/
def keyLt : Key → Key → Bool
  | [], [] => false
  | [], _ :: _ => true
  | _ :: _, [] => false
  | a :: p, b :: q => if a == b then keyLt p q else (!a && b)

def entryLt (a b : Nat × Key) : Bool := a.1 < b.1 || (a.1 == b.1 && keyLt a.2 b.2)

def insertEntry (e : Nat × Key) : List (Nat × Key) → List (Nat × Key)
  | [] => [e]
  | x :: xs => if x == e then x :: xs else if entryLt e x then e :: x :: xs else x :: insertEntry e xs

/-- `gcReprovideHistoryIfNeeded`: at most once per interval, entries of one interval ago or older are deleted -/
def gc (I now : Nat) (h : Hist) : Hist :=
  let due := match h.lastGC with | none => true | some g => now - g ≥ I
  if due then { entries := h.entries.filter fun e => e.1 + I > now, lastGC := some now } else h

/-- `persistSuccessfulReprovide` -/
def persist (I now : Nat) (h : Hist) (q : Key) : Hist := gc I now { h with entries := insertEntry (now, q) h.entries }

/-- one history entry taken into the trie of recently reprovided regions -/
def addRecent (R : List Key) (q : Key) : List Key := if R.any (isPre · q) then R else (R.filter fun r => !isPre q r) ++ [q]

/-- `loadRecentlyReprovidedRegions` as repaired: an entry counts only if the scheduled regions overlapping it are due
    no later than interval + max delay after it -/
def loadRecent (I D now cur : Nat) (S : Entries) (h : Hist) : Hist × List Key :=
  let h1 := gc I now h
  (h1, h1.entries.foldl (fun R e =>
    if recentRepaired I D now e.1 (untilScheduled I cur S e.2) then addRecent R e.2 else R) [])

end KadDHT.SchedT

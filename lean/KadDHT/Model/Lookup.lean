/-
  Model of the iterative lookup state machine: query.go (`run`, `updateState`, `isReadyToTerminate`,
  `spawnQuery`, `queryPeer`'s post-processing, `constructLookupResult`, `runLookupWithFollowup`) and
  qpeerset/qpeerset.go.  Generic in the peer type `P` and in the order `lt` ("nearer to the target key");
  goroutine interleavings are an explicit list of environment events.  A Go panic is `Except.error`.
  Core Lean only.
-/
import KadDHT.Basic.Bits
namespace KadDHT.Lookup
open KadDHT

inductive PState where | heard | waiting | queried | unreachable
  deriving Repr, DecidableEq

structure PEntry (P : Type) where
  id : P
  state : PState
  ref : P
  deriving Repr

structure Cfg (P : Type) where
  K : Nat
  α : Nat
  β : Nat
  self : P
  /-- strict total order on peers: nearer to the key -/
  lt : P → P → Bool
  /-- lookup-level IP diversity filter (rt_diversity_filter.go `filterPeersByIPDiversity`): at most `divLimit`
      peers of one IP group are accepted from one response, 0 = filter off -/
  divLimit : Nat := 0
  /-- the IP group of a peer's address -/
  group : P → Nat := fun _ => 0

variable {P : Type} [DecidableEq P]

/-- `QueryPeerset`: entries in insertion order -/
abbrev PS (P : Type) := List (PEntry P)

def tryAdd (ps : PS P) (p ref : P) : PS P :=
  if ps.any (·.id == p) then ps else ps ++ [⟨p, .heard, ref⟩]

def setState (ps : PS P) (p : P) (st : PState) : PS P :=
  ps.map fun e => if e.id == p then { e with state := st } else e

def getState (ps : PS P) (p : P) : Option PState := (ps.find? (·.id == p)).map (·.state)

/-- `GetClosestNInStates` -/
def closestNIn (cfg : Cfg P) (ps : PS P) (n : Nat) (ok : PState → Bool) : List P :=
  (((sortBy (fun a b => cfg.lt a.id b.id) ps).filter fun e => ok e.state).map (·.id)).take n

def numIn (ps : PS P) (st : PState) : Nat := (ps.filter (·.state == st)).length

inductive Reason where | stopped | cancelled | starvation | completed
  deriving Repr, DecidableEq

inductive Panic where
  | updateAfterTermination
  | badTransition (what : String)
  deriving Repr, DecidableEq

/-- one `queryUpdate` -/
structure Update (P : Type) where
  cause : P
  heard : List P := []
  queried : List P := []
  unreachable : List P := []

/-- `updateState` (without the event publication) -/
def applyUpdate (cfg : Cfg P) (ps : PS P) (u : Update P) : Except Panic (PS P) := do
  let ps1 := u.heard.foldl (fun acc p => if p == cfg.self then acc else tryAdd acc p u.cause) ps
  let ps2 ← u.queried.foldlM (fun acc p =>
    if p == cfg.self then pure acc else
    if getState acc p == some .waiting then pure (setState acc p .queried)
    else throw (Panic.badTransition "queried")) ps1
  u.unreachable.foldlM (fun acc p =>
    if p == cfg.self then pure acc else
    if getState acc p == some .waiting then pure (setState acc p .unreachable)
    else throw (Panic.badTransition "unreachable")) ps2

def notUnreachable : PState → Bool | .unreachable => false | _ => true

/-- `isLookupTermination` -/
def lookupTermination (cfg : Cfg P) (ps : PS P) : Bool :=
  (closestNIn cfg ps cfg.β notUnreachable).all fun p => getState ps p == some .queried

/-- `isStarvationTermination` -/
def starvation (ps : PS P) : Bool := numIn ps .heard == 0 && numIn ps .waiting == 0

structure LState (P : Type) where
  ps : PS P := []
  terminated : Option Reason := none
  /-- peers whose query goroutine has been spawned and has not yet reported -/
  inflight : List P := []
  /-- every peer for which `spawnQuery` ran, in order -/
  spawned : List P := []

/-- the part of `run`'s loop body after the `select`: terminate or spawn. `stop` is `stopFn`'s answer. -/
def decide (cfg : Cfg P) (s : LState P) (stop : Bool) : LState P :=
  if s.terminated.isSome then s else
  let n := cfg.α - numIn s.ps .waiting
  if stop then { s with terminated := some .stopped }
  else if starvation s.ps then { s with terminated := some .starvation }
  else if lookupTermination cfg s.ps then { s with terminated := some .completed }
  else
    let toQuery := closestNIn cfg s.ps n (· == .heard)
    { s with ps := toQuery.foldl (fun acc p => setState acc p .waiting) s.ps,
             inflight := s.inflight ++ toQuery, spawned := s.spawned ++ toQuery }

/-- what a queried peer's goroutine reports -/
inductive Outcome (P : Type) where
  | fail                          -- dial or request failed
  | resp (peers : List P)         -- closer peers as they arrived on the wire

/-- `filterPeersByIPDiversity`: every peer of a group that holds more than `limit` distinct peers is dropped -/
def divFilter (limit : Nat) (group : P → Nat) (peers : List P) : List P :=
  if limit == 0 then peers else
  peers.filter fun p => (peers.eraseDups.filter fun q => group q == group p).length ≤ limit

/-- `queryPeer`'s post-processing of a response: 2K cap, IP diversity filter, drop self, query filter -/
def ingest (cfg : Cfg P) (accept : P → Bool) (peers : List P) : List P :=
  ((divFilter cfg.divLimit cfg.group (peers.take (2 * cfg.K))).filter fun p => p != cfg.self && accept p)

inductive Ev (P : Type) where
  | deliver (p : P) (o : Outcome P)
  | cancel

/-- one iteration of `run`'s loop -/
def step (cfg : Cfg P) (accept : P → Bool) (stop : LState P → Bool) (s : LState P) : Ev P → Except Panic (LState P)
  | .cancel =>
    if s.terminated.isSome then pure s else pure { s with terminated := some .cancelled }
  | .deliver p o =>
    -- the loop has returned: the goroutine ends, its update is never read
    if s.terminated.isSome then pure { s with inflight := s.inflight.erase p } else
    if !s.inflight.contains p then pure s else       -- no such goroutine: not an event the runtime can produce
    let u : Update P := match o with
      | .fail => { cause := p, unreachable := [p] }
      | .resp peers => { cause := p, heard := ingest cfg accept peers, queried := [p] }
    do
      let ps' ← applyUpdate cfg s.ps u
      let s' := { s with ps := ps', inflight := s.inflight.erase p }
      pure (decide cfg s' (stop s'))

/-- the first loop iteration: the seed update -/
def start (cfg : Cfg P) (stop : LState P → Bool) (seeds : List P) : Except Panic (LState P) := do
  let ps ← applyUpdate cfg [] { cause := cfg.self, heard := seeds }
  let s : LState P := { ps := ps }
  pure (decide cfg s (stop s))

def runEvs (cfg : Cfg P) (accept : P → Bool) (stop : LState P → Bool) (s : LState P) : List (Ev P) → Except Panic (LState P)
  | [] => pure s
  | e :: es => do
    let s' ← step cfg accept stop s e
    runEvs cfg accept stop s' es

structure Result (P : Type) where
  peers : List P
  states : List PState
  closest : List P
  completed : Bool
  deriving Repr

/-- `constructLookupResult` -/
def result (cfg : Cfg P) (s : LState P) : Result P :=
  let peers := closestNIn cfg s.ps cfg.K notUnreachable
  { peers := peers,
    states := peers.map fun p => (getState s.ps p).getD .heard,
    closest := closestNIn cfg s.ps cfg.K (fun _ => true),
    completed := lookupTermination cfg s.ps || starvation s.ps }

/-- `runLookupWithFollowup`: the returned peers that still have to be asked -/
def followups (r : Result P) : List P :=
  ((r.peers.zip r.states).filter fun x => x.2 == .heard || x.2 == .waiting).map (·.1)

/-- `runLookupWithFollowup` after the search phase, when every follow-up request that is issued gets an
    outcome: with nothing left to ask the result stands; a cancelled context (or a stop) before the
    follow-ups are issued clears `completed`; otherwise all of them are asked and the result stands. -/
def afterFollowup (r : Result P) (ctxCancelled stop : Bool) : Result P × List P :=
  if (followups r).isEmpty then (r, [])
  else if ctxCancelled || stop then ({ r with completed := false }, [])
  else (r, followups r)

end KadDHT.Lookup

/-
  Model of the shutdown protocol used by the sweeping provider (provider/provider.go: `wgLk` guarding `wg.Add` against
  `Close`) and, in the same shape, by the other components' "cancel, then wait for what was started" — property C14.
  Spawners take the guard's read lock, bail out if the instance is closed, otherwise `wg.Add(1)` and start their
  goroutine; `Close` takes the write lock to mark the instance closed, then waits for the counter to reach zero.
  The read-locked check-and-add is one atomic step with respect to the write-locked close.  Core Lean only.
-/
namespace KadDHT.Life

structure St where
  closed : Bool := false
  counter : Nat := 0          -- the wait group
  waiting : Bool := false     -- Close has begun wg.Wait
  returned : Bool := false    -- wg.Wait has returned
  running : List Nat := []    -- goroutines admitted and not finished yet
  seen : List Nat := []       -- spawners that have already tried
  deriving Repr, DecidableEq

inductive Ev where
  | spawn (t : Nat)      -- RLock; if closed → bail; wg.Add(1); RUnlock; go work
  | finish (t : Nat)     -- wg.Done
  | close                -- Lock; close(done); Unlock
  | beginWait            -- wg.Wait is entered (after close, in program order)
  | waitReturns          -- the counter is zero
  deriving DecidableEq, Repr

/-- `none`: not enabled -/
def step (s : St) : Ev → Option St
  | .spawn t =>
    if s.seen.contains t then none
    else if s.closed then some { s with seen := t :: s.seen }
    else some { s with seen := t :: s.seen, running := t :: s.running, counter := s.counter + 1 }
  | .finish t => if s.running.contains t then some { s with running := s.running.erase t, counter := s.counter - 1 } else none
  | .close => some { s with closed := true }
  | .beginWait => if s.closed then some { s with waiting := true } else none
  | .waitReturns => if s.waiting && s.counter == 0 then some { s with returned := true } else none

def run (s : St) : List Ev → Option St
  | [] => some s
  | e :: es => match step s e with | some s' => run s' es | none => none

/-- the unguarded variant: the spawner checks `closed` and adds to the wait group in two separate steps -/
inductive UEv where
  | check (t : Nat) | add (t : Nat) | close | beginWait | waitReturns
  deriving DecidableEq, Repr

structure USt where
  base : St := {}
  passed : List Nat := []   -- spawners that saw "not closed"
  deriving Repr, DecidableEq

def ustep (u : USt) : UEv → Option USt
  | .check t => if u.base.closed then none else some { u with passed := t :: u.passed }
  | .add t => if u.passed.contains t then some { u with base := { u.base with running := t :: u.base.running, counter := u.base.counter + 1 } } else none
  | .close => some { u with base := { u.base with closed := true } }
  | .beginWait => if u.base.closed then some { u with base := { u.base with waiting := true } } else none
  | .waitReturns => if u.base.waiting && u.base.counter == 0 then some { u with base := { u.base with returned := true } } else none

def urun (u : USt) : List UEv → Option USt
  | [] => some u
  | e :: es => match ustep u e with | some u' => urun u' es | none => none

/-! ### Close called concurrently (keystore.go / resettable_keystore.go `Close`) -/

/-- the close channel and the callers of `Close`: `pc t` = 0 not yet, 1 = found the channel open (legacy only), 2 = back -/
structure CSt where
  chanClosed : Bool := false
  onceDone : Bool := false
  pc : Nat → Nat := fun _ => 0
  panicked : Bool := false

def setPc (f : Nat → Nat) (t v : Nat) : Nat → Nat := fun u => if u = t then v else f u

/-- as it was: `select { case <-s.close: default: close(s.close) … }` — the test and the close are two steps -/
inductive CStepOld : CSt → CSt → Prop where
  | test (s : CSt) (t : Nat) (h : s.pc t = 0) :
      CStepOld s { s with pc := setPc s.pc t (if s.chanClosed then 2 else 1) }
  | close (s : CSt) (t : Nat) (h : s.pc t = 1) :
      CStepOld s { s with chanClosed := true, panicked := s.panicked || s.chanClosed, pc := setPc s.pc t 2 }

/-- repaired: `closeOnce.Do(func() { close(s.close) … })` — sync.Once lets exactly one caller in -/
inductive CStepNew : CSt → CSt → Prop where
  | once (s : CSt) (t : Nat) (h : s.pc t = 0) :
      CStepNew s { s with onceDone := true, chanClosed := true,
                          panicked := s.panicked || (!s.onceDone && s.chanClosed), pc := setPc s.pc t 2 }

inductive CReach (step : CSt → CSt → Prop) : CSt → Prop where
  | init : CReach step {}
  | step (s s' : CSt) (h : CReach step s) (hs : step s s') : CReach step s'

/-! ### `runOnBoth` of the dual sweeping-provider wrapper (provider/dual/provider.go): the LAN side runs in a goroutine,
    the WAN side inline; the helper returns after it has received the LAN side's result -/

structure BSt where
  wanDone : Bool := false
  wanErr : Bool := false
  lanDone : Bool := false
  returned : Bool := false
  deriving DecidableEq, Repr

inductive BStep : BSt → BSt → Prop where
  | wan (s : BSt) (err : Bool) (h : s.wanDone = false) : BStep s { s with wanDone := true, wanErr := err }
  | lan (s : BSt) (h : s.lanDone = false) : BStep s { s with lanDone := true }
  /-- `lanErr := <-errCh; return errors.Join(lanErr, err)`: only once both are done -/
  | ret (s : BSt) (h1 : s.wanDone = true) (h2 : s.lanDone = true) : BStep s { s with returned := true }

/-- the seeded variant C14-m6: `return` straight from the WAN error branch -/
inductive BStepEarly : BSt → BSt → Prop where
  | wan (s : BSt) (err : Bool) (h : s.wanDone = false) : BStepEarly s { s with wanDone := true, wanErr := err }
  | lan (s : BSt) (h : s.lanDone = false) : BStepEarly s { s with lanDone := true }
  | ret (s : BSt) (h1 : s.wanDone = true) (h2 : s.lanDone = true ∨ s.wanErr = true) : BStepEarly s { s with returned := true }

inductive BReach (step : BSt → BSt → Prop) : BSt → Prop where
  | init : BReach step {}
  | step (s s' : BSt) (h : BReach step s) (hs : step s s') : BReach step s'

end KadDHT.Life

/-
  Model of the client side of the wire protocol: pb/protocol_messenger.go (one function per
  `ProtocolMessenger` method) over an abstract response, and the ingress sanitising of peer records
  (`PBPeersToPeerInfos`).  A Go nil-pointer dereference is the outcome `.panic`.  Core Lean only.
-/
import KadDHT.Model.Wire
namespace KadDHT.Client
open KadDHT.Wire

/-- a peer record as it arrives: id length, connection value, raw addresses (length, decodes?) -/
structure RawPeer where
  idLen : Nat
  conn : Nat
  addrs : List (Nat × Bool)
  deriving Repr, DecidableEq

/-- a response message: every sub-message may be absent, enum values are arbitrary -/
structure Resp where
  type : Nat
  /-- the record, if present: does its key equal the requested key / its value equal the sent value -/
  record : Option (Bool × Bool)
  closer : List RawPeer
  provs : List RawPeer
  deriving Repr, DecidableEq

/-- `PBPeersToPeerInfos` for one record: bound to 8 KiB, then drop what does not decode; the result is
    the list of surviving (length) addresses -/
def sanitize (p : RawPeer) : List Nat :=
  let kept := (boundAddrs ⟨p.idLen, p.addrs.map (·.1), p.conn⟩).addrs.length
  ((p.addrs.take kept).filter (·.2)).map (·.1)

inductive Outcome where
  | ok (hasRecord : Bool) (closer provs : List (List Nat))
  | err (what : String)
  | panic
  deriving Repr, DecidableEq

/-- `PutValue` after the response arrived. `repaired = false` is the tree before the F1 repair, which
    reads `rpmes.GetRecord().Value` without a nil check. -/
def putValue (repaired : Bool) (r : Resp) : Outcome :=
  match r.record with
  | none => if repaired then .err "value not put correctly" else .panic
  | some (_, valueMatches) => if valueMatches then .ok false [] [] else .err "value not put correctly"

def getValue (r : Resp) : Outcome :=
  match r.record with
  | some (keyMatches, _) =>
    if keyMatches then .ok true (r.closer.map sanitize) [] else .err "received incorrect record"
  | none => .ok false (r.closer.map sanitize) []

def getClosestPeers (r : Resp) : Outcome := .ok false (r.closer.map sanitize) []

def getProviders (r : Resp) : Outcome := .ok false (r.closer.map sanitize) (r.provs.map sanitize)

/-- PING is type 5 -/
def ping (r : Resp) : Outcome := if r.type == 5 then .ok false [] [] else .err "unexpected response type"

inductive Method where
  | putValue | getValue | getClosestPeers | getProviders | ping
  deriving Repr, DecidableEq

def call (repaired : Bool) : Method → Resp → Outcome
  | .putValue, r => putValue repaired r
  | .getValue, r => getValue r
  | .getClosestPeers, r => getClosestPeers r
  | .getProviders, r => getProviders r
  | .ping, r => ping r

/-- query.go `queryPeer`: at most `2 * bucketSize` closer peers of one response are considered -/
def capCloser (K : Nat) (peers : List α) : List α := peers.take (2 * K)

end KadDHT.Client

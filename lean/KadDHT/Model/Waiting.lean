/-
  Counting models of the two waiting loops outside the lookup state machine that decide whether a routing
  operation returns and whether its background work ends (property C03):
  * lookup_optim.go `waitForRPCs` — the optimistic provide waits for its ADD_PROVIDER RPCs,
  * routing.go `getValues` — query functions hand valid values to `processValues` over `valCh` (capacity 1).
  Core Lean only.
-/
namespace KadDHT.Waiting

/-- `for range doneChan { if ++done == threshold { break } }`: `tokens` sends will ever arrive on the channel.
    `none` = the loop blocks on the channel forever; `some d` = it exits with `done = d`. -/
def firstLoop (threshold : Nat) : Nat → Nat → Option Nat
  | 0, _ => none
  | t+1, d => if d + 1 == threshold then some (d + 1) else firstLoop threshold t (d + 1)

/-- `waitForRPCs`: does it return?  `rpcCount` RPCs were scheduled, `finished` of them eventually finish
    (each sends one token), `poolFree` job-pool slots are free for the second loop.
    `repaired = false` is the tree before the F5 repair (no early return for `rpcCount = 0`). -/
def waitReturns (repaired : Bool) (rpcCount returnThreshold finished poolFree : Nat) : Bool :=
  if repaired && rpcCount == 0 then true else
  match firstLoop (min returnThreshold rpcCount) finished 0 with
  | none => false
  | some d =>
    -- second loop: `rpcCount - d` iterations, each needs a free pool slot or another token
    rpcCount - d ≤ poolFree + (finished - d)

/-- `getValues`: `producers` in-flight query functions each hold a valid value; the consumer has stopped.
    How many of them finish without any further event?  `bufferFree` = free slots of `valCh` (0 or 1).
    `repaired = false` is the tree before the F9 repair (the send does not watch the stop channel). -/
def producersFinishing (repaired stopClosed ctxCancelled : Bool) (bufferFree producers : Nat) : Nat :=
  if ctxCancelled || (repaired && stopClosed) then producers else min producers bufferFree

/-- `searchValueQuorum`: the consumer aborts exactly when it has closed the stop channel -/
def consumerAborts (quorum responses : Nat) : Bool × Bool :=          -- (aborted, stopClosed)
  if quorum > 0 && responses > quorum then (true, true) else (false, false)

end KadDHT.Waiting

/-
  Model of the publishing plans (property C06): routing.go `PutValue`, `classicProvide`, the corrective puts
  of `SearchValue` (`updatePeerValues`), and the bookkeeping of lookup_optim.go (each peer at most one RPC).
  The lookup itself is the `Lookup` model; here: who is sent what, given its result.  Core Lean only.
-/
namespace KadDHT.Publish

/-- what one recipient is sent -/
structure Rpc (V : Type) where
  to : Nat
  payload : V
  deriving Repr, DecidableEq

/-- is the record to put ranked below the one already stored locally (`Select` prefers the local one)? -/
def worse (rank : Nat) (old : Option Nat) : Bool := match old with | some o => decide (rank < o) | none => false

/-- `PutValue`: an invalid record, or one that the validator ranks below the record already stored locally, is
    refused before anything happens; otherwise the local store comes first and then the same record goes to every
    peer the lookup returned, each in its own goroutine (a failing or hanging recipient does not affect the
    others).  Result: (stored locally, RPCs). -/
def putValuePlan {V : Type} (valid : Bool) (rank : Nat) (oldRank : Option Nat) (lookupOk : Bool) (peers : List Nat)
    (rec : V) : Bool × List (Rpc V) :=
  if !valid || worse rank oldRank then (false, []) else (true, if lookupOk then peers.map fun p => ⟨p, rec⟩ else [])

/-- the provider record of a Provide: the local peer id with its filter-passing addresses -/
structure ProvRecord where
  id : Nat
  addrs : List Nat
  deriving Repr, DecidableEq

/-- `classicProvide` / `PutProviderAddrs`: one ADD_PROVIDER per lookup-result peer, refused (nothing is sent)
    when no advertised address passes the filter -/
def providePlan (self : Nat) (hostAddrs : List Nat) (passes : Nat → Bool) (lookupOk : Bool) (peers : List Nat) :
    List (Rpc ProvRecord) :=
  let addrs := hostAddrs.filter passes
  if !lookupOk || addrs.isEmpty then [] else peers.map fun p => ⟨p, ⟨self, addrs⟩⟩

/-- `SearchValue`'s corrective puts: the closest peers that did not return the best value -/
def correctivePlan {V : Type} (best : Option V) (aborted : Bool) (peers withBest : List Nat) : List (Rpc V) :=
  match best with
  | none => []
  | some b => if aborted then [] else (peers.filter fun p => !withBest.contains p).map fun p => ⟨p, b⟩

/-- optimistic provide bookkeeping (`peerStates`): schedule a peer unless it already has an entry -/
def schedule (states : List Nat) (p : Nat) : List Nat × Bool :=
  if states.contains p then (states, false) else (states ++ [p], true)

/-- the final sweep of `optimisticProvide` over the lookup result -/
def sweep (states : List Nat) (peers : List Nat) : List Nat × List Nat :=
  peers.foldl (fun (acc : List Nat × List Nat) p =>
    let (st, sent) := schedule acc.1 p
    (st, if sent then acc.2 ++ [p] else acc.2)) (states, [])

end KadDHT.Publish

/-
  Model of provider/internal/queue (prefix.go, reprovide.go, provide.go) at the set/list level:
  the two tries of the Go code are represented by the lists of keys they hold (their set-level
  behaviour is what C18 proves / diffs).  Core Lean only.
-/
import KadDHT.Basic.Bits
namespace KadDHT.Queue
open KadDHT

/-- `prefixQueue`: the prefixes in queue order -/
abbrev PQ := List Key

/-- `prefixQueue.Push` for one prefix -/
def push (q : PQ) (p : Key) : PQ :=
  if q.any (isPre p ·) then
    -- superstrings of `p` are queued: consolidate around `p` at the position of the first of them
    q.takeWhile (!isPre p ·) ++ [p] ++ (q.dropWhile (!isPre p ·)).filter (!isPre p ·)
  else if q.any (isPre · p) then q      -- a prefix of `p` (or `p` itself) is already queued
  else q ++ [p]

def pushMany (q : PQ) (ps : List Key) : PQ := ps.foldl push q

/-- `prefixQueue.Pop` -/
def pop : PQ → Option Key × PQ
  | [] => (none, [])
  | p :: q => (some p, q)

/-- `prefixQueue.Remove` (= `removeSuperstrings ≥ 0`) -/
def remove (q : PQ) (p : Key) : Bool × PQ := (q.any (isPre p ·), q.filter (!isPre p ·))

/-- `ProvideQueue` -/
structure PS where
  order : PQ
  keys : List Key          -- kademlia identifiers of the queued multihashes, no duplicates
  deriving Repr, BEq, DecidableEq

def PS.empty : PS := ⟨[], []⟩

def addKeys (ks : List Key) (new : List Key) : List Key :=
  new.foldl (fun acc k => if acc.contains k then acc else acc ++ [k]) ks

/-- `Enqueue(prefix, keys...)` -/
def enqueue (s : PS) (p : Key) (ks : List Key) : PS :=
  if ks.isEmpty then s else ⟨push s.order p, addKeys s.keys ks⟩

/-- `Dequeue` -/
def dequeue (s : PS) : Option (Key × List Key) × PS :=
  match s.order with
  | [] => (none, s)
  | p :: q => (some (p, s.keys.filter (isPre p ·)), ⟨q, s.keys.filter (!isPre p ·)⟩)

/-- `DequeueMatching(prefix)` -/
def dequeueMatching (s : PS) (p : Key) : List Key × PS :=
  let ks := s.keys.filter (isPre p ·)
  if ks.isEmpty then ([], s) else
  let keys' := s.keys.filter (!isPre p ·)
  let (removed, order') := remove s.order p
  if removed then (ks, ⟨order', keys'⟩) else
  match s.order.find? (isPre · p) with
  | some shorter =>
    if keys'.any (isPre shorter ·) then (ks, ⟨s.order, keys'⟩)
    else (ks, ⟨(remove s.order shorter).2, keys'⟩)
  | none => (ks, ⟨s.order, keys'⟩)

/-- `Remove(keys...)` -/
def removeKeys (s : PS) (ks : List Key) : PS :=
  let keys' := s.keys.filter (!ks.contains ·)
  let matching := s.order.filter fun p => ks.any (isPre p ·)
  let toRemove := matching.filter fun p => !keys'.any (isPre p ·)
  ⟨s.order.filter (!toRemove.contains ·), keys'⟩

def clear (s : PS) : Nat × PS := (s.keys.length, PS.empty)

/-- persisted form: the datastore holds, per queue position, the *cleaned* datastore key split at
    `/` (go-datastore removes a trailing slash, so the empty prefix yields a one-component key)
    and the keys under that prefix. -/
structure Entry where
  pos : Nat
  parts : List String
  keys : List Key
  deriving Repr, BEq, DecidableEq

def hex12 (n : Nat) : String :=
  let ds := (Nat.toDigits 16 n)
  String.ofList (List.replicate (12 - ds.length) '0' ++ ds)

def dsParts (i : Nat) (p : Key) : List String :=
  if p.isEmpty then [hex12 i] else [hex12 i, String.ofList (p.map fun b => if b then '1' else '0')]

/-- `Persist`: replaces the datastore content -/
def persist (s : PS) : List Entry :=
  (s.order.zipIdx.filterMap fun (p, i) =>
    let ks := s.keys.filter (isPre p ·)
    if ks.isEmpty then none else some ⟨i, dsParts i p, ks⟩)

/-- how `DrainDatastore` reads a stored key back into a prefix (`none` = "skip invalid key").
    `acceptOne = false` is the tree before the F4 repair: a one-component key is skipped. -/
def parsePrefix (acceptOne : Bool) (parts : List String) : Option Key :=
  match parts with
  | [_] => if acceptOne then some [] else none
  | [_, p] => some (parseBits p)
  | _ => none

/-- `DrainDatastore`: additive; returns the new queue and what is left in the datastore -/
def drain (acceptOne : Bool) (s : PS) (d : List Entry) : PS × List Entry :=
  d.foldl (fun (acc : PS × List Entry) e =>
    match parsePrefix acceptOne e.parts with
    | none => (acc.1, acc.2 ++ [e])
    | some p => if e.keys.isEmpty then (acc.1, acc.2 ++ [e]) else (enqueue acc.1 p e.keys, acc.2)) (s, [])

end KadDHT.Queue

/-
  Model of the request handlers (handlers.go), the dispatch (`handlerForMsgType`), `closestPeersToQuery`
  (dht.go) and the per-message mode check of the stream loop (dht_net.go).  Peers are opaque naturals.
  The routing table's `NearestPeers(key, K+1)` answer is an input (kbucket is external), as are the
  peerstore's address lists.  Core Lean only.
-/
import KadDHT.Model.Wire
namespace KadDHT.Server
open KadDHT.Wire

abbrev Peer := Nat

/-- an address as the server logic sees it: its encoded length, whether it decodes as a multiaddr
    and whether it passes the node's address filter -/
structure Addr where
  /-- identity of the address (the peerstore merges by identity) -/
  id : Nat := 0
  len : Nat
  valid : Bool := true
  passes : Bool := true
  deriving Repr, DecidableEq

inductive MsgType where
  | putValue | getValue | addProvider | getProviders | findNode | ping | unknown (n : Nat)
  deriving Repr, DecidableEq

structure ProvRec where
  id : Peer
  addrs : List Addr
  deriving Repr, DecidableEq

structure Req where
  type : MsgType
  keyLen : Nat
  /-- FIND_NODE: the peer named by the key, if the key is one of the known peer ids -/
  target : Option Peer := none
  hasRecord : Bool := false
  recordKeyMatches : Bool := false
  recordAccepted : Bool := false      -- outcome of `valueStore.Put` (validator + selection; C05)
  nCloser : Nat := 0                  -- peer records stuffed into the request
  providers : List ProvRec := []
  deriving Repr

structure Srv where
  self : Peer
  K : Nat
  serverMode : Bool
  values : Bool
  providers : Bool
  /-- `routingTable.NearestPeers(key, K+1)` for the request at hand, nearest first -/
  nearest : List Peer
  /-- peerstore addresses of a peer -/
  addrsOf : Peer → List Addr
  /-- the local value store has a servable record for the key -/
  hasValue : Bool
  /-- stored providers for the key (in some order) with their peerstore addresses -/
  storedProviders : List Peer
  /-- byte length of a peer id (all simulated peers use ids of one length) -/
  idLen : Nat := 38

/-- `closestPeersToQuery` -/
def closerPeers (self from_ : Peer) (count : Nat) (nearest : List Peer) : List Peer :=
  ((nearest.filter fun p => p != self && p != from_).take count)

/-- a peer record of a response: id, number of addresses sent -/
structure OutPeer where
  id : Peer
  addrs : List Addr
  /-- the 8 KiB bound cut the address list -/
  truncated : Bool := false
  deriving Repr, DecidableEq

inductive Resp where
  | reset                               -- handler error / unsupported: the stream is reset
  | none                                -- handled, no response message (ADD_PROVIDER)
  | msg (type : MsgType) (echoKey : Bool) (hasRecord : Bool) (closer : List OutPeer) (provs : List OutPeer)
  deriving Repr

/-- `boundPeerRecordAddrs` on an address list (sizes only matter) -/
def boundList (idLen conn : Nat) (as : List Addr) : List Addr :=
  as.take (keepAddrs maxPeerRecordSize (fixedSize ⟨idLen, [], conn⟩) (as.map (·.len))).length

def mkOut (idLen : Nat) (p : Peer) (as : List Addr) : OutPeer :=
  let b := boundList idLen 0 as
  ⟨p, b, b.length < as.length⟩

def toOut (idLen : Nat) (addrsOf : Peer → List Addr) (p : Peer) : OutPeer := mkOut idLen p (addrsOf p)

/-- the effect on the provider store: which (provider, addresses) pairs get stored -/
abbrev Stored := List (Peer × List Addr)

/-- `handleNewMessage` for one request: response and store effect -/
def handle (s : Srv) (from_ : Peer) (r : Req) : Resp × Stored :=
  if !s.serverMode then (.reset, []) else
  match r.type with
  | .findNode =>
    if r.keyLen == 0 then (.reset, []) else
    let closest := closerPeers s.self from_ s.K s.nearest
    let closest := match r.target with
      | some t => if closest.head? == some t then closest else t :: closest
      | none => closest     -- the key names no known peer: it is prepended but has no addresses
    let withAddrs := (closest.map (toOut s.idLen s.addrsOf)).filter fun o => !o.addrs.isEmpty
    (.msg .findNode false false withAddrs [], [])
  | .ping => (.msg .ping (r.keyLen != 0) r.hasRecord [] [], [])
  | .getValue =>
    if !s.values then (.reset, []) else
    if r.keyLen == 0 then (.reset, []) else
    (.msg .getValue true s.hasValue ((closerPeers s.self from_ s.K s.nearest).map (toOut s.idLen s.addrsOf)) [], [])
  | .putValue =>
    if !s.values then (.reset, []) else
    if r.keyLen == 0 then (.reset, []) else
    if !r.hasRecord then (.reset, []) else
    if !r.recordKeyMatches then (.reset, []) else
    if !r.recordAccepted then (.reset, []) else
    (.msg .putValue true true [] [], [])
  | .addProvider =>
    if !s.providers then (.reset, []) else
    if r.keyLen > 80 || r.keyLen == 0 then (.reset, []) else
    -- ingress: every record is bounded to 8 KiB, then its addresses are decoded (invalid ones dropped)
    let decoded := r.providers.map fun pr => (pr.id, (boundList s.idLen 0 pr.addrs).filter (·.valid))
    let accepted := decoded.filter fun pr => pr.1 == from_ && pr.2.length ≥ 1
    let stored := accepted.map fun pr => (pr.1, pr.2.filter (·.passes))
    if stored.isEmpty then (.reset, []) else (.none, stored)
  | .getProviders =>
    if !s.providers then (.reset, []) else
    if r.keyLen > 80 || r.keyLen == 0 then (.reset, []) else
    let closer := (closerPeers s.self from_ s.K s.nearest).map (toOut s.idLen s.addrsOf)
    let provs := s.storedProviders.map fun p => mkOut s.idLen p ((s.addrsOf p).filter (·.passes))
    (.msg .getProviders true false closer provs, [])
  | .unknown _ => (.reset, [])

end KadDHT.Server

/-
  Model of the provider search: routing.go `findProvidersAsyncRoutine` — `psTryAdd` (dedup + count cap +
  "repeat only to add addresses"), the local-first loop with early return, the per-response loop with stop.
  Core Lean only.
-/
namespace KadDHT.ProvSearch

/-- a provider as named in an answer: peer and whether the answer carries addresses for it -/
structure Prov where
  id : Nat
  hasAddrs : Bool
  deriving Repr, DecidableEq

structure St where
  /-- `ps`: the providers accepted so far with the address flag of the accepted entry -/
  ps : List Prov := []
  /-- everything sent on the result channel, in order -/
  yielded : List Prov := []
  deriving Repr, DecidableEq

/-- `psTryAdd` (count 0 = find all) -/
def tryAdd (count : Nat) (s : St) (p : Prov) : St × Bool :=
  let findAll := count == 0
  let room := s.ps.length < count || findAll
  match s.ps.find? (·.id == p.id) with
  | none =>
    if room then ({ ps := s.ps ++ [p], yielded := s.yielded ++ [p] }, true) else (s, false)
  | some old =>
    if !old.hasAddrs && p.hasAddrs && room then
      ({ ps := s.ps.map (fun q => if q.id == p.id then p else q), yielded := s.yielded ++ [p] }, true)
    else (s, false)

def full (count : Nat) (s : St) : Bool := count != 0 && s.ps.length ≥ count

/-- the loop over one list of providers (the local ones, or one response): stop as soon as the count is reached -/
def addAll (count : Nat) : St → List Prov → St
  | s, [] => s
  | s, p :: ps =>
    let s' := (tryAdd count s p).1
    if full count s' then s' else addAll count s' ps

/-- a whole search: local providers, then the processed answers in order; once full nothing more is processed
    (`stopFn`; answers still in flight go through `psTryAdd`, which refuses them) -/
def search (count : Nat) (localProvs : List Prov) (answers : List (List Prov)) : St :=
  answers.foldl (fun s a => if full count s then s else addAll count s a) (addAll count {} localProvs)

end KadDHT.ProvSearch

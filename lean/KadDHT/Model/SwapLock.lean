/-
  The lock protocol around the three tables of the accelerated client (fullrt/dht.go): the trie `rt`, the key->peer map
  and the peer->addresses map, each under its own RWMutex.  `GetClosestPeers` takes the three read locks in the order
  rtLk, kMapLk, peerAddrsLk and holds them to the end; the crawler swaps the result of a finished crawl in.

  A table's content is abstracted to the number of the crawl it came from.  Readers are numbered by naturals, any number
  of them; an RWMutex grants a read lock unless a writer holds it and the write lock when nobody holds it (fairness and
  writer preference only remove interleavings).  Core Lean only.
-/
namespace KadDHT.SwapLock

structure S where
  rt : Nat := 0
  km : Nat := 0
  ad : Nat := 0
  /-- the crawl being swapped in -/
  next : Nat := 1
  /-- writer: how far it is (meaning depends on the protocol) -/
  wpc : Nat := 0
  /-- reader `t`: 0 = holds nothing, 1 = holds rtLk, 2 = rtLk + kMapLk, 3 = all three -/
  rpc : Nat → Nat := fun _ => 0
  /-- what reader `t` last read: (rt, keyToPeerMap, peerAddrs) -/
  seen : Nat → Option (Nat × Nat × Nat) := fun _ => none

def setR (f : Nat → α) (t : Nat) (v : α) : Nat → α := fun u => if u = t then v else f u

/-- the reader side, common to both writers: `wHolds i` = the writer holds the i-th lock (1 = rtLk, 2 = kMapLk,
    3 = peerAddrsLk) -/
inductive RStep (wHolds : S → Nat → Prop) : S → S → Prop where
  | acq (s : S) (t : Nat) (h : s.rpc t < 3) (hfree : ¬ wHolds s (s.rpc t + 1)) :
      RStep wHolds s { s with rpc := setR s.rpc t (s.rpc t + 1) }
  | read (s : S) (t : Nat) (h : s.rpc t = 3) :
      RStep wHolds s { s with rpc := setR s.rpc t 0, seen := setR s.seen t (some (s.rt, s.km, s.ad)) }

/-- the repaired writer: takes rtLk, kMapLk, peerAddrsLk (wpc = 1, 2, 3 = number of locks held), then assigns
    peerAddrs (wpc = 4), keyToPeerMap (5) and rt, and releases everything (back to 0); every assignment is a step of its
    own, so the tables do disagree while it works -/
def holdsNew (s : S) (i : Nat) : Prop := i ≤ s.wpc

inductive StepNew : S → S → Prop where
  | reader (s s' : S) (h : RStep holdsNew s s') : StepNew s s'
  | wacq (s : S) (h : s.wpc < 3) (hfree : ∀ t, s.rpc t < s.wpc + 1) : StepNew s { s with wpc := s.wpc + 1 }
  | wAddrs (s : S) (h : s.wpc = 3) : StepNew s { s with ad := s.next, wpc := 4 }
  | wMap (s : S) (h : s.wpc = 4) : StepNew s { s with km := s.next, wpc := 5 }
  | wRt (s : S) (h : s.wpc = 5) : StepNew s { s with rt := s.next, next := s.next + 1, wpc := 0 }

/-- the writer as it was: three separate critical sections, peerAddrs, then keyToPeerMap, then rt
    (wpc = how many of them are done); each holds its one lock only while it assigns -/
def holdsOld (_ : S) (_ : Nat) : Prop := False

inductive StepOld : S → S → Prop where
  | reader (s s' : S) (h : RStep holdsOld s s') : StepOld s s'
  | wAddrs (s : S) (h : s.wpc = 0) (hfree : ∀ t, s.rpc t < 3) : StepOld s { s with ad := s.next, wpc := 1 }
  | wMap (s : S) (h : s.wpc = 1) (hfree : ∀ t, s.rpc t < 2) : StepOld s { s with km := s.next, wpc := 2 }
  | wRt (s : S) (h : s.wpc = 2) (hfree : ∀ t, s.rpc t < 1) :
      StepOld s { s with rt := s.next, next := s.next + 1, wpc := 0 }

inductive Reach (step : S → S → Prop) : S → Prop where
  | init : Reach step {}
  | step (s s' : S) (h : Reach step s) (hs : step s s') : Reach step s'

end KadDHT.SwapLock

/-
  Model of the value search: pb/protocol_messenger.go `GetValue` + the query function of routing.go
  `getValues` (admission of a response's record), `processValues` + `searchValueQuorum` (selection, streaming,
  quorum), `GetValue` (final answer).  A value is `(rank, payload)`; the validator's `Select` is induced by the
  rank (higher wins, the earlier value keeps ties) — true of the /pk and /ipns validators and of the test
  validator.  Core Lean only.
-/
namespace KadDHT.ValueSearch

structure Val where
  rank : Nat
  payload : Nat
  deriving Repr, DecidableEq

/-- what a responder's answer carries for the requested key -/
inductive Rec where
  | none                      -- no record
  | nilValue                  -- a record without a value
  | miskeyed                  -- a record for another key
  | value (v : Val) (valid : Bool)
  deriving Repr, DecidableEq

/-- outcome of one response for the value search: the request counts as failed (peer unreachable),
    or succeeded with possibly an admitted value -/
inductive Admit where
  | requestFails
  | nothing
  | admitted (v : Val)
  deriving Repr, DecidableEq

/-- `ProtocolMessenger.GetValue` (key check) + the query function (nil value, validation) -/
def admitRec : Rec → Admit
  | .none => .nothing
  | .nilValue => .nothing
  | .miskeyed => .requestFails
  | .value v valid => if valid then .admitted v else .nothing

/-- `Validator.Select(key, [best, v]) == 1` -/
def better (best v : Val) : Bool := v.rank > best.rank

structure PState where
  best : Option Val := none
  /-- peers that returned the current best value -/
  withBest : List Nat := []
  emitted : List Val := []
  numResponses : Nat := 0
  aborted : Bool := false
  deriving Repr, DecidableEq

/-- `processValues` + `searchValueQuorum` for one received value from peer `from_` -/
def receive (quorum : Nat) (s : PState) (from_ : Nat) (v : Val) : PState :=
  if s.aborted then s else
  let n := s.numResponses + 1
  let ab := quorum > 0 && n > quorum
  match s.best with
  | none => { best := some v, withBest := [from_], emitted := s.emitted ++ [v], numResponses := n, aborted := ab }
  | some b =>
    if b == v then { s with withBest := s.withBest ++ [from_], numResponses := n, aborted := ab }
    else if better b v then
      { best := some v, withBest := [from_], emitted := s.emitted ++ [v], numResponses := n, aborted := ab }
    else { s with numResponses := n, aborted := ab }

def run (quorum : Nat) (vals : List (Nat × Val)) : PState :=
  vals.foldl (fun s x => receive quorum s x.1 x.2) {}

/-- `GetValue`: the last streamed value, or not-found -/
def finalValue (s : PState) : Option Val := s.emitted.getLast?

end KadDHT.ValueSearch

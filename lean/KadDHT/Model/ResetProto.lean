/-
  The reset protocol of the resettable keystore (provider/keystore/resettable_keystore.go) as a small-step system, for
  the fault-free path: `ResetCids` runs on a goroutine of its own and fills the alternate slot, Puts keep arriving on the
  worker meanwhile (each applied to the active slot and remembered in the buffer), the buffer is drained into the
  alternate slot in two steps (takeBuf, then the write), and `opCleanup` — on the worker, hence atomic with respect to
  Puts — drains what is left and swaps the slots.  Any number of Puts and drains, in any interleaving.
  (Back-pressure on a full buffer only delays a Put; it removes interleavings.)  Core Lean only.
-/
namespace KadDHT.ResetProto

structure S where
  act : List Nat := []            -- keys in the active slot
  alt : List Nat := []            -- keys in the alternate slot
  buf : List Nat := []            -- keys put since the last takeBuf
  held : List Nat := []           -- taken from the buffer, not yet written to the alternate slot
  inReset : Bool := false
  pending : List Nat := []        -- supplied keys not yet written
  /-- ghost: keys whose Put was acknowledged since the reset started -/
  acked : List Nat := []
  /-- ghost: the keys supplied to the reset -/
  supplied : List Nat := []
  done : Bool := false

inductive Step : S → S → Prop where
  /-- a Put on the worker: active slot, and the buffer while a reset is in progress -/
  | put (s : S) (k : Nat) :
      Step s { s with act := k :: s.act, buf := if s.inReset then k :: s.buf else s.buf,
                      acked := if s.inReset then k :: s.acked else s.acked }
  /-- opStart (worker): the alternate slot is emptied, buffering begins -/
  | start (s : S) (keys : List Nat) (h : s.inReset = false) :
      Step s { s with alt := [], buf := [], held := [], inReset := true, pending := keys, supplied := keys, acked := [], done := false }
  /-- Phase A: a batch of supplied keys is written -/
  | write (s : S) (n : Nat) (h : s.inReset = true) :
      Step s { s with alt := s.pending.take n ++ s.alt, pending := s.pending.drop n }
  /-- takeBuf -/
  | take (s : S) (h : s.inReset = true) (hh : s.held = []) : Step s { s with held := s.buf, buf := [] }
  /-- … and the write of what was taken -/
  | flush (s : S) (h : s.inReset = true) : Step s { s with alt := s.held ++ s.alt, held := [] }
  /-- opCleanup after a successful run (worker): final drain, swap -/
  | cleanup (s : S) (h : s.inReset = true) (hp : s.pending = []) (hh : s.held = []) :
      Step s { s with act := s.buf ++ s.alt, alt := s.act, buf := [], inReset := false, done := true }

inductive Reach : S → Prop where
  | init (keys : List Nat) : Reach { act := keys }
  | step (s s' : S) (h : Reach s) (hs : Step s s') : Reach s'

end KadDHT.ResetProto

/-
  C17 — the sweeping provider advertises every key to its closest peers, on schedule  (PARTIAL).

  What is proved here is the decision logic the end-to-end obligation rests on: the cycle arithmetic (a timer
  programmed with `timeBetween` fires within one interval and lands exactly on the target offset; a prefix's slot lies
  inside the cycle, and the slot of an extension lies inside its parent's slot, which is what keeps a region's
  reprovide time stable across splits and merges), and the buffered wrapper's coalescing (for every list of queued
  operations the keys kept for reproviding after the batched execution equal those after one-by-one execution).
  The full statement — every key kept for reproviding is re-advertised to its then-nearest r peers at least once per
  interval + allowed delay, through swarm growth and shrinkage, outages and restarts, for every worker configuration
  that keeps up — is NOT a theorem: it is monitored on the real SweepingProvider over generated multi-cycle histories
  in virtual time (see DESIGN.md §4 C17).
-/
import KadDHT.Model.Sched
import KadDHT.Proofs.Bits
import KadDHT.Model.Schedule
import KadDHT.Generated.Facts
import KadDHT.Model.SchedT
namespace KadDHT.C17
open KadDHT KadDHT.Sched

/-! ### cycle arithmetic -/

/-- the delay programmed until an offset is between one tick and one whole interval -/
theorem timeBetween_range (I from_ to : Nat) (hI : I > 0) : 1 ≤ timeBetween I from_ to ∧ timeBetween I from_ to ≤ I := by
  unfold timeBetween
  have := Nat.mod_lt (to + I - 1 - from_) hI
  omega

/-- … and the timer lands exactly on the target offset of the cycle -/
theorem timeBetween_lands (I from_ to : Nat) (hI : I > 0) (hf : from_ < I) :
    (from_ + timeBetween I from_ to) % I = to % I := by
  unfold timeBetween
  have hx : to + I - 1 - from_ + 1 + from_ = to + I := by omega
  calc (from_ + ((to + I - 1 - from_) % I + 1)) % I
      = ((to + I - 1 - from_) % I + (1 + from_)) % I := by congr 1; omega
    _ = ((to + I - 1 - from_) + (1 + from_)) % I := by rw [Nat.mod_add_mod]
    _ = (to + I) % I := by congr 1; omega
    _ = to % I := Nat.add_mod_right to I

theorem valOf_append (l : List Bool) (b : Bool) : valOf (l ++ [b]) = 2 * valOf l + (if b then 1 else 0) := by
  simp [valOf, List.foldl_append]

theorem foldl_val_bound : ∀ (l : List Bool) (acc : Nat),
    l.foldl (fun acc b => 2 * acc + (if b then 1 else 0)) acc + 1 ≤ (acc + 1) * 2 ^ l.length
  | [], acc => by simp
  | b :: l, acc => by
    simp only [List.foldl_cons, List.length_cons, Nat.pow_succ]
    have := foldl_val_bound l (2 * acc + (if b then 1 else 0))
    have hb : (if b then (1 : Nat) else 0) ≤ 1 := by split <;> omega
    calc _ ≤ (2 * acc + (if b then 1 else 0) + 1) * 2 ^ l.length := this
      _ ≤ (2 * (acc + 1)) * 2 ^ l.length := Nat.mul_le_mul_right _ (by omega)
      _ = (acc + 1) * (2 ^ l.length * 2) := by rw [Nat.mul_comm 2, Nat.mul_assoc, Nat.mul_comm 2]

theorem valOf_lt (l : List Bool) : valOf l < 2 ^ l.length := by
  have := foldl_val_bound l 0
  simp only [Nat.zero_add, Nat.one_mul] at this
  exact this

theorem kxor_length : ∀ (a b : Key), (kxor a b).length = min a.length b.length
  | [], _ => by simp [kxor]
  | _ :: _, [] => by simp [kxor]
  | x :: a, y :: b => by simp [kxor, kxor_length a b]

/-- a prefix's reprovide time lies inside the cycle -/
theorem slot_lt_interval (I : Nat) (order pfx : Key) (hI : I > 0) (ho : pfx.length ≤ order.length) : slot I order pfx < I := by
  unfold slot
  have hl : (kxor pfx (order.take pfx.length)).length = pfx.length := by
    rw [kxor_length, List.length_take]; omega
  have hv := valOf_lt (kxor pfx (order.take pfx.length))
  rw [hl] at hv
  have hp : 2 ^ pfx.length > 0 := Nat.two_pow_pos pfx.length
  apply Nat.div_lt_of_lt_mul
  calc I * valOf (kxor pfx (order.take pfx.length)) < I * 2 ^ pfx.length := Nat.mul_lt_mul_of_pos_left hv hI
    _ = 2 ^ pfx.length * I := Nat.mul_comm _ _

theorem kxor_append_singleton : ∀ (p o : Key) (b c : Bool), p.length = o.length →
    kxor (p ++ [b]) (o ++ [c]) = kxor p o ++ [b != c]
  | [], [], _, _, _ => rfl
  | [], _ :: _, _, _, h => by simp at h
  | _ :: _, [], _, _, h => by simp at h
  | x :: p, y :: o, b, c, h => by
    simp only [List.cons_append, kxor, List.cons.injEq, true_and]
    exact kxor_append_singleton p o b c (by simpa using h)

/-- the slot of a one-bit extension lies inside the slot of its parent: splitting or merging regions moves a key's
    reprovide time by less than the parent's slot width -/
theorem slot_of_extension_within_parent_slot (I : Nat) (order pfx : Key) (b : Bool) (ho : pfx.length < order.length) :
    slot I order pfx ≤ slot I order (pfx ++ [b]) ∧
    slot I order (pfx ++ [b]) ≤ I * (valOf (kxor pfx (order.take pfx.length)) + 1) / 2 ^ pfx.length := by
  have hsplit : order.take (pfx.length + 1) = order.take pfx.length ++ [order[pfx.length]] := by
    rw [List.take_add_one]; simp [List.getElem?_eq_getElem ho]
  have hk : kxor (pfx ++ [b]) (order.take (pfx ++ [b]).length) =
      kxor pfx (order.take pfx.length) ++ [b != order[pfx.length]] := by
    rw [List.length_append, List.length_singleton, hsplit]
    exact kxor_append_singleton _ _ _ _ (by rw [List.length_take]; omega)
  unfold slot
  rw [hk, valOf_append, List.length_append, List.length_singleton, Nat.pow_succ]
  generalize valOf (kxor pfx (order.take pfx.length)) = v
  have he : (if (b != order[pfx.length]) = true then (1 : Nat) else 0) ≤ 1 := by split <;> omega
  have hp : 2 ^ pfx.length > 0 := Nat.two_pow_pos pfx.length
  constructor
  · calc I * v / 2 ^ pfx.length = (I * v * 2) / (2 ^ pfx.length * 2) := (Nat.mul_div_mul_right _ _ (by omega)).symm
      _ ≤ I * (2 * v + (if (b != order[pfx.length]) = true then 1 else 0)) / (2 ^ pfx.length * 2) := by
        apply Nat.div_le_div_right
        rw [Nat.mul_assoc, Nat.mul_comm v 2]
        exact Nat.mul_le_mul_left _ (by omega)
  · calc I * (2 * v + (if (b != order[pfx.length]) = true then 1 else 0)) / (2 ^ pfx.length * 2)
        ≤ I * ((v + 1) * 2) / (2 ^ pfx.length * 2) := by
          apply Nat.div_le_div_right
          exact Nat.mul_le_mul_left _ (by omega)
      _ = I * (v + 1) * 2 / (2 ^ pfx.length * 2) := by rw [Nat.mul_assoc]
      _ = I * (v + 1) / 2 ^ pfx.length := Nat.mul_div_mul_right _ _ (by omega)

/-! ### buffered coalescing -/

/-- is `k` kept after the operations, starting from `init`? decided by the last start / stop of `k` -/
def keptAfter (init : Bool) (ops : List Op) (k : Nat) : Bool :=
  ops.foldl (fun acc o => match o with
    | .start _ k' => if k' == k then true else acc
    | .stop k' => if k' == k then false else acc
    | .once _ => acc) init

theorem mem_apply (s : List Nat) (o : Op) (k : Nat) :
    k ∈ apply s o ↔ (match o with
      | .start _ k' => if k' == k then True else k ∈ s
      | .stop k' => if k' == k then False else k ∈ s
      | .once _ => k ∈ s) := by
  cases o with
  | start f k' =>
    simp only [apply]
    by_cases hk : k' = k
    · subst hk
      simp only [beq_self_eq_true, ↓reduceIte, iff_true]
      split
      · rename_i h; simpa using h
      · simp
    · have : (k' == k) = false := by simpa using hk
      simp only [this, Bool.false_eq_true, ↓reduceIte]
      split
      · exact Iff.rfl
      · simp only [List.mem_append, List.mem_singleton]
        exact ⟨fun h => h.elim id (fun e => absurd e.symm hk), Or.inl⟩
  | stop k' =>
    simp only [apply, List.mem_filter, bne_iff_ne, ne_eq]
    by_cases hk : k' = k
    · subst hk; simp
    · have : (k' == k) = false := by simpa using hk
      simp only [this, Bool.false_eq_true, ↓reduceIte]
      exact ⟨fun h => h.1, fun h => ⟨h, fun e => hk e.symm⟩⟩
  | once k' => simp [apply]

theorem mem_sequential (ops : List Op) : ∀ (s : List Nat) (k : Nat), k ∈ sequential s ops ↔ keptAfter (s.contains k) ops k = true := by
  induction ops with
  | nil => intro s k; simp [sequential, keptAfter]
  | cons o os ih =>
    intro s k
    simp only [sequential, List.foldl_cons, keptAfter] at ih ⊢
    rw [ih (apply s o) k]
    have : (apply s o).contains k = (match o with
        | .start _ k' => if k' == k then true else s.contains k
        | .stop k' => if k' == k then false else s.contains k
        | .once _ => s.contains k) := by
      have h := mem_apply s o k
      cases o with
      | start f k' =>
        simp only at h ⊢
        by_cases hk : (k' == k) = true
        · simp only [hk, ↓reduceIte, iff_true] at h ⊢; simpa using h
        · have hk' : (k' == k) = false := by simpa using hk
          simp only [hk', Bool.false_eq_true, ↓reduceIte] at h ⊢
          cases hc : s.contains k <;> simp_all
      | stop k' =>
        simp only at h ⊢
        by_cases hk : (k' == k) = true
        · simp only [hk, ↓reduceIte, iff_false] at h ⊢; simpa using h
        · have hk' : (k' == k) = false := by simpa using hk
          simp only [hk', Bool.false_eq_true, ↓reduceIte] at h ⊢
          cases hc : s.contains k <;> simp_all
      | once k' =>
        simp only at h ⊢
        cases hc : s.contains k <;> simp_all
    rw [this]

theorem keptAfter_of_hasStart (ops : List Op) (k : Nat) (h : hasStart ops k = true) (a b : Bool) :
    keptAfter a ops k = keptAfter b ops k := by
  induction ops generalizing a b with
  | nil => simp [hasStart] at h
  | cons o os ih =>
    simp only [keptAfter, List.foldl_cons]
    cases o with
    | start f k' =>
      by_cases hk : (k' == k) = true
      · simp [hk]
      · have hk' : (k' == k) = false := by simpa using hk
        simp only [hk', Bool.false_eq_true, ↓reduceIte]
        exact ih (by simpa [hasStart, hk'] using h) a b
    | stop k' =>
      have hs : hasStart os k = true := by simpa [hasStart] using h
      by_cases hk : (k' == k) = true
      · simp [hk]
      · have hk' : (k' == k) = false := by simpa using hk
        simp only [hk', Bool.false_eq_true, ↓reduceIte]
        exact ih hs a b
    | once k' => exact ih (by simpa [hasStart] using h) a b

theorem keptAfter_false_of_no_start (ops : List Op) (k : Nat) (h : hasStart ops k = false) : keptAfter false ops k = false := by
  induction ops with
  | nil => rfl
  | cons o os ih =>
    simp only [keptAfter, List.foldl_cons]
    cases o with
    | start f k' =>
      have hk' : (k' == k) = false := by
        simp only [hasStart, List.any_cons, Bool.or_eq_false_iff] at h; exact h.1
      simp only [hk', Bool.false_eq_true, ↓reduceIte]
      exact ih (by simp only [hasStart, List.any_cons, Bool.or_eq_false_iff] at h; exact h.2)
    | stop k' =>
      have hs : hasStart os k = false := by simpa [hasStart] using h
      by_cases hk : (k' == k) = true
      · simp only [hk, ↓reduceIte]; exact ih hs
      · have hk' : (k' == k) = false := by simpa using hk
        simp only [hk', Bool.false_eq_true, ↓reduceIte]; exact ih hs
    | once k' => exact ih (by simpa [hasStart] using h)

/-- a stop survives `getOperations` exactly when the last start / stop of its key is a stop -/
theorem mem_stopsKept (ops : List Op) (k : Nat) : k ∈ stopsKept ops ↔ keptAfter true ops k = false := by
  induction ops with
  | nil => simp [stopsKept, keptAfter]
  | cons o os ih =>
    cases o with
    | start f k' =>
      simp only [stopsKept, keptAfter, List.foldl_cons]
      by_cases hk : (k' == k) = true
      · simp only [hk, ↓reduceIte]; exact ih
      · have hk' : (k' == k) = false := by simpa using hk
        simp only [hk', Bool.false_eq_true, ↓reduceIte]; exact ih
    | once k' => simp only [stopsKept, keptAfter, List.foldl_cons]; exact ih
    | stop k' =>
      simp only [stopsKept, keptAfter, List.foldl_cons]
      by_cases hk : k' = k
      · subst hk
        simp only [beq_self_eq_true, ↓reduceIte]
        split
        · rename_i hs
          rw [ih]
          rw [show (List.foldl _ false os) = keptAfter false os k' from rfl, keptAfter_of_hasStart os k' hs false true]
        · rename_i hany
          have hs : hasStart os k' = false := by simpa using hany
          simp only [List.mem_cons, true_or, true_iff]
          exact keptAfter_false_of_no_start os k' hs
      · have hk' : (k' == k) = false := by simpa using hk
        simp only [hk', Bool.false_eq_true, ↓reduceIte]
        split
        · exact ih
        · simp only [List.mem_cons, List.mem_filter, bne_iff_ne, ne_eq]
          constructor
          · rintro (h | ⟨h, _⟩)
            · exact absurd h.symm hk
            · exact ih.1 h
          · intro h; exact Or.inr ⟨ih.2 h, fun e => hk e.symm⟩

theorem mem_fold_stops (ks : List Nat) : ∀ (s : List Nat) (k : Nat),
    k ∈ ks.foldl (fun acc x => apply acc (.stop x)) s ↔ k ∈ s ∧ k ∉ ks := by
  induction ks with
  | nil => intro s k; simp
  | cons x xs ih =>
    intro s k
    simp only [List.foldl_cons]
    rw [ih, mem_apply]
    simp only [List.mem_cons, not_or]
    by_cases hx : (x == k) = true
    · have : x = k := by simpa using hx
      simp [hx, this]
    · have hx' : (x == k) = false := by simpa using hx
      have hne : ¬ k = x := fun e => by simp [e] at hx'
      simp [hx', hne]

theorem keptAfter_starts_only (ops : List Op) (hno : ∀ o ∈ ops, ∀ k', o ≠ .stop k') (init : Bool) (k : Nat) :
    keptAfter init ops k = (init || hasStart ops k) := by
  induction ops generalizing init with
  | nil => simp [keptAfter, hasStart]
  | cons o os ih =>
    have hno' : ∀ o ∈ os, ∀ k', o ≠ .stop k' := fun o ho => hno o (List.mem_cons_of_mem _ ho)
    simp only [keptAfter, List.foldl_cons]
    cases o with
    | start f k' =>
      by_cases hk : (k' == k) = true
      · simp only [hk, ↓reduceIte]
        rw [show List.foldl _ true os = keptAfter true os k from rfl, ih hno' true]
        simp [hasStart, hk]
      · have hk' : (k' == k) = false := by simpa using hk
        simp only [hk', Bool.false_eq_true, ↓reduceIte]
        rw [show List.foldl _ init os = keptAfter init os k from rfl, ih hno' init]
        simp [hasStart, hk']
    | stop k' => exact absurd rfl (hno _ (by simp) k')
    | once k' =>
      rw [show List.foldl _ init os = keptAfter init os k from rfl, ih hno' init]
      simp [hasStart]

/-- for every list of queued operations the keys kept for reproviding after the buffered wrapper's batched execution
    (forced starts, starts, provide-once, surviving stops) are exactly those after applying them one by one -/
theorem hasStart_stage (ops : List Op) (k : Nat) :
    hasStart (ops.filter isForced ++ ops.filter isStart ++ ops.filter isOnce) k = hasStart ops k := by
  simp only [hasStart, List.any_append, List.any_filter]
  induction ops with
  | nil => rfl
  | cons o os ih =>
    simp only [List.any_cons]
    rw [← ih]
    cases o with
    | start f k' => cases f <;> cases (k' == k) <;> simp [isForced, isStart, isOnce, Bool.or_assoc, Bool.or_comm, Bool.or_left_comm]
    | stop k' => simp [isForced, isStart, isOnce]
    | once k' => simp [isForced, isStart, isOnce]

theorem buffered_coalescing_same_final_effect (s : List Nat) (ops : List Op) (k : Nat) :
    k ∈ batched s ops ↔ k ∈ sequential s ops := by
  unfold batched
  rw [mem_fold_stops, mem_stopsKept, mem_sequential, mem_sequential]
  -- the first stage contains only starts and provide-once operations
  have hno : ∀ o ∈ (ops.filter isForced ++ ops.filter isStart ++ ops.filter isOnce), ∀ k', o ≠ .stop k' := by
    intro o ho k' he
    subst he
    simp [List.mem_append, List.mem_filter, isForced, isStart, isOnce] at ho
  rw [keptAfter_starts_only _ hno]
  have hstarts := hasStart_stage ops k
  rw [hstarts]
  by_cases hs : hasStart ops k = true
  · rw [keptAfter_of_hasStart ops k hs (s.contains k) true]
    simp [hs]
  · have hs' : hasStart ops k = false := by simpa using hs
    rw [hs', Bool.or_false]
    cases hc : s.contains k
    · simp [keptAfter_false_of_no_start ops k hs']
    · simp

/-! non-vacuity -/
example : timeBetween 100 90 10 = 20 ∧ timeBetween 100 10 10 = 100 := by decide
example : slot 1000 [false, true, true] [false, false] = 250 ∧ slot 1000 [false, true, true] [false, false, true] = 250 ∧ slot 1000 [false, true, true] [true] = 500 := by decide
example : batched [1] [.stop 1, .start false 2, .stop 2, .start true 1, .once 3, .stop 4] = [1] := by decide
example : sequential [1] [.stop 1, .start false 2, .stop 2, .start true 1, .once 3, .stop 4] = [1] := by decide

/-! ### the reprovide schedule: every kept key stays scheduled, and the schedule stays prefix-free -/

section schedule
open KadDHT.Schedule

def PrefixFree (S : Sched) : Prop := S.Pairwise fun a b => isPre a b = false ∧ isPre b a = false

theorem covered_iff (S : Sched) (k : Key) : covered S k = true ↔ ∃ q ∈ S, isPre q k = true := by
  simp [covered, List.any_eq_true]

/-- scheduling a prefix never takes a key out of the schedule, and puts every key below the prefix into it -/
theorem schedule_covers (S : Sched) (p k : Key) :
    (covered S k = true → covered (schedule S p) k = true) ∧ (isPre p k = true → covered (schedule S p) k = true) := by
  unfold schedule
  split
  · rename_i h
    refine ⟨id, ?_⟩
    intro hpk
    obtain ⟨q, hq, hqp⟩ := List.any_eq_true.1 h
    exact (covered_iff S k).2 ⟨q, hq, isPre_trans hqp hpk⟩
  · constructor
    · intro hc
      obtain ⟨q, hq, hqk⟩ := (covered_iff S k).1 hc
      rw [covered_iff]
      by_cases hpq : isPre p q = true
      · exact ⟨p, by simp, isPre_trans hpq hqk⟩
      · exact ⟨q, List.mem_append.2 (Or.inl (List.mem_filter.2 ⟨hq, by simpa using hpq⟩)), hqk⟩
    · intro hpk
      exact (covered_iff _ k).2 ⟨p, by simp, hpk⟩

theorem schedule_prefixFree (S : Sched) (p : Key) (h : PrefixFree S) : PrefixFree (schedule S p) := by
  unfold schedule
  split
  · exact h
  · rename_i hno
    unfold PrefixFree unscheduleSubsumed
    rw [List.pairwise_append]
    refine ⟨h.sublist List.filter_sublist, by simp, ?_⟩
    intro q hq x hx
    simp only [List.mem_singleton] at hx
    subst hx
    have hq' := List.mem_filter.1 hq
    refine ⟨?_, by simpa using hq'.2⟩
    -- q is not a prefix of x: no scheduled prefix covered x
    cases hqx : isPre q x with
    | false => rfl
    | true => exact absurd (List.any_eq_true.2 ⟨q, hq'.1, hqx⟩) hno

theorem foldl_schedule_covers (rs : List Key) : ∀ (S : Sched) (k : Key),
    (covered S k = true ∨ ∃ r ∈ rs, isPre r k = true) → covered (rs.foldl schedule S) k = true := by
  induction rs with
  | nil => intro S k h; rcases h with h | ⟨_, hr, _⟩; exact h; cases hr
  | cons r rs ih =>
    intro S k h
    simp only [List.foldl_cons]
    apply ih
    rcases h with h | ⟨r', hr', hrk⟩
    · exact Or.inl ((schedule_covers S r k).1 h)
    · rcases List.mem_cons.1 hr' with rfl | hr'
      · exact Or.inl ((schedule_covers S r' k).2 hrk)
      · exact Or.inr ⟨r', hr', hrk⟩

theorem foldl_schedule_prefixFree (rs : List Key) : ∀ (S : Sched), PrefixFree S → PrefixFree (rs.foldl schedule S) := by
  induction rs with
  | nil => intro S h; exact h
  | cons r rs ih => intro S h; exact ih _ (schedule_prefixFree S r h)

/-- A batch reprovide keeps every kept key scheduled: a key outside the covered prefix keeps its scheduled prefix, and a
    key below it is covered again by its region — every key below the covered prefix lies in exactly one region
    (C18 `assign_exactly_one`), and a region that holds a kept key is a region with keys, hence rescheduled. -/
theorem batchReprovide_keeps_covered (S : Sched) (c : Key) (regions : List Key) (k : Key)
    (hk : covered S k = true) (hreg : isPre c k = true → ∃ r ∈ regions, isPre r k = true) :
    covered (batchReprovide S c regions) k = true := by
  unfold batchReprovide
  apply foldl_schedule_covers
  by_cases hck : isPre c k = true
  · exact Or.inr (hreg hck)
  · left
    obtain ⟨q, hq, hqk⟩ := (covered_iff S k).1 hk
    refine (covered_iff _ k).2 ⟨q, List.mem_filter.2 ⟨hq, ?_⟩, hqk⟩
    cases hcq : isPre c q with
    | false => rfl
    | true => exact absurd (isPre_trans hcq hqk) hck

theorem batchReprovide_prefixFree (S : Sched) (c : Key) (regions : List Key) (h : PrefixFree S) :
    PrefixFree (batchReprovide S c regions) :=
  foldl_schedule_prefixFree regions _ (h.sublist List.filter_sublist)

/-- The repaired individual reprovide does not touch the schedule at all: the scheduled prefix `p` covers whatever the
    lookup covered below it. -/
theorem individualReprovide_keeps_schedule (S : Sched) (p c : Key) (hp : p ∈ S) (hpc : c.length ≥ p.length → isPre p c = true) :
    individualReprovide S p c = S := by
  unfold individualReprovide schedule
  split
  · rename_i hl
    have : (S.any (isPre · c)) = true := List.any_eq_true.2 ⟨p, hp, hpc hl⟩
    simp only [this, ↓reduceIte]
  · have : (S.any (isPre · p)) = true := List.any_eq_true.2 ⟨p, hp, isPre_refl p⟩
    simp only [this, ↓reduceIte]

/-- As it was (F20): reproviding the one key of `11` when the lookup covers `1` drops the sibling `10` from the schedule,
    although nothing below `10` was reprovided; its keys wait for the slot of `1`. -/
theorem individualReprovideLegacy_drops_sibling :
    individualReprovideLegacy [[true, true], [true, false], [false, true]] [true, true] [true] = [[false, true], [true]] := by
  decide

example : individualReprovide [[true, true], [true, false], [false, true]] [true, true] [true] =
    [[true, true], [true, false], [false, true]] := by decide
example : PrefixFree [[true, true], [true, false], [false, true]] := by simp [PrefixFree, isPre]
example : batchReprovide [[true, true], [true, false], [false, true]] [true] [[true]] = [[false, true], [true]] := by decide

end schedule

/-! ### slots that must not be lost (findings F24 and F25) -/

/-- F24 repaired: after a start, whatever the rebuilt schedule looks like, the keys of a region last reprovided at `ts`
    are advertised again no later than one interval plus the allowed delay after `ts` — or at once, if that instant
    has already passed -/
theorem startup_gap_bounded (I D now ts untilDue : Nat) :
    nextAdvert (recentRepaired I D now ts untilDue) now untilDue ≤ max now (ts + I + D) := by
  unfold nextAdvert recentRepaired
  by_cases h : now + untilDue ≤ ts + I + D
  · simp [h]; omega
  · simp [h]; omega

/-- F24 as it was: an entry younger than one interval always counted as recent, and its keys could wait for a slot
    almost two intervals after their last advertisement (the instants of corpus case f24-restart-coarser-region:
    interval 3600 s, delay 300 s, last advertised at 7425 s, restarted at 10926 s, the coarser region due at 14400 s) -/
theorem startup_legacy_gap :
    ∃ I D now ts untilDue, untilDue ≤ I ∧ ts ≤ now ∧ recentLegacy I now ts = true ∧
      nextAdvert (recentLegacy I now ts) now untilDue > ts + I + D + I / 2 :=
  ⟨3600, 300, 10926, 7425, 3474, by decide⟩

theorem takeOver_fold (I cur : Nat) : ∀ (subs : List Nat) (own : Nat),
    timeBetween I cur (takeOver I cur own subs) ≤ timeBetween I cur own ∧
    ∀ t ∈ subs, timeBetween I cur (takeOver I cur own subs) ≤ timeBetween I cur t := by
  intro subs
  induction subs with
  | nil => intro own; simp [takeOver]
  | cons t rest ih =>
    intro own
    have hstep : takeOver I cur own (t :: rest) =
        takeOver I cur (if timeBetween I cur t < timeBetween I cur own then t else own) rest := by
      simp [takeOver]
    rw [hstep]
    have ⟨h1, h2⟩ := ih (if timeBetween I cur t < timeBetween I cur own then t else own)
    by_cases hlt : timeBetween I cur t < timeBetween I cur own
    · simp only [hlt, if_true] at h1 h2 ⊢
      refine ⟨by omega, ?_⟩
      intro u hu
      cases List.mem_cons.mp hu with
      | inl h => subst h; exact h1
      | inr h => exact h2 u h
    · simp only [hlt, if_false] at h1 h2 ⊢
      refine ⟨h1, ?_⟩
      intro u hu
      cases List.mem_cons.mp hu with
      | inl h => subst h; omega
      | inr h => exact h2 u h

/-- F25 repaired: a prefix scheduled for new keys is due no later than its own slot and no later than any of the
    scheduled regions it subsumes was: no key of those regions is advertised later because of the merge -/
theorem takeOver_not_later (I cur own : Nat) (subs : List Nat) :
    timeBetween I cur (takeOver I cur own subs) ≤ timeBetween I cur own ∧
    ∀ t ∈ subs, timeBetween I cur (takeOver I cur own subs) ≤ timeBetween I cur t :=
  takeOver_fold I cur subs own

/-- … and the slot it gets is its own or one of theirs -/
theorem takeOver_mem (I cur : Nat) : ∀ (subs : List Nat) (own : Nat), takeOver I cur own subs = own ∨ takeOver I cur own subs ∈ subs := by
  intro subs
  induction subs with
  | nil => intro own; simp [takeOver]
  | cons t rest ih =>
    intro own
    have hstep : takeOver I cur own (t :: rest) =
        takeOver I cur (if timeBetween I cur t < timeBetween I cur own then t else own) rest := by
      simp [takeOver]
    rw [hstep]
    by_cases hlt : timeBetween I cur t < timeBetween I cur own
    · simp only [hlt, if_true]
      cases ih t with
      | inl h => right; rw [h]; exact List.mem_cons_self
      | inr h => right; exact List.mem_cons_of_mem _ h
    · simp only [hlt, if_false]
      cases ih own with
      | inl h => left; exact h
      | inr h => right; exact List.mem_cons_of_mem _ h

/-- F25 as it was (the prefix always got its own slot): the instants of corpus case f25: interval 3600 s, key 5 started at
    offset 1803 s under prefix 10 (slot 1800 s, just passed), which subsumed region 101 due at 2250 s — 447 s away
    instead of 3597 s -/
theorem own_slot_legacy_later :
    timeBetween 3600 1803 2250 = 447 ∧ timeBetween 3600 1803 1800 = 3597 ∧ takeOver 3600 1803 1800 [2250] = 2250 := by decide

/-! ### a kept key's timeline -/

/-- every step the repaired scheduler can take on the region of a kept key keeps the key's next slot within one
    interval plus the allowed delay of its last advertisement -/
theorem timeline_step_inv (I D : Nat) (s s' : TL) (h : TLInv I D s) (st : TStep I D s s') : TLInv I D s' := by
  obtain ⟨h1, h2, h3⟩ := h
  cases st with
  | wait t a b => exact ⟨by simp; omega, by simpa using b, by simpa using h3⟩
  | fire u a b c => exact ⟨by simp, by simp, by simp; omega⟩
  | early u a b => exact ⟨by simp, by simp, by simp; omega⟩
  | subsume cur own told subs hm hd =>
    have hle := (takeOver_not_later I cur own subs).2 told hm
    refine ⟨by simpa using h1, by simp, ?_⟩
    simp only
    omega
  | restart u a b =>
    by_cases hr : recentRepaired I D s.now s.last u = true
    · simp only [hr, if_true]
      have : s.now + u ≤ s.last + I + D := by simpa [recentRepaired] using hr
      exact ⟨h1, by simp, by simpa using this⟩
    · simp only [hr]
      exact ⟨by simp, by simp, by simp; omega⟩

/-- … hence in every state the scheduler can reach -/
theorem timeline_inv (I D : Nat) (s0 s : TL) (h0 : TLInv I D s0) (hr : TReach I D s0 s) : TLInv I D s := by
  induction hr with
  | refl => exact h0
  | step _ st ih => exact timeline_step_inv I D _ _ ih st

/-- C17's bound on the timeline: whenever the key is advertised again (at its slot, early, or caught up after a
    restart) no more than one interval plus the allowed delay has passed since its last advertisement — for every
    sequence of waits, slots, early reprovides, subsuming new prefixes and restarts -/
theorem gap_bounded (I D : Nat) (s0 s s' : TL) (h0 : TLInv I D s0) (hr : TReach I D s0 s) (st : TStep I D s s')
    (hadv : s'.last ≠ s.last) : s'.last ≤ s.last + I + D := by
  obtain ⟨h1, h2, h3⟩ := timeline_inv I D s0 s h0 hr
  cases st with
  | wait t a b => simp at hadv
  | fire u a b c => simp; omega
  | early u a b => simp; omega
  | subsume cur own told subs hm hd => simp at hadv
  | restart u a b =>
    by_cases hrc : recentRepaired I D s.now s.last u = true
    · simp [hrc] at hadv
    · simp only [hrc]; simp; omega

/-- the invariant survives outages -/
theorem ostep_inv (I D G : Nat) (s s' : TL) (h : TLInv I D s) (st : OStep I D G s s') : TLInv I D s' := by
  cases st with
  | base _ hb => exact timeline_step_inv I D s s' h hb
  | outage tEnd g u h1 hg hu1 hu2 =>
    obtain ⟨a, b, c⟩ := h
    by_cases hd : s.due ≤ tEnd + g
    · simp only [hd, if_true]; exact ⟨by simp, by simp, by simp; omega⟩
    · simp only [hd, if_false]
      exact ⟨by simp; omega, by simp; omega, by simpa using c⟩

/-- C17's bound with outages, as the monitor checks it: when the key is advertised again after the node was cut off
    until `tEnd`, that is no later than one interval plus the allowed delay after its last advertisement, or — if that
    fell due during the outage — the catch-up time `G` after the node was back -/
theorem gap_bounded_with_outage (I D G : Nat) (s : TL) (tEnd g u : Nat) (hg : g ≤ G) :
    let s' : TL := { now := tEnd + g, last := tEnd + g, due := tEnd + g + u }
    s'.last ≤ max (s.last + I + D) (tEnd + G) := by
  simp only
  omega

/-- the legacy rule for a subsuming prefix (always its own slot) breaks the invariant: the instants of corpus case f25 -/
theorem subsume_legacy_breaks_inv :
    TLInv 3600 300 { now := 9005, last := 5850, due := 9005 + timeBetween 3600 1803 2250 } ∧
    ¬ TLInv 3600 300 { now := 9005, last := 5850, due := 9005 + timeBetween 3600 1803 1800 } := by decide

/-- the premises are met: a concrete run — the key waits for its slot, is advertised there, and a restart 100 s before
    its next slot finds it recent enough to wait (the slot of the rebuilt region is 100 s away) -/
example : TLInv 3600 300 { now := 0, last := 0, due := 225 } ∧
    TReach 3600 300 { now := 0, last := 0, due := 225 } { now := 3725, last := 225, due := 3825 } := by
  refine ⟨by decide, ?_⟩
  have s1 : TReach 3600 300 { now := 0, last := 0, due := 225 } { now := 225, last := 0, due := 225 } :=
    .step .refl (.wait _ 225 (by decide) (by decide))
  have s2 : TReach 3600 300 { now := 0, last := 0, due := 225 } { now := 225, last := 225, due := 225 + 3600 } :=
    .step s1 (.fire _ 3600 rfl (by decide) (by decide))
  have s3 : TReach 3600 300 { now := 0, last := 0, due := 225 } { now := 3725, last := 225, due := 225 + 3600 } :=
    .step s2 (.wait _ 3725 (by decide) (by decide))
  have s4 := TReach.step s3 (TStep.restart (I := 3600) (D := 300) _ 100 (by decide) (by decide))
  simpa [recentRepaired] using s4

/-- the source still carries both repairs (regenerated from provider/provider.go on every run) -/
theorem fact_slot_repairs :
    "t.Add(s.reprovideInterval+s.maxReprovideDelay).Before(now.Add(s.timeUntilScheduled(key)))" ∈ Facts.loadRecentConds ∧
    "!justReprovided" ∈ Facts.schedulePrefixConds ∧
    "s.timeUntil(t)<s.timeUntil(nextReprovideTime)" ∈ Facts.schedulePrefixConds ∧
    "reprovide&&err==nil&&len(coveredPrefix)>=len(prefix)" ∈ Facts.individualProvideConds := by decide

end KadDHT.C17

/-! ### the schedule with its slots, and the reprovide history (model `KadDHT.SchedT`, compared call by call with the
    real functions by sibling harness C17u) -/
namespace KadDHT.C17
open KadDHT KadDHT.Sched KadDHT.Schedule KadDHT.SchedT

theorem map_filter_fst (S : Entries) (p : Key) :
    (S.filter fun e => !isPre p e.1).map (·.1) = (S.map (·.1)).filter fun q => !isPre p q := by
  induction S with
  | nil => rfl
  | cons e rest ih =>
    simp only [List.filter_cons, List.map_cons]
    by_cases hp : isPre p e.1 = true
    · simp [hp, ih]
    · simp [hp, ih]

/-- the timed schedule refines the set-level one: scheduling a prefix changes the set of scheduled prefixes exactly as
    `Schedule.schedule` does, so `schedule_covers` and `schedule_prefixFree` speak about the real schedule's keys -/
theorem schedulePrefix_keys (I D cur : Nat) (order : Key) (S : Entries) (p : Key) (just : Bool) :
    (schedulePrefix I D cur order S p just).map (·.1) = Schedule.schedule (S.map (·.1)) p := by
  unfold schedulePrefix Schedule.schedule unscheduleSubsumed
  have hany : (S.map (·.1)).any (isPre · p) = S.any (fun e => isPre e.1 p) := by
    simp [List.any_map, Function.comp_def]
  rw [hany]
  by_cases h : S.any (fun e => isPre e.1 p) = true
  · simp [h]
  · simp only [h, Bool.false_eq_true, if_false, List.map_append, List.map_cons, List.map_nil]
    rw [map_filter_fst]

/-- a prefix scheduled for new keys is due no later than any entry it replaces was -/
theorem schedulePrefix_not_later (I D cur : Nat) (order : Key) (S : Entries) (p : Key)
    (hnew : S.any (fun e => isPre e.1 p) = false) :
    ∃ t, (p, t) ∈ schedulePrefix I D cur order S p false ∧
      ∀ e ∈ S, isPre p e.1 = true → timeBetween I cur t ≤ timeBetween I cur e.2 := by
  refine ⟨takeOver I cur (slotT I order p) ((S.filter fun e => isPre p e.1).map (·.2)), ?_, ?_⟩
  · unfold schedulePrefix; simp [hnew]
  · intro e he hp
    apply (takeOver_not_later I cur (slotT I order p) _).2
    exact List.mem_map.mpr ⟨e, List.mem_filter.mpr ⟨he, hp⟩, rfl⟩

/-- … so the real schedule stays prefix-free and keeps every key covered, call after call -/
theorem schedulePrefix_prefixFree (I D cur : Nat) (order : Key) (S : Entries) (p : Key) (just : Bool)
    (h : PrefixFree (S.map (·.1))) : PrefixFree ((schedulePrefix I D cur order S p just).map (·.1)) := by
  rw [schedulePrefix_keys]; exact schedule_prefixFree _ p h

theorem schedulePrefix_covers (I D cur : Nat) (order : Key) (S : Entries) (p k : Key) (just : Bool)
    (h : covered (S.map (·.1)) k = true ∨ isPre p k = true) :
    covered ((schedulePrefix I D cur order S p just).map (·.1)) k = true := by
  rw [schedulePrefix_keys]
  rcases h with h | h
  · exact (schedule_covers _ p k).1 h
  · exact (schedule_covers _ p k).2 h

/-- the cap "current offset + interval + max delay" on the slot of a region that was just reprovided never binds: a slot
    is an offset inside the cycle (as written the code cannot delay a grown region's slot by less than its own slot) -/
theorem just_cap_never_binds (I D cur : Nat) (order p : Key) (hI : I > 0) (ho : maxPrefixSize ≤ order.length) :
    min (slotT I order p) (cur + I + D) = slotT I order p := by
  have : slotT I order p < I := by
    unfold slotT
    apply slot_lt_interval I order _ hI
    rw [List.length_take]; omega
  omega

theorem addRecent_mem (R : List Key) (q x : Key) (h : x ∈ addRecent R q) : x ∈ R ∨ x = q := by
  unfold addRecent at h
  split at h
  · exact .inl h
  · rcases List.mem_append.mp h with h | h
    · exact .inl (List.mem_filter.mp h).1
    · exact .inr (by simpa using h)

theorem loadRecent_fold (I D now cur : Nat) (S : Entries) (es : List (Nat × Key)) :
    ∀ (R : List Key) (x : Key),
      x ∈ es.foldl (fun R e => if recentRepaired I D now e.1 (untilScheduled I cur S e.2) then addRecent R e.2 else R) R →
      x ∈ R ∨ ∃ ts, (ts, x) ∈ es ∧ recentRepaired I D now ts (untilScheduled I cur S x) = true := by
  induction es with
  | nil => intro R x h; exact .inl h
  | cons e rest ih =>
    intro R x h
    simp only [List.foldl_cons] at h
    rcases ih _ x h with h1 | ⟨ts, hm, hr⟩
    · by_cases hc : recentRepaired I D now e.1 (untilScheduled I cur S e.2) = true
      · simp only [hc, if_true] at h1
        rcases addRecent_mem _ _ _ h1 with h2 | h2
        · exact .inl h2
        · subst h2; exact .inr ⟨e.1, List.mem_cons_self, hc⟩
      · simp only [hc] at h1; exact .inl h1
    · exact .inr ⟨ts, List.mem_cons_of_mem _ hm, hr⟩

/-- F24 on the function itself: every region `loadRecentlyReprovidedRegions` reports as recently reprovided has a
    history entry whose instant plus interval plus max delay is not before the instant at which the scheduled regions
    overlapping it are due — the keys of a region that is *not* handed to the catch-up queue can wait for their slot -/
theorem loadRecent_sound (I D now cur : Nat) (S : Entries) (h : Hist) (q : Key)
    (hq : q ∈ (loadRecent I D now cur S h).2) :
    ∃ ts, (ts, q) ∈ (gc I now h).entries ∧ now + untilScheduled I cur S q ≤ ts + I + D := by
  unfold loadRecent at hq
  rcases loadRecent_fold I D now cur S _ [] q hq with h0 | ⟨ts, hm, hr⟩
  · cases h0
  · exact ⟨ts, hm, by simpa [recentRepaired] using hr⟩

/-- the premises are met (and the repaired rule at work): region 0001 reprovided at 7425 s; at 10926 s the rebuilt
    schedule holds 000 at slot 0 (offset in the cycle 126 s): the entry is not recent; with the finer region still
    scheduled at its own slot 225 it is -/
example : (loadRecent 3600 300 10926 126 [([false, false, false], 0)] { entries := [(7425, [false, false, false, true])] }).2 = [] ∧
    (loadRecent 3600 300 10926 126 [([false, false, false, true], 225)] { entries := [(7425, [false, false, false, true])] }).2
      = [[false, false, false, true]] := by decide

end KadDHT.C17

/-! ### grouping keys by scheduled prefix (`groupAndScheduleKeysByPrefix`, model `SchedT.groupKeys`) -/
namespace KadDHT.C17
open KadDHT KadDHT.Sched KadDHT.Schedule KadDHT.SchedT

/-- every key of a group lies under the group's prefix, and every key met so far is in a group -/
def GInv (g : GSt) : Prop :=
  (∀ e ∈ g.groups, ∀ k ∈ e.2, isPre e.1 k = true) ∧ (∀ k ∈ g.seen, ∃ e ∈ g.groups, k ∈ e.2)

theorem isPre_take_self (k : Key) (n : Nat) : isPre (k.take n) k = true :=
  (isPre_iff_prefix _ _).2 (List.take_prefix n k)

theorem regroup_inv (g : GSt) (k pfx : Key) (h : GInv g) (hp : isPre pfx k = true) :
    GInv { g with seen := g.seen ++ [k],
                  groups := (g.groups.filter fun e => !isPre pfx e.1) ++
                    [(pfx, [k] ++ ((g.groups.filter fun e => isPre pfx e.1).map (·.2)).flatten)] } := by
  obtain ⟨h1, h2⟩ := h
  constructor
  · intro e he x hx
    rcases List.mem_append.mp he with he | he
    · exact h1 e (List.mem_filter.mp he).1 x hx
    · have : e = (pfx, [k] ++ ((g.groups.filter fun e => isPre pfx e.1).map (·.2)).flatten) := by simpa using he
      subst this
      rcases List.mem_append.mp hx with hx | hx
      · have : x = k := by simpa using hx
        subst this; exact hp
      · obtain ⟨l, hl, hxl⟩ := List.mem_flatten.mp hx
        obtain ⟨e', he', rfl⟩ := List.mem_map.mp hl
        have hf := List.mem_filter.mp he'
        exact isPre_trans (by simpa using hf.2) (h1 e' hf.1 x hxl)
  · intro x hx
    rcases List.mem_append.mp hx with hx | hx
    · obtain ⟨e, he, hxe⟩ := h2 x hx
      by_cases hb : isPre pfx e.1 = true
      · refine ⟨(pfx, [k] ++ ((g.groups.filter fun e => isPre pfx e.1).map (·.2)).flatten), by simp, ?_⟩
        apply List.mem_append_right
        exact List.mem_flatten.mpr ⟨e.2, List.mem_map.mpr ⟨e, List.mem_filter.mpr ⟨he, hb⟩, rfl⟩, hxe⟩
      · exact ⟨e, List.mem_append_left _ (List.mem_filter.mpr ⟨he, by simpa using hb⟩), hxe⟩
    · have : x = k := by simpa using hx
      subst this
      exact ⟨(pfx, [x] ++ ((g.groups.filter fun e => isPre pfx e.1).map (·.2)).flatten), by simp, by simp⟩

theorem groupKey_inv (I D cur cached : Nat) (valid doSched : Bool) (order : Key) (g : GSt) (k : Key) (h : GInv g) :
    GInv (groupKey I D cur cached valid doSched order g k) ∧ k ∈ (groupKey I D cur cached valid doSched order g k).seen := by
  unfold groupKey
  by_cases hs : g.seen.contains k = true
  · simp only [hs, if_true]; exact ⟨h, by simpa using hs⟩
  · simp only [hs]
    obtain ⟨h1, h2⟩ := h
    cases hf : g.groups.find? (fun e => isPre e.1 k) with
    | some e =>
      have hek : isPre e.1 k = true := by simpa using List.find?_some hf
      have hem : e ∈ g.groups := List.mem_of_find?_eq_some hf
      simp only [hf]
      refine ⟨⟨?_, ?_⟩, by simp⟩
      · intro x hx y hy
        obtain ⟨x0, hx0, rfl⟩ := List.mem_map.mp hx
        by_cases hq : (x0.1 == e.1) = true
        · simp only [hq, if_true] at hy ⊢
          rcases List.mem_append.mp hy with hy | hy
          · exact h1 x0 hx0 y hy
          · have : y = k := by simpa using hy
            subst this
            have : x0.1 = e.1 := by simpa using hq
            rw [this]; exact hek
        · simp only [hq] at hy ⊢; exact h1 x0 hx0 y hy
      · intro y hy
        rcases List.mem_append.mp hy with hy | hy
        · obtain ⟨x0, hx0, hyx⟩ := h2 y hy
          by_cases hq : (x0.1 == e.1) = true
          · exact ⟨(x0.1, x0.2 ++ [k]), List.mem_map.mpr ⟨x0, hx0, by simp [hq]⟩, List.mem_append_left _ hyx⟩
          · exact ⟨x0, List.mem_map.mpr ⟨x0, hx0, by simp [hq]⟩, hyx⟩
        · have : y = k := by simpa using hy
          subst this
          exact ⟨(e.1, e.2 ++ [y]), List.mem_map.mpr ⟨e, hem, by simp⟩, by simp⟩
    | none =>
      simp only [hf]
      cases hS : g.S.find? (fun e => isPre e.1 k) with
      | some e =>
        have hek : isPre e.1 k = true := by simpa using List.find?_some hS
        simp only [hS]
        exact ⟨regroup_inv _ k e.1 ⟨h1, h2⟩ hek, by simp⟩
      | none =>
        simp only [hS]
        exact ⟨regroup_inv _ k _ ⟨h1, h2⟩ (isPre_take_self k _), by simp⟩

theorem groupKeys_fold (I D cur cached : Nat) (valid doSched : Bool) (order : Key) (keys : List Key) :
    ∀ (g : GSt), GInv g →
      GInv (keys.foldl (groupKey I D cur cached valid doSched order) g) ∧
      (∀ k, k ∈ g.seen ∨ k ∈ keys → k ∈ (keys.foldl (groupKey I D cur cached valid doSched order) g).seen) := by
  induction keys with
  | nil => intro g h; exact ⟨h, fun k hk => by simpa using hk⟩
  | cons k rest ih =>
    intro g h
    have ⟨hi, hk⟩ := groupKey_inv I D cur cached valid doSched order g k h
    have ⟨hr, hs⟩ := ih _ hi
    refine ⟨hr, ?_⟩
    intro x hx
    apply hs
    rcases hx with hx | hx
    · left
      -- seen only grows
      unfold groupKey
      by_cases hc : g.seen.contains k = true
      · simp only [hc, if_true]; exact hx
      · simp only [hc]
        cases hf : g.groups.find? (fun e => isPre e.1 k) with
        | some e => simp only [hf]; exact List.mem_append_left _ hx
        | none =>
          simp only [hf]
          cases hS : g.S.find? (fun e => isPre e.1 k) with
          | some e => simp only [hS]; exact List.mem_append_left _ hx
          | none => simp only [hS]; exact List.mem_append_left _ hx
    · rcases List.mem_cons.mp hx with hx | hx
      · left; subst hx; exact hk
      · right; exact hx

/-- C17, grouping: for every schedule, every estimate of the prefix length and every list of keys (duplicates
    included), each key ends up in a group, and every key of a group lies under the group's prefix — the region it is
    provided with really contains it -/
theorem groupKeys_covers (I D cur cached : Nat) (valid doSched : Bool) (order : Key) (S : Entries) (keys : List Key)
    (k : Key) (hk : k ∈ keys) :
    ∃ e ∈ (groupKeys I D cur cached valid doSched order S keys).groups, k ∈ e.2 ∧ isPre e.1 k = true := by
  unfold groupKeys
  have h0 : GInv ({ S := S } : GSt) := by
    unfold GInv
    exact ⟨by intro e he; simp at he, by intro k hk; simp at hk⟩
  have ⟨⟨h1, h2⟩, hs⟩ := groupKeys_fold I D cur cached valid doSched order keys { S := S } h0
  obtain ⟨e, he, hke⟩ := h2 k (hs k (.inr hk))
  exact ⟨e, he, hke, h1 e he k hke⟩

example : (groupKeys 3600 300 0 2 true true [] [] [[true, false, true], [true, false, false], [false, true, true]]).groups
    = [([true, false], [[true, false, true], [true, false, false]]), ([false, true], [[false, true, true]])] := by decide

end KadDHT.C17

namespace KadDHT.C17
open KadDHT KadDHT.Sched KadDHT.Schedule KadDHT.SchedT

/-- taking a history entry into the set of recently reprovided regions is the schedule's own insertion -/
theorem addRecent_eq_schedule (R : List Key) (q : Key) : addRecent R q = Schedule.schedule R q := rfl

/-- the set of recently reprovided regions is prefix-free, whatever the history holds (so `SubtractTrie` is handed what
    it expects) -/
theorem loadRecent_prefixFree (I D now cur : Nat) (S : Entries) (h : Hist) :
    PrefixFree (loadRecent I D now cur S h).2 := by
  unfold loadRecent
  simp only
  suffices H : ∀ (es : List (Nat × Key)) (R : List Key), PrefixFree R →
      PrefixFree (es.foldl (fun R e =>
        if recentRepaired I D now e.1 (untilScheduled I cur S e.2) then addRecent R e.2 else R) R) from
    H _ [] List.Pairwise.nil
  intro es
  induction es with
  | nil => intro R hR; exact hR
  | cons e rest ih =>
    intro R hR
    simp only [List.foldl_cons]
    apply ih
    split
    · rw [addRecent_eq_schedule]; exact schedule_prefixFree R e.2 hR
    · exact hR

end KadDHT.C17

/-
  C02 — lookups converge on the true closest peers and contact all of them.

  Property theorems only.  `Lookup` is the same state machine as in C01 (compared with the real lookup on
  every run); the network is a set of peers with a "knows" relation, an honest peer answers with the K
  nearest peers it knows (never itself, never the requester).  For the XOR part peers are bit strings of one
  length `n` and "nearer" is the XOR order `closer t`.

  `exact_K_full_knowledge`: result = the K globally nearest when everybody knows everybody.
-/
import KadDHT.Proofs.Lookup
import KadDHT.Proofs.Xor
namespace KadDHT.C02
open KadDHT KadDHT.Lookup

/-! ### the k-bucket lemma and what bucket completeness gives -/

/-- peers as `n`-bit identifiers -/
abbrev KeyN (n : Nat) := { k : Key // k.length = n }

/-- the lookup configuration for target `t` under the XOR metric -/
def xorCfg {n : Nat} (t : KeyN n) (K α β : Nat) (self : KeyN n) : Cfg (KeyN n) :=
  { K := K, α := α, β := β, self := self, lt := fun a b => closer t.val a.val b.val }

theorem xorCfg_order {n : Nat} (t : KeyN n) (K α β : Nat) (self : KeyN n) : OrderOK (xorCfg t K α β self) := by
  refine ⟨?_, ?_, ?_⟩
  · intro a; exact bitsLt_irrefl _
  · intro a b c h1 h2; exact bitsLt_trans _ _ _ h1 h2
  · intro a b hab
    apply bitsLt_total
    intro heq
    apply hab
    exact Subtype.ext (kxor_inj t.val a.val b.val (by rw [a.2, t.2]) (by rw [b.2, t.2]) heq)

/-- xor k-bucket lemma, stated outright: if `g` is nearer to the target than `c`, then the k-bucket of `c`
    that contains `g` consists only of peers nearer to the target than `c` -/
theorem xor_bucket_lemma {n : Nat} (t c g m : KeyN n) (hgc : closer t.val g.val c.val = true)
    (hb : cpl c.val m.val = cpl c.val g.val) : closer t.val m.val c.val = true :=
  bucket_lemma t.val c.val g.val m.val (by rw [c.2, t.2]) (by rw [g.2, t.2]) (by rw [m.2, t.2]) hgc hb

/-- k-bucket completeness: every peer knows every peer of each of its non-full k-buckets and K peers of
    each full one (bucket `j` of `c` = the peers sharing exactly `j` leading bits with `c`) -/
def BucketComplete {n : Nat} (K : Nat) (net : Net (KeyN n)) : Prop :=
  ∀ c ∈ net.peers, ∀ j : Nat,
    (∀ m ∈ net.peers, m ≠ c → cpl c.val m.val = j → m ∈ net.knows c) ∨
    K ≤ ((net.knows c).filter fun m => m ≠ c ∧ cpl c.val m.val = j).length

theorem head_sorted_min {α : Type} (lt : α → α → Bool) (h : WeakOrder lt) (l : List α) (x : α) (rest : List α)
    (hs : sortBy lt l = x :: rest) : ∀ y ∈ l, lt y x = false := by
  intro y hy
  have hsorted := sortBy_sorted lt h l
  rw [hs] at hsorted
  have hy' : y ∈ x :: rest := by rw [← hs]; exact (mem_sortBy lt l y).2 hy
  rcases List.mem_cons.1 hy' with rfl | hy'
  · cases hxx : lt y y with
    | false => rfl
    | true => have := h.asymm _ _ hxx; rw [hxx] at this; cases this
  · exact (List.pairwise_cons.1 hsorted).1 y hy'

theorem weakP_of {P : Type} [DecidableEq P] {cfg : Cfg P} (h : OrderOK cfg) : WeakOrder cfg.lt := by
  refine ⟨fun a b hab => h.asymm _ _ hab, ?_⟩
  intro a b c h1 h2
  cases hca : cfg.lt c a with
  | false => rfl
  | true =>
    by_cases hab : a = b
    · rw [← hab, hca] at h2; cases h2
    · rcases h.total _ _ hab with h3 | h3
      · rw [h.trans _ _ _ hca h3] at h2; cases h2
      · rw [h3] at h1; cases h1

/-- a bucket-complete network is converging: whoever is not the nearest names somebody nearer -/
theorem converging_of_bucketComplete {n : Nat} (t : KeyN n) (K α β : Nat) (hK : 1 ≤ K) (self : KeyN n)
    (net : Net (KeyN n)) (hn : NetOK (xorCfg t K α β self) net) (hbc : BucketComplete K net) :
    Converging (xorCfg t K α β self) net := by
  intro c g hc hg hgc
  have ho := xorCfg_order t K α β self
  have hgne : g ≠ c := by intro heq; rw [heq, ho.irrefl] at hgc; cases hgc
  -- c knows a member of the bucket that holds g
  have hknown : ∃ m ∈ net.knows c, m ≠ c ∧ cpl c.val m.val = cpl c.val g.val := by
    rcases hbc c hc (cpl c.val g.val) with h1 | h1
    · exact ⟨g, h1 g hg hgne rfl, hgne, rfl⟩
    · cases hf : (net.knows c).filter (fun m => m ≠ c ∧ cpl c.val m.val = cpl c.val g.val) with
      | nil => rw [hf] at h1; simp at h1; omega
      | cons m _ =>
        have hm : m ∈ (net.knows c).filter (fun m => m ≠ c ∧ cpl c.val m.val = cpl c.val g.val) := by rw [hf]; simp
        have := List.mem_filter.1 hm
        exact ⟨m, this.1, by simpa using this.2⟩
  obtain ⟨m, hmk, hmc, hmb⟩ := hknown
  have hmlt : (xorCfg t K α β self).lt m c = true := xor_bucket_lemma t c g m hgc hmb
  have hmself : m ≠ self := by intro heq; subst heq; exact hn.selfOut (hn.closed c _ hmk)
  -- m survives the honest peer's own filter, so the sorted list is non-empty and its head is not after m
  show ∃ x ∈ honestAnswer (xorCfg t K α β self) net c, (xorCfg t K α β self).lt x c = true
  unfold honestAnswer
  generalize hS : sortBy (xorCfg t K α β self).lt _ = S
  have hmS : m ∈ S := by
    rw [← hS, mem_sortBy]
    refine List.mem_filter.2 ⟨hmk, ?_⟩
    simp only [bne_iff_ne, ne_eq, Bool.and_eq_true, decide_eq_true_eq]
    exact ⟨hmc, hmself⟩
  cases S with
  | nil => cases hmS
  | cons x rest =>
    have hmin : (xorCfg t K α β self).lt m x = false := by
      have hsorted : (x :: rest).Pairwise (NotAfter (xorCfg t K α β self).lt) := by
        rw [← hS]; exact sortBy_sorted _ (weakP_of ho) _
      rcases List.mem_cons.1 hmS with rfl | hm'
      · exact ho.irrefl _
      · exact (List.pairwise_cons.1 hsorted).1 m hm'
    refine ⟨x, ?_, ?_⟩
    · show x ∈ (x :: rest).take K
      cases K with
      | zero => omega
      | succ k => simp
    · by_cases hxm : x = m
      · rw [hxm]; exact hmlt
      · rcases ho.total x m hxm with h1 | h1
        · exact ho.trans _ _ _ h1 hmlt
        · rw [h1] at hmin; cases hmin

/-! ### the property -/

/-- If every peer answers, knows every peer of each of its non-full k-buckets (and K peers of each full
    one) and replies with the K nearest peers it knows, a closest-peers lookup that ran to completion
    (uncancelled) returns the globally nearest peer first — for every network, key, non-empty seed set,
    (K, α, β) with β ≥ 1 and every arrival order of the answers. -/
theorem nearest_first {n : Nat} (t : KeyN n) (K α β : Nat) (hK : 1 ≤ K) (hβ : 1 ≤ β) (self : KeyN n)
    (net : Net (KeyN n)) (hn : NetOK (xorCfg t K α β self) net) (hbc : BucketComplete K net)
    (stop : LState (KeyN n) → Bool) (seeds : List (KeyN n)) (hseeds : ∀ p ∈ seeds, p ∈ net.peers)
    (evs : List (Ev (KeyN n))) (hsched : HonestSched (xorCfg t K α β self) net evs) (s0 s : LState (KeyN n))
    (h0 : start (xorCfg t K α β self) stop seeds = .ok s0)
    (h1 : runEvs (xorCfg t K α β self) (fun _ => true) stop s0 evs = .ok s)
    (hterm : s.terminated = some .completed) (hne : (result (xorCfg t K α β self) s).peers ≠ []) :
    ∃ c0, (result (xorCfg t K α β self) s).peers.head? = some c0 ∧ c0 ∈ net.peers ∧
      ∀ g ∈ net.peers, g ≠ c0 → closer t.val c0.val g.val = true :=
  nearest_first_core (xorCfg t K α β self) rfl (xorCfg_order t K α β self) net hn
    (converging_of_bucketComplete t K α β hK self net hn hbc) hβ hK stop seeds hseeds evs hsched s0 s h0 h1 hterm hne

/-- … and returns exactly the K globally nearest peers when every peer knows the whole network: the returned list is
    in strictly ascending XOR distance from the key, holds only network peers, and every network peer that is not
    returned is strictly farther from the key than each of the K returned ones (so when the network has fewer than K
    peers all of them are returned). -/
theorem exact_K_full_knowledge {n : Nat} (t : KeyN n) (K α β : Nat) (hK : 1 ≤ K) (hβ : 1 ≤ β) (self : KeyN n)
    (net : Net (KeyN n)) (hn : NetOK (xorCfg t K α β self) net) (hfull : FullKnowledge net)
    (stop : LState (KeyN n) → Bool) (seeds : List (KeyN n)) (hseeds : ∀ p ∈ seeds, p ∈ net.peers)
    (evs : List (Ev (KeyN n))) (hsched : HonestSched (xorCfg t K α β self) net evs) (s0 s : LState (KeyN n))
    (h0 : start (xorCfg t K α β self) stop seeds = .ok s0)
    (h1 : runEvs (xorCfg t K α β self) (fun _ => true) stop s0 evs = .ok s)
    (hterm : s.terminated = some .completed) (hne : (result (xorCfg t K α β self) s).peers ≠ []) :
    let R := (result (xorCfg t K α β self) s).peers
    R.Pairwise (fun a b => closer t.val a.val b.val = true) ∧ (∀ p ∈ R, p ∈ net.peers) ∧
    ∀ g ∈ net.peers, g ∉ R → R.length = K ∧ ∀ p ∈ R, closer t.val p.val g.val = true :=
  exact_K_core (xorCfg t K α β self) rfl (xorCfg_order t K α β self) net hn hfull hβ hK stop seeds hseeds evs hsched
    s0 s h0 h1 hterm hne

variable {P : Type} [DecidableEq P]

/-- A lookup that ended by itself has received answers from the β nearest non-failed peers it learned
    (reason "completed"), or has nothing left to ask (reason "starvation"). -/
theorem terminate_completed_sound (cfg : Cfg P) (accept : P → Bool) (stop : LState P → Bool) (seeds : List P)
    (evs : List (Ev P)) (s0 s : LState P) (h0 : start cfg stop seeds = .ok s0) (h1 : runEvs cfg accept stop s0 evs = .ok s) :
    (s.terminated = some .completed →
      ∀ p ∈ (candidates cfg s.ps notUnreachable).take cfg.β, stateOf s.ps p .queried) ∧
    (s.terminated = some .starvation → ∀ e ∈ s.ps, e.state ≠ .heard ∧ e.state ≠ .waiting) := by
  obtain ⟨s0', h0', hi0⟩ := start_ok cfg stop seeds
  rw [h0] at h0'; cases h0'
  obtain ⟨s', h1', hinv⟩ := runEvs_ok cfg accept stop s0 evs hi0
  rw [h1] at h1'; cases h1'
  have h4 := runEvs_inv4 cfg accept stop s0 s evs hi0 (start_inv4 cfg stop seeds s0 h0) h1
  refine ⟨?_, ?_⟩
  · intro ht p hp
    have := h4.completed ht
    unfold lookupTermination at this
    rw [List.all_eq_true] at this
    have hq := this p hp
    exact (getState_eq_some_iff s.ps hinv.nodup p .queried).1 (by simpa using hq)
  · intro ht e he
    have := h4.starved ht
    simp only [starvation, Bool.and_eq_true, beq_iff_eq] at this
    exact ⟨(numIn_zero_iff _ _).1 this.1 e he, (numIn_zero_iff _ _).1 this.2 e he⟩

theorem zip_map_filter {α β : Type} (l : List α) (f : α → β) (pr : β → Bool) :
    ((l.zip (l.map f)).filter fun x => pr x.2).map (·.1) = l.filter fun a => pr (f a) := by
  induction l with
  | nil => rfl
  | cons a l ih =>
    simp only [List.map_cons, List.zip_cons_cons, List.filter_cons]
    split <;> simp [ih]

/-- A lookup reported as completed has sent the request at least once to every peer it returns: each
    returned peer was either answered in the search phase (state `queried`) or is asked in the follow-up
    phase, for every reachable state, cancellation flag and stop answer. -/
theorem completed_contacted_all (cfg : Cfg P) (accept : P → Bool) (stopf : LState P → Bool) (seeds : List P)
    (evs : List (Ev P)) (s0 s : LState P) (h0 : start cfg stopf seeds = .ok s0)
    (h1 : runEvs cfg accept stopf s0 evs = .ok s) (ctxCancelled stop : Bool)
    (hc : (afterFollowup (result cfg s) ctxCancelled stop).1.completed = true) :
    ∀ p ∈ (result cfg s).peers, stateOf s.ps p .queried ∨ p ∈ (afterFollowup (result cfg s) ctxCancelled stop).2 := by
  obtain ⟨s0', h0', hi0⟩ := start_ok cfg stopf seeds
  rw [h0] at h0'; cases h0'
  obtain ⟨s', h1', hinv⟩ := runEvs_ok cfg accept stopf s0 evs hi0
  rw [h1] at h1'; cases h1'
  have hfu : followups (result cfg s) =
      (result cfg s).peers.filter fun p => (getState s.ps p).getD .heard == .heard || (getState s.ps p).getD .heard == .waiting := by
    unfold followups
    exact zip_map_filter (result cfg s).peers (fun p => (getState s.ps p).getD .heard) (fun st => st == .heard || st == .waiting)
  intro p hp
  obtain ⟨e, he, hid, hok⟩ := mem_closestNIn _ _ _ _ _ hp
  have hgs : getState s.ps p = some e.state := (getState_eq_some_iff s.ps hinv.nodup p e.state).2 ⟨e, he, hid, rfl⟩
  cases hst : e.state with
  | queried => exact Or.inl ⟨e, he, hid, hst⟩
  | unreachable => rw [hst] at hok; simp [notUnreachable] at hok
  | heard =>
    have hpf : p ∈ followups (result cfg s) := by
      rw [hfu]; exact List.mem_filter.2 ⟨hp, by simp [hgs, hst]⟩
    right
    unfold afterFollowup at hc ⊢
    by_cases hf : (followups (result cfg s)).isEmpty = true
    · have : followups (result cfg s) = [] := by simpa using hf
      rw [this] at hpf; cases hpf
    · simp only [hf, Bool.false_eq_true, ↓reduceIte] at hc ⊢
      by_cases hcs : (ctxCancelled || stop) = true
      · simp [hcs] at hc
      · simp only [hcs, Bool.false_eq_true, ↓reduceIte]; exact hpf
  | waiting =>
    have hpf : p ∈ followups (result cfg s) := by
      rw [hfu]; exact List.mem_filter.2 ⟨hp, by simp [hgs, hst]⟩
    right
    unfold afterFollowup at hc ⊢
    by_cases hf : (followups (result cfg s)).isEmpty = true
    · have : followups (result cfg s) = [] := by simpa using hf
      rw [this] at hpf; cases hpf
    · simp only [hf, Bool.false_eq_true, ↓reduceIte] at hc ⊢
      by_cases hcs : (ctxCancelled || stop) = true
      · simp [hcs] at hc
      · simp only [hcs, Bool.false_eq_true, ↓reduceIte]; exact hpf

/-! non-vacuity: a 3-bit bucket-complete network of five peers, target 000, local node 111 -/
def k3 (a b c : Bool) : KeyN 3 := ⟨[a, b, c], rfl⟩
def exNet : Net (KeyN 3) :=
  { peers := [k3 false false true, k3 false true false, k3 true false false, k3 true true false, k3 false true true],
    knows := fun _ => [k3 false false true, k3 false true false, k3 true false false, k3 true true false, k3 false true true] }
example : BucketComplete 2 exNet := by
  intro c _ j; left; intro m hm _ _; exact hm
example : FullKnowledge exNet := ⟨fun _ _ m hm => hm, fun _ => by show List.Nodup [k3 false false true, k3 false true false, k3 true false false, k3 true true false, k3 false true true]; decide⟩
example : closer [false, false, false] [false, false, true] [false, true, false] = true := by decide
example : cpl [true, false, false] [false, true, true] = cpl [true, false, false] [false, false, true] := by decide

/-- a concrete run meeting every hypothesis of `nearest_first` and `exact_K_full_knowledge`: K = α = 2, β = 1, seed 110;
    the lookup completes after two honest answers and returns the two nearest peers 001, 010 -/
def exCfg : Cfg (KeyN 3) := xorCfg (k3 false false false) 2 2 1 (k3 true true true)
def exAns (p : KeyN 3) : Ev (KeyN 3) := .deliver p (.resp (honestAnswer exCfg exNet p))
example : (match start exCfg (fun _ => false) [k3 true true false] with
    | .ok s0 => match runEvs exCfg (fun _ => true) (fun _ => false) s0 [exAns (k3 true true false), exAns (k3 false false true)] with
      | .ok s => some (s.terminated, (result exCfg s).peers.map Subtype.val)
      | .error _ => none
    | .error _ => none) = some (some .completed, [[false, false, true], [false, true, false]]) := by decide

end KadDHT.C02

/-
  C07 — provider records are served exactly while valid, across cache eviction and restart.

  Property theorems only.  `ProviderStore.step` is the model of records/providers_manager.go (datastore +
  LRU cache of any capacity + clock), tied to the real ProviderManager by the correspondence run after
  every operation of every generated history (provider sets, LRU order, datastore content).
  `specStep` is the specification: a map from (key, provider) to the time of the *last* addition.
  The garbage collection sweep is modelled as atomic, which excludes exactly the documented exception
  (a re-addition racing the sweep of the same, already expired record).
-/
import KadDHT.Proofs.ProviderStore
namespace KadDHT.C07
open KadDHT.ProviderStore

/-- outputs of the implementation model along a history -/
def runImpl : St → List Op → List Out
  | _, [] => []
  | s, op :: ops => (step s op).2 :: runImpl (step s op).1 ops

def runSpec : Spec → List Op → List Out
  | _, [] => []
  | a, op :: ops => (specStep a op).2 :: runSpec (specStep a op).1 ops

/-- pointwise agreement of two output streams -/
def AllSim : List Out → List Out → Prop
  | [], [] => True
  | a :: as, b :: bs => Out.sim a b ∧ AllSim as bs
  | _, _ => False

/-- Refinement: for every cache capacity, validity period and history of add / query / clock advance /
    garbage collection / restart / close operations, every answer of the store equals the answer of the
    last-addition map (same provider set, no duplicates; same ok / closed results). -/
theorem store_refines_spec (cap validity : Nat) (ops : List Op) :
    AllSim (runImpl (init cap validity) ops) (runSpec (Spec.init validity) ops) := by
  suffices ∀ s a, R s a → AllSim (runImpl s ops) (runSpec a ops) from
    this _ _ (R_init cap validity)
  induction ops with
  | nil => intro s a _; exact trivial
  | cons op ops ih =>
    intro s a h
    have := sim_step s a op h
    exact ⟨this.2, ih _ _ this.1⟩

/-- what the specification answers: exactly the providers whose last addition for `k` is at most
    `validity` old — nothing that was never added, nothing expired, every one still valid -/
theorem spec_get_exact (a : Spec) (k : K) (h : a.stopped = false) (p : P) :
    (∃ ps, (specStep a (.get k)).2 = .provs ps ∧
      (p ∈ ps ↔ ∃ t, ((k, p), t) ∈ a.last ∧ a.now - t ≤ a.validity)) := by
  refine ⟨((a.last.filter (·.1.1 == k)).filter fun e => !expired a.validity a.now e.2).map (·.1.2),
    by simp only [specStep, h, Bool.false_eq_true, ↓reduceIte], ?_⟩
  simp only [List.mem_map, List.mem_filter, beq_iff_eq, Bool.not_eq_true', expired, decide_eq_false_iff_not,
    Nat.not_lt]
  constructor
  · rintro ⟨e, ⟨⟨he, hk⟩, hv⟩, rfl⟩
    exact ⟨e.2, by rw [← hk]; exact he, hv⟩
  · rintro ⟨t, hm, hv⟩
    exact ⟨((k, p), t), ⟨⟨hm, rfl⟩, hv⟩, rfl⟩

/-- the states reached by a history -/
def implState (s : St) (ops : List Op) : St := ops.foldl (fun s op => (step s op).1) s
def specState (a : Spec) (ops : List Op) : Spec := ops.foldl (fun a op => (specStep a op).1) a

/-- the refinement relation holds in every reachable pair of states -/
theorem reach_R (cap validity : Nat) (ops : List Op) :
    R (implState (init cap validity) ops) (specState (Spec.init validity) ops) := by
  suffices ∀ s a, R s a → R (implState s ops) (specState a ops) from this _ _ (R_init cap validity)
  induction ops with
  | nil => intro s a h; exact h
  | cons op ops ih => intro s a h; exact ih _ _ (sim_step s a op h).1

/-- End to end, on the implementation model: after *any* history (evictions, sweeps, restarts, any cache
    capacity), a query on an open store answers with a duplicate-free list that contains `p` exactly when
    the last addition of `(k, p)` is at most `validity` old. -/
theorem impl_get_exact (cap validity : Nat) (ops : List Op) (k : K)
    (h : (specState (Spec.init validity) ops).stopped = false) :
    ∃ ps, (step (implState (init cap validity) ops) (.get k)).2 = .provs ps ∧ ps.Nodup ∧
      ∀ p, p ∈ ps ↔ ∃ t, ((k, p), t) ∈ (specState (Spec.init validity) ops).last ∧
        (specState (Spec.init validity) ops).now - t ≤ (specState (Spec.init validity) ops).validity := by
  have hs := (sim_step _ _ (.get k) (reach_R cap validity ops)).2
  generalize implState (init cap validity) ops = s at hs
  generalize specState (Spec.init validity) ops = a at hs h
  cases ho : (step s (.get k)).2 with
  | ok => rw [ho] at hs; simp [specStep, h, Out.sim] at hs
  | closed => rw [ho] at hs; simp [specStep, h, Out.sim] at hs
  | provs ps =>
    refine ⟨ps, rfl, ?_⟩
    rw [ho] at hs
    obtain ⟨qs, hq, hmem⟩ := spec_get_exact a k h (ps.headD 0)
    rw [hq] at hs
    refine ⟨hs.1, fun p => ?_⟩
    obtain ⟨qs', hq', hmem'⟩ := spec_get_exact a k h p
    rw [hq] at hq'; cases hq'
    exact (hs.2.2 p).trans hmem'

/-- every entry of the last-addition map comes from an addition in the history, at a time not later than now -/
theorem spec_last_from_add (a : Spec) (ops : List Op) (k : K) (p : P) (t : Time)
    (h : ((k, p), t) ∈ (specState a ops).last) :
    ((k, p), t) ∈ a.last ∨ Op.add k p ∈ ops := by
  induction ops generalizing a with
  | nil => exact Or.inl h
  | cons op ops ih =>
    rcases ih (specStep a op).1 h with h' | h'
    · cases op with
      | add k' p' =>
        simp only [specStep] at h'
        split at h'
        · exact Or.inl h'
        · rcases (mem_diskPut _ _ _ _ _ _).1 h' with ⟨he, _⟩ | ⟨_, hm⟩
          · cases he; exact Or.inr (List.mem_cons_self ..)
          · exact Or.inl hm
      | get k' => simp only [specStep] at h'; split at h' <;> exact Or.inl h'
      | adv d => exact Or.inl h'
      | gc => exact Or.inl h'
      | restart => exact Or.inl h'
      | close => exact Or.inl h'
    · exact Or.inr (List.mem_cons_of_mem _ h')

/-- Nothing invented: whatever the store answers for `k` after any history was added for `k` in that
    history (not under another key, not by another provider). -/
theorem impl_get_only_added (cap validity : Nat) (ops : List Op) (k : K) (ps : List P) (p : P)
    (ho : (step (implState (init cap validity) ops) (.get k)).2 = .provs ps) (hp : p ∈ ps) :
    Op.add k p ∈ ops := by
  have hst : (specState (Spec.init validity) ops).stopped = false := by
    have hs := (sim_step _ _ (.get k) (reach_R cap validity ops)).2
    rw [ho] at hs
    cases hb : (specState (Spec.init validity) ops).stopped with
    | false => rfl
    | true => simp [specStep, hb, Out.sim] at hs
  obtain ⟨qs, hq, _, hmem⟩ := impl_get_exact cap validity ops k hst
  rw [ho] at hq; cases hq
  obtain ⟨t, ht, _⟩ := (hmem p).1 hp
  rcases spec_last_from_add _ ops k p t ht with h | h
  · simp [Spec.init] at h
  · exact h

/-- once closed, every operation reports closed and neither the datastore nor the cache is touched -/
theorem closed_fence (s : St) (h : s.stopped = true) (k : K) (p : P) :
    ProviderStore.add s k p = (s, .closed) ∧ ProviderStore.get s k = (s, .closed) := by
  simp [ProviderStore.add, ProviderStore.get, h]

/-- the last-addition map really records the most recent addition -/
theorem spec_add_records_now (a : Spec) (k : K) (p : P) (h : a.stopped = false) :
    ((k, p), a.now) ∈ (specStep a (.add k p)).1.last := by
  simp only [specStep, h, Bool.false_eq_true, ↓reduceIte]
  exact (mem_diskPut _ _ _ _ _ _).2 (Or.inl ⟨rfl, rfl⟩)

/-! non-vacuity: capacity 1, two keys (eviction), expiry exactly at the validity instant, restart -/
def exOps : List Op :=
  [.add 1 7, .add 2 8, .get 1, .get 2, .adv 10, .get 1, .adv 1, .get 1, .add 1 9, .restart, .get 1, .gc, .get 2, .close, .get 1]
example : runImpl (init 1 10) exOps =
    [.ok, .ok, .provs [7], .provs [8], .ok, .provs [7], .ok, .provs [], .ok, .ok, .provs [9], .ok, .provs [], .ok, .closed] := by
  decide

end KadDHT.C07

/-
  C07 — provider records are served exactly while valid, across cache eviction and restart.

  Property theorems only.  `ProviderStore.step` is the model of records/providers_manager.go (datastore +
  LRU cache of any capacity + clock), tied to the real ProviderManager by the correspondence run after
  every operation of every generated history (provider sets, LRU order, datastore content).
  `specStep` is the specification: a map from (key, provider) to the time of the *last* addition.
  The garbage collection sweep is modelled as atomic, which excludes exactly the documented exception
  (a re-addition racing the sweep of the same, already expired record).
-/
import KadDHT.Proofs.ProviderStore
namespace KadDHT.C07
open KadDHT.ProviderStore

/-- outputs of the implementation model along a history -/
def runImpl : St → List Op → List Out
  | _, [] => []
  | s, op :: ops => (step s op).2 :: runImpl (step s op).1 ops

def runSpec : Spec → List Op → List Out
  | _, [] => []
  | a, op :: ops => (specStep a op).2 :: runSpec (specStep a op).1 ops

/-- pointwise agreement of two output streams -/
def AllSim : List Out → List Out → Prop
  | [], [] => True
  | a :: as, b :: bs => Out.sim a b ∧ AllSim as bs
  | _, _ => False

/-- Refinement: for every cache capacity, validity period and history of add / query / clock advance /
    garbage collection / restart / close operations, every answer of the store equals the answer of the
    last-addition map (same provider set, no duplicates; same ok / closed results). -/
theorem store_refines_spec (cap validity : Nat) (ops : List Op) :
    AllSim (runImpl (init cap validity) ops) (runSpec (Spec.init validity) ops) := by
  suffices ∀ s a, R s a → AllSim (runImpl s ops) (runSpec a ops) from
    this _ _ (R_init cap validity)
  induction ops with
  | nil => intro s a _; exact trivial
  | cons op ops ih =>
    intro s a h
    have := sim_step s a op h
    exact ⟨this.2, ih _ _ this.1⟩

/-- what the specification answers: exactly the providers whose last addition for `k` is at most
    `validity` old — nothing that was never added, nothing expired, every one still valid -/
theorem spec_get_exact (a : Spec) (k : K) (h : a.stopped = false) (p : P) :
    (∃ ps, (specStep a (.get k)).2 = .provs ps ∧
      (p ∈ ps ↔ ∃ t, ((k, p), t) ∈ a.last ∧ a.now - t ≤ a.validity)) := by
  refine ⟨((a.last.filter (·.1.1 == k)).filter fun e => !expired a.validity a.now e.2).map (·.1.2),
    by simp only [specStep, h, Bool.false_eq_true, ↓reduceIte], ?_⟩
  simp only [List.mem_map, List.mem_filter, beq_iff_eq, Bool.not_eq_true', expired, decide_eq_false_iff_not,
    Nat.not_lt]
  constructor
  · rintro ⟨e, ⟨⟨he, hk⟩, hv⟩, rfl⟩
    exact ⟨e.2, by rw [← hk]; exact he, hv⟩
  · rintro ⟨t, hm, hv⟩
    exact ⟨((k, p), t), ⟨⟨hm, rfl⟩, hv⟩, rfl⟩

/-- once closed, every operation reports closed and neither the datastore nor the cache is touched -/
theorem closed_fence (s : St) (h : s.stopped = true) (k : K) (p : P) :
    ProviderStore.add s k p = (s, .closed) ∧ ProviderStore.get s k = (s, .closed) := by
  simp [ProviderStore.add, ProviderStore.get, h]

/-- the last-addition map really records the most recent addition -/
theorem spec_add_records_now (a : Spec) (k : K) (p : P) (h : a.stopped = false) :
    ((k, p), a.now) ∈ (specStep a (.add k p)).1.last := by
  simp only [specStep, h, Bool.false_eq_true, ↓reduceIte]
  exact (mem_diskPut _ _ _ _ _ _).2 (Or.inl ⟨rfl, rfl⟩)

/-! non-vacuity: capacity 1, two keys (eviction), expiry exactly at the validity instant, restart -/
def exOps : List Op :=
  [.add 1 7, .add 2 8, .get 1, .get 2, .adv 10, .get 1, .adv 1, .get 1, .add 1 9, .restart, .get 1, .gc, .get 2, .close, .get 1]
example : runImpl (init 1 10) exOps =
    [.ok, .ok, .provs [7], .provs [8], .ok, .provs [7], .ok, .provs [], .ok, .ok, .provs [9], .ok, .provs [], .ok, .closed] := by
  decide

end KadDHT.C07

/-
  C08 — provider searches yield only reported providers, bounded by count.

  Property theorems only, about `ProvSearch` (model of `psTryAdd`, the local-first loop and the
  per-response loop of `findProvidersAsyncRoutine`), for every sequence of processed answers, every local
  provider list and every count.  The model replays the concrete order in which scripted responders'
  answers were released and is compared with the real FindProviders(Async) (exact yielded sequence); the
  property's clauses are also evaluated on the real sequence.  That no request is *issued* after the count
  is reached is the lookup's stop rule (C01 model, `decide` with `stop = true`); the dual and accelerated
  clients' merges are decided in C15/C16.
-/
import KadDHT.Model.ProvSearch
import KadDHT.Model.Lookup
import KadDHT.Model.FullRT
namespace KadDHT.C08
open KadDHT.ProvSearch

def pids (l : List Prov) : List Nat := l.map (·.id)

/-- what the yielded entries of one peer look like, given the entry accepted for it -/
def RepeatOK (s : St) : Prop :=
  ∀ i, match s.ps.find? (·.id == i) with
    | none => s.yielded.filter (·.id == i) = []
    | some e => e.id = i ∧ (s.yielded.filter (·.id == i) = [e] ∨
                  (e.hasAddrs = true ∧ s.yielded.filter (·.id == i) = [⟨i, false⟩, e]))

structure Inv (count : Nat) (src : List Prov) (s : St) : Prop where
  nodup : (pids s.ps).Nodup
  bound : count ≠ 0 → s.ps.length ≤ count
  sound : ∀ p ∈ s.yielded, p ∈ src
  rep : RepeatOK s

theorem inv_init (count : Nat) (src : List Prov) : Inv count src {} :=
  ⟨by simp [pids], by intro _; simp, by simp, by intro i; simp⟩

theorem find_none_iff (l : List Prov) (i : Nat) : l.find? (·.id == i) = none ↔ i ∉ pids l := by
  rw [List.find?_eq_none]
  simp [pids]

theorem find_map_replace_same (l : List Prov) (p old : Prov) (h : l.find? (·.id == p.id) = some old) :
    (l.map fun q => if q.id == p.id then p else q).find? (·.id == p.id) = some p := by
  induction l with
  | nil => cases h
  | cons q l ih =>
    simp only [List.map_cons, List.find?_cons] at h ⊢
    by_cases hq : q.id = p.id
    · simp [hq]
    · have hf : (q.id == p.id) = false := by simpa using hq
      simp only [hf, Bool.false_eq_true, ↓reduceIte] at h ⊢
      exact ih h

theorem find_map_replace_other (l : List Prov) (p : Prov) (i : Nat) (hi : i ≠ p.id) :
    (l.map fun q => if q.id == p.id then p else q).find? (·.id == i) = l.find? (·.id == i) := by
  induction l with
  | nil => rfl
  | cons q l ih =>
    simp only [List.map_cons, List.find?_cons]
    by_cases hq : q.id = p.id
    · have h1 : (p.id == i) = false := by simpa using (Ne.symm hi)
      have h2 : (q.id == i) = false := by rw [hq]; exact h1
      simp only [hq, beq_self_eq_true, ↓reduceIte, h1, h2]
      exact ih
    · have hf : (q.id == p.id) = false := by simpa using hq
      simp only [hf, Bool.false_eq_true, ↓reduceIte]
      split
      · rfl
      · exact ih

theorem tryAdd_inv (count : Nat) (src : List Prov) (s : St) (p : Prov) (h : Inv count src s) (hp : p ∈ src) :
    Inv count src (tryAdd count s p).1 := by
  unfold tryAdd
  cases hf : s.ps.find? (·.id == p.id) with
  | none =>
    simp only
    split
    · rename_i hroom
      have hnotin : p.id ∉ pids s.ps := (find_none_iff _ _).1 hf
      refine ⟨?_, ?_, ?_, ?_⟩
      · simp only [pids, List.map_append, List.map_cons, List.map_nil]
        rw [List.nodup_append]
        refine ⟨h.nodup, by simp, ?_⟩
        intro a ha b hb; simp at hb; subst hb; intro heq; subst heq; exact hnotin ha
      · intro hc
        simp only [List.length_append, List.length_singleton]
        simp only [Bool.or_eq_true, decide_eq_true_eq, beq_iff_eq] at hroom
        rcases hroom with h1 | h1
        · omega
        · exact absurd h1 hc
      · intro q hq
        rcases List.mem_append.1 hq with hq | hq
        · exact h.sound q hq
        · simp at hq; subst hq; exact hp
      · intro i
        have hold := h.rep i
        by_cases hi : i = p.id
        · subst hi
          rw [hf] at hold
          simp only [List.find?_append, hf, Option.none_or, List.find?_cons, beq_self_eq_true, List.filter_append, hold,
            List.nil_append]
          simp
        · have hne : (p.id == i) = false := by simpa using (Ne.symm hi)
          simp only [List.find?_append, List.find?_cons, hne, List.find?_nil, Option.or_none, List.filter_append,
            List.filter_cons, Bool.false_eq_true, ↓reduceIte, List.filter_nil, List.append_nil]
          exact hold
    · exact h
  | some old =>
    simp only
    have holdmem := List.mem_of_find?_eq_some hf
    have holdid : old.id = p.id := by simpa using List.find?_some hf
    split
    · rename_i hup
      simp only [Bool.and_eq_true, Bool.not_eq_true', Bool.or_eq_true, decide_eq_true_eq, beq_iff_eq] at hup
      have hmapids : pids (s.ps.map fun q => if q.id == p.id then p else q) = pids s.ps := by
        simp only [pids, List.map_map]
        apply List.map_congr_left
        intro q _
        simp only [Function.comp]
        split
        · rename_i hq; simpa using (by simpa using hq : q.id = p.id).symm
        · rfl
      refine ⟨by rw [hmapids]; exact h.nodup, by intro hc; rw [List.length_map]; exact h.bound hc, ?_, ?_⟩
      · intro q hq
        rcases List.mem_append.1 hq with hq | hq
        · exact h.sound q hq
        · simp at hq; subst hq; exact hp
      · intro i
        have hold := h.rep i
        by_cases hi : i = p.id
        · subst hi
          rw [hf] at hold
          have hfind := find_map_replace_same s.ps p old hf
          simp only [hfind, List.filter_append, List.filter_cons, beq_self_eq_true, ↓reduceIte, List.filter_nil, true_and]
          rcases hold.2 with h1 | ⟨h1, _⟩
          · right
            refine ⟨hup.1.2, ?_⟩
            rw [h1]
            have : old = ⟨p.id, false⟩ := by
              cases old with
              | mk oid oa => simp only at holdid hup; simp [holdid, hup.1.1]
            rw [this]; rfl
          · rw [hup.1.1] at h1; cases h1
        · -- another peer: its accepted entry and its yielded entries are untouched
          have hne : (p.id == i) = false := by simpa using (Ne.symm hi)
          have hfind := find_map_replace_other s.ps p i hi
          simp only [hfind, List.filter_append, List.filter_cons, hne, Bool.false_eq_true, ↓reduceIte, List.filter_nil,
            List.append_nil]
          exact hold
    · exact h

theorem addAll_inv (count : Nat) (src : List Prov) (s : St) (l : List Prov) (h : Inv count src s) (hl : ∀ p ∈ l, p ∈ src) :
    Inv count src (addAll count s l) := by
  induction l generalizing s with
  | nil => exact h
  | cons p ps ih =>
    simp only [addAll]
    have h1 := tryAdd_inv count src s p h (hl p (by simp))
    split
    · exact h1
    · exact ih _ h1 (fun q hq => hl q (by simp [hq]))

/-- all providers anybody named: the local ones and those of every answer -/
def sources (localProvs : List Prov) (answers : List (List Prov)) : List Prov := localProvs ++ answers.flatten

theorem search_inv (count : Nat) (localProvs : List Prov) (answers : List (List Prov)) :
    Inv count (sources localProvs answers) (search count localProvs answers) := by
  unfold search
  have h0 : Inv count (sources localProvs answers) (addAll count {} localProvs) :=
    addAll_inv count _ {} localProvs (inv_init _ _) (fun p hp => List.mem_append_left _ hp)
  suffices ∀ (as : List (List Prov)) (s : St), (∀ a ∈ as, a ∈ answers) → Inv count (sources localProvs answers) s →
      Inv count (sources localProvs answers) (as.foldl (fun s a => if full count s then s else addAll count s a) s) from
    this answers _ (fun a ha => ha) h0
  intro as
  induction as with
  | nil => intro s _ h; exact h
  | cons a as ih =>
    intro s hsub h
    simp only [List.foldl_cons]
    apply ih _ (fun b hb => hsub b (by simp [hb]))
    split
    · exact h
    · exact addAll_inv count _ s a h (fun p hp =>
        List.mem_append_right _ (List.mem_flatten.2 ⟨a, hsub a (by simp), hp⟩))

/-- only peers stored locally as providers or named as provider in a processed answer are yielded -/
theorem yielded_sound (count : Nat) (localProvs : List Prov) (answers : List (List Prov)) :
    ∀ p ∈ (search count localProvs answers).yielded, p ∈ localProvs ∨ ∃ a ∈ answers, p ∈ a := by
  intro p hp
  have := (search_inv count localProvs answers).sound p hp
  rcases List.mem_append.1 this with h | h
  · exact Or.inl h
  · obtain ⟨a, ha, hpa⟩ := List.mem_flatten.1 h; exact Or.inr ⟨a, ha, hpa⟩

theorem yielded_ids_sub (s : St) (h : RepeatOK s) : ∀ i ∈ pids s.yielded, i ∈ pids s.ps := by
  intro i hi
  obtain ⟨p, hp, rfl⟩ := List.mem_map.1 hi
  have := h p.id
  cases hf : s.ps.find? (·.id == p.id) with
  | none =>
    rw [hf] at this
    have hm : p ∈ s.yielded.filter (·.id == p.id) := List.mem_filter.2 ⟨hp, by simp⟩
    simp only at this
    rw [this] at hm; cases hm
  | some e =>
    have he := List.mem_of_find?_eq_some hf
    have hid : e.id = p.id := by simpa using List.find?_some hf
    rw [← hid]; exact List.mem_map.2 ⟨e, he, rfl⟩

theorem length_le_of_nodup_subset {α : Type} [DecidableEq α] (l1 l2 : List α) (hn : l1.Nodup) (hs : ∀ x ∈ l1, x ∈ l2) :
    l1.length ≤ l2.length := by
  induction l1 generalizing l2 with
  | nil => simp
  | cons a l ih =>
    have ha : a ∈ l2 := hs a (by simp)
    have hnd := List.nodup_cons.1 hn
    have := ih (l2.erase a) hnd.2 (by
      intro x hx
      have hxa : x ≠ a := by intro h; subst h; exact hnd.1 hx
      exact (List.mem_erase_of_ne hxa).2 (hs x (by simp [hx])))
    rw [List.length_erase_of_mem ha] at this
    have hpos : 0 < l2.length := List.length_pos_of_mem ha
    simp only [List.length_cons]
    omega

/-- with count > 0 at most count distinct peers are yielded: all yielded peers lie in a duplicate-free list of
    at most count ids -/
theorem distinct_le_count (count : Nat) (hc : count ≠ 0) (localProvs : List Prov) (answers : List (List Prov)) :
    ∃ l : List Nat, l.Nodup ∧ l.length ≤ count ∧ ∀ i ∈ pids (search count localProvs answers).yielded, i ∈ l := by
  have hinv := search_inv count localProvs answers
  refine ⟨pids (search count localProvs answers).ps, hinv.nodup, ?_, yielded_ids_sub _ hinv.rep⟩
  have := hinv.bound hc
  simpa [pids] using this

/-- a peer is yielded at most twice, and a second time only to add addresses the first entry lacked -/
theorem repeat_only_adds_addrs (count : Nat) (localProvs : List Prov) (answers : List (List Prov)) (i : Nat) :
    (search count localProvs answers).yielded.filter (·.id == i) = [] ∨
    (∃ e, (search count localProvs answers).yielded.filter (·.id == i) = [e]) ∨
    (search count localProvs answers).yielded.filter (·.id == i) = [⟨i, false⟩, ⟨i, true⟩] := by
  have := (search_inv count localProvs answers).rep i
  cases hf : (search count localProvs answers).ps.find? (·.id == i) with
  | none => rw [hf] at this; exact Or.inl this
  | some e =>
    rw [hf] at this
    simp only at this
    rcases this.2 with h1 | ⟨h1, h2⟩
    · exact Or.inr (Or.inl ⟨e, h1⟩)
    · right; right
      have he : e = ⟨i, true⟩ := by
        cases e with
        | mk a b => simp only at this h1; simp [this.1, h1]
      rw [h2, he]

/-! ### count 0: everything named is yielded -/

theorem tryAdd_zero_grows (s : St) (p : Prov) (hacc : ∀ e ∈ s.ps, e ∈ s.yielded) :
    p.id ∈ pids (tryAdd 0 s p).1.ps ∧ (∀ i ∈ pids s.ps, i ∈ pids (tryAdd 0 s p).1.ps) ∧
    (∀ e ∈ (tryAdd 0 s p).1.ps, e ∈ (tryAdd 0 s p).1.yielded) := by
  unfold tryAdd
  cases hf : s.ps.find? (·.id == p.id) with
  | none =>
    simp only [beq_self_eq_true, Bool.or_true, ↓reduceIte]
    refine ⟨by simp [pids], fun i hi => by simp [pids] at hi ⊢; exact Or.inl hi, ?_⟩
    intro e he
    rcases List.mem_append.1 he with he | he
    · exact List.mem_append_left _ (hacc e he)
    · exact List.mem_append_right _ he
  | some old =>
    have hid : old.id = p.id := by simpa using List.find?_some hf
    have hmem : p.id ∈ pids s.ps := by rw [← hid]; exact List.mem_map.2 ⟨old, List.mem_of_find?_eq_some hf, rfl⟩
    simp only [beq_self_eq_true, Bool.or_true, Bool.and_true]
    split
    · have hmapids : pids (s.ps.map fun q => if q.id == p.id then p else q) = pids s.ps := by
        simp only [pids, List.map_map]
        apply List.map_congr_left
        intro q _
        simp only [Function.comp]
        split
        · rename_i hq; simpa using (by simpa using hq : q.id = p.id).symm
        · rfl
      refine ⟨by rw [hmapids]; exact hmem, fun i hi => by rw [hmapids]; exact hi, ?_⟩
      intro e he
      obtain ⟨q, hq, rfl⟩ := List.mem_map.1 he
      split
      · exact List.mem_append_right _ (by simp)
      · exact List.mem_append_left _ (hacc q hq)
    · exact ⟨hmem, fun i hi => hi, hacc⟩

theorem addAll_zero_grows (s : St) (l : List Prov) (hacc : ∀ e ∈ s.ps, e ∈ s.yielded) :
    (∀ p ∈ l, p.id ∈ pids (addAll 0 s l).ps) ∧ (∀ i ∈ pids s.ps, i ∈ pids (addAll 0 s l).ps) ∧
    (∀ e ∈ (addAll 0 s l).ps, e ∈ (addAll 0 s l).yielded) := by
  induction l generalizing s with
  | nil => exact ⟨by simp, fun i hi => hi, hacc⟩
  | cons p ps ih =>
    simp only [addAll, full, bne_self_eq_false, Bool.false_and, Bool.false_eq_true, ↓reduceIte]
    have h1 := tryAdd_zero_grows s p hacc
    have h2 := ih (tryAdd 0 s p).1 h1.2.2
    refine ⟨?_, fun i hi => h2.2.1 i (h1.2.1 i hi), h2.2.2⟩
    intro q hq
    rcases List.mem_cons.1 hq with rfl | hq
    · exact h2.2.1 _ h1.1
    · exact h2.1 q hq

/-- with count 0 every provider named locally or in any processed answer is yielded -/
theorem count0_yields_all (localProvs : List Prov) (answers : List (List Prov)) :
    ∀ p, (p ∈ localProvs ∨ ∃ a ∈ answers, p ∈ a) → p.id ∈ pids (search 0 localProvs answers).yielded := by
  unfold search
  have h0 := addAll_zero_grows {} localProvs (by simp)
  suffices ∀ (as : List (List Prov)) (s : St), (∀ e ∈ s.ps, e ∈ s.yielded) →
      let r := as.foldl (fun s a => if full 0 s then s else addAll 0 s a) s
      (∀ i ∈ pids s.ps, i ∈ pids r.ps) ∧ (∀ a ∈ as, ∀ p ∈ a, p.id ∈ pids r.ps) ∧ (∀ e ∈ r.ps, e ∈ r.yielded) by
    have hr := this answers _ h0.2.2
    intro p hp
    have hps : p.id ∈ pids (answers.foldl (fun s a => if full 0 s then s else addAll 0 s a) (addAll 0 {} localProvs)).ps := by
      rcases hp with hp | ⟨a, ha, hpa⟩
      · exact hr.1 _ (h0.1 p hp)
      · exact hr.2.1 a ha p hpa
    obtain ⟨e, he, heid⟩ := List.mem_map.1 hps
    exact List.mem_map.2 ⟨e, hr.2.2 e he, heid⟩
  intro as
  induction as with
  | nil => intro s hacc; exact ⟨fun i hi => hi, by simp, hacc⟩
  | cons a as ih =>
    intro s hacc
    simp only [List.foldl_cons, full, bne_self_eq_false, Bool.false_and, Bool.false_eq_true, ↓reduceIte]
    have h1 := addAll_zero_grows s a hacc
    have h2 := ih (addAll 0 s a) h1.2.2
    simp only [full, bne_self_eq_false, Bool.false_and, Bool.false_eq_true, ↓reduceIte] at h2
    refine ⟨fun i hi => h2.1 i (h1.2.1 i hi), ?_, h2.2.2⟩
    intro b hb q hq
    rcases List.mem_cons.1 hb with rfl | hb
    · exact h2.1 _ (h1.1 q hq)
    · exact h2.2.1 b hb q hq

/-- once the count is reached no further answer is processed -/
theorem stop_after_count (count : Nat) (s : St) (h : full count s = true) (more : List (List Prov)) :
    more.foldl (fun s a => if full count s then s else addAll count s a) s = s := by
  induction more with
  | nil => rfl
  | cons a as ih => simp only [List.foldl_cons, h, ↓reduceIte]; exact ih

/-! non-vacuity: count 2, a local provider without address, an answer upgrading it, a third provider refused -/
example : (search 2 [⟨7, false⟩] [[⟨7, true⟩, ⟨3, true⟩, ⟨4, true⟩], [⟨5, true⟩]]).yielded = [⟨7, false⟩, ⟨7, true⟩, ⟨3, true⟩] := by
  decide
example : (search 0 [] [[⟨3, false⟩], [⟨3, true⟩, ⟨4, false⟩]]).yielded = [⟨3, false⟩, ⟨3, true⟩, ⟨4, false⟩] := by decide

/-! ### "… and then stops asking further peers" -/

/-- once the search has been stopped because the requested number of providers was found (`stopFn`), or the caller's
    context has ended, the follow-up phase asks nobody: whatever the lookup result looks like, no further request is
    issued (the requests already under way are the only ones that still come back) -/
theorem no_request_after_stop {P : Type} [DecidableEq P] (r : Lookup.Result P) (ctxCancelled : Bool) :
    (Lookup.afterFollowup r ctxCancelled true).2 = [] ∧ (Lookup.afterFollowup r true false).2 = [] := by
  unfold Lookup.afterFollowup
  constructor <;> split <;> simp

/-- … whereas an unstopped, uncancelled lookup does ask every returned peer it has not heard from yet -/
theorem followups_asked_otherwise {P : Type} [DecidableEq P] (r : Lookup.Result P) :
    (Lookup.afterFollowup r false false).2 = Lookup.followups r := by
  unfold Lookup.afterFollowup
  split
  · rename_i h; simp at h; simp [h]
  · simp

/-! ### the accelerated client -/

theorem psTryAdd_inv (count : Nat) (src ps : List Nat) (p : Nat) (hp : p ∈ src)
    (h : ps.Nodup ∧ (∀ x ∈ ps, x ∈ src) ∧ (count ≠ 0 → ps.length ≤ count)) :
    (FullRT.psTryAdd count ps p).1.Nodup ∧ (∀ x ∈ (FullRT.psTryAdd count ps p).1, x ∈ src) ∧
      (count ≠ 0 → (FullRT.psTryAdd count ps p).1.length ≤ count) ∧
      (∀ x ∈ ps, x ∈ (FullRT.psTryAdd count ps p).1) ∧ (count = 0 → p ∈ (FullRT.psTryAdd count ps p).1) := by
  obtain ⟨h1, h2, h3⟩ := h
  unfold FullRT.psTryAdd
  by_cases hc : (!ps.contains p && (decide (ps.length < count) || count == 0)) = true
  · simp only [hc, if_true]
    have hnot : p ∉ ps := by
      have := (Bool.and_eq_true _ _).mp hc
      simpa using this.1
    have hb := ((Bool.and_eq_true _ _).mp hc).2
    refine ⟨List.nodup_append.mpr ⟨h1, by simp, by intro a ha b hb' ; simp at hb'; subst hb'; exact fun e => hnot (e ▸ ha)⟩, ?_, ?_, ?_, ?_⟩
    · intro x hx
      rcases List.mem_append.mp hx with hx | hx
      · exact h2 x hx
      · have : x = p := by simpa using hx
        subst this; exact hp
    · intro hne
      have : ps.length < count := by
        rcases (Bool.or_eq_true _ _).mp hb with h' | h'
        · simpa using h'
        · exact absurd (by simpa using h') hne
      simp; omega
    · intro x hx; exact List.mem_append_left _ hx
    · intro _; simp
  · simp only [hc]
    refine ⟨h1, h2, h3, fun x hx => hx, ?_⟩
    intro h0
    subst h0
    cases hcp : ps.contains p with
    | true => simpa using hcp
    | false => simp [hcp] at hc; simpa using hc

/-- C08 for the accelerated client, for every arrival order of the candidates (every schedule of its concurrent
    requests — `psTryAdd` runs under a lock): no provider is yielded twice, every provider yielded was named by a source,
    at most `count` are yielded when a count is given, and with no count every candidate that arrived is yielded -/
theorem fullrt_yield_exact (count : Nat) (arrivals : List Nat) :
    (FullRT.yielded count arrivals).Nodup ∧ (∀ x ∈ FullRT.yielded count arrivals, x ∈ arrivals) ∧
    (count ≠ 0 → (FullRT.yielded count arrivals).length ≤ count) ∧
    (count = 0 → ∀ x ∈ arrivals, x ∈ FullRT.yielded count arrivals) := by
  unfold FullRT.yielded
  suffices H : ∀ (l : List Nat) (ps : List Nat), (∀ x ∈ l, x ∈ arrivals) →
      (ps.Nodup ∧ (∀ x ∈ ps, x ∈ arrivals) ∧ (count ≠ 0 → ps.length ≤ count)) →
      let r := l.foldl (fun ps p => (FullRT.psTryAdd count ps p).1) ps
      r.Nodup ∧ (∀ x ∈ r, x ∈ arrivals) ∧ (count ≠ 0 → r.length ≤ count) ∧ (∀ x ∈ ps, x ∈ r) ∧ (count = 0 → ∀ x ∈ l, x ∈ r) by
    have h0 : ([] : List Nat).Nodup ∧ (∀ x ∈ ([] : List Nat), x ∈ arrivals) ∧ (count ≠ 0 → ([] : List Nat).length ≤ count) := by
      refine ⟨List.nodup_nil, ?_, ?_⟩
      · intro x hx; cases hx
      · intro _; exact Nat.zero_le _
    have := H arrivals [] (fun x hx => hx) h0
    exact ⟨this.1, this.2.1, this.2.2.1, this.2.2.2.2⟩
  intro l
  induction l with
  | nil => intro ps _ h; exact ⟨h.1, h.2.1, h.2.2, fun x hx => hx, fun _ x hx => by cases hx⟩
  | cons p rest ih =>
    intro ps hl h
    have hp : p ∈ arrivals := hl p List.mem_cons_self
    have ⟨a1, a2, a3, a4, a5⟩ := psTryAdd_inv count arrivals ps p hp h
    have ⟨b1, b2, b3, b4, b5⟩ := ih (FullRT.psTryAdd count ps p).1 (fun x hx => hl x (List.mem_cons_of_mem _ hx)) ⟨a1, a2, a3⟩
    simp only [List.foldl_cons]
    refine ⟨b1, b2, b3, fun x hx => b4 x (a4 x hx), ?_⟩
    intro h0 x hx
    rcases List.mem_cons.mp hx with hx | hx
    · subst hx; exact b4 x (a5 h0)
    · exact b5 h0 x hx

example : FullRT.yielded 0 [1, 2, 1, 3, 2] = [1, 2, 3] ∧ FullRT.yielded 2 [1, 2, 1, 3, 2] = [1, 2] := by decide

end KadDHT.C08

/-
  C20 — keystore contents are exact, durable, and replaced atomically by reset.

  Property theorems only, about `KS`: the datastore key layout and prefix query of provider/keystore/keystore.go, the
  set-level operations with the size counter, and the two-slot reset as a sequence of durable steps with a crash
  anywhere.  The models are the *repaired* code; the pinned commit's behaviour is kept as `putLegacy` /
  `legacyFailedFlip` with the negative witnesses the repairs answer (defects F13, F8).  The real keystore (plain,
  shared and factory resettable) is compared on every run over a journalling datastore: every operation result, the
  contents after clean restarts and after crashes at journal cuts, resets with puts at chosen datastore calls,
  injected errors, cancellation and Close.
-/
import KadDHT.Model.Keystore
import KadDHT.Proofs.Bits
import KadDHT.Model.ResetProto
namespace KadDHT.C20
open KadDHT KadDHT.KS

/-! ### layout and prefix query -/

/-- two different full keys never share a datastore key -/
theorem dsKey_injective (pb : Nat) (k1 k2 : Key) (h : dsKey pb k1 = dsKey pb k2) : k1 = k2 := by
  simp only [dsKey, Prod.mk.injEq] at h
  obtain ⟨ht, hd⟩ := h
  have hle : pb / 8 * 8 ≤ pb := Nat.div_mul_le_self pb 8
  have h1 : k1.take (pb / 8 * 8) = k2.take (pb / 8 * 8) := by
    have := congrArg (List.take (pb / 8 * 8)) ht
    simpa [List.take_take, Nat.min_eq_left hle] using this
  calc k1 = k1.take (pb / 8 * 8) ++ k1.drop (pb / 8 * 8) := (List.take_append_drop _ _).symm
    _ = k2.take (pb / 8 * 8) ++ k2.drop (pb / 8 * 8) := by rw [h1, hd]
    _ = k2 := List.take_append_drop _ _

theorem isPre_take_of_isPre {p k : Key} (n : Nat) (h : isPre p k = true) : isPre (p.take n) (k.take n) = true := by
  rw [isPre_iff_prefix] at h ⊢
  obtain ⟨s, rfl⟩ := h
  rw [List.take_append]
  exact List.prefix_append _ _

/-- `Get`, `CountKeysUpTo` and `ContainsPrefix` see exactly the stored keys whose identifier starts with the prefix —
    for prefixes shorter than, equal to and longer than the bit path of the datastore key -/
theorem get_exact (pb : Nat) (store : List Key) (p : Key) : KS.get pb store p = store.filter fun k => isPre p k := by
  unfold KS.get
  apply List.filter_congr
  intro k _
  by_cases hpk : isPre p k = true
  · have hq : queryHit pb p k = true := by
      simp only [queryHit, queryPrefix, dsKey]
      exact isPre_take_of_isPre pb hpk
    simp [hq, hpk]
  · have hpk' : isPre p k = false := by simpa using hpk
    rw [hpk']
    by_cases hl : p.length ≤ pb
    · -- a short prefix: the datastore query alone decides
      have : queryHit pb p k = false := by
        apply Bool.eq_false_iff.2
        intro hq
        apply hpk
        simp only [queryHit, queryPrefix, dsKey, List.take_of_length_le hl] at hq
        exact isPre_trans hq ((isPre_iff_prefix _ _).2 (List.take_prefix _ _))
      simp [this]
    · simp [hl]

/-! ### operations and the size counter -/

structure Inv (st : St) : Prop where
  nodup : st.keys.Nodup
  size : st.size = st.keys.length

theorem nodup_eraseDups_nat : ∀ (l : List Nat), l.eraseDups.Nodup
  | [] => by simp
  | a :: as => by
    rw [List.eraseDups_cons, List.nodup_cons]
    refine ⟨?_, nodup_eraseDups_nat _⟩
    intro h
    have := List.mem_eraseDups.1 h
    simp at this
termination_by l => l.length
decreasing_by
  simp only [List.length_cons]
  exact Nat.lt_succ_of_le (List.length_filter_le _ _)

/-- `Put` returns exactly the keys not already stored, each once -/
theorem put_returns_exactly_new (st : St) (ks : List Nat) :
    (put st ks).2.Nodup ∧ ∀ k, k ∈ (put st ks).2 ↔ k ∈ ks ∧ k ∉ st.keys := by
  simp only [put, newOf]
  refine ⟨(nodup_eraseDups_nat ks).sublist List.filter_sublist, ?_⟩
  intro k
  simp [List.mem_filter, List.mem_eraseDups]

theorem put_inv (st : St) (ks : List Nat) (h : Inv st) : Inv (put st ks).1 := by
  obtain ⟨hn, hm⟩ := put_returns_exactly_new st ks
  simp only [put] at hn hm ⊢
  refine ⟨?_, by simp [h.size]⟩
  rw [List.nodup_append]
  refine ⟨h.nodup, hn, ?_⟩
  intro a ha b hb hab
  subst hab
  exact ((hm a).1 hb).2 ha

theorem put_keys (st : St) (ks : List Nat) (k : Nat) : k ∈ (put st ks).1.keys ↔ k ∈ st.keys ∨ k ∈ ks := by
  obtain ⟨_, hm⟩ := put_returns_exactly_new st ks
  simp only [put] at hm ⊢
  rw [List.mem_append, hm]
  constructor
  · rintro (h | h); exact Or.inl h; exact Or.inr h.1
  · rintro (h | h)
    · exact Or.inl h
    · by_cases hk : k ∈ st.keys
      · exact Or.inl hk
      · exact Or.inr ⟨h, hk⟩

theorem length_filter_not_mem (l gone : List Nat) (hl : l.Nodup) (hg : gone.Nodup) (hsub : ∀ x ∈ gone, x ∈ l) :
    (l.filter fun k => !gone.contains k).length = l.length - gone.length := by
  induction l generalizing gone with
  | nil =>
    have : gone = [] := by
      cases gone with
      | nil => rfl
      | cons a _ => exact absurd (hsub a (by simp)) (by simp)
    simp [this]
  | cons a l ih =>
    have hl' := List.nodup_cons.1 hl
    by_cases ha : a ∈ gone
    · have hg' : (gone.erase a).Nodup := hg.sublist List.erase_sublist
      have hsub' : ∀ x ∈ gone.erase a, x ∈ l := by
        intro x hx
        have hxg : x ∈ gone := List.mem_of_mem_erase hx
        have hxa : x ≠ a := by
          intro e; subst e
          exact (List.Nodup.not_mem_erase hg) hx
        rcases List.mem_cons.1 (hsub x hxg) with h | h
        · exact absurd h hxa
        · exact h
      have := ih (gone.erase a) hl'.2 hg' hsub'
      have hlen : (gone.erase a).length = gone.length - 1 := List.length_erase_of_mem ha
      have hpos : gone.length ≥ 1 := List.length_pos_of_mem ha
      have hfil : (l.filter fun k => !gone.contains k) = l.filter fun k => !(gone.erase a).contains k := by
        apply List.filter_congr
        intro x hx
        have hxa : x ≠ a := fun e => hl'.1 (e ▸ hx)
        simp [List.mem_erase_of_ne hxa]
      simp only [List.filter_cons, List.contains_eq_mem, ha, decide_true, Bool.not_true, Bool.false_eq_true, ↓reduceIte,
        List.length_cons]
      simp only [List.contains_eq_mem] at hfil this
      rw [hfil, this, hlen]; omega
    · have hsub' : ∀ x ∈ gone, x ∈ l := by
        intro x hx
        rcases List.mem_cons.1 (hsub x hx) with h | h
        · subst h; exact absurd hx ha
        · exact h
      have := ih gone hl'.2 hg hsub'
      have hle : gone.length ≤ l.length := by
        have : ∀ {g l : List Nat}, g.Nodup → (∀ x ∈ g, x ∈ l) → g.length ≤ l.length := by
          intro g
          induction g with
          | nil => intro l _ _; exact Nat.zero_le _
          | cons b g ihg =>
            intro l hgn hs
            have hb : b ∈ l := hs b (by simp)
            have hgn' := List.nodup_cons.1 hgn
            have := ihg (l := l.erase b) hgn'.2 (by
              intro x hx
              have hxb : x ≠ b := fun e => hgn'.1 (e ▸ hx)
              exact (List.mem_erase_of_ne hxb).2 (hs x (List.mem_cons_of_mem _ hx)))
            have hl := List.length_erase_of_mem hb
            have : l.length ≥ 1 := List.length_pos_of_mem hb
            simp only [List.length_cons]; omega
        exact this hg hsub'
      simp only [List.filter_cons, List.contains_eq_mem, ha, decide_false, Bool.not_false, ↓reduceIte, List.length_cons]
      simp only [List.contains_eq_mem] at this
      rw [this]; omega

theorem delete_inv (st : St) (ks : List Nat) (h : Inv st) : Inv (delete st ks) := by
  simp only [delete]
  refine ⟨h.nodup.sublist List.filter_sublist, ?_⟩
  have hg : ((ks.eraseDups).filter fun k => st.keys.contains k).Nodup := (nodup_eraseDups_nat ks).sublist List.filter_sublist
  have hsub : ∀ x ∈ (ks.eraseDups).filter (fun k => st.keys.contains k), x ∈ st.keys := by
    intro x hx; simpa using (List.mem_filter.1 hx).2
  rw [length_filter_not_mem st.keys _ h.nodup hg hsub, h.size]

/-- after any history of puts and deletes the size equals the number of stored keys -/
inductive KOp where | put (ks : List Nat) | del (ks : List Nat) | empty
def applyOp (st : St) : KOp → St
  | .put ks => (put st ks).1
  | .del ks => delete st ks
  | .empty => {}

theorem size_eq_card (ops : List KOp) : Inv (ops.foldl applyOp {}) := by
  have key : ∀ (ops : List KOp) (st : St), Inv st → Inv (ops.foldl applyOp st) := by
    intro ops
    induction ops with
    | nil => intro st h; exact h
    | cons o os ih =>
      intro st h
      simp only [List.foldl_cons]
      apply ih
      cases o with
      | put ks => exact put_inv st ks h
      | del ks => exact delete_inv st ks h
      | empty => exact ⟨List.nodup_nil, rfl⟩
  exact key ops {} ⟨List.nodup_nil, rfl⟩

/-- the count is capped at a positive limit and exact otherwise -/
theorem count_is_min (n limit : Nat) : countUpTo n limit = if limit > 0 then min n limit else n := rfl

/-- defect F13 at the pinned commit: one key given twice in a Put is returned twice and counted twice -/
theorem legacy_put_counts_twice : (putLegacy {} [5, 5]).2 = [5, 5] ∧ (putLegacy {} [5, 5]).1.size = 2 ∧
    (putLegacy {} [5, 5]).1.keys = [5] ∧ (put {} [5, 5]).2 = [5] ∧ (put {} [5, 5]).1.size = 1 := by decide

/-! ### reset: a crash anywhere recovers the complete previous or the complete new set -/

theorem foldl_fill_marker (d : Disk) (chunks : List (List Nat)) :
    ((chunks.map RStep.fill).foldl applyStep d).marker = d.marker ∧
    active ((chunks.map RStep.fill).foldl applyStep d) = active d := by
  induction chunks generalizing d with
  | nil => exact ⟨rfl, rfl⟩
  | cons c cs ih =>
    simp only [List.map_cons, List.foldl_cons]
    obtain ⟨h1, h2⟩ := ih (applyStep d (.fill c))
    have hm : (applyStep d (.fill c)).marker = d.marker := by simp only [applyStep]; split <;> rfl
    have ha : active (applyStep d (.fill c)) = active d := by
      simp only [applyStep, active]
      by_cases h : (d.marker == 0) = true <;> simp [h]
    exact ⟨h1.trans hm, h2.trans ha⟩

/-- the slot the marker does not name -/
def inactive (d : Disk) : List Nat := if d.marker == 0 then d.slot1 else d.slot0

theorem foldl_fill_inactive (d : Disk) (chunks : List (List Nat)) :
    inactive ((chunks.map RStep.fill).foldl applyStep d) = inactive d ++ chunks.flatten := by
  induction chunks generalizing d with
  | nil => simp
  | cons c cs ih =>
    simp only [List.map_cons, List.foldl_cons, List.flatten_cons]
    rw [ih]
    have : inactive (applyStep d (.fill c)) = inactive d ++ c := by
      simp only [applyStep, inactive]
      by_cases h : (d.marker == 0) = true <;> simp [h]
    rw [this, List.append_assoc]

/-- for every crash position in the durable steps of a reset (repaired order: fill and sync the new slot, flip and
    sync the marker, only then tear the old slot down) the reopened keystore holds the complete previous set or the
    complete new set — never a mixture, never a partial set -/
theorem reset_atomic (d : Disk) (chunks : List (List Nat)) (hm : d.marker = 0 ∨ d.marker = 1) (halt : inactive d = []) (cut : Nat) :
    active (crashAt d (resetProgram chunks) cut) = active d ∨
    active (crashAt d (resetProgram chunks) cut) = chunks.flatten := by
  unfold crashAt resetProgram
  by_cases hc : cut ≤ chunks.length
  · -- the crash hits before the marker flips: still the previous set
    left
    have : ((chunks.map RStep.fill) ++ [RStep.flip, RStep.teardown]).take cut = (chunks.take cut).map RStep.fill := by
      rw [List.take_append_of_le_length (by simpa using hc), List.map_take]
    rw [this]
    exact (foldl_fill_marker d (chunks.take cut)).2
  · -- after the flip (with or without the teardown): the complete new set
    right
    have hlen : cut ≥ chunks.length + 1 := by omega
    obtain ⟨dF, hdF⟩ : ∃ x, x = (chunks.map RStep.fill).foldl applyStep d := ⟨_, rfl⟩
    have hF := foldl_fill_marker d chunks
    have hI := foldl_fill_inactive d chunks
    rw [halt, List.nil_append, ← hdF] at hI
    rw [← hdF] at hF
    have hmk : dF.marker = d.marker := hF.1
    have hflipActive : active (applyStep dF .flip) = chunks.flatten := by
      simp only [applyStep, active]
      simp only [inactive] at hI
      rcases hm with h0 | h1
      · have hz : dF.marker = 0 := by rw [hmk, h0]
        simp only [hz] at hI ⊢; simpa using hI
      · have hz : dF.marker = 1 := by rw [hmk, h1]
        simp only [hz] at hI ⊢; simpa using hI
    have htear : active (applyStep (applyStep dF .flip) .teardown) = active (applyStep dF .flip) := by
      simp only [applyStep, active]
      rcases hm with h0 | h1
      · have hz : dF.marker = 0 := by rw [hmk, h0]
        simp [hz]
      · have hz : dF.marker = 1 := by rw [hmk, h1]
        simp [hz]
    by_cases hc2 : cut = chunks.length + 1
    · have : ((chunks.map RStep.fill) ++ [RStep.flip, RStep.teardown]).take cut = (chunks.map RStep.fill) ++ [RStep.flip] := by
        rw [hc2, List.take_append]
        simp [List.take_of_length_le]
      rw [this, List.foldl_append, ← hdF]
      exact hflipActive
    · have : ((chunks.map RStep.fill) ++ [RStep.flip, RStep.teardown]).take cut = (chunks.map RStep.fill) ++ [RStep.flip, RStep.teardown] := by
        apply List.take_of_length_le; simp; omega
      rw [this, List.foldl_append, ← hdF]
      simp only [List.foldl_cons, List.foldl_nil]
      rw [htear]; exact hflipActive

/-- defect F8 at the pinned commit: the marker write fails, the failure is only logged, and the teardown empties the
    slot the marker on disk still names — the reopened keystore holds neither the previous nor the new set -/
theorem legacy_failed_marker_loses_everything :
    let d : Disk := { slot0 := [1, 2], marker := 0 }
    active ((legacyFailedFlip [[7], [8]]).foldl applyStep d) = [] ∧ active d = [1, 2] := by decide

/-! non-vacuity -/
example : KS.get 8 [[true, false, true, true, false, false, false, false, true, true], [true, false, false, true, false, false, false, false, false, true]]
    [true, false, true] = [[true, false, true, true, false, false, false, false, true, true]] := by decide
example : active (crashAt { slot0 := [1, 2], marker := 0 } (resetProgram [[7], [8]]) 2) = [1, 2] ∧
    active (crashAt { slot0 := [1, 2], marker := 0 } (resetProgram [[7], [8]]) 3) = [7, 8] ∧
    active (crashAt { slot0 := [1, 2], marker := 0 } (resetProgram [[7], [8]]) 4) = [7, 8] := by decide

/-! ### the reset against concurrent Puts, every interleaving -/

section resetproto
open KadDHT.ResetProto

/-- what holds in every reachable state while a reset is in progress -/
structure ResetInv (s : ResetProto.S) : Prop where
  /-- an acknowledged Put is on its way into the alternate slot: buffered, taken, or written -/
  ackedSafe : s.inReset = true → ∀ k ∈ s.acked, k ∈ s.alt ∨ k ∈ s.buf ∨ k ∈ s.held
  /-- nothing else gets there than supplied keys and acknowledged Puts -/
  onlyThose : s.inReset = true → ∀ k, (k ∈ s.alt ∨ k ∈ s.buf ∨ k ∈ s.held) → k ∈ s.supplied ∨ k ∈ s.acked
  /-- every supplied key is written or still pending -/
  suppliedSafe : s.inReset = true → ∀ k ∈ s.supplied, k ∈ s.alt ∨ k ∈ s.pending
  pendingSub : s.inReset = true → ∀ k ∈ s.pending, k ∈ s.supplied

theorem resetInv_init (keys : List Nat) : ResetInv { act := keys } :=
  ⟨fun h => by simp at h, fun h => by simp at h, fun h => by simp at h, fun h => by simp at h⟩

theorem resetInv_step (s s' : ResetProto.S) (h : ResetInv s) (hs : ResetProto.Step s s') : ResetInv s' := by
  cases hs with
  | put k =>
    refine ⟨?_, ?_, ?_, ?_⟩
    · intro hr x hx
      have hr' : s.inReset = true := hr
      simp only [hr', ↓reduceIte, List.mem_cons] at hx ⊢
      rcases hx with rfl | hx
      · exact Or.inr (Or.inl (Or.inl rfl))
      · rcases h.ackedSafe hr' x hx with h1 | h1 | h1
        · exact Or.inl h1
        · exact Or.inr (Or.inl (Or.inr h1))
        · exact Or.inr (Or.inr h1)
    · intro hr x hx
      have hr' : s.inReset = true := hr
      simp only [hr', ↓reduceIte, List.mem_cons] at hx ⊢
      rcases hx with h1 | (rfl | h1) | h1
      · rcases h.onlyThose hr' x (Or.inl h1) with h2 | h2
        · exact Or.inl h2
        · exact Or.inr (Or.inr h2)
      · exact Or.inr (Or.inl rfl)
      · rcases h.onlyThose hr' x (Or.inr (Or.inl h1)) with h2 | h2
        · exact Or.inl h2
        · exact Or.inr (Or.inr h2)
      · rcases h.onlyThose hr' x (Or.inr (Or.inr h1)) with h2 | h2
        · exact Or.inl h2
        · exact Or.inr (Or.inr h2)
    · intro hr x hx
      exact h.suppliedSafe hr x hx
    · intro hr x hx
      exact h.pendingSub hr x hx
  | start keys hn =>
    refine ⟨?_, ?_, ?_, ?_⟩
    · intro _ x hx; simp at hx
    · intro _ x hx; simp at hx
    · intro _ x hx; exact Or.inr hx
    · intro _ x hx; exact hx
  | write n hr =>
    refine ⟨?_, ?_, ?_, ?_⟩
    · intro _ x hx
      rcases h.ackedSafe hr x hx with h1 | h1 | h1
      · exact Or.inl (List.mem_append.2 (Or.inr h1))
      · exact Or.inr (Or.inl h1)
      · exact Or.inr (Or.inr h1)
    · intro _ x hx
      rcases hx with h1 | h1 | h1
      · rcases List.mem_append.1 h1 with h2 | h2
        · -- a supplied key
          have : x ∈ s.pending := List.mem_of_mem_take h2
          -- pending keys are supplied keys: by `suppliedOnly` below we only need membership in `supplied`
          exact Or.inl (h.pendingSub hr x this)
        · exact h.onlyThose hr x (Or.inl h2)
      · exact h.onlyThose hr x (Or.inr (Or.inl h1))
      · exact h.onlyThose hr x (Or.inr (Or.inr h1))
    · intro _ x hx
      rcases h.suppliedSafe hr x hx with h1 | h1
      · exact Or.inl (List.mem_append.2 (Or.inr h1))
      · have := List.take_append_drop n s.pending
        rw [← this] at h1
        rcases List.mem_append.1 h1 with h2 | h2
        · exact Or.inl (List.mem_append.2 (Or.inl h2))
        · exact Or.inr h2
    · intro _ x hx
      exact h.pendingSub hr x (List.mem_of_mem_drop hx)
  | take hr hh =>
    refine ⟨?_, ?_, ?_, ?_⟩
    · intro _ x hx
      rcases h.ackedSafe hr x hx with h1 | h1 | h1
      · exact Or.inl h1
      · exact Or.inr (Or.inr h1)
      · rw [hh] at h1; cases h1
    · intro _ x hx
      rcases hx with h1 | h1 | h1
      · exact h.onlyThose hr x (Or.inl h1)
      · cases h1
      · exact h.onlyThose hr x (Or.inr (Or.inl h1))
    · intro _ x hx; exact h.suppliedSafe hr x hx
    · intro _ x hx; exact h.pendingSub hr x hx
  | flush hr =>
    refine ⟨?_, ?_, ?_, ?_⟩
    · intro _ x hx
      rcases h.ackedSafe hr x hx with h1 | h1 | h1
      · exact Or.inl (List.mem_append.2 (Or.inr h1))
      · exact Or.inr (Or.inl h1)
      · exact Or.inl (List.mem_append.2 (Or.inl h1))
    · intro _ x hx
      rcases hx with h1 | h1 | h1
      · rcases List.mem_append.1 h1 with h2 | h2
        · exact h.onlyThose hr x (Or.inr (Or.inr h2))
        · exact h.onlyThose hr x (Or.inl h2)
      · exact h.onlyThose hr x (Or.inr (Or.inl h1))
      · cases h1
    · intro _ x hx
      rcases h.suppliedSafe hr x hx with h1 | h1
      · exact Or.inl (List.mem_append.2 (Or.inr h1))
      · exact Or.inr h1
    · intro _ x hx; exact h.pendingSub hr x hx
  | cleanup hr hp hh =>
    exact ⟨fun h' => by simp at h', fun h' => by simp at h', fun h' => by simp at h', fun h' => by simp at h'⟩

theorem resetInv_reach (s : ResetProto.S) (h : ResetProto.Reach s) : ResetInv s := by
  induction h with
  | init keys => exact resetInv_init keys
  | step s s' _ hs ih => exact resetInv_step s s' ih hs

/-- A reset replaces the contents by exactly the supplied keys plus every key whose Put was acknowledged while it ran —
    for every number of concurrent Puts and buffer drains and every interleaving of them with the reset's phases: at the
    moment `opCleanup` swaps the slots, what becomes the active slot holds a key if and only if it was supplied or its
    Put was acknowledged during the reset.  (Keys stored before and neither supplied nor put again are gone.) -/
theorem reset_replaces_exactly (s s' : ResetProto.S) (hr : ResetProto.Reach s) (hs : ResetProto.Step s s')
    (hc : s.inReset = true ∧ s'.inReset = false) :
    ∀ k, k ∈ s'.act ↔ (k ∈ s.supplied ∨ k ∈ s.acked) := by
  have hinv := resetInv_reach s hr
  cases hs with
  | put k => simp [hc.1] at hc
  | start keys hn => rw [hn] at hc; simp at hc
  | write n h => simp [h] at hc
  | take h hh => simp [h] at hc
  | flush h => simp [h] at hc
  | cleanup h hp hh =>
    intro k
    show k ∈ s.buf ++ s.alt ↔ _
    constructor
    · intro hk
      rcases List.mem_append.1 hk with h1 | h1
      · exact hinv.onlyThose h k (Or.inr (Or.inl h1))
      · exact hinv.onlyThose h k (Or.inl h1)
    · rintro (hk | hk)
      · rcases hinv.suppliedSafe h k hk with h1 | h1
        · exact List.mem_append.2 (Or.inr h1)
        · rw [hp] at h1; cases h1
      · rcases hinv.ackedSafe h k hk with h1 | h1 | h1
        · exact List.mem_append.2 (Or.inr h1)
        · exact List.mem_append.2 (Or.inl h1)
        · rw [hh] at h1; cases h1

/-- … and until then the active slot is untouched by the reset: it only grows by the Puts themselves, so a reset that
    is cancelled, fails or is cut off by Close leaves the complete previous set with the acknowledged Puts -/
theorem active_slot_only_grows_during_reset (s s' : ResetProto.S) (hs : ResetProto.Step s s') (h : s'.inReset = true) :
    ∀ k ∈ s.act, k ∈ s'.act := by
  cases hs with
  | put k => intro x hx; exact List.mem_cons_of_mem _ hx
  | start keys hn => intro x hx; exact hx
  | write n h' => intro x hx; exact hx
  | take h' hh => intro x hx; exact hx
  | flush h' => intro x hx; exact hx
  | cleanup h' hp hh => simp at h

/-- non-vacuity: supplied {1,2}, a Put of 7 lands between a takeBuf and its write, a Put of 8 after the last drain -/
def exFinal : ResetProto.S :=
  { act := [8, 7, 5], alt := [1, 2], buf := [8, 7], held := [], inReset := true, pending := [], acked := [8, 7],
    supplied := [1, 2], done := false }

theorem exFinal_reach : ResetProto.Reach exFinal := by
  have r0 : ResetProto.Reach { act := [5] } := .init [5]
  have r1 := ResetProto.Reach.step _ _ r0 (.start _ [1, 2] rfl)
  have r2 := ResetProto.Reach.step _ _ r1 (.write _ 2 rfl)
  have r3 := ResetProto.Reach.step _ _ r2 (.take _ rfl rfl)
  have r4 := ResetProto.Reach.step _ _ r3 (.put _ 7)
  have r5 := ResetProto.Reach.step _ _ r4 (.flush _ rfl)
  have r6 := ResetProto.Reach.step _ _ r5 (.put _ 8)
  exact r6

example : ∃ s', ResetProto.Step exFinal s' ∧ s'.inReset = false ∧ s'.act = [8, 7, 1, 2] :=
  ⟨_, ResetProto.Step.cleanup exFinal rfl rfl rfl, rfl, rfl⟩

end resetproto

end KadDHT.C20

/-
  C16 — the accelerated client returns the true nearest crawled peers, safely.

  Property theorems only, about `FullRT` (model of fullrt/dht.go `GetClosestPeers` and of the chunk size of
  `bulkMessageSend`) and `Crawler` (model of crawler/crawler.go `Run`).  The crawled table is the list of the peers of
  one completed crawl in ascending XOR distance from the key, each with the IP groups of its addresses in the order the
  code visits them — for every such table, K and limit.  The crawl theorems hold for every network, every seed list
  and every schedule of job hand-outs and result arrivals.  Both models are the *repaired* code; the behaviour of the
  pinned commit is kept as `…Legacy` definitions with the negative witnesses the repairs answer (defects F2, F3, F7).
  Compared on every run: the real NewFullRT (public options only) on generated tables, and the real DefaultCrawler on
  generated topologies.  Not modelled: the three separate locks under which a finished crawl is swapped in (a reader
  can observe the new address map with the old trie; see DESIGN.md), go-libp2p-xor's trie walk, kbucket's IP grouping.
-/
import KadDHT.Proofs.FullRT
import KadDHT.Proofs.Crawler
import KadDHT.Model.SwapLock
namespace KadDHT.C16
open KadDHT.FullRT KadDHT.Crawler

/-! ### closest peers -/

/-- the result lists peers of the crawled table, in the table's order: ascending XOR distance, all from one crawl -/
theorem closest_sublist (K limit : Nat) (T : List (Nat × List Nat)) : (closest K limit T).Sublist (T.map (·.1)) := by
  unfold closest
  split
  · exact List.nil_sublist _
  · rw [walk_eq_walkC]
    obtain ⟨r, h1, h2⟩ := walkC_sublist K limit T [] []
    rw [h1]; simpa using h2

/-- at most K peers -/
theorem closest_length_le (K limit : Nat) (T : List (Nat × List Nat)) : (closest K limit T).length ≤ K := by
  unfold closest
  split
  · simp
  · rw [walk_eq_walkC]; exact walkC_length K limit T [] [] (Nat.zero_le _)

/-- is `g` one of the IP groups the table gives peer `p`? -/
def inGroup (T : List (Nat × List Nat)) (g p : Nat) : Bool := T.any fun e => e.1 == p && e.2.contains g

/-- at most `limit` returned peers per IP group -/
theorem per_group_le_limit (K limit : Nat) (hl : limit > 0) (T : List (Nat × List Nat)) (hT : (T.map (·.1)).Nodup) (g : Nat) :
    ((closest K limit T).filter (inGroup T g)).length ≤ limit := by
  unfold closest
  split
  · simp
  · rw [walk_eq_walkC]
    have hinv := walkC_inv K limit hl T hT T [] [] (fun e he => he)
      ⟨List.nodup_nil, by simp [members], by simp⟩
    obtain ⟨r, h1, h2⟩ := walkC_sublist K limit T [] []
    have hrn : (walkC K limit [] [] T).2.Nodup := by rw [h1]; simpa using hT.sublist h2
    have hsub : ∀ p ∈ (walkC K limit [] [] T).2.filter (inGroup T g), p ∈ members (walkC K limit [] [] T).1 g := by
      intro p hp
      obtain ⟨hp1, hp2⟩ := List.mem_filter.1 hp
      simp only [inGroup, List.any_eq_true, Bool.and_eq_true, beq_iff_eq, List.contains_eq_mem, decide_eq_true_eq] at hp2
      obtain ⟨e, he, hep, heg⟩ := hp2
      exact mem_members.2 (hinv.counted p hp1 e he hep g heg)
    exact Nat.le_trans (length_le_of_nodup_subset (hrn.sublist List.filter_sublist) hsub) (hinv.bound g)

/-- whenever no IP group holds more crawled peers than the limit, the result is exactly the K nearest crawled peers -/
theorem closest_exact_when_no_group_over_limit (K limit : Nat) (hl : limit > 0) (T : List (Nat × List Nat))
    (hroom : ∀ g, (T.filter fun e => e.2.contains g).length ≤ limit) : closest K limit T = (T.map (·.1)).take K := by
  unfold closest
  split
  · rename_i hK; have : K = 0 := by simpa using hK
    subst this; simp
  · rw [walk_eq_walkC]
    have := walkC_exact K limit hl T hroom T [] [] [] (by simp) (by intro e he; cases he) List.nodup_nil (Nat.zero_le _)
    simpa using this

/-- no peer is listed twice, and every listed peer is a crawled peer of the table -/
theorem closest_nodup_members (K limit : Nat) (T : List (Nat × List Nat)) (hT : (T.map (·.1)).Nodup) :
    (closest K limit T).Nodup ∧ ∀ p ∈ closest K limit T, ∃ e ∈ T, e.1 = p := by
  have hs := closest_sublist K limit T
  refine ⟨hT.sublist hs, fun p hp => ?_⟩
  obtain ⟨e, he, rfl⟩ := List.mem_map.1 (hs.subset hp)
  exact ⟨e, he, rfl⟩

/-- a table of at most K peers with no group over the limit is returned whole -/
theorem closest_whole_table_when_small (K limit : Nat) (hl : limit > 0) (T : List (Nat × List Nat))
    (hroom : ∀ g, (T.filter fun e => e.2.contains g).length ≤ limit) (hK : T.length ≤ K) :
    closest K limit T = T.map (·.1) := by
  rw [closest_exact_when_no_group_over_limit K limit hl T hroom]
  exact List.take_of_length_le (by simpa using hK)

/-- the same with the limit disabled -/
theorem closest_exact_when_limit_disabled (K : Nat) (T : List (Nat × List Nat)) : closest K 0 T = (T.map (·.1)).take K := by
  unfold closest
  split
  · rename_i hK; have : K = 0 := by simpa using hK
    subst this; simp
  · have := walk_limit0 K (visit 0) T [] [] (Nat.zero_le _)
    simpa using this

/-- defect F3 at the pinned commit: three crawled peers with tcp + quic on one IP each, all in one group, limit 3 —
    no group exceeds the limit, yet only two peers are returned; the repaired walk returns all three -/
theorem legacy_counts_peer_against_itself :
    closestLegacy 3 3 [(0, [7, 7]), (1, [7, 7]), (2, [7, 7])] = [0, 1] ∧
    closest 3 3 [(0, [7, 7]), (1, [7, 7]), (2, [7, 7])] = [0, 1, 2] := by decide

/-! ### bulk operations on an empty table -/

/-- the chunk size of a bulk send is computed without a run-time panic for every table size: an empty table is an
    error value -/
theorem chunkSize_total (nKeys K numPeers : Nat) :
    (numPeers = 0 → chunkSize nKeys K numPeers = .error ()) ∧
    (numPeers > 0 → ∃ c, chunkSize nKeys K numPeers = .ok c ∧ c ≥ 1) := by
  unfold chunkSize
  constructor
  · intro h; simp [h]
  · intro h
    have : (numPeers == 0) = false := by simp; omega
    simp only [this, Bool.false_eq_true, ↓reduceIte]
    refine ⟨_, rfl, ?_⟩
    split <;> rename_i hc
    · exact Nat.le_refl 1
    · have : ¬ (nKeys * K * 2 / numPeers = 0) := by simpa using hc
      exact Nat.pos_of_ne_zero this

/-- defect F2 at the pinned commit: the division ran before any check — a Go run-time panic on an empty table -/
theorem legacy_chunkSize_panics (nKeys K : Nat) : chunkSizeLegacy nKeys K 0 = none := by simp [chunkSizeLegacy, goDiv]

/-! ### the crawl -/

variable {P : Type} [DecidableEq P]

/-- a crawl: any schedule of job hand-outs and result arrivals from the seeded state -/
def CrawlReaches (net : P → Option (List P)) (hasAddr : P → Bool) (seeds : List P) (evs : List (Ev P)) (s : CState P) : Prop :=
  run net (seed hasAddr seeds) evs = some s

theorem crawl_inv {net : P → Option (List P)} {hasAddr : P → Bool} {seeds : List P} {evs : List (Ev P)} {s : CState P}
    (h : CrawlReaches net hasAddr seeds evs s) : Inv net ((seeds.filter hasAddr).eraseDups) s :=
  run_inv net _ evs _ s (inv_seed net hasAddr seeds) h

/-- no peer is handed to a worker twice, and each peer has at most one reported outcome — at every moment of every
    crawl, duplicates among the seeds notwithstanding -/
theorem each_peer_queried_at_most_once {net : P → Option (List P)} {hasAddr : P → Bool} {seeds : List P} {evs : List (Ev P)}
    {s : CState P} (h : CrawlReaches net hasAddr seeds evs s) :
    (s.outstanding ++ s.outcomes.map (·.1)).Nodup := by
  have := (crawl_inv h).nodup
  simp only [allOf, List.append_assoc] at this
  exact (List.nodup_append.1 this).2.1

/-- every reported outcome is truthful: success exactly when the peer named somebody -/
theorem outcomes_truthful {net : P → Option (List P)} {hasAddr : P → Bool} {seeds : List P} {evs : List (Ev P)}
    {s : CState P} (h : CrawlReaches net hasAddr seeds evs s) : ∀ e ∈ s.outcomes, e.2 = answers net e.1 :=
  (crawl_inv h).truthful

/-- when the crawl has ended, the peers with an outcome are exactly the peers reachable from the seeds that have an
    address through peers that answered: every reachable peer was queried (exactly once, by the theorem above), and
    nobody else -/
theorem finished_crawl_queried_exactly_the_reachable {net : P → Option (List P)} {hasAddr : P → Bool} {seeds : List P}
    {evs : List (Ev P)} {s : CState P} (h : CrawlReaches net hasAddr seeds evs s) (hf : finished s = true) (p : P) :
    p ∈ s.outcomes.map (·.1) ↔ Reach net ((seeds.filter hasAddr).eraseDups) p := by
  have hinv := crawl_inv h
  simp only [finished, Bool.and_eq_true, List.isEmpty_iff] at hf
  have hall : ∀ q, q ∈ s.outcomes.map (·.1) ↔ q ∈ s.seen := by
    intro q
    have := hinv.seenEq q
    simp only [allOf, hf.1, hf.2, List.nil_append] at this
    exact this
  constructor
  · intro hp; exact hinv.sound p ((hall p).1 hp)
  · intro hr
    rw [hall]
    induction hr with
    | seed hs => exact hinv.seedsSeen _ hs
    | named _ hnet hq ih =>
      rename_i a b l _
      obtain ⟨e, he, hea⟩ := List.mem_map.1 ((hall a).2 ih)
      exact hinv.closed e he l (by rw [hea]; exact hnet) b hq

/-- defect F7 at the pinned commit: a starting peer listed twice was scheduled twice (two queries, two outcomes) -/
theorem legacy_duplicate_seed_queried_twice :
    (seedLegacy (fun _ => true) [4, 4]).toDial = [4, 4] ∧ (seed (fun _ => true) [4, 4]).toDial = [4] := by decide

/-! non-vacuity -/
example : closest 3 1 [(0, [1]), (1, [1, 2]), (2, [2]), (3, [3]), (4, [4])] = [0, 2, 3] := by decide
example : closest 2 2 [(0, [1, 1]), (1, [1]), (2, [1])] = [0, 1] := by decide
example : (crawlSeq (fun p => if p = 1 then some [2, 3] else if p = 2 then some [1] else none) 10
    (seed (fun _ => true) [1, 1])).outcomes = [(1, true), (2, true), (3, false)] := by decide

/-! ### one single completed crawl: the swap of a finished crawl against concurrent queries -/

open KadDHT.SwapLock in
/-- what holds in every reachable state of the repaired protocol -/
structure SwapInv (s : SwapLock.S) : Prop where
  /-- a reader that holds any lock excludes the writer … -/
  readerExcl : ∀ t, 1 ≤ s.rpc t → s.wpc = 0
  /-- … the tables agree whenever the writer is not between its assignments … -/
  agree : s.wpc ≤ 3 → s.rt = s.km ∧ s.km = s.ad
  mid4 : s.wpc = 4 → s.ad = s.next
  mid5 : s.wpc = 5 → s.ad = s.next ∧ s.km = s.next
  /-- … and so does everything a query ever read -/
  seenOk : ∀ t v, s.seen t = some v → v.1 = v.2.1 ∧ v.2.1 = v.2.2

open KadDHT.SwapLock in
theorem swapInv_init : SwapInv {} :=
  ⟨fun _ h => by simp at h, fun _ => ⟨rfl, rfl⟩, fun h => by simp at h, fun h => by simp at h, fun _ _ h => by simp at h⟩

open KadDHT.SwapLock in
theorem swapInv_step (s s' : SwapLock.S) (h : SwapInv s) (hs : StepNew s s') : SwapInv s' := by
  cases hs with
  | reader _ hr =>
    cases hr with
    | acq t hlt hfree =>
      have hw : s.wpc = 0 := by
        by_cases h1 : 1 ≤ s.rpc t
        · exact h.readerExcl t h1
        · have : ¬ (s.rpc t + 1 ≤ s.wpc) := hfree
          omega
      exact ⟨fun _ _ => hw, h.agree, h.mid4, h.mid5, h.seenOk⟩
    | read t h3 =>
      have hw : s.wpc = 0 := h.readerExcl t (by omega)
      refine ⟨?_, h.agree, h.mid4, h.mid5, ?_⟩
      · intro u hu
        have hu' : 1 ≤ setR s.rpc t 0 u := hu
        unfold setR at hu'
        split at hu'
        · omega
        · exact h.readerExcl u hu'
      · intro u v hv
        have hv' : setR s.seen t (some (s.rt, s.km, s.ad)) u = some v := hv
        unfold setR at hv'
        split at hv'
        · cases hv'
          exact h.agree (by omega)
        · exact h.seenOk u v hv'
  | wacq hlt hfree =>
    refine ⟨?_, ?_, ?_, ?_, h.seenOk⟩
    · intro t ht
      have ht' : 1 ≤ s.rpc t := ht
      have := hfree t
      have h0 : s.wpc = 0 := h.readerExcl t ht'
      omega
    · intro _; exact h.agree (by omega)
    · intro h4; have : s.wpc + 1 = 4 := h4; omega
    · intro h5; have : s.wpc + 1 = 5 := h5; omega
  | wAddrs h3 =>
    refine ⟨?_, ?_, fun _ => rfl, ?_, h.seenOk⟩
    · intro t ht
      have ht' : 1 ≤ s.rpc t := ht
      have := h.readerExcl t ht'
      omega
    · intro h4; simp at h4
    · intro h5; simp at h5
  | wMap h4 =>
    refine ⟨?_, ?_, ?_, fun _ => ⟨h.mid4 h4, rfl⟩, h.seenOk⟩
    · intro t ht
      have ht' : 1 ≤ s.rpc t := ht
      have := h.readerExcl t ht'
      omega
    · intro h5; simp at h5
    · intro h5; simp at h5
  | wRt h5 =>
    have hm := h.mid5 h5
    refine ⟨?_, ?_, ?_, ?_, h.seenOk⟩
    · intro t ht
      have ht' : 1 ≤ s.rpc t := ht
      have := h.readerExcl t ht'
      omega
    · intro _; exact ⟨hm.2.symm, by rw [hm.2, hm.1]⟩
    · intro h4; simp at h4
    · intro h4; simp at h4

open KadDHT.SwapLock in
theorem swapInv_reach (s : SwapLock.S) (h : Reach StepNew s) : SwapInv s := by
  induction h with
  | init => exact swapInv_init
  | step s s' _ hs ih => exact swapInv_step s s' ih hs

open KadDHT.SwapLock in
/-- With the finished crawl swapped in under all three locks (taken in the order the queries take them), every
    closest-peers query — any number of them, in any interleaving with any number of swaps — reads the trie, the
    key->peer map and the address map of ONE crawl. -/
theorem swap_atomic (s : SwapLock.S) (h : Reach StepNew s) (t : Nat) (r k a : Nat) (hv : s.seen t = some (r, k, a)) :
    r = k ∧ k = a :=
  (swapInv_reach s h).seenOk t (r, k, a) hv

open KadDHT.SwapLock in
/-- The swap as it was (three separate critical sections) lets a query that already holds rtLk read the trie of the
    previous crawl with the maps of the new one: the mixture the race harness met on the real client. -/
theorem swap_legacy_mixes : ∃ s, Reach StepOld s ∧ s.seen 0 = some (0, 1, 1) := by
  let s0 : SwapLock.S := {}
  let s1 : SwapLock.S := { s0 with rpc := setR s0.rpc 0 (s0.rpc 0 + 1) }
  let s2 : SwapLock.S := { s1 with ad := s1.next, wpc := 1 }
  let s3 : SwapLock.S := { s2 with km := s2.next, wpc := 2 }
  let s4 : SwapLock.S := { s3 with rpc := setR s3.rpc 0 (s3.rpc 0 + 1) }
  let s5 : SwapLock.S := { s4 with rpc := setR s4.rpc 0 (s4.rpc 0 + 1) }
  let s6 : SwapLock.S := { s5 with rpc := setR s5.rpc 0 0, seen := setR s5.seen 0 (some (s5.rt, s5.km, s5.ad)) }
  have r0 : Reach StepOld s0 := .init
  have r1 : Reach StepOld s1 := .step _ _ r0 (.reader _ _ (.acq s0 0 (by decide) (fun h => h)))
  have r2 : Reach StepOld s2 := .step _ _ r1 (.wAddrs s1 rfl (by intro t; show setR s0.rpc 0 (s0.rpc 0 + 1) t < 3; unfold setR; split <;> simp [s0]))
  have r3 : Reach StepOld s3 := .step _ _ r2 (.wMap s2 rfl (by intro t; show setR s0.rpc 0 (s0.rpc 0 + 1) t < 2; unfold setR; split <;> simp [s0]))
  have r4 : Reach StepOld s4 := .step _ _ r3 (.reader _ _ (.acq s3 0 (by show setR s0.rpc 0 (s0.rpc 0 + 1) 0 < 3; simp [setR, s0]) (fun h => h)))
  have r5 : Reach StepOld s5 := .step _ _ r4 (.reader _ _ (.acq s4 0 (by show setR s3.rpc 0 (s3.rpc 0 + 1) 0 < 3; simp [setR, s3, s2, s1, s0]) (fun h => h)))
  have r6 : Reach StepOld s6 := .step _ _ r5 (.reader _ _ (.read s5 0 (by show setR s4.rpc 0 (s4.rpc 0 + 1) 0 = 3; simp [setR, s4, s3, s2, s1, s0])))
  exact ⟨s6, r6, by simp [s6, s5, s4, s3, s2, s1, s0, setR]⟩

open KadDHT.SwapLock in
/-- non-vacuity: a query does complete during the repaired protocol (after a full swap it reads crawl 1 everywhere) -/
example : ∃ s, Reach StepNew s ∧ s.wpc = 1 := ⟨_, .step _ _ .init (.wacq {} (by decide) (fun _ => Nat.zero_lt_succ _)), rfl⟩

end KadDHT.C16

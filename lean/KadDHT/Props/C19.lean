/-
  C19 — provide and reprovide queues never lose, duplicate or misorder work.

  Property theorems only.  They are about the list-level model KadDHT/Model/Queue.lean, which the
  correspondence run compares with provider/internal/queue after *every* operation of every generated
  history (full queue order + key set), so the model's observations are the property's observations.

  `Inv` is the ordered-map reading of the state: queued prefixes pairwise non-overlapping (hence
  unique), keys without duplicates, every key under a queued prefix (exactly one, by non-overlap) and
  every queued prefix holding at least one key.
-/
import KadDHT.Proofs.Queue
namespace KadDHT.C19
open KadDHT KadDHT.Queue

/-- operations of the provide queue -/
inductive Op where
  | enq (p : Key) (ks : List Key)
  | deq
  | deqm (p : Key)
  | rm (ks : List Key)
  | clear

/-- the documented precondition of `Enqueue`: supplied keys match the supplied prefix -/
def Op.ok : Op → Bool
  | .enq p ks => ks.all (isPre p ·)
  | _ => true

def step (s : PS) : Op → PS
  | .enq p ks => enqueue s p ks
  | .deq => (dequeue s).2
  | .deqm p => (dequeueMatching s p).2
  | .rm ks => removeKeys s ks
  | .clear => (clear s).2

theorem step_inv (s : PS) (op : Op) (h : Queue.Inv s) (hok : op.ok = true) : Queue.Inv (step s op) := by
  cases op with
  | enq p ks => exact enqueue_inv s p ks h (by simpa [Op.ok] using hok)
  | deq => exact dequeue_inv s h
  | deqm p => exact dequeueMatching_inv s p h
  | rm ks => exact removeKeys_inv s ks h
  | clear => exact inv_empty

/-- every reachable state of the provide queue is an ordered map from non-overlapping prefixes to
    non-empty, disjoint key sets: for every history of operations -/
theorem inv_history (ops : List Op) (hok : ∀ op ∈ ops, op.ok = true) : Queue.Inv (ops.foldl step PS.empty) := by
  suffices ∀ s, Queue.Inv s → Queue.Inv (ops.foldl step s) from this _ inv_empty
  induction ops with
  | nil => intro s h; exact h
  | cons op ops ih =>
    intro s h
    exact ih (fun o ho => hok o (by simp [ho])) _ (step_inv s op h (hok op (by simp)))

/-- a key is never queued twice and always sits under exactly one queued prefix -/
theorem key_exactly_once (s : PS) (h : Queue.Inv s) :
    s.keys.Nodup ∧ ∀ k ∈ s.keys, ∃ p ∈ s.order, isPre p k = true ∧ ∀ q ∈ s.order, isPre q k = true → q = p := by
  refine ⟨h.nodup, ?_⟩
  intro k hk
  obtain ⟨p, hp, hpk⟩ := h.covered k hk
  exact ⟨p, hp, hpk, fun q hq hqk => pf_unique_prefix h.pf hq hp hqk hpk⟩

/-- Dequeue returns the oldest prefix with all and only the queued keys under it, and removes exactly those -/
theorem dequeue_oldest_with_all_and_only_its_keys (s : PS) (p : Key) (q : PQ) (ho : s.order = p :: q) :
    (dequeue s).1 = some (p, s.keys.filter (isPre p ·)) ∧
    (dequeue s).2.order = q ∧
    ∀ k, k ∈ (dequeue s).2.keys ↔ (k ∈ s.keys ∧ isPre p k = false) := by
  unfold dequeue
  simp [ho]

/-- draining: dequeue until the queue is empty -/
def drainAll : Nat → PS → List (Key × List Key)
  | 0, _ => []
  | n + 1, s =>
    match (dequeue s).1 with
    | none => []
    | some x => x :: drainAll n (dequeue s).2

/-- No loss, no invention over a whole drain: from every state of the ordered map, dequeuing until the queue is
    empty hands out every queued key, and nothing that was not queued. -/
theorem drainAll_hands_out_exactly_the_keys (n : Nat) (s : PS) (h : Queue.Inv s) (hn : s.order.length = n) (k : Key) :
    k ∈ s.keys ↔ ∃ x ∈ drainAll n s, k ∈ x.2 := by
  induction n generalizing s with
  | zero =>
    have ho : s.order = [] := List.eq_nil_of_length_eq_zero hn
    constructor
    · intro hk
      obtain ⟨p, hp, _⟩ := h.covered k hk
      rw [ho] at hp; cases hp
    · rintro ⟨x, hx, _⟩; simp [drainAll] at hx
  | succ n ih =>
    match ho : s.order with
    | [] => rw [ho] at hn; cases hn
    | p :: q =>
      have hd := dequeue_oldest_with_all_and_only_its_keys s p q ho
      have hi := dequeue_inv s h
      have hlen : (dequeue s).2.order.length = n := by rw [hd.2.1]; rw [ho] at hn; simpa using hn
      have := ih (dequeue s).2 hi hlen
      simp only [drainAll, hd.1, List.mem_cons, exists_eq_or_imp, ← this, hd.2.2 k, List.mem_filter]
      cases hb : isPre p k <;> simp

/-- enqueueing adds exactly the supplied keys; a key already queued is not duplicated -/
theorem enqueue_keys (s : PS) (p : Key) (ks : List Key) (k : Key) :
    k ∈ (enqueue s p ks).keys ↔ (k ∈ s.keys ∨ k ∈ ks) := by
  unfold enqueue
  split
  · rename_i h; simp at h; simp [h]
  · exact mem_addKeys _ _ _

/-- removal removes exactly the named keys -/
theorem removeKeys_keys (s : PS) (ks : List Key) (k : Key) :
    k ∈ (removeKeys s ks).keys ↔ (k ∈ s.keys ∧ k ∉ ks) := by
  rw [removeKeys_eq]; simp

/-- a shorter prefix absorbs the queued longer ones at the position of the first of them; everything
    else keeps its relative order -/
theorem absorb_at_first_position (q : PQ) (p : Key) (h : q.any (isPre p ·) = true) :
    push q p = q.takeWhile (!isPre p ·) ++ [p] ++ (q.dropWhile (!isPre p ·)).filter (!isPre p ·) ∧
    (q.takeWhile (!isPre p ·) ++ (q.dropWhile (!isPre p ·)).filter (!isPre p ·)).Sublist q := by
  refine ⟨by simp [push, h], takeWhile_dropWhile_filter_sublist _ _⟩

/-- the reprovide queue holds unique, pairwise non-overlapping prefixes, for every enqueue history -/
theorem reprovide_unique_nonoverlapping (batches : List (List Key)) :
    PF (batches.foldl pushMany []) ∧ (batches.foldl pushMany []).Nodup := by
  have : PF (batches.foldl pushMany []) := by
    suffices ∀ q, PF q → PF (batches.foldl pushMany q) from this [] List.Pairwise.nil
    induction batches with
    | nil => intro q h; exact h
    | cons b bs ih => intro q h; exact ih _ (pushMany_pf q b h)
  exact ⟨this, this.nodup⟩

/-- … in first-enqueue order: a prefix unrelated to everything queued goes to the back, and nothing
    already queued is reordered by a later push -/
theorem reprovide_fifo (q : PQ) (p : Key) :
    ((push q p).filter (· != p)).Sublist q ∧
    (q.any (isPre p ·) = false → q.any (isPre · p) = false → push q p = q ++ [p]) := by
  constructor
  · unfold push
    split
    · have hs := takeWhile_dropWhile_filter_sublist (fun k => !isPre p k) q
      have : ((q.takeWhile (!isPre p ·) ++ [p] ++ (q.dropWhile (!isPre p ·)).filter (!isPre p ·)).filter (· != p)).Sublist
          (q.takeWhile (!isPre p ·) ++ (q.dropWhile (!isPre p ·)).filter (!isPre p ·)) := by
        simp only [List.append_assoc, List.filter_append]
        refine List.Sublist.append List.filter_sublist ?_
        simp only [List.filter_cons, bne_self_eq_false, Bool.false_eq_true, ↓reduceIte]
        exact List.filter_sublist
      exact this.trans hs
    · split
      · exact List.filter_sublist
      · simp only [List.filter_append, List.filter_cons, bne_self_eq_false, Bool.false_eq_true, ↓reduceIte,
          List.filter_nil, List.append_nil]
        exact List.filter_sublist
  · intro h1 h2; simp [push, h1, h2]

/-- persisting the queue and draining it into a fresh one restores the same prefixes, order and keys
    (and leaves the datastore empty) — for the repaired `DrainDatastore` (fix: 363f070). -/
theorem persist_drain_roundtrip (s : PS) (h : Queue.Inv s) :
    let r := drain true PS.empty (persist s)
    r.1.order = s.order ∧ (∀ k, k ∈ r.1.keys ↔ k ∈ s.keys) ∧ r.1.keys.Nodup ∧ r.2 = [] :=
  persist_drain_roundtrip' s h

/-- the drain of the tree before the repair (a one-component datastore key is skipped) loses every key
    queued under the empty prefix: negative witness kept for the record (defect F4). -/
theorem unrepaired_drain_loses_empty_prefix :
    let s : PS := ⟨[[]], [[true, false], [false, true]]⟩
    (drain false PS.empty (persist s)).1 = PS.empty := by decide

/-! non-vacuity: a reachable state with an absorption, a partial removal and the empty prefix -/
def exOps : List Op :=
  [.enq [false, true] [[false, true, true]], .enq [true] [[true, false]], .enq [false] [[false, false, true], [false, true, false]],
   .rm [[false, true, true]], .deqm [true]]
example : ∀ op ∈ exOps, op.ok = true := by decide
example : (exOps.foldl step PS.empty) = ⟨[[false]], [[false, false, true], [false, true, false]]⟩ := by decide
example : drainAll 2 ⟨[[true], [false]], [[false, true], [true, true], [false, false]]⟩ =
    [([true], [[true, true]]), ([false], [[false, true], [false, false]])] := by decide
example : (drain true PS.empty (persist ⟨[[]], [[true], [false]]⟩)).1 = ⟨[[]], [[true], [false]]⟩ := by decide

end KadDHT.C19

/-
  C10 — no remote response can crash, wedge or over-feed a client.

  Property theorems only, about `Client.call` (model of pb/protocol_messenger.go over an abstract
  response whose every sub-message may be absent), `Client.sanitize` (model of `PBPeersToPeerInfos`) and
  the 2K cap of query.go.  Tied to the code by running every ProtocolMessenger method on generated
  responses (full decision table + random peer lists).  Silence, garbage bytes and late replies are the
  message sender's concern (C11); the lookup-level effect of the 2K cap is compared in C01.
-/
import KadDHT.Proofs.Wire
import KadDHT.Model.Client
namespace KadDHT.C10
open KadDHT.Client KadDHT.Wire

/-- no response, whatever fields it lacks or mismatches, makes any method crash: the RPC returns an
    error or a sanitised result (repaired code, fix: 81c7c93) -/
theorem client_total (m : Method) (r : Resp) : call true m r ≠ .panic := by
  cases m <;> simp only [call, putValue, getValue, getClosestPeers, getProviders, ping]
  · cases r.record with
    | none => simp
    | some kv => obtain ⟨_, v⟩ := kv; cases v <;> simp
  · cases r.record with
    | none => simp
    | some kv => obtain ⟨k, _⟩ := kv; cases k <;> simp
  · simp
  · simp
  · split <;> simp

/-- the tree before the repair: a PUT_VALUE echo without a record crashed the client (defect F1) -/
theorem unrepaired_putValue_panics_without_record :
    call false .putValue { type := 0, record := none, closer := [], provs := [] } = .panic := by decide

/-- a record for a different key (or without a key) is rejected -/
theorem getvalue_other_key_rejected (r : Resp) (v : Bool) (h : r.record = some (false, v)) :
    getValue r = .err "received incorrect record" := by
  simp [getValue, h]

/-- GetValue hands a record to its caller only if the record's key is the requested key -/
theorem getvalue_record_only_if_key_matches (r : Resp) (c p : List (List Nat)) (h : getValue r = .ok true c p) :
    ∃ v, r.record = some (true, v) := by
  unfold getValue at h
  cases hr : r.record with
  | none => simp [hr] at h
  | some kv =>
    obtain ⟨k, v⟩ := kv
    cases k
    · simp [hr] at h
    · exact ⟨v, rfl⟩

theorem sum_filter_le (l : List (Nat × Bool)) :
    (((l.filter (·.2)).map (·.1)).map fun a => sizeTag + sizeBytes a).sum ≤ ((l.map (·.1)).map fun a => sizeTag + sizeBytes a).sum := by
  induction l with
  | nil => simp
  | cons x l ih =>
    simp only [List.filter_cons]
    split
    · simp only [List.map_cons, List.sum_cons]; omega
    · simp only [List.map_cons, List.sum_cons]; omega

/-- every peer record that enters the client is at most 8 KiB (given the id part fits, as for every real
    peer id), and every address it keeps decodes -/
theorem ingress_records_bounded (p : RawPeer) (h : fixedSize ⟨p.idLen, [], p.conn⟩ ≤ maxPeerRecordSize) :
    recSize ⟨p.idLen, sanitize p, p.conn⟩ ≤ maxPeerRecordSize ∧
    (sanitize p).length ≤ p.addrs.length ∧
    ∀ a ∈ sanitize p, (a, true) ∈ p.addrs := by
  have hpre := keepAddrs_prefix maxPeerRecordSize (fixedSize ⟨p.idLen, p.addrs.map (·.1), p.conn⟩) (p.addrs.map (·.1))
  have htake : (p.addrs.take (keepAddrs maxPeerRecordSize (fixedSize ⟨p.idLen, p.addrs.map (·.1), p.conn⟩)
      (p.addrs.map (·.1))).length).map (·.1)
      = keepAddrs maxPeerRecordSize (fixedSize ⟨p.idLen, p.addrs.map (·.1), p.conn⟩) (p.addrs.map (·.1)) := by
    rw [List.map_take]
    exact (List.prefix_iff_eq_take.1 hpre).symm
  have hsum := keepAddrs_sum maxPeerRecordSize (fixedSize ⟨p.idLen, p.addrs.map (·.1), p.conn⟩) (p.addrs.map (·.1))
    (by simpa [fixedSize] using h)
  refine ⟨?_, ?_, ?_⟩
  · simp only [recSize, sanitize, boundAddrs]
    have := sum_filter_le (p.addrs.take (keepAddrs maxPeerRecordSize (fixedSize ⟨p.idLen, p.addrs.map (·.1), p.conn⟩)
      (p.addrs.map (·.1))).length)
    rw [htake] at this
    simp only [fixedSize] at *
    omega
  · simp only [sanitize, List.length_map]
    exact Nat.le_trans (List.length_filter_le _ _) (by rw [List.length_take]; exact Nat.min_le_right _ _)
  · intro a ha
    simp only [sanitize, List.mem_map, List.mem_filter] at ha
    obtain ⟨x, ⟨hx, hd⟩, rfl⟩ := ha
    have := List.mem_of_mem_take hx
    obtain ⟨a, d⟩ := x
    simp only at hd; subst hd; exact this

/-- at most 2K closer peers of one response enter a lookup -/
theorem at_most_2K_enter_lookup {α : Type} (K : Nat) (peers : List α) : (capCloser K peers).length ≤ 2 * K := by
  simp [capCloser, List.length_take]; omega

/-- Whatever the method and the response, a successful call hands over one sanitised entry per peer record
    of the response, in order: nothing is invented, multiplied or taken from another field (closer peers
    come from `closer`, providers from `provs`, and only GetProviders returns providers). -/
theorem call_peers_from_response (b : Bool) (m : Method) (r : Resp) (hr : Bool) (c p : List (List Nat))
    (h : call b m r = .ok hr c p) :
    (c = [] ∨ c = r.closer.map sanitize) ∧ (p = [] ∨ (m = .getProviders ∧ p = r.provs.map sanitize)) := by
  cases m <;> simp only [call, putValue, getValue, getClosestPeers, getProviders, ping] at h
  · cases hrec : r.record with
    | none => rw [hrec] at h; cases b <;> simp at h
    | some kv =>
      obtain ⟨_, v⟩ := kv; rw [hrec] at h
      cases v <;> simp at h
      obtain ⟨_, rfl, rfl⟩ := h; exact ⟨Or.inl rfl, Or.inl rfl⟩
  · cases hrec : r.record with
    | none => rw [hrec] at h; simp at h; obtain ⟨_, rfl, rfl⟩ := h; exact ⟨Or.inr rfl, Or.inl rfl⟩
    | some kv =>
      obtain ⟨k, _⟩ := kv; rw [hrec] at h
      cases k <;> simp at h
      obtain ⟨_, rfl, rfl⟩ := h; exact ⟨Or.inr rfl, Or.inl rfl⟩
  · simp at h; obtain ⟨_, rfl, rfl⟩ := h; exact ⟨Or.inr rfl, Or.inl rfl⟩
  · simp at h; obtain ⟨_, rfl, rfl⟩ := h; exact ⟨Or.inr rfl, Or.inr ⟨rfl, rfl⟩⟩
  · split at h <;> simp at h
    obtain ⟨_, rfl, rfl⟩ := h; exact ⟨Or.inl rfl, Or.inl rfl⟩

/-- so the number of peers a response can feed to its caller is bounded by the response itself -/
theorem call_peer_count_bounded (b : Bool) (m : Method) (r : Resp) (hr : Bool) (c p : List (List Nat))
    (h : call b m r = .ok hr c p) : c.length ≤ r.closer.length ∧ p.length ≤ r.provs.length := by
  obtain ⟨hc, hp⟩ := call_peers_from_response b m r hr c p h
  constructor
  · rcases hc with rfl | rfl <;> simp
  · rcases hp with rfl | ⟨_, rfl⟩ <;> simp

/-- the 2K cap keeps the first peers of the response, in order; a short list passes unchanged -/
theorem capCloser_prefix {α : Type} (K : Nat) (peers : List α) :
    capCloser K peers <+: peers ∧ (peers.length ≤ 2 * K → capCloser K peers = peers) :=
  ⟨List.take_prefix _ _, fun h => List.take_of_length_le h⟩

/-! non-vacuity -/
example : getValue { type := 1, record := some (true, false), closer := [⟨38, 1, [(8, true), (20, false)]⟩], provs := [] }
    = .ok true [[8]] [] := by decide
example : (sanitize ⟨38, 0, List.replicate 100 (97, true)⟩).length = 82 := by decide

end KadDHT.C10

/-
  C09 — a server answers any request safely, within protocol bounds.

  Property theorems only.  They are about `Server.handle` (model of handlers.go + the dispatch and the
  per-message mode check of the stream loop) and the size arithmetic of `Wire` (model of
  `boundPeerRecordAddrs` and `appendFittingProviderPeers`).  Both are compared with the real stream
  handler on every check run: structured requests of every type, malformed frames, and ordered wire
  cases for the two size bounds.  Constants and the dispatch table are re-read from the source
  (`Generated/Facts.lean`).  Not modelled: protobuf/multiaddr decoding, msgio framing (their outcomes are
  inputs: "decodes"/"does not decode"), and kbucket's `NearestPeers` (its answer is an input; "nearest
  first" is relative to that answer).
-/
import KadDHT.Proofs.Wire
import KadDHT.Model.Server
import KadDHT.Generated.Facts
namespace KadDHT.C09
open KadDHT.Server KadDHT.Wire

/-! ### regenerated facts the theorems below rely on -/

theorem fact_maxPeerRecordSize : Facts.maxPeerRecordSize = some maxPeerRecordSize := by decide
theorem fact_provider_key_limit :
    Facts.addProviderMaxKeyLen = some 80 ∧ Facts.getProvidersMaxKeyLen = some 80 := by decide
/-- the dispatch of `handlerForMsgType`: FIND_NODE and PING always, value RPCs only with a value store,
    provider RPCs only with a provider store, everything else no handler (→ the stream is reset) -/
theorem fact_dispatch_table : Facts.dispatchTable =
    ["|pb.Message_FIND_NODE|dht.handleFindPeer", "|pb.Message_PING|dht.handlePing",
     "dht.valueStore!=nil|pb.Message_GET_VALUE|dht.handleGetValue",
     "dht.valueStore!=nil|pb.Message_PUT_VALUE|dht.handlePutValue",
     "dht.providerStore!=nil|pb.Message_ADD_PROVIDER|dht.handleAddProvider",
     "dht.providerStore!=nil|pb.Message_GET_PROVIDERS|dht.handleGetProviders", "|default|nil"] := by decide

/-! ### closer peers -/

theorem closer_le_K (self from_ : Peer) (K : Nat) (nearest : List Peer) :
    (closerPeers self from_ K nearest).length ≤ K := by
  simp [closerPeers, List.length_take]; omega

theorem closer_excludes_self_and_requester (self from_ : Peer) (K : Nat) (nearest : List Peer) :
    ∀ p ∈ closerPeers self from_ K nearest, p ≠ self ∧ p ≠ from_ := by
  intro p hp
  have := List.mem_of_mem_take hp
  simpa using (List.mem_filter.1 this).2

/-- nearest first: the closer peers are a sub-sequence of the routing table's nearest-first answer -/
theorem closer_order_preserved (self from_ : Peer) (K : Nat) (nearest : List Peer) :
    (closerPeers self from_ K nearest).Sublist nearest :=
  (List.take_sublist _ _).trans List.filter_sublist

/-- no omission: an eligible peer of the routing table's answer (not the local node, not the requester) is left out
    only when K nearer eligible peers fill the answer -/
theorem closer_no_omission (self from_ : Peer) (K : Nat) (nearest : List Peer) (p : Peer) (hp : p ∈ nearest)
    (hs : p ≠ self) (hf : p ≠ from_) (hnot : p ∉ closerPeers self from_ K nearest) :
    (closerPeers self from_ K nearest).length = K := by
  unfold closerPeers at hnot ⊢
  rw [List.length_take]
  apply Nat.min_eq_left
  apply Nat.le_of_lt
  apply Nat.lt_of_not_le
  intro hle
  rw [List.take_of_length_le hle] at hnot
  exact hnot (List.mem_filter.2 ⟨hp, by simp [hs, hf]⟩)

/-- the peer list of a FIND_NODE answer before address filtering: the closer peers, with the requested
    peer put in front when it is not already there -/
def findNodeList (s : Srv) (from_ : Peer) (r : Req) : List Peer :=
  let closest := closerPeers s.self from_ s.K s.nearest
  match r.target with
  | some t => if closest.head? == some t then closest else t :: closest
  | none => closest

theorem findNodeList_spec (s : Srv) (from_ : Peer) (r : Req) :
    (findNodeList s from_ r).length ≤ s.K + 1 ∧
    (∀ p ∈ (findNodeList s from_ r).tail, p ≠ s.self ∧ p ≠ from_) ∧
    (∀ p ∈ findNodeList s from_ r, (p = s.self ∨ p = from_) → r.target = some p) := by
  have hlen := closer_le_K s.self from_ s.K s.nearest
  have hex := closer_excludes_self_and_requester s.self from_ s.K s.nearest
  unfold findNodeList
  cases ht : r.target with
  | none =>
    refine ⟨by simp only; omega, ?_, ?_⟩
    · intro p hp; exact hex p (List.mem_of_mem_tail hp)
    · intro p hp h; rcases h with h | h
      · exact absurd h (hex p hp).1
      · exact absurd h (hex p hp).2
  | some t =>
    simp only
    split
    · refine ⟨by omega, ?_, ?_⟩
      · intro p hp; exact hex p (List.mem_of_mem_tail hp)
      · intro p hp h; rcases h with h | h
        · exact absurd h (hex p hp).1
        · exact absurd h (hex p hp).2
    · refine ⟨by simp only [List.length_cons]; omega, ?_, ?_⟩
      · intro p hp; exact hex p (by simpa using hp)
      · intro p hp h
        rcases List.mem_cons.1 hp with rfl | hp
        · rfl
        · rcases h with h | h
          · exact absurd h (hex p hp).1
          · exact absurd h (hex p hp).2

/-- FIND_NODE: the answer lists (a sub-sequence of) at most K closer peers plus the requested peer itself,
    which can only come first; every listed peer carries at least one address; neither the node nor the
    requester is listed unless it is the requested peer. -/
theorem findnode_response (s : Srv) (from_ : Peer) (r : Req) (hs : s.serverMode = true) (ht : r.type = .findNode)
    (hk : r.keyLen ≠ 0) :
    ∃ closer, (handle s from_ r).1 = .msg .findNode false false closer [] ∧
      (closer.map (·.id)).Sublist (findNodeList s from_ r) ∧
      closer.length ≤ s.K + 1 ∧
      (∀ o ∈ closer, o.addrs ≠ []) ∧
      (∀ o ∈ closer, (o.id = s.self ∨ o.id = from_) → r.target = some o.id) := by
  have hk' : (r.keyLen == 0) = false := by simpa using hk
  have hspec := findNodeList_spec s from_ r
  refine ⟨((findNodeList s from_ r).map (toOut s.idLen s.addrsOf)).filter (fun o => !o.addrs.isEmpty), ?_, ?_, ?_, ?_, ?_⟩
  · cases hr : r.target <;> simp [handle, hs, ht, hk', findNodeList, hr]
  · have h1 : ((((findNodeList s from_ r).map (toOut s.idLen s.addrsOf)).filter (fun o => !o.addrs.isEmpty)).map (·.id)).Sublist
        (((findNodeList s from_ r).map (toOut s.idLen s.addrsOf)).map (·.id)) := List.filter_sublist.map _
    have h2 : ((findNodeList s from_ r).map (toOut s.idLen s.addrsOf)).map (·.id) = findNodeList s from_ r := by
      rw [List.map_map]; simp [Function.comp_def, toOut, mkOut]
    rwa [h2] at h1
  · have := List.length_filter_le (fun (o : OutPeer) => !o.addrs.isEmpty) ((findNodeList s from_ r).map (toOut s.idLen s.addrsOf))
    simp only [List.length_map] at this
    omega
  · intro o ho
    have := (List.mem_filter.1 ho).2
    intro hnil; simp [hnil] at this
  · intro o ho h
    obtain ⟨p, hp, rfl⟩ := List.mem_map.1 (List.mem_filter.1 ho).1
    exact hspec.2.2 p hp (by simpa [toOut, mkOut] using h)

/-- PING and PUT_VALUE answers (echoes) carry no peer records, whatever the request stuffed in -/
theorem echo_has_no_peer_records (s : Srv) (from_ : Peer) (r : Req) (t : MsgType) (k rec_ : Bool)
    (closer provs : List OutPeer) (ht : r.type = .ping ∨ r.type = .putValue)
    (h : (handle s from_ r).1 = .msg t k rec_ closer provs) : closer = [] ∧ provs = [] := by
  unfold handle at h
  rcases ht with ht | ht <;> simp only [ht] at h
  · split at h
    · cases h
    · cases h; exact ⟨rfl, rfl⟩
  · repeat' split at h
    all_goals first | (cases h; exact ⟨rfl, rfl⟩) | cases h

/-- GET_VALUE / GET_PROVIDERS answers list at most K closer peers, nearest first, never the node itself
    or the requester -/
theorem closer_in_value_and_provider_answers (s : Srv) (from_ : Peer) (r : Req) (t : MsgType) (k rec_ : Bool)
    (closer provs : List OutPeer) (ht : r.type = .getValue ∨ r.type = .getProviders)
    (h : (handle s from_ r).1 = .msg t k rec_ closer provs) :
    closer.map (·.id) = closerPeers s.self from_ s.K s.nearest := by
  unfold handle at h
  rcases ht with ht | ht <;> simp only [ht] at h
  all_goals
    repeat' split at h
    all_goals first | (cases h; simp [List.map_map, Function.comp_def, toOut, mkOut]) | cases h

/-- a client-mode node answers nothing: every request, of any type and content, resets the stream and
    has no effect on the stores -/
theorem client_mode_answers_nothing (s : Srv) (from_ : Peer) (r : Req) (h : s.serverMode = false) :
    handle s from_ r = (.reset, []) := by
  simp [handle, h]

/-- unknown message types and the RPCs of a disabled subsystem are not handled (stream reset) -/
theorem unsupported_reset (s : Srv) (from_ : Peer) (r : Req) :
    (∀ n, r.type = .unknown n → handle s from_ r = (.reset, [])) ∧
    (s.values = false → (r.type = .getValue ∨ r.type = .putValue) → handle s from_ r = (.reset, [])) ∧
    (s.providers = false → (r.type = .addProvider ∨ r.type = .getProviders) → handle s from_ r = (.reset, [])) := by
  refine ⟨?_, ?_, ?_⟩
  · intro n hn; unfold handle; simp only [hn]; split <;> rfl
  · intro hv ht; unfold handle; rcases ht with ht | ht <;> simp only [ht, hv] <;> split <;> simp
  · intro hv ht; unfold handle; rcases ht with ht | ht <;> simp only [ht, hv] <;> split <;> simp

/-- ADD_PROVIDER stores only records whose provider id is the authenticated sender and that carry a
    decodable address, only for keys of 1..80 bytes, keeps only addresses that decode and pass the node's
    address filter — and reports success exactly when something was stored. -/
theorem addprovider_stores_iff (s : Srv) (from_ : Peer) (r : Req) (ht : r.type = .addProvider) :
    (∀ e ∈ (handle s from_ r).2, e.1 = from_ ∧ (∀ a ∈ e.2, a.valid = true ∧ a.passes = true) ∧
        ∃ pr ∈ r.providers, pr.id = from_ ∧ (∃ a ∈ pr.addrs, a.valid = true) ∧ ∀ a ∈ e.2, a ∈ pr.addrs) ∧
    ((handle s from_ r).2 ≠ [] → s.serverMode = true ∧ s.providers = true ∧ 1 ≤ r.keyLen ∧ r.keyLen ≤ 80) ∧
    ((handle s from_ r).1 = .none ↔ (handle s from_ r).2 ≠ []) ∧
    ((handle s from_ r).2 = [] → (handle s from_ r).1 = .reset) := by
  unfold handle
  simp only [ht]
  by_cases hm : s.serverMode = true
  · by_cases hp : s.providers = true
    · by_cases hk : (r.keyLen > 80 || r.keyLen == 0) = true
      · simp [hm, hp, hk]
      · simp only [hm, hp, hk, Bool.not_true, Bool.false_eq_true, ↓reduceIte]
        have hk' : 1 ≤ r.keyLen ∧ r.keyLen ≤ 80 := by
          simp only [gt_iff_lt, Bool.or_eq_true, decide_eq_true_eq, beq_iff_eq, not_or, Nat.not_lt] at hk
          omega
        split
        · rename_i hemp
          simp
        · rename_i hne
          refine ⟨?_, fun _ => ⟨trivial, trivial, hk'⟩, ?_, ?_⟩
          · intro e he
            simp only [List.mem_map, List.mem_filter] at he
            obtain ⟨d, ⟨⟨pr, hpr, rfl⟩, hacc⟩, rfl⟩ := he
            simp only [ge_iff_le, Bool.and_eq_true, beq_iff_eq, decide_eq_true_eq] at hacc
            refine ⟨hacc.1, ?_, pr, hpr, hacc.1, ?_, ?_⟩
            · intro a ha
              have h1 := List.mem_filter.1 ha
              have h2 := List.mem_filter.1 h1.1
              exact ⟨h2.2, h1.2⟩
            · cases hl : (boundList s.idLen 0 pr.addrs).filter (·.valid) with
              | nil => rw [hl] at hacc; simp at hacc
              | cons a _ =>
                have ha : a ∈ (boundList s.idLen 0 pr.addrs).filter (·.valid) := by rw [hl]; simp
                have h2 := List.mem_filter.1 ha
                exact ⟨a, List.mem_of_mem_take h2.1, h2.2⟩
            · intro a ha
              have h1 := List.mem_filter.1 ha
              have h2 := List.mem_filter.1 h1.1
              exact List.mem_of_mem_take h2.1
          · constructor
            · intro _ hnil
              apply hne
              simp only [] at hnil
              rw [hnil]; rfl
            · intro _; rfl
          · intro hnil
            exfalso; apply hne
            simp only [] at hnil
            rw [hnil]; rfl
    · simp [hm, hp]
  · simp [hm]

/-! ### size bounds -/

/-- every peer record put on the wire (and every record accepted from it) is at most 8 KiB, provided
    the fixed part (peer id + connection flag) fits by itself — the code keeps the id unconditionally -/
theorem peer_record_le_8KiB (r : PeerRec) (h : fixedSize r ≤ maxPeerRecordSize) :
    recSize (boundAddrs r) ≤ maxPeerRecordSize ∧ maxPeerRecordSize = 8192 := by
  refine ⟨?_, rfl⟩
  simp only [recSize, boundAddrs, fixedSize] at *
  exact keepAddrs_sum _ _ _ h

/-- bounding only ever drops trailing addresses, and nothing when the record already fits -/
theorem bound_keeps_prefix (r : PeerRec) :
    (boundAddrs r).addrs <+: r.addrs ∧ (recSize r ≤ maxPeerRecordSize → boundAddrs r = r) := by
  refine ⟨keepAddrs_prefix _ _ _, ?_⟩
  intro h
  simp only [boundAddrs]
  rw [keepAddrs_id]
  simpa [recSize] using h

/-- a peer id of up to 8 000 bytes with any connection value leaves room: the hypothesis of
    `peer_record_le_8KiB` holds for every real peer id (they are below 100 bytes) -/
theorem fixed_part_fits (r : PeerRec) (h : r.idLen ≤ 8000) : fixedSize r ≤ maxPeerRecordSize := by
  have h1 := sizeVarint_le r.conn
  have h2 := sizeVarint_small r.idLen (by omega)
  simp only [fixedSize, sizeBytes, sizeTag, maxPeerRecordSize]
  omega

/-- GET_PROVIDERS: whatever the stored provider records are, the answer stays within the transport
    limit as long as the part built before them (type, key ≤ 80 bytes, K closer peers) does -/
theorem getproviders_le_msgmax (base : Nat) (recs : List Nat) (h : base ≤ messageSizeMax) :
    sizeAfter base (recs.take (appendFitting messageSizeMax base recs)) ≤ messageSizeMax :=
  appendFitting_size _ _ _ h

/-- FIND_NODE / the closer-peer part of any answer: K + 1 records of at most 8 KiB each plus 128 bytes
    of other fields stay within the transport limit for every bucket size up to 500 -/
theorem closer_part_le_msgmax (K : Nat) (hK : K ≤ 500) (recs : List Nat) (hl : recs.length ≤ K + 1)
    (hr : ∀ r ∈ recs, r ≤ maxPeerRecordSize) : sizeAfter 128 recs ≤ messageSizeMax := by
  have key : ∀ (l : List Nat), (∀ r ∈ l, r ≤ maxPeerRecordSize) →
      (l.map fun r => sizeTag + sizeBytes r).sum ≤ l.length * 8195 := by
    intro l
    induction l with
    | nil => simp
    | cons a l ih =>
      intro h
      have ha : a ≤ 8192 := h a (by simp)
      have h2 := sizeVarint_small a (by omega)
      have := ih (fun r hr => h r (by simp [hr]))
      simp only [List.map_cons, List.sum_cons, List.length_cons, sizeTag, sizeBytes] at this ⊢
      omega
  have := key recs hr
  simp only [sizeAfter, messageSizeMax]
  have : recs.length * 8195 ≤ 501 * 8195 := Nat.mul_le_mul_right _ (by omega)
  omega

/-! non-vacuity -/
def exAddrs (p : Peer) : List Addr := if p == 9 then [] else [Addr.mk p 8 true true]
def exSrv : Srv := Srv.mk 0 2 true true true [5, 0, 7, 3, 9] exAddrs false [3] 38
example : closerPeers exSrv.self 7 exSrv.K exSrv.nearest = [5, 3] := by decide
example : (findNodeList exSrv 7 (Req.mk .findNode 38 (some 7) false false false 0 [])) = [7, 5, 3] := by decide
example : (handle exSrv 7 (Req.mk .addProvider 12 none false false false 0
    [ProvRec.mk 7 [Addr.mk 1 8 true false, Addr.mk 2 8 true true], ProvRec.mk 5 [Addr.mk 3 8 true true]])).2
      = [(7, [Addr.mk 2 8 true true])] := by decide
example : (boundAddrs ⟨38, List.replicate 100 97, 0⟩).addrs.length = 82 := by decide

end KadDHT.C09

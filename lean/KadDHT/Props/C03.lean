/-
  C03 — routing operations always terminate, honour cancellation, never panic.

  The truth of this property lives partly in the Go runtime (goroutines exit, channels are closed); that
  part is observed by the harness through synctest on generated schedules (a goroutine still blocked after
  the operation returned and the DHT was closed ends the bubble in a deadlock report).  What is logic is
  proved here, for every schedule:
  * the lookup state machine (same model as C01/C02, compared with the code on every run) never panics,
    never has more than α queries in flight, never waits for nothing, asks every peer at most once, and is
    frozen once terminated — so it ends after at most |learned peers| effective events;
  * the counting loop of the optimistic provide returns when the scheduled RPCs finish (F5 witness kept);
  * the value-search producers end by themselves once the consumer stopped (F9 witness kept).
-/
import KadDHT.Proofs.Lookup
import KadDHT.Model.Waiting
namespace KadDHT.C03
open KadDHT KadDHT.Lookup KadDHT.Waiting
variable {P : Type} [DecidableEq P]

/-- the lookup state machine never hits an internal protocol panic, for every configuration, seed list,
    response content and interleaving of response / failure / cancellation events -/
theorem no_panic (cfg : Cfg P) (accept : P → Bool) (stop : LState P → Bool) (seeds : List P) (evs : List (Ev P)) :
    ∃ s0 s, start cfg stop seeds = .ok s0 ∧ runEvs cfg accept stop s0 evs = .ok s := by
  obtain ⟨s0, h0, hi0⟩ := start_ok cfg stop seeds
  obtain ⟨s, h1, _⟩ := runEvs_ok cfg accept stop s0 evs hi0
  exact ⟨s0, s, h0, h1⟩

/-- at most α queries are in flight (so the update channel of capacity α never blocks a query goroutine
    after termination), and while the search runs at least one query is in flight: the loop never waits
    for an event that cannot come -/
theorem inflight_le_alpha_and_progress (cfg : Cfg P) (hα : 1 ≤ cfg.α) (accept : P → Bool) (stop : LState P → Bool)
    (seeds : List P) (evs : List (Ev P)) (s0 s : LState P) (h0 : start cfg stop seeds = .ok s0)
    (h1 : runEvs cfg accept stop s0 evs = .ok s) :
    s.inflight.length ≤ cfg.α ∧ (s.terminated = none → s.inflight ≠ []) := by
  have := runEvs_inv2 cfg hα accept stop s0 s evs (start_inv2 cfg hα stop seeds s0 h0) h1
  exact ⟨this.bound, this.progress⟩

theorem length_le_of_nodup_subset {α : Type} [DecidableEq α] (l1 l2 : List α) (hn : l1.Nodup) (hs : ∀ x ∈ l1, x ∈ l2) :
    l1.length ≤ l2.length := by
  induction l1 generalizing l2 with
  | nil => simp
  | cons a l ih =>
    have ha : a ∈ l2 := hs a (by simp)
    have hnd := List.nodup_cons.1 hn
    have := ih (l2.erase a) hnd.2 (by
      intro x hx
      have hxa : x ≠ a := by intro h; subst h; exact hnd.1 hx
      exact (List.mem_erase_of_ne hxa).2 (hs x (by simp [hx])))
    rw [List.length_erase_of_mem ha] at this
    have hpos : 0 < l2.length := List.length_pos_of_mem ha
    simp only [List.length_cons]
    omega

theorem runEvs_inv3 (cfg : Cfg P) (accept : P → Bool) (stop : LState P → Bool) (s s' : LState P) (evs : List (Ev P))
    (h : Inv3 cfg s) (hs : runEvs cfg accept stop s evs = .ok s') : Inv3 cfg s' := by
  induction evs generalizing s with
  | nil => simp only [runEvs, pure, Except.pure] at hs; cases hs; exact h
  | cons e es ih =>
    obtain ⟨s1, h1, _⟩ := step_ok cfg accept stop s e h.base
    simp only [runEvs, h1, bind, Except.bind] at hs
    exact ih s1 (step_inv3 cfg accept stop s s1 e h h1) hs

/-- every peer is asked at most once in the search phase, and only peers the lookup knows: the number of
    queries ever issued is bounded by the number of learned peers -/
theorem asked_at_most_once (cfg : Cfg P) (accept : P → Bool) (stop : LState P → Bool) (seeds : List P) (evs : List (Ev P))
    (s0 s : LState P) (h0 : start cfg stop seeds = .ok s0) (h1 : runEvs cfg accept stop s0 evs = .ok s) :
    s.spawned.Nodup ∧ (∀ p ∈ s.spawned, p ∈ ids s.ps) ∧ s.spawned.length ≤ (ids s.ps).length := by
  obtain ⟨s0', h0', hi0⟩ := start_ok cfg stop seeds
  rw [h0] at h0'; cases h0'
  have h3 : Inv3 cfg s0 := by
    simp only [start, applyUpdate_seed, bind, Except.bind, pure, Except.pure] at h0
    cases h0
    apply decide_inv3
    refine ⟨?_, List.nodup_nil, by simp, by simp⟩
    refine ⟨addHeard_nodup cfg [] cfg.self seeds (by simp [ids]), ?_, List.nodup_nil, by simp, ?_⟩
    · intro hm
      rcases (mem_ids_addHeard cfg [] cfg.self seeds cfg.self).1 hm with h1 | ⟨_, h1⟩
      · simp [ids] at h1
      · exact h1 rfl
    · intro _ e he hw
      rcases mem_addHeard cfg [] cfg.self seeds e he with h1 | ⟨h1, _⟩
      · cases h1
      · rw [h1] at hw; cases hw
  have := runEvs_inv3 cfg accept stop s0 s evs h3 h1
  refine ⟨this.spawnedNodup, this.spawnedKnown, ?_⟩
  exact length_le_of_nodup_subset _ _ this.spawnedNodup this.spawnedKnown

/-- after termination no event changes the peer set, issues a query or revives the search; a cancellation
    terminates the search at once -/
theorem terminated_is_frozen (cfg : Cfg P) (accept : P → Bool) (stop : LState P → Bool) (s s' : LState P) (e : Ev P)
    (ht : s.terminated.isSome = true) (hs : step cfg accept stop s e = .ok s') :
    s'.ps = s.ps ∧ s'.spawned = s.spawned ∧ s'.terminated = s.terminated :=
  step_frozen cfg accept stop s s' e ht hs

theorem cancel_terminates (cfg : Cfg P) (accept : P → Bool) (stop : LState P → Bool) (s s' : LState P)
    (hs : step cfg accept stop s .cancel = .ok s') : s'.terminated.isSome = true := by
  simp only [step] at hs
  split at hs
  · cases hs; assumption
  · cases hs; rfl

/-! ### the optimistic provide's wait loop -/

theorem firstLoop_returns (threshold : Nat) (tokens d : Nat) (hd : d < threshold) (ht : threshold - d ≤ tokens) :
    firstLoop threshold tokens d = some threshold := by
  induction tokens generalizing d with
  | zero => omega
  | succ t ih =>
    simp only [firstLoop]
    by_cases h : d + 1 = threshold
    · simp [h]
    · have : (d + 1 == threshold) = false := by simpa using h
      simp only [this, Bool.false_eq_true, ↓reduceIte]
      exact ih (d + 1) (by omega) (by omega)

/-- `waitForRPCs` returns once every scheduled RPC has finished, whatever their number, the return
    threshold (≥ 1) and the state of the job pool (repaired code, fix: 065882c) -/
theorem waitForRPCs_terminates (rpcCount returnThreshold poolFree : Nat) (hT : 1 ≤ returnThreshold) :
    waitReturns true rpcCount returnThreshold rpcCount poolFree = true := by
  unfold waitReturns
  by_cases h0 : rpcCount = 0
  · simp [h0]
  · have hne : (rpcCount == 0) = false := by simpa using h0
    simp only [hne, Bool.and_false, Bool.false_eq_true, ↓reduceIte]
    rw [firstLoop_returns (min returnThreshold rpcCount) rpcCount 0 (by omega) (by omega)]
    simp only [decide_eq_true_eq]
    omega

/-- the tree before the repair: with zero scheduled RPCs (every peer of the lookup failed) the loop waits
    forever, whatever the context does (defect F5) -/
theorem unrepaired_waitForRPCs_hangs_without_rpcs (returnThreshold poolFree : Nat) :
    waitReturns false 0 returnThreshold 0 poolFree = false := by
  simp [waitReturns, firstLoop]

/-! ### value search: the producers end once the consumer stopped -/

/-- when the quorum aborts the consumer it has closed the stop channel, and then every in-flight query
    function finishes by itself (repaired code, fix: 243afb7) -/
theorem value_search_background_ends (quorum responses bufferFree producers : Nat) (ctxCancelled : Bool)
    (h : (consumerAborts quorum responses).1 = true) :
    producersFinishing true (consumerAborts quorum responses).2 ctxCancelled bufferFree producers = producers := by
  unfold consumerAborts at *
  by_cases hc : (decide (quorum > 0) && decide (responses > quorum)) = true
  · simp only [hc, ↓reduceIte, producersFinishing, Bool.and_self, Bool.or_true]
  · simp [hc] at h

/-- the tree before the repair: two in-flight query functions with valid values, quorum reached, caller
    context never cancelled — one of them stays blocked on `valCh` forever (defect F9) -/
theorem unrepaired_value_search_leaks :
    producersFinishing false true false 1 2 = 1 := by decide

/-! non-vacuity -/
example : waitReturns true 5 3 5 0 = true := by decide
example : (consumerAborts 2 3).1 = true := by decide

end KadDHT.C03

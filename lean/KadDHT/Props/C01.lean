/-
  C01 — a closest-peers lookup returns exactly the K nearest non-failed peers it learned.

  Property theorems only, about `Lookup.result` over every state the lookup state machine
  (`Lookup.start` / `Lookup.step`, model of query.go + qpeerset) can reach: for every configuration
  (K, α, β, self), every seed list, every network answer (the responses are arbitrary lists: honest,
  lying, naming self, duplicates, more than 2K entries), every failure pattern and every arrival order
  (the event list is arbitrary), with or without cancellation.  `cfg.lt` is "nearer to the key", a strict
  total order (distinct peers have distinct identifiers).  The model is compared with the real lookup after
  every delivered outcome (in-flight set) and at the end (result, states, completed flag, requests sent,
  published events).
-/
import KadDHT.Proofs.Lookup
namespace KadDHT.C01
open KadDHT KadDHT.Lookup
variable {P : Type} [DecidableEq P]

/-- a state reached by the lookup from `seeds` under the schedule `evs` -/
def Reaches (cfg : Cfg P) (accept : P → Bool) (stop : LState P → Bool) (seeds : List P) (evs : List (Ev P)) (s : LState P) : Prop :=
  ∃ s0, start cfg stop seeds = .ok s0 ∧ runEvs cfg accept stop s0 evs = .ok s

/-- every schedule leads somewhere: the state machine never stops in a protocol panic (see also C03) -/
theorem reaches_exists (cfg : Cfg P) (accept : P → Bool) (stop : LState P → Bool) (seeds : List P) (evs : List (Ev P)) :
    ∃ s, Reaches cfg accept stop seeds evs s ∧ Inv cfg s := by
  obtain ⟨s0, h0, hi0⟩ := start_ok cfg stop seeds
  obtain ⟨s, h1, hi1⟩ := runEvs_ok cfg accept stop s0 evs hi0
  exact ⟨s, ⟨s0, h0, h1⟩, hi1⟩

theorem reaches_inv {cfg : Cfg P} {accept : P → Bool} {stop : LState P → Bool} {seeds : List P} {evs : List (Ev P)}
    {s : LState P} (h : Reaches cfg accept stop seeds evs s) : Inv cfg s := by
  obtain ⟨s0, h0, h1⟩ := h
  obtain ⟨s0', h0', hi0⟩ := start_ok cfg stop seeds
  rw [h0] at h0'; cases h0'
  obtain ⟨s', h1', hi1⟩ := runEvs_ok cfg accept stop s0 evs hi0
  rw [h1] at h1'; cases h1'
  exact hi1

variable {cfg : Cfg P} {accept : P → Bool} {stop : LState P → Bool} {seeds : List P} {evs : List (Ev P)} {s : LState P}

/-- at most K peers -/
theorem result_len_le_K (s : LState P) : (result cfg s).peers.length ≤ cfg.K := closestNIn_length _ _ _ _

/-- distinct peers -/
theorem result_nodup (h : Reaches cfg accept stop seeds evs s) : (result cfg s).peers.Nodup :=
  closestNIn_nodup _ _ _ _ (reaches_inv h).nodup

/-- never the local node -/
theorem result_no_self (h : Reaches cfg accept stop seeds evs s) : cfg.self ∉ (result cfg s).peers := by
  intro hm
  obtain ⟨e, he, hid, _⟩ := mem_closestNIn _ _ _ _ _ hm
  exact (reaches_inv h).noSelf (by rw [← hid]; exact mem_ids_of_mem he)

/-- in strictly ascending XOR distance from the key -/
theorem result_strictly_ascending (ho : OrderOK cfg) (h : Reaches cfg accept stop seeds evs s) :
    (result cfg s).peers.Pairwise (fun a b => cfg.lt a b = true) := by
  have := candidates_ascending cfg ho s.ps notUnreachable (reaches_inv h).nodup
  exact this.sublist (List.take_sublist _ _)

/-- every returned peer was a seed (in the routing table when the lookup began) or was named in a response
    the lookup processed -/
theorem result_subset_learned (h : Reaches cfg accept stop seeds evs s) :
    ∀ p ∈ (result cfg s).peers, p ∈ seeds ∨ p ∈ namedBy cfg accept evs := by
  intro p hp
  obtain ⟨e, he, hid, _⟩ := mem_closestNIn _ _ _ _ _ hp
  have hpid : p ∈ ids s.ps := by rw [← hid]; exact mem_ids_of_mem he
  obtain ⟨s0, h0, h1⟩ := h
  obtain ⟨s0', h0', hi0⟩ := start_ok cfg stop seeds
  rw [h0] at h0'; cases h0'
  rcases runEvs_ids cfg accept stop s0 s evs hi0 h1 p hpid with h2 | h2
  · exact Or.inl (start_ids cfg stop seeds s0 h0 p h2)
  · exact Or.inr h2

/-- none of the returned peers had failed a dial or request when the search phase ended -/
theorem result_none_unreachable (h : Reaches cfg accept stop seeds evs s) :
    ∀ p ∈ (result cfg s).peers, ¬ stateOf s.ps p .unreachable := by
  intro p hp hu
  obtain ⟨e, he, hid, hok⟩ := mem_closestNIn _ _ _ _ _ hp
  have := stateOf_unique (reaches_inv h).nodup hu ⟨e, he, hid, rfl⟩
  rw [← this] at hok; simp [notUnreachable] at hok

/-- No omission: a learned peer that has not failed and is missing from the result is farther from the key
    than every returned peer, and then the result is full (K peers).  Together with the theorems above:
    the result is exactly the K nearest of the learned non-failed set. -/
theorem result_is_topK (ho : OrderOK cfg) (h : Reaches cfg accept stop seeds evs s) (q : P) (st : PState)
    (hq : stateOf s.ps q st) (hst : st ≠ .unreachable) (hnot : q ∉ (result cfg s).peers) :
    (result cfg s).peers.length = cfg.K ∧ ∀ p ∈ (result cfg s).peers, cfg.lt p q = true := by
  have hasc := candidates_ascending cfg ho s.ps notUnreachable (reaches_inv h).nodup
  have hqc : q ∈ candidates cfg s.ps notUnreachable := by
    obtain ⟨e, he, hid, hs⟩ := hq
    refine (mem_candidates _ _ _ _).2 ⟨e, he, hid, ?_⟩
    rw [hs]; cases st <;> simp_all [notUnreachable]
  exact take_ascending_before_rest (candidates cfg s.ps notUnreachable) hasc cfg.K q hqc hnot

/-- the same as an equation: the result is the K-prefix of the ascending list of all learned, non-failed peers -/
theorem result_eq_topK (s : LState P) :
    (result cfg s).peers = (candidates cfg s.ps notUnreachable).take cfg.K := rfl

/-- and every learned non-failed peer is a candidate (nothing is silently dropped) -/
theorem candidates_complete (p : P) :
    p ∈ candidates cfg s.ps notUnreachable ↔ ∃ st, stateOf s.ps p st ∧ st ≠ .unreachable := by
  rw [mem_candidates]
  constructor
  · rintro ⟨e, he, hid, hok⟩
    refine ⟨e.state, ⟨e, he, hid, rfl⟩, ?_⟩
    intro hu; rw [hu] at hok; simp [notUnreachable] at hok
  · rintro ⟨st, ⟨e, he, hid, hs⟩, hne⟩
    refine ⟨e, he, hid, ?_⟩
    rw [hs]; cases st <;> simp_all [notUnreachable]

omit [DecidableEq P] in
/-- an ascending, downward-closed selection from an ascending list is a prefix of it -/
theorem downclosed_is_prefix {lt : P → P → Bool} (hirr : ∀ a, lt a a = false)
    (hasym : ∀ a b, lt a b = true → lt b a = false) :
    ∀ (l L : List P), l.Pairwise (fun a b => lt a b = true) → L.Pairwise (fun a b => lt a b = true) →
      (∀ p ∈ L, p ∈ l) → (∀ q ∈ l, ∀ p ∈ L, lt q p = true → q ∈ L) → L = l.take L.length
  | [], L, _, _, hsub, _ => by
    cases L with
    | nil => rfl
    | cons b L' => exact absurd (hsub b (List.mem_cons_self ..)) (by simp)
  | a :: l', [], _, _, _, _ => by simp
  | a :: l', b :: L', hl, hL, hsub, hdown => by
    have hl' := List.pairwise_cons.1 hl
    have hL' := List.pairwise_cons.1 hL
    have hba : b = a := by
      rcases List.mem_cons.1 (hsub b (List.mem_cons_self ..)) with h | h
      · exact h
      · have hab := hl'.1 b h
        have haL := hdown a (List.mem_cons_self ..) b (List.mem_cons_self ..) hab
        rcases List.mem_cons.1 haL with h2 | h2
        · exact h2.symm
        · have := hL'.1 a h2
          rw [hasym a b hab] at this; cases this
    subst hba
    have ih := downclosed_is_prefix hirr hasym l' L' hl'.2 hL'.2
      (fun p hp => by
        rcases List.mem_cons.1 (hsub p (List.mem_cons_of_mem _ hp)) with h | h
        · subst h; have := hL'.1 p hp; rw [hirr] at this; cases this
        · exact h)
      (fun q hq p hp hqp => by
        rcases List.mem_cons.1 (hdown q (List.mem_cons_of_mem _ hq) p (List.mem_cons_of_mem _ hp) hqp) with h | h
        · subst h; have := hl'.1 q hq; rw [hirr] at this; cases this
        · exact h)
    simp only [List.length_cons, List.take_succ_cons]
    rw [← ih]

/-- Uniqueness: the result is the *only* list with the stated properties.  Any list of K (or, when fewer were
    learned, all) learned non-failed peers that is strictly ascending and leaves out no nearer learned
    non-failed peer is the list the lookup returns. -/
theorem result_unique (ho : OrderOK cfg) (h : Reaches cfg accept stop seeds evs s) (L : List P)
    (hasc : L.Pairwise (fun a b => cfg.lt a b = true))
    (hsub : ∀ p ∈ L, p ∈ candidates cfg s.ps notUnreachable)
    (hdown : ∀ q ∈ candidates cfg s.ps notUnreachable, ∀ p ∈ L, cfg.lt q p = true → q ∈ L)
    (hlen : L.length = min cfg.K (candidates cfg s.ps notUnreachable).length) :
    L = (result cfg s).peers := by
  have hc := candidates_ascending cfg ho s.ps notUnreachable (reaches_inv h).nodup
  have := downclosed_is_prefix ho.irrefl ho.asymm _ L hc hasc hsub hdown
  rw [this, hlen, result_eq_topK]
  simp [List.take_eq_take_iff]

/-- … and the result itself meets the hypotheses of `result_unique` (they are satisfiable in every reachable state) -/
theorem result_meets_unique_hyps (ho : OrderOK cfg) (h : Reaches cfg accept stop seeds evs s) :
    (∀ p ∈ (result cfg s).peers, p ∈ candidates cfg s.ps notUnreachable) ∧
    (∀ q ∈ candidates cfg s.ps notUnreachable, ∀ p ∈ (result cfg s).peers, cfg.lt q p = true → q ∈ (result cfg s).peers) ∧
    (result cfg s).peers.length = min cfg.K (candidates cfg s.ps notUnreachable).length := by
  have hc := candidates_ascending cfg ho s.ps notUnreachable (reaches_inv h).nodup
  refine ⟨fun p hp => List.mem_of_mem_take hp, fun q hq p hp hqp => ?_, by rw [result_eq_topK, List.length_take]⟩
  by_cases hin : q ∈ (result cfg s).peers
  · exact hin
  · have := (take_ascending_before_rest _ hc cfg.K q hq hin).2 p hp
    rw [ho.asymm q p hqp] at this; cases this

/-! non-vacuity: K = 2, a liar naming self (9) and a duplicate, one failure, answers out of order -/
def exCfg : Cfg Nat := { K := 2, α := 2, β := 2, self := 9, lt := fun a b => a < b }
def exEvs : List (Ev Nat) :=
  [.deliver 5 (.resp [1, 9, 4, 4]), .deliver 3 .fail, .deliver 1 (.resp [0, 2]), .deliver 4 (.resp []), .deliver 0 .fail,
   .deliver 2 (.resp [1])]
example : ∃ s, Reaches exCfg (fun _ => true) (fun _ => false) [3, 5, 7] exEvs s ∧ (result exCfg s).peers = [1, 2]
    ∧ s.terminated = some .completed := by
  refine ⟨_, ⟨_, rfl, rfl⟩, ?_, ?_⟩ <;> decide
example : OrderOK exCfg :=
  ⟨by intro a; simp [exCfg], by intro a b c; simp [exCfg]; omega, by intro a b; simp [exCfg]; omega⟩

end KadDHT.C01

/-
  C04 — value lookups only ever yield validator-approved, best-known values.

  Property theorems only, about `ValueSearch` (model of the admission of a response's record, of
  `processValues` + `searchValueQuorum`, and of `GetValue`'s final answer).  Hypothesis on the validator,
  recorded in the trusted base: `Select` is induced by a rank (higher rank wins, ties keep the earlier
  value) — true of the /pk and /ipns validators.  The model is compared with the real GetValue/SearchValue
  by replaying the concrete order in which scripted responders' answers were released; GetPublicKey is
  checked on real RSA identities.  The accelerated client's unvalidated local record (defect F6) and the
  dual client's WAN-first rule are decided in C16 and C15.
-/
import KadDHT.Model.ValueSearch
namespace KadDHT.C04
open KadDHT.ValueSearch

/-- a record enters the search only if it is keyed for the request, carries a value and validates;
    a mis-keyed record makes the request fail -/
theorem admitted_only_valid (r : Rec) (v : Val) (h : admitRec r = .admitted v) : r = .value v true := by
  cases r with
  | none => cases h
  | nilValue => cases h
  | miskeyed => cases h
  | value w valid =>
    cases valid with
    | false => simp [admitRec] at h
    | true => simp only [admitRec, ↓reduceIte, Admit.admitted.injEq] at h; rw [h]

theorem miskeyed_rejected : admitRec .miskeyed = .requestFails := rfl

/-- the state invariant of `processValues`: the best value is the last one streamed, the streamed values
    strictly improve, and the best value is at least as good as everything consumed so far -/
structure Inv (consumed : List (Nat × Val)) (s : PState) : Prop where
  bestLast : s.best = s.emitted.getLast?
  improving : s.emitted.Pairwise (fun a b => a.rank < b.rank)
  fromConsumed : ∀ v ∈ s.emitted, ∃ f, (f, v) ∈ consumed
  dominates : ∀ x ∈ consumed, ∃ b, s.best = some b ∧ x.2.rank ≤ b.rank

theorem inv_init : Inv [] ({} : PState) := ⟨rfl, List.Pairwise.nil, by simp, by simp⟩

theorem mem_of_getLast? {α : Type} {l : List α} {b : α} (h : l.getLast? = some b) : ∃ l', l = l' ++ [b] := by
  have := List.getLast?_eq_some_iff.1 h
  exact this

/-- one received value, when the consumer is still running -/
theorem receive_inv (q : Nat) (consumed : List (Nat × Val)) (s : PState) (f : Nat) (v : Val) (h : Inv consumed s)
    (hna : s.aborted = false) : Inv (consumed ++ [(f, v)]) (receive q s f v) := by
  unfold receive
  simp only [hna, Bool.false_eq_true, ↓reduceIte]
  have hold : ∀ w ∈ s.emitted, ∃ g, (g, w) ∈ consumed ++ [(f, v)] := by
    intro w hw; obtain ⟨g, hg⟩ := h.fromConsumed w hw; exact ⟨g, List.mem_append_left _ hg⟩
  cases hb : s.best with
  | none =>
    have hem : s.emitted = [] := by
      have := h.bestLast; rw [hb] at this
      exact List.getLast?_eq_none_iff.1 this.symm
    refine ⟨by simp, by simp [hem], ?_, ?_⟩
    · intro w hw; simp [hem] at hw; subst hw; exact ⟨f, by simp⟩
    · intro x hx
      rcases List.mem_append.1 hx with hx | hx
      · obtain ⟨b, hb', _⟩ := h.dominates x hx; rw [hb] at hb'; cases hb'
      · simp at hx; subst hx; exact ⟨v, rfl, Nat.le_refl _⟩
  | some b =>
    have hlast : s.emitted.getLast? = some b := by rw [← h.bestLast, hb]
    by_cases hbv : b = v
    · subst hbv
      simp only [beq_self_eq_true, ↓reduceIte]
      refine ⟨hlast.symm, h.improving, hold, ?_⟩
      intro x hx
      rcases List.mem_append.1 hx with hx | hx
      · obtain ⟨b', hb', hle⟩ := h.dominates x hx; rw [hb] at hb'; cases hb'; exact ⟨b, rfl, hle⟩
      · simp at hx; subst hx; exact ⟨b, rfl, Nat.le_refl _⟩
    · have hne : (b == v) = false := by simpa using hbv
      simp only [hne, Bool.false_eq_true, ↓reduceIte]
      by_cases hbt : better b v = true
      · simp only [hbt, ↓reduceIte]
        have hlt : b.rank < v.rank := by simpa [better] using hbt
        obtain ⟨l, hl⟩ := mem_of_getLast? hlast
        refine ⟨by simp, ?_, ?_, ?_⟩
        · rw [List.pairwise_append]
          refine ⟨h.improving, by simp, ?_⟩
          intro a ha c hc
          simp at hc; subst hc
          have : a.rank ≤ b.rank := by
            rw [hl] at ha
            rcases List.mem_append.1 ha with ha | ha
            · have himp := h.improving; rw [hl] at himp
              have := (List.pairwise_append.1 himp).2.2 a ha b (by simp); omega
            · simp at ha; subst ha; exact Nat.le_refl _
          omega
        · intro w hw
          rcases List.mem_append.1 hw with hw | hw
          · exact hold w hw
          · simp at hw; subst hw; exact ⟨f, by simp⟩
        · intro x hx
          rcases List.mem_append.1 hx with hx | hx
          · obtain ⟨b', hb', hle⟩ := h.dominates x hx; rw [hb] at hb'; cases hb'; exact ⟨v, rfl, by omega⟩
          · simp at hx; subst hx; exact ⟨v, rfl, Nat.le_refl _⟩
      · have hbf : better b v = false := by simpa using hbt
        simp only [hbf, Bool.false_eq_true, ↓reduceIte]
        have hle : v.rank ≤ b.rank := by simpa [better] using hbf
        refine ⟨hlast.symm, h.improving, hold, ?_⟩
        intro x hx
        rcases List.mem_append.1 hx with hx | hx
        · obtain ⟨b', hb', hle'⟩ := h.dominates x hx; rw [hb] at hb'; cases hb'; exact ⟨b, rfl, hle'⟩
        · simp at hx; subst hx; exact ⟨b, rfl, hle⟩

/-- the values consumed by `processValues` before it stopped: all of them unless the quorum aborted it -/
def consumedOf (q : Nat) : PState → List (Nat × Val) → List (Nat × Val)
  | _, [] => []
  | s, x :: xs => if s.aborted then [] else x :: consumedOf q (receive q s x.1 x.2) xs

theorem receive_aborted (q : Nat) (s : PState) (f : Nat) (v : Val) (h : s.aborted = true) : receive q s f v = s := by
  simp [receive, h]

theorem run_inv (q : Nat) (vals : List (Nat × Val)) (pre : List (Nat × Val)) (s : PState) (h : Inv pre s) :
    Inv (pre ++ consumedOf q s vals) (vals.foldl (fun s x => receive q s x.1 x.2) s) := by
  induction vals generalizing pre s with
  | nil => simpa [consumedOf] using h
  | cons x xs ih =>
    simp only [List.foldl_cons, consumedOf]
    by_cases ha : s.aborted = true
    · simp only [ha, ↓reduceIte, List.append_nil]
      rw [receive_aborted q s x.1 x.2 ha]
      -- once aborted nothing is consumed any more
      have : ∀ (ys : List (Nat × Val)), ys.foldl (fun s x => receive q s x.1 x.2) s = s := by
        intro ys
        induction ys with
        | nil => rfl
        | cons y ys ihy => simp only [List.foldl_cons]; rw [receive_aborted q s y.1 y.2 ha]; exact ihy
      rw [this]; exact h
    · have ha' : s.aborted = false := by simpa using ha
      simp only [ha', Bool.false_eq_true, ↓reduceIte]
      have := ih (pre ++ [x]) (receive q s x.1 x.2) (receive_inv q pre s x.1 x.2 h ha')
      simpa [List.append_assoc] using this

/-- every streamed value was supplied (and admitted, hence valid for the key) by local storage or a responder -/
theorem emitted_valid (q : Nat) (vals : List (Nat × Val)) :
    ∀ v ∈ (run q vals).emitted, ∃ f, (f, v) ∈ vals := by
  intro v hv
  have := (run_inv q vals [] {} inv_init).fromConsumed v hv
  obtain ⟨f, hf⟩ := this
  refine ⟨f, ?_⟩
  simp only [List.nil_append] at hf
  -- consumed values are a prefix of the supplied ones
  have hsub : ∀ (s : PState) (l : List (Nat × Val)) x, x ∈ consumedOf q s l → x ∈ l := by
    intro s l
    induction l generalizing s with
    | nil => intro x hx; simp [consumedOf] at hx
    | cons y ys ih =>
      intro x hx
      simp only [consumedOf] at hx
      split at hx
      · cases hx
      · rcases List.mem_cons.1 hx with rfl | hx
        · simp
        · exact List.mem_cons_of_mem _ (ih _ x hx)
  exact hsub _ _ _ hf

/-- the values streamed by a search are strictly improving under the validator's selection -/
theorem emitted_strictly_improving (q : Nat) (vals : List (Nat × Val)) :
    (run q vals).emitted.Pairwise (fun a b => a.rank < b.rank) :=
  (run_inv q vals [] {} inv_init).improving

/-- the final value is ranked at least as good as every valid value processed before the search ended -/
theorem final_is_best (q : Nat) (vals : List (Nat × Val)) :
    ∀ x ∈ consumedOf q {} vals, ∃ b, finalValue (run q vals) = some b ∧ x.2.rank ≤ b.rank := by
  intro x hx
  have hinv := run_inv q vals [] {} inv_init
  obtain ⟨b, hb, hle⟩ := hinv.dominates x (by simpa using hx)
  exact ⟨b, by unfold finalValue run; rw [← hinv.bestLast]; exact hb, hle⟩

/-- without a quorum every supplied valid value is processed -/
theorem consumed_all_without_quorum (vals : List (Nat × Val)) : consumedOf 0 {} vals = vals := by
  have : ∀ (s : PState), s.aborted = false → consumedOf 0 s vals = vals := by
    induction vals with
    | nil => intro s _; rfl
    | cons x xs ih =>
      intro s hs
      simp only [consumedOf, hs, Bool.false_eq_true, ↓reduceIte, List.cons.injEq, true_and]
      apply ih
      unfold receive
      simp only [hs, Bool.false_eq_true, ↓reduceIte]
      cases s.best with
      | none => simp
      | some b => simp only; split <;> (try split) <;> simp
  exact this {} rfl

/-- if no valid value was supplied the answer is not-found — never an invalid or mis-keyed record -/
theorem none_admitted_not_found (q : Nat) : finalValue (run q []) = none := rfl

/-- the value `GetValue` returns was supplied (and admitted, hence valid and keyed for the request) by local storage
    or a responder: never a value nobody sent -/
theorem final_value_supplied (q : Nat) (vals : List (Nat × Val)) (v : Val) (h : finalValue (run q vals) = some v) :
    ∃ f, (f, v) ∈ vals :=
  emitted_valid q vals v (List.mem_of_getLast? h)

/-- not-found is answered exactly when no valid value was supplied: for every quorum, one valid value is enough -/
theorem not_found_iff_nothing_supplied (q : Nat) (vals : List (Nat × Val)) :
    finalValue (run q vals) = none ↔ vals = [] := by
  constructor
  · intro h
    cases vals with
    | nil => rfl
    | cons x xs =>
      have hx : x ∈ consumedOf q {} (x :: xs) := by simp [consumedOf]
      obtain ⟨b, hb, _⟩ := final_is_best q (x :: xs) x hx
      rw [h] at hb; cases hb
  · rintro rfl; rfl

/-! ### public keys -/

/-- what the peer itself (or a DHT responder) returns under `/pk/<peer>` -/
inductive PkRec where | none | own | other | garbage
  deriving DecidableEq

/-- `getPublicKeyFromNode`: a key is returned only if it hashes to the peer id; the /pk validator applies the
    same test to DHT records -/
def pkAccepted : PkRec → Bool | .own => true | _ => false

/-- a public key returned for a peer always hashes to that peer's id: whichever of the two sources wins -/
theorem pk_matches_peer (fromNode fromDHT : PkRec) (r : PkRec)
    (h : (pkAccepted fromNode = true ∧ r = fromNode) ∨ (pkAccepted fromDHT = true ∧ r = fromDHT)) : r = .own := by
  rcases h with ⟨h1, rfl⟩ | ⟨h1, rfl⟩ <;> (cases r <;> simp_all [pkAccepted])

/-! non-vacuity: a stale value, a better one, the best one twice, a worse one after it; quorum 3 -/
def exVals : List (Nat × Val) := [(9, ⟨1, 0⟩), (4, ⟨2, 0⟩), (5, ⟨5, 0⟩), (6, ⟨5, 0⟩), (7, ⟨3, 0⟩)]
example : (run 3 exVals).emitted = [⟨1, 0⟩, ⟨2, 0⟩, ⟨5, 0⟩] ∧ (run 3 exVals).withBest = [5, 6] ∧ (run 3 exVals).aborted = true := by
  decide
example : consumedOf 3 {} exVals = exVals.take 4 := by decide

end KadDHT.C04

/-
  C14 — Close stops everything; failed constructors leave nothing running  (PARTIAL).

  Goroutine lifetimes live in the Go runtime; what is logic is the shutdown protocol.  Proved here, for every
  interleaving of any number of spawners with Close: once `wg.Wait` has been entered no new goroutine is admitted, and
  when it returns none that was admitted is still running — so nothing the instance started outlives Close.  The
  unguarded variant (check and add in two steps) is shown to let a goroutine start after Wait has returned.
  That the real components follow the protocol, that their Close returns with operations in flight, that a repeated
  Close is harmless and that failed constructors leave no goroutine or subscription behind is observed in synctest
  bubbles (a goroutine still blocked when the case ends is reported) on generated instants — not proved.
-/
import KadDHT.Model.Lifecycle
namespace KadDHT.C14
open KadDHT.Life

structure Inv (s : St) : Prop where
  /-- the wait-group counter is the number of goroutines admitted and not yet finished -/
  count : s.counter = s.running.length
  nodup : s.running.Nodup
  runSeen : ∀ t ∈ s.running, t ∈ s.seen
  waitClosed : s.waiting = true → s.closed = true
  retWait : s.returned = true → s.waiting = true
  /-- once Wait has returned nothing the instance started is running -/
  retNone : s.returned = true → s.running = []

theorem inv_init : Inv {} := by
  refine ⟨rfl, List.nodup_nil, ?_, ?_, ?_, ?_⟩
  · intro t ht; cases ht
  · intro h; cases h
  · intro h; cases h
  · intro h; cases h

theorem step_inv (s s' : St) (e : Ev) (h : Inv s) (hs : step s e = some s') : Inv s' := by
  cases e with
  | spawn t =>
    simp only [step] at hs
    split at hs
    · cases hs
    · split at hs
      · cases hs; exact ⟨h.count, h.nodup, fun u hu => List.mem_cons_of_mem _ (h.runSeen u hu), h.waitClosed, h.retWait, h.retNone⟩
      · rename_i hseen hc
        have hc' : s.closed = false := by simpa using hc
        cases hs
        have hnw : s.waiting = false := by
          cases hw : s.waiting
          · rfl
          · rw [h.waitClosed hw] at hc'; cases hc'
        have hns : t ∉ s.seen := by simpa using hseen
        refine ⟨by simp [h.count], ?_, ?_, h.waitClosed, h.retWait, ?_⟩
        · -- a spawner that has not tried yet is not running
          rw [List.nodup_cons]
          exact ⟨fun hm => hns (h.runSeen t hm), h.nodup⟩
        · intro u hu
          rcases List.mem_cons.1 hu with rfl | hu
          · simp
          · exact List.mem_cons_of_mem _ (h.runSeen u hu)
        · intro hr; rw [h.retWait hr] at hnw; cases hnw
  | finish t =>
    simp only [step] at hs
    split at hs
    · rename_i hrun
      have hmem : t ∈ s.running := by simpa using hrun
      cases hs
      refine ⟨?_, h.nodup.sublist List.erase_sublist, fun u hu => h.runSeen u (List.mem_of_mem_erase hu), h.waitClosed, h.retWait, ?_⟩
      · simp only [List.length_erase_of_mem hmem]; rw [h.count]
      · intro hr; rw [h.retNone hr] at hmem; cases hmem
    · cases hs
  | close => simp only [step, Option.some.injEq] at hs; subst hs; exact ⟨h.count, h.nodup, h.runSeen, fun _ => rfl, h.retWait, h.retNone⟩
  | beginWait =>
    simp only [step] at hs
    split at hs
    · rename_i hc; cases hs; exact ⟨h.count, h.nodup, h.runSeen, fun _ => hc, fun _ => rfl, h.retNone⟩
    · cases hs
  | waitReturns =>
    simp only [step] at hs
    split at hs
    · rename_i hc
      simp only [Bool.and_eq_true, beq_iff_eq] at hc
      cases hs
      refine ⟨h.count, h.nodup, h.runSeen, h.waitClosed, fun _ => hc.1, ?_⟩
      intro _
      have := h.count; rw [hc.2] at this
      exact List.eq_nil_of_length_eq_zero this.symm
    · cases hs

theorem run_inv : ∀ (evs : List Ev) (s s' : St), Inv s → run s evs = some s' → Inv s'
  | [], s, s', h, hr => by simp [run] at hr; subst hr; exact h
  | e :: es, s, s', h, hr => by
    unfold run at hr
    cases hs : step s e with
    | none => simp [hs] at hr
    | some s1 => simp only [hs] at hr; exact run_inv es s1 s' (step_inv s s1 e h hs) hr

/-- once `wg.Wait` has been entered, no goroutine is admitted any more — for every interleaving of spawners and Close -/
theorem no_admission_after_wait (evs : List Ev) (s s' : St) (t : Nat) (h : run {} evs = some s) (hw : s.waiting = true)
    (hs : step s (.spawn t) = some s') : s'.running = s.running ∧ s'.counter = s.counter := by
  have hc := (run_inv evs {} s inv_init h).waitClosed hw
  simp only [step, hc] at hs
  split at hs
  · cases hs
  · simp only [↓reduceIte, Option.some.injEq] at hs; subst hs; exact ⟨rfl, rfl⟩

/-- when `wg.Wait` has returned, nothing the instance started is still running, and this stays so -/
theorem nothing_outlives_close (evs : List Ev) (s : St) (h : run {} evs = some s) (hr : s.returned = true) :
    s.running = [] :=
  (run_inv evs {} s inv_init h).retNone hr

/-- the wait-group counter never goes negative and is exact: `Wait` returns only when every admitted goroutine called Done -/
theorem counter_exact (evs : List Ev) (s : St) (h : run {} evs = some s) : s.counter = s.running.length :=
  (run_inv evs {} s inv_init h).count

/-- finishing every running goroutine empties the wait group -/
theorem finish_all (l : List Nat) : ∀ (s : St), s.running = l → s.counter = l.length →
    ∃ s', run s (l.map .finish) = some s' ∧ s'.running = [] ∧ s'.counter = 0 ∧ s'.closed = s.closed ∧ s'.waiting = s.waiting := by
  induction l with
  | nil => intro s hr hc; exact ⟨s, rfl, hr, hc, rfl, rfl⟩
  | cons t r ih =>
    intro s hr hc
    have hstep : step s (.finish t) = some { s with running := r, counter := r.length } := by
      simp [step, hr, hc]
    obtain ⟨s', h1, h2, h3, h4, h5⟩ := ih { s with running := r, counter := r.length } rfl rfl
    exact ⟨s', by simp only [List.map_cons, run, hstep]; exact h1, h2, h3, h4, h5⟩

theorem run_append (s : St) (a b : List Ev) (s' : St) (h : run s a = some s') : run s (a ++ b) = run s' b := by
  induction a generalizing s with
  | nil => simp only [run] at h; cases h; rfl
  | cons e es ih =>
    simp only [List.cons_append, run] at h ⊢
    match hs : step s e with
    | none => simp only [hs] at h; cases h
    | some s1 => simp only [hs] at h ⊢; exact ih s1 h

/-- The protocol cannot wedge: from every reachable state — whatever spawners and Close have done so far — once the
    running goroutines finish, Close can be carried through and `wg.Wait` returns.  (That a running goroutine does
    finish once `done` is closed is the harness's obligation, not the model's.) -/
theorem close_can_always_return (evs : List Ev) (s : St) (h : run {} evs = some s) :
    ∃ s', run s (s.running.map .finish ++ [.close, .beginWait, .waitReturns]) = some s' ∧ s'.returned = true := by
  have hinv := run_inv evs {} s inv_init h
  obtain ⟨s1, h1, hr, hc, _, _⟩ := finish_all s.running s rfl hinv.count
  rw [run_append s _ _ s1 h1]
  refine ⟨{ s1 with closed := true, waiting := true, returned := true }, ?_, rfl⟩
  simp [run, step, hc]

/-- without the guard (check and add in two steps) a goroutine is admitted after Wait has returned -/
theorem unguarded_admits_after_wait :
    ∃ u, urun {} [.check 7, .close, .beginWait, .waitReturns, .add 7] = some u ∧ u.base.returned = true ∧ u.base.running = [7] := by
  refine ⟨_, rfl, rfl, rfl⟩

/-! non-vacuity -/
example : (run {} [.spawn 1, .spawn 2, .close, .spawn 3, .beginWait, .finish 1, .finish 2, .waitReturns]).map
    (fun s => (s.returned, s.running, s.seen)) = some (true, [], [3, 2, 1]) := by decide

/-! ### Close may be called repeatedly — also concurrently -/

/-- with the shutdown under a `sync.Once`, no number of concurrent `Close` calls in any interleaving closes the channel
    twice: nobody panics (and the channel is closed as soon as anybody has been through) -/
theorem closeOnce_never_panics (s : CSt) (h : CReach CStepNew s) : s.panicked = false ∧ (s.onceDone = false → s.chanClosed = false) := by
  induction h with
  | init => exact ⟨rfl, fun _ => rfl⟩
  | step s s' _ hs ih =>
    cases hs with
    | once t ht =>
      refine ⟨?_, fun h => by simp at h⟩
      show (s.panicked || (!s.onceDone && s.chanClosed)) = false
      rw [ih.1]
      cases ho : s.onceDone with
      | true => simp
      | false => simp [ih.2 ho]

/-- as it was, two concurrent calls can both find the channel open; the second close panics (finding F23) -/
theorem closeLegacy_can_panic : ∃ s, CReach CStepOld s ∧ s.panicked = true := by
  let s0 : CSt := {}
  let s1 : CSt := { s0 with pc := setPc s0.pc 0 (if s0.chanClosed then 2 else 1) }
  let s2 : CSt := { s1 with pc := setPc s1.pc 1 (if s1.chanClosed then 2 else 1) }
  let s3 : CSt := { s2 with chanClosed := true, panicked := s2.panicked || s2.chanClosed, pc := setPc s2.pc 0 2 }
  let s4 : CSt := { s3 with chanClosed := true, panicked := s3.panicked || s3.chanClosed, pc := setPc s3.pc 1 2 }
  have r0 : CReach CStepOld s0 := .init
  have r1 : CReach CStepOld s1 := .step _ _ r0 (.test s0 0 rfl)
  have r2 : CReach CStepOld s2 := .step _ _ r1 (.test s1 1 (by simp [s1, s0, setPc]))
  have r3 : CReach CStepOld s3 := .step _ _ r2 (.close s2 0 (by simp [s2, s1, s0, setPc]))
  have r4 : CReach CStepOld s4 := .step _ _ r3 (.close s3 1 (by simp [s3, s2, s1, s0, setPc]))
  exact ⟨s4, r4, by simp [s4, s3]⟩

/-! ### the dual provider wrapper -/

/-- whatever the two sides do and in whatever order they finish, `runOnBoth` (hence the wrapper's Close) has returned
    only if both providers are done -/
theorem runOnBoth_waits_for_both (s : BSt) (h : BReach BStep s) : s.returned = true → s.wanDone = true ∧ s.lanDone = true := by
  induction h with
  | init => intro hr; cases hr
  | step s s' _ hs ih =>
    cases hs with
    | wan err hw => intro hr; have := ih hr; simp [hw] at this
    | lan hl => intro hr; have := ih hr; simp [hl] at this
    | ret h1 h2 => intro _; exact ⟨h1, h2⟩

/-- the seeded variant returns while the LAN provider is still closing -/
theorem runOnBoth_early_return : ∃ s, BReach BStepEarly s ∧ s.returned = true ∧ s.lanDone = false :=
  ⟨{ wanDone := true, wanErr := true, lanDone := false, returned := true },
   .step _ _ (.step _ _ .init (.wan {} true rfl)) (.ret _ rfl (.inr rfl)), rfl, rfl⟩

end KadDHT.C14

/-
  C06 — puts and provides reach every closest peer found, with correct content.

  Property theorems only, about `Publish` (model of routing.go `PutValue`, `classicProvide` +
  pb `PutProviderAddrs`, `SearchValue`'s corrective puts, and the per-peer bookkeeping of lookup_optim.go),
  composed with the lookup result of `Lookup` (C01).  The recipients of a publish are a function of the lookup
  result only: no outcome of one recipient's RPC is an input of the plan, which is what "failure of individual
  recipients never prevents delivery to the others" means for the decision logic; that the real code runs each RPC
  in its own goroutine and never cuts one short is compared on every case with failing, unreachable and silent
  recipients.  The optimistic-provide stop rule (network-size estimate) is not modelled; its recipients are checked
  by the verdict rules (once each, correct content, never cut short).
-/
import KadDHT.Model.Publish
import KadDHT.Props.C01
namespace KadDHT.C06
open KadDHT KadDHT.Publish

/-! ### PutValue -/

theorem putValuePlan_eq {V : Type} (valid : Bool) (rank : Nat) (old : Option Nat) (ok : Bool) (peers : List Nat) (rec : V) :
    putValuePlan valid rank old ok peers rec =
      if !valid || worse rank old then (false, []) else (true, if ok then peers.map fun p => ⟨p, rec⟩ else []) := rfl

/-- a valid record that is not worse than the local one is stored locally and the very same record goes to every
    peer the lookup returned: same recipients, in the same multiplicity -/
theorem putValue_reaches_all {V : Type} (rank : Nat) (old : Option Nat) (peers : List Nat) (rec : V)
    (hold : ∀ o, old = some o → o ≤ rank) :
    let r := putValuePlan true rank old true peers rec
    r.1 = true ∧ r.2.map (·.to) = peers ∧ ∀ x ∈ r.2, x.payload = rec := by
  have hw : worse rank old = false := by
    cases old with
    | none => rfl
    | some o => have := hold o rfl; simp [worse]; omega
  simp only [putValuePlan_eq, hw, Bool.not_true, Bool.or_self, Bool.false_eq_true, ↓reduceIte]
  refine ⟨trivial, ?_, ?_⟩
  · simp [List.map_map, Function.comp_def]
  · intro x hx; obtain ⟨p, _, rfl⟩ := List.mem_map.1 hx; rfl

/-- an invalid record, or one ranked below the local record, touches neither the local store nor the network -/
theorem putValue_refused {V : Type} (valid : Bool) (rank : Nat) (old : Option Nat) (ok : Bool) (peers : List Nat) (rec : V)
    (h : valid = false ∨ ∃ o, old = some o ∧ rank < o) : putValuePlan valid rank old ok peers rec = (false, []) := by
  rcases h with h | ⟨o, ho, hlt⟩
  · simp [putValuePlan, h]
  · subst ho; simp [putValuePlan, worse, hlt]

/-- nothing is sent when the lookup failed; the local store has happened all the same (it comes first) -/
theorem putValue_lookup_failed {V : Type} (rank : Nat) (peers : List Nat) (rec : V) :
    putValuePlan true rank none false peers rec = (true, []) := by
  simp [putValuePlan, worse]

/-! ### Provide -/

/-- every lookup-result peer gets exactly one ADD_PROVIDER, naming exactly the local peer with exactly its
    filter-passing addresses, and these are non-empty -/
theorem provide_reaches_all (self : Nat) (hostAddrs : List Nat) (passes : Nat → Bool) (peers : List Nat)
    (hne : hostAddrs.filter passes ≠ []) :
    let rpcs := providePlan self hostAddrs passes true peers
    rpcs.map (·.to) = peers ∧
    ∀ x ∈ rpcs, x.payload.id = self ∧ x.payload.addrs = hostAddrs.filter passes ∧ x.payload.addrs ≠ [] := by
  have he : (hostAddrs.filter passes).isEmpty = false := by
    cases h : hostAddrs.filter passes with
    | nil => exact absurd h hne
    | cons a l => rfl
  simp only [providePlan, Bool.not_true, he, Bool.or_self, Bool.false_eq_true, ↓reduceIte]
  refine ⟨by simp [List.map_map, Function.comp_def], ?_⟩
  intro x hx
  obtain ⟨p, _, rfl⟩ := List.mem_map.1 hx
  exact ⟨rfl, rfl, hne⟩

/-- every advertised address in an ADD_PROVIDER passed the configured filter and is one of the host's -/
theorem provide_addrs_filtered (self : Nat) (hostAddrs : List Nat) (passes : Nat → Bool) (ok : Bool) (peers : List Nat) :
    ∀ x ∈ providePlan self hostAddrs passes ok peers, ∀ a ∈ x.payload.addrs, a ∈ hostAddrs ∧ passes a = true := by
  intro x hx a ha
  unfold providePlan at hx
  simp only at hx
  split at hx
  · cases hx
  · obtain ⟨p, _, rfl⟩ := List.mem_map.1 hx
    simpa [List.mem_filter] using ha

/-- with no filter-passing address nothing is announced -/
theorem provide_refuses_without_addrs (self : Nat) (hostAddrs : List Nat) (passes : Nat → Bool) (ok : Bool) (peers : List Nat)
    (h : hostAddrs.filter passes = []) : providePlan self hostAddrs passes ok peers = [] := by
  simp [providePlan, h]

/-! ### failures of recipients -/

/-- what actually arrives when the recipients in `fails` fail or hang -/
def delivered {V : Type} (rpcs : List (Rpc V)) (fails : Nat → Bool) : List (Rpc V) := rpcs.filter fun x => !fails x.to

/-- whatever subset of the recipients fails or hangs, every other peer of the lookup result is delivered the record -/
theorem failures_do_not_prevent_others {V : Type} (rank : Nat) (peers : List Nat) (rec : V) (fails : Nat → Bool)
    (p : Nat) (hp : p ∈ peers) (hok : fails p = false) :
    ⟨p, rec⟩ ∈ delivered (putValuePlan true rank none true peers rec).2 fails := by
  simp only [delivered, putValuePlan, worse, Bool.not_true, Bool.or_self, Bool.false_eq_true, ↓reduceIte, List.mem_filter, List.mem_map]
  exact ⟨⟨p, hp, rfl⟩, by simp [hok]⟩

theorem provide_failures_do_not_prevent_others (self : Nat) (hostAddrs : List Nat) (passes : Nat → Bool) (peers : List Nat)
    (fails : Nat → Bool) (hne : hostAddrs.filter passes ≠ []) (p : Nat) (hp : p ∈ peers) (hok : fails p = false) :
    ⟨p, ⟨self, hostAddrs.filter passes⟩⟩ ∈ delivered (providePlan self hostAddrs passes true peers) fails := by
  have he : (hostAddrs.filter passes).isEmpty = false := by
    cases h : hostAddrs.filter passes with
    | nil => exact absurd h hne
    | cons a l => rfl
  simp only [delivered, providePlan, Bool.not_true, he, Bool.or_self, Bool.false_eq_true, ↓reduceIte, List.mem_filter,
    List.mem_map]
  exact ⟨⟨p, hp, rfl⟩, by simp [hok]⟩

/-! ### corrective puts after a value search -/

/-- the corrective puts go to exactly the closest peers that did not return the best value, and carry it -/
theorem corrective_exact {V : Type} (b : V) (peers withBest : List Nat) (p : Nat) :
    p ∈ (correctivePlan (some b) false peers withBest).map (·.to) ↔ p ∈ peers ∧ p ∉ withBest := by
  simp [correctivePlan, List.mem_map, List.mem_filter]

theorem corrective_payload {V : Type} (best : Option V) (aborted : Bool) (peers withBest : List Nat) :
    ∀ x ∈ correctivePlan best aborted peers withBest, best = some x.payload := by
  intro x hx
  unfold correctivePlan at hx
  cases best with
  | none => cases hx
  | some b =>
    simp only at hx
    split at hx
    · cases hx
    · obtain ⟨p, _, rfl⟩ := List.mem_map.1 hx; rfl

/-- a peer that returned the best value is never sent it -/
theorem corrective_skips_holders {V : Type} (best : Option V) (aborted : Bool) (peers withBest : List Nat) :
    ∀ x ∈ correctivePlan best aborted peers withBest, x.to ∉ withBest := by
  intro x hx
  unfold correctivePlan at hx
  cases best with
  | none => cases hx
  | some b =>
    simp only at hx
    split at hx
    · cases hx
    · obtain ⟨p, hp, rfl⟩ := List.mem_map.1 hx
      simpa using (List.mem_filter.1 hp).2

/-- no value, or a search ended by its quorum (not completed): no corrective put -/
theorem corrective_none {V : Type} (peers withBest : List Nat) :
    correctivePlan (none : Option V) false peers withBest = [] ∧
    ∀ b : V, correctivePlan (some b) true peers withBest = [] := ⟨rfl, fun _ => by simp [correctivePlan]⟩

/-! ### composition with the lookup (C01): recipients are distinct, never self, at most K -/
section withLookup
open KadDHT.Lookup KadDHT.C01
variable {cfg : Cfg Nat} {accept : Nat → Bool} {stop : LState Nat → Bool} {seeds : List Nat} {evs : List (Ev Nat)} {s : LState Nat}

theorem putValue_recipients_distinct {V : Type} (h : Reaches cfg accept stop seeds evs s) (rank : Nat) (old : Option Nat)
    (valid ok : Bool) (rec : V) :
    let rcp := (putValuePlan valid rank old ok (result cfg s).peers rec).2.map (·.to)
    rcp.Nodup ∧ cfg.self ∉ rcp ∧ rcp.length ≤ cfg.K := by
  have hn := result_nodup h
  have hs := result_no_self h
  have hl := result_len_le_K (cfg := cfg) s
  rw [putValuePlan_eq]
  split
  · simp
  · cases ok
    · simp
    · simp only [↓reduceIte, List.map_map, Function.comp_def, List.map_id']
      exact ⟨hn, hs, by simpa using hl⟩

theorem provide_recipients_distinct (h : Reaches cfg accept stop seeds evs s) (hostAddrs : List Nat) (passes : Nat → Bool)
    (ok : Bool) :
    let rcp := (providePlan cfg.self hostAddrs passes ok (result cfg s).peers).map (·.to)
    rcp.Nodup ∧ cfg.self ∉ rcp ∧ rcp.length ≤ cfg.K := by
  have hn := result_nodup h
  have hs := result_no_self h
  have hl := result_len_le_K (cfg := cfg) s
  unfold providePlan
  simp only
  split
  · simp
  · simp only [List.map_map, Function.comp_def, List.map_id']
    exact ⟨hn, hs, by simpa using hl⟩
end withLookup

/-! ### optimistic provide: each peer at most one RPC, the whole lookup result covered -/

theorem sweep_spec (states peers : List Nat) (hn : states.Nodup) :
    let r := sweep states peers
    r.1.Nodup ∧ r.2.Nodup ∧ (∀ p ∈ r.2, p ∉ states ∧ p ∈ peers) ∧ (∀ p, p ∈ r.1 ↔ p ∈ states ∨ p ∈ peers) ∧
    (∀ p ∈ peers, p ∉ states → p ∈ r.2) := by
  -- generalised over the accumulator
  have key : ∀ (ps : List Nat) (st sent : List Nat), st.Nodup → sent.Nodup → (∀ p ∈ sent, p ∈ st) →
      let r := ps.foldl (fun (acc : List Nat × List Nat) p =>
        let (st, snt) := schedule acc.1 p
        (st, if snt then acc.2 ++ [p] else acc.2)) (st, sent)
      r.1.Nodup ∧ r.2.Nodup ∧ (∀ p ∈ r.2, p ∈ sent ∨ (p ∉ st ∧ p ∈ ps)) ∧ (∀ p, p ∈ r.1 ↔ p ∈ st ∨ p ∈ ps) ∧
      (∀ p ∈ ps, p ∉ st → p ∈ r.2) ∧ (∀ p ∈ sent, p ∈ r.2) := by
    intro ps
    induction ps with
    | nil => intro st sent h1 h2 _; simp [h1, h2]
    | cons q qs ih =>
      intro st sent h1 h2 h3
      simp only [List.foldl_cons]
      by_cases hq : q ∈ st
      · have hs : schedule st q = (st, false) := by simp [schedule, hq]
        simp only [hs, Bool.false_eq_true, ↓reduceIte]
        obtain ⟨a, b, c, d, e, f⟩ := ih st sent h1 h2 h3
        refine ⟨a, b, ?_, ?_, ?_, f⟩
        · intro p hp; rcases c p hp with h | ⟨h, h'⟩
          · exact Or.inl h
          · exact Or.inr ⟨h, List.mem_cons_of_mem _ h'⟩
        · intro p; rw [d p]; constructor
          · rintro (h | h)
            · exact Or.inl h
            · exact Or.inr (List.mem_cons_of_mem _ h)
          · rintro (h | h)
            · exact Or.inl h
            · rcases List.mem_cons.1 h with rfl | h
              · exact Or.inl hq
              · exact Or.inr h
        · intro p hp hnp
          rcases List.mem_cons.1 hp with rfl | hp
          · exact absurd hq hnp
          · exact e p hp hnp
      · have hs : schedule st q = (st ++ [q], true) := by simp [schedule, hq]
        simp only [hs, ↓reduceIte]
        have hqs : q ∉ sent := fun h => hq (h3 q h)
        obtain ⟨a, b, c, d, e, f⟩ := ih (st ++ [q]) (sent ++ [q])
          (by rw [List.nodup_append]; exact ⟨h1, by simp, by intro x hx y hy; simp at hy; subst hy; intro h; subst h; exact hq hx⟩)
          (by rw [List.nodup_append]; exact ⟨h2, by simp, by intro x hx y hy; simp at hy; subst hy; intro h; subst h; exact hqs hx⟩)
          (by intro p hp; rcases List.mem_append.1 hp with h | h
              · exact List.mem_append_left _ (h3 p h)
              · exact List.mem_append_right _ h)
        refine ⟨a, b, ?_, ?_, ?_, ?_⟩
        · intro p hp; rcases c p hp with h | ⟨h, h'⟩
          · rcases List.mem_append.1 h with h | h
            · exact Or.inl h
            · have h : p = q := by simpa using h
              subst h; exact Or.inr ⟨hq, by simp⟩
          · exact Or.inr ⟨fun hh => h (List.mem_append_left _ hh), List.mem_cons_of_mem _ h'⟩
        · intro p; rw [d p]; simp only [List.mem_append, List.mem_cons, List.not_mem_nil, or_false]
          constructor
          · rintro ((h | h) | h)
            · exact Or.inl h
            · exact Or.inr (Or.inl h)
            · exact Or.inr (Or.inr h)
          · rintro (h | h | h)
            · exact Or.inl (Or.inl h)
            · exact Or.inl (Or.inr h)
            · exact Or.inr h
        · intro p hp hnp
          rcases List.mem_cons.1 hp with rfl | hp
          · exact f p (by simp)
          · by_cases hpq : p = q
            · subst hpq; exact f p (by simp)
            · exact e p hp (by simp [hnp, hpq])
        · intro p hp; exact f p (List.mem_append_left _ hp)
  obtain ⟨a, b, c, d, e, _⟩ := key peers states [] hn List.nodup_nil (by simp)
  refine ⟨a, b, ?_, d, e⟩
  intro p hp
  rcases c p hp with h | h
  · cases h
  · exact h

/-- optimistic provide: a peer that already has an RPC (scheduled during the lookup) is not sent another one by the
    final sweep, and every peer of the lookup result has one afterwards -/
theorem optimistic_once_and_covering (states peers : List Nat) (hn : states.Nodup) :
    (∀ p ∈ (sweep states peers).2, p ∉ states) ∧ (sweep states peers).2.Nodup ∧
    ∀ p ∈ peers, p ∈ (sweep states peers).1 := by
  obtain ⟨_, b, c, d, _⟩ := sweep_spec states peers hn
  exact ⟨fun p hp => (c p hp).1, b, fun p hp => (d p).2 (Or.inr hp)⟩

/-! non-vacuity -/
example : (putValuePlan true 3 (some 2) true [4, 7, 9] "3:ok").2.map (·.to) = [4, 7, 9] := by decide
example : providePlan 5 [1, 2, 3] (fun a => a != 2) true [4, 7] = [⟨4, ⟨5, [1, 3]⟩⟩, ⟨7, ⟨5, [1, 3]⟩⟩] := by decide
example : (correctivePlan (some "5:ok") false [1, 2, 3, 4] [2, 4, 9]).map (·.to) = [1, 3] := by decide
example : sweep [3, 1] [1, 2, 3, 4] = ([3, 1, 2, 4], [2, 4]) := by decide

end KadDHT.C06

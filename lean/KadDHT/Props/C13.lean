/-
  C13 — client-mode nodes never serve; auto mode follows reachability.

  Property theorems only, about `Mode.step` (model of New / setMode / moveTo{Server,Client}Mode, the
  reachability subscriber and the per-message mode check).  The two decision tables are re-read from the
  source on every run (`Generated/Facts.lean`), and the model is compared with a real node after every
  event of generated histories (events on the real event bus, requests on new and already-open streams
  over inbound and outbound connections).
-/
import KadDHT.Model.Mode
import KadDHT.Generated.Facts
namespace KadDHT.C13
open KadDHT.Mode

/-! ### regenerated decision tables -/

theorem fact_reachability_table : Facts.reachabilityTable =
    ["case network.ReachabilityPrivate;=>modeClient",
     "case network.ReachabilityUnknown;if dht.auto==ModeAutoServer;=>modeServer",
     "case network.ReachabilityUnknown;else;=>modeClient",
     "case network.ReachabilityPublic;=>modeServer"] := by decide

theorem fact_initial_mode_table : Facts.initialModeTable =
    ["case ModeAuto,ModeClient;=>modeClient", "case ModeAutoServer,ModeServer;=>modeServer"] := by decide

/-- public: server, private: client, unknown: server only for auto-server -/
theorem target_table_correct (opt : ModeOpt) :
    target opt .pub = .server ∧ target opt .priv = .client ∧
    (target opt .unknown = .server ↔ opt = .autoServer) := by
  cases opt <;> simp [target]

/-! ### the mode after any history -/

/-- the last reachability event of a history -/
def lastReach : List Ev → Option Reach
  | [] => none
  | .reach r :: es => (lastReach es).or (some r)
  | _ :: es => lastReach es

theorem setMode_mode (s : St) (m : Mode) : (setMode s m).mode = m := by
  unfold setMode
  split
  · rename_i h; simpa using (by simpa using h : m = s.mode).symm
  · cases m <;> rfl

theorem setMode_opt (s : St) (m : Mode) : (setMode s m).opt = s.opt := by
  unfold setMode; split
  · rfl
  · cases m <;> rfl

theorem step_opt (s : St) (e : Ev) : (step s e).1.opt = s.opt := by
  cases e with
  | reach r => simp only [step]; split <;> simp [setMode_opt]
  | openStream id i c => simp only [step]; split <;> rfl
  | negotiate id c => simp only [step]; split <;> rfl
  | deliver id => simp only [step]; split <;> rfl
  | request id =>
    simp only [step]
    split
    · rfl
    · split
      · rfl
      · split <;> rfl

theorem step_mode_nonreach (s : St) (e : Ev) (h : ∀ r, e ≠ .reach r) : (step s e).1.mode = s.mode := by
  cases e with
  | reach r => exact absurd rfl (h r)
  | openStream id i c => simp only [step]; split <;> rfl
  | negotiate id c => simp only [step]; split <;> rfl
  | deliver id => simp only [step]; split <;> rfl
  | request id =>
    simp only [step]
    split
    · rfl
    · split
      · rfl
      · split <;> rfl

/-- In the automatic modes the mode after any sequence of events is determined by the last reachability
    event alone (and is the initial mode when there was none). -/
theorem mode_determined_by_last_event (opt : ModeOpt) (ha : isAuto opt = true) (evs : List Ev) :
    (run (init opt) evs).mode = match lastReach evs with
      | none => initial opt
      | some r => target opt r := by
  suffices ∀ s : St, s.opt = opt → (run s evs).mode = match lastReach evs with
      | none => s.mode
      | some r => target opt r from this (init opt) rfl
  induction evs with
  | nil => intro s _; rfl
  | cons e es ih =>
    intro s hs
    simp only [run]
    rw [ih (step s e).1 (by rw [step_opt, hs])]
    cases e with
    | reach r =>
      simp only [lastReach]
      cases hl : lastReach es with
      | none => simp [step, hs, ha, setMode_mode]
      | some r' => simp
    | openStream id i c =>
      simp only [lastReach]
      cases lastReach es with
      | none => simp only; exact step_mode_nonreach s _ (by intro r h; cases h)
      | some r' => rfl
    | request id =>
      simp only [lastReach]
      cases lastReach es with
      | none => simp only; exact step_mode_nonreach s _ (by intro r h; cases h)
      | some r' => rfl
    | negotiate id c =>
      simp only [lastReach]
      cases lastReach es with
      | none => simp only; exact step_mode_nonreach s _ (by intro r h; cases h)
      | some r' => rfl
    | deliver id =>
      simp only [lastReach]
      cases lastReach es with
      | none => simp only; exact step_mode_nonreach s _ (by intro r h; cases h)
      | some r' => rfl

/-- fixed modes never change, whatever events arrive -/
theorem fixed_modes_never_change (opt : ModeOpt) (hf : isAuto opt = false) (evs : List Ev) :
    (run (init opt) evs).mode = initial opt := by
  suffices ∀ s : St, s.opt = opt → (run s evs).mode = s.mode from this (init opt) rfl
  induction evs with
  | nil => intro s _; rfl
  | cons e es ih =>
    intro s hs
    simp only [run]
    rw [ih (step s e).1 (by rw [step_opt, hs])]
    cases e with
    | reach r => simp [step, hs, hf]
    | openStream id i c => exact step_mode_nonreach s _ (by intro r h; cases h)
    | negotiate id c => exact step_mode_nonreach s _ (by intro r h; cases h)
    | deliver id => exact step_mode_nonreach s _ (by intro r h; cases h)
    | request id => exact step_mode_nonreach s _ (by intro r h; cases h)

/-! ### serving -/

/-- handlers are registered exactly in server mode, and in client mode no inbound DHT stream that has reached its handler
    is open (a stream still between negotiation and handler is not one yet; it dies when it gets there) -/
def Inv (s : St) : Prop :=
  (s.handlers = true ↔ s.mode = .server) ∧
  (s.mode = .client → ∀ st ∈ s.streams, st.inbound = true → st.pending = false → st.alive = false)

theorem inv_init (opt : ModeOpt) : Inv (init opt) := by
  cases opt <;> simp [Inv, init, initial]

theorem inv_step (s : St) (e : Ev) (h : Inv s) : Inv (step s e).1 := by
  obtain ⟨h1, h2⟩ := h
  cases e with
  | reach r =>
    simp only [step]
    split
    · unfold setMode
      split
      · exact ⟨h1, h2⟩
      · cases target s.opt r with
        | server =>
          refine ⟨by simp, ?_⟩
          intro hc; cases hc
        | client =>
          refine ⟨by simp, ?_⟩
          intro _ st hst hin hp
          simp only [List.mem_map] at hst
          obtain ⟨x, _, rfl⟩ := hst
          by_cases hx : (x.inbound && !x.pending) = true
          · simp [hx]
          · simp only [hx, Bool.false_eq_true, ↓reduceIte] at hin hp
            simp [hin, hp] at hx
    · exact ⟨h1, h2⟩
  | openStream id i c =>
    simp only [step]
    split
    · exact ⟨h1, h2⟩
    · rename_i hc
      refine ⟨h1, ?_⟩
      intro hm st hst hin hp
      simp only [List.mem_append, List.mem_singleton] at hst
      rcases hst with hst | rfl
      · exact h2 hm st hst hin hp
      · -- an inbound stream is only opened while the handler is registered, i.e. in server mode
        simp only at hin
        have : s.handlers = true := by
          simp only [Bool.and_eq_true, Bool.not_eq_true', not_and, Bool.not_eq_false] at hc
          exact hc hin
        have := h1.1 this
        rw [hm] at this; cases this
  | negotiate id c =>
    simp only [step]
    split
    · exact ⟨h1, h2⟩
    · refine ⟨h1, ?_⟩
      intro hm st hst hin hp
      simp only [List.mem_append, List.mem_singleton] at hst
      rcases hst with hst | rfl
      · exact h2 hm st hst hin hp
      · simp at hp
  | deliver id =>
    simp only [step]
    split
    · refine ⟨h1, ?_⟩
      intro hm st hst hin hp
      simp only [List.mem_map] at hst
      obtain ⟨x, hx, rfl⟩ := hst
      by_cases hxi : (x.id == id && x.pending) = true
      · simp only [hxi, ↓reduceIte]
        rw [show s.mode = Mode.client from hm]; simp
      · simp only [hxi, Bool.false_eq_true, ↓reduceIte] at hin hp ⊢
        exact h2 hm x hx hin hp
    · exact ⟨h1, h2⟩
  | request id =>
    simp only [step]
    split
    · exact ⟨h1, h2⟩
    · split
      · exact ⟨h1, h2⟩
      · split
        · exact ⟨h1, h2⟩
        · refine ⟨h1, ?_⟩
          intro hm st hst hin hp
          simp only [List.mem_map] at hst
          obtain ⟨x, hx, rfl⟩ := hst
          by_cases hxi : x.id == id
          · simp [hxi]
          · simp only [hxi, Bool.false_eq_true, ↓reduceIte] at hin hp ⊢
            exact h2 hm x hx hin hp

theorem inv_run (s : St) (evs : List Ev) (h : Inv s) : Inv (run s evs) := by
  induction evs generalizing s with
  | nil => exact h
  | cons e es ih => exact ih _ (inv_step s e h)

/-- A node in client mode handles no inbound DHT stream: after any history that leaves it in client mode
    there is no registered handler, no open inbound DHT stream that has reached its handler (those open at the switch
    were reset, one that was still being negotiated at the switch is reset when it reaches the handler), a new
    inbound stream is refused — at negotiation too — and no request on any stream is answered. -/
theorem client_handles_nothing (opt : ModeOpt) (evs : List Ev) (hm : (run (init opt) evs).mode = .client) :
    let s := run (init opt) evs
    s.handlers = false ∧ (∀ st ∈ s.streams, st.inbound = true → st.pending = false → st.alive = false) ∧
    (∀ id c, (step s (.openStream id true c)).2 = .nohandler ∧ (step s (.negotiate id c)).2 = .nohandler) ∧
    (∀ id, (step s (.request id)).2 ≠ .answered) := by
  intro s
  have hinv : Inv s := inv_run _ evs (inv_init opt)
  have hh : s.handlers = false := by
    cases hs : s.handlers with
    | false => rfl
    | true => have := hinv.1.1 hs; rw [hm] at this; cases this
  refine ⟨hh, hinv.2 hm, ?_, ?_⟩
  · intro id c; simp [step, hh]
  · intro id
    simp only [step]
    split
    · simp
    · split
      · simp
      · rw [show s.mode = Mode.client from hm]; simp

/-- in server mode inbound streams are accepted and requests on live inbound streams are answered -/
theorem server_handles (opt : ModeOpt) (evs : List Ev) (hm : (run (init opt) evs).mode = .server) :
    let s := run (init opt) evs
    (∀ id c, (step s (.openStream id true c)).2 = .opened) ∧
    (∀ st ∈ s.streams, st.alive = true → st.inbound = true → st.pending = false →
      (∀ x ∈ s.streams, x.id = st.id → x = st) → (step s (.request st.id)).2 = .answered) := by
  intro s
  have hinv : Inv s := inv_run _ evs (inv_init opt)
  have hh : s.handlers = true := hinv.1.2 hm
  refine ⟨by intro id c; simp [step, hh], ?_⟩
  intro st hst ha hi hp huniq
  simp only [step]
  cases hf : s.streams.find? (·.id == st.id) with
  | none => have := List.find?_eq_none.1 hf st hst; simp at this
  | some x =>
    have hx := List.mem_of_find?_eq_some hf
    have hxid : x.id = st.id := by simpa using List.find?_some hf
    have := huniq x hx hxid
    subst this
    simp [ha, hi, hp, show s.mode = Mode.server from hm]

/-! non-vacuity: a demotion with an open inbound stream on an outbound connection -/
/-- … and that last part needs no history at all: in *any* state whose mode is client — also one holding a stream that
    slipped past the switch, e.g. one whose protocol negotiation had finished but was not yet recorded (the harness's
    `nego`/`deliver` steps build such states) — no request is answered: the mode is checked before every message -/
theorem client_answers_no_request (s : St) (hm : s.mode = .client) (id : Nat) : (step s (.request id)).2 ≠ .answered := by
  simp only [step]
  split
  · simp
  · split
    · simp
    · rw [hm]; simp

def exEvs : List Ev := [.reach .pub, .openStream 1 true false, .request 1, .reach .priv, .request 1, .reach .unknown]
example : (run (init .auto) exEvs).mode = .client := by decide
example : (run (init .auto) (exEvs.take 3)).mode = .server := by decide
example : (run (init .auto) (exEvs.take 4)).streams = [⟨1, true, false, false, false⟩] := by decide
/-- a stream negotiated in server mode and delivered after the switch to client mode is dead on arrival -/
example : (run (init .auto) [.reach .pub, .negotiate 1 true, .reach .priv, .deliver 1]).streams = [⟨1, true, true, false, false⟩] ∧
    (step (run (init .auto) [.reach .pub, .negotiate 1 true, .reach .priv, .deliver 1]) (.request 1)).2 = .dead := by decide
example : (run (init .autoServer) exEvs).mode = .server := by decide

end KadDHT.C13

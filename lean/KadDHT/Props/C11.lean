/-
  C11 — every RPC reply is matched to its own request.

  Property theorems only.  Part 2 of `MsgSender` is the per-peer lock protocol of internal/net/message_manager.go as a
  small-step system: any number of concurrent callers, each acquiring the lock, writing its request on the kept
  stream (opening one if there is none), then either reading the next reply or failing (reset, timeout, cancellation:
  the stream is reset and dropped) and trying again or giving up; `OnDisconnect`'s invalidation runs when it holds the
  lock.  The remote answers the requests it reads on a stream in order.  The theorems hold for every interleaving
  (`lrun` over an arbitrary action list) and any number of callers.  Mutual exclusion of the lock itself
  (internal/ctx_mutex.go: a channel of capacity 1) is Go channel semantics and is assumed.  The exchange logic of
  Part 1 (single retry, one-message-per-stream fallback, the sender map) is compared with the real sender over fake
  streams against scripted remotes, in virtual time.
-/
import KadDHT.Model.MsgSender
namespace KadDHT.C11
open KadDHT.MsgSender

/-- the kept stream carries nothing unread -/
def clean (s : LState) : Prop := s.pending = none ∨ s.pending = some []

structure Inv (s : LState) : Prop where
  /-- whenever the per-peer lock is free, the kept stream (if any) has no unread request and no undelivered reply -/
  free : s.holder = none → clean s
  /-- only the holder is inside an exchange -/
  others : ∀ t, s.holder ≠ some t → s.pcs t = .waiting ∨ ∃ r, s.pcs t = .done r
  holderPc : ∀ t, s.holder = some t → (s.pcs t = .locked ∧ clean s) ∨ (s.pcs t = .written ∧ s.pending = some [t])
  /-- a reply handed to a caller is the reply produced for its own request -/
  matched : ∀ t x, s.pcs t = .done (some x) → x = t

theorem inv_init : Inv {} := by
  refine ⟨fun _ => Or.inl rfl, fun _ _ => Or.inl rfl, ?_, ?_⟩
  · intro t h; cases h
  · intro t x h; cases h

theorem step_inv (s s' : LState) (a : Act) (h : Inv s) (hs : lstep s a = some s') : Inv s' := by
  cases a with
  | acquire t =>
    simp only [lstep] at hs
    split at hs
    · rename_i hc
      simp only [Bool.and_eq_true, Option.isNone_iff_eq_none, beq_iff_eq] at hc
      cases hs
      refine ⟨?_, ?_, ?_, ?_⟩
      · intro hh; cases hh
      · intro t' ht'
        have hne : t' ≠ t := fun e => ht' (by rw [e])
        simp only [setPc, hne, ↓reduceIte]
        exact h.others t' (by rw [hc.1]; intro hh; cases hh)
      · intro t' ht'
        have : t' = t := by simpa using ht'.symm
        subst this
        left
        exact ⟨by simp [setPc], h.free hc.1⟩
      · intro t' x hx
        by_cases e : t' = t
        · subst e; simp [setPc] at hx
        · simp only [setPc, e, ↓reduceIte] at hx; exact h.matched t' x hx
    · cases hs
  | write t =>
    simp only [lstep] at hs
    split at hs
    · rename_i hc
      simp only [Bool.and_eq_true, beq_iff_eq] at hc
      cases hs
      have hcl : clean s := by
        rcases h.holderPc t hc.1 with ⟨_, hcl⟩ | ⟨hw, _⟩
        · exact hcl
        · simp only [pcOf] at hc; rw [hw] at hc; cases hc.2
      refine ⟨by intro hh; simp [setPc, hc.1] at hh, ?_, ?_, ?_⟩
      · intro t' ht'
        have ht'' : s.holder ≠ some t' := by simpa [setPc] using ht'
        have hne : t' ≠ t := fun e => ht'' (by rw [e]; exact hc.1)
        simp only [setPc, hne, ↓reduceIte]
        exact h.others t' ht''
      · intro t' ht'
        have ht'' : s.holder = some t' := by simpa [setPc] using ht'
        have : t' = t := by rw [hc.1] at ht''; cases ht''; rfl
        subst this
        right
        refine ⟨by simp [setPc], ?_⟩
        rcases hcl with hcl | hcl <;> simp [hcl]
      · intro t' x hx
        by_cases e : t' = t
        · subst e; simp [setPc] at hx
        · simp only [setPc, e, ↓reduceIte] at hx; exact h.matched t' x hx
    · cases hs
  | readOk t =>
    simp only [lstep] at hs
    split at hs
    · rename_i hc
      simp only [Bool.and_eq_true, beq_iff_eq] at hc
      -- the holder has written: the stream carries exactly its own request
      have hp : s.pending = some [t] := by
        rcases h.holderPc t hc.1 with ⟨hl, _⟩ | ⟨_, hp⟩
        · simp only [pcOf] at hc; rw [hl] at hc; cases hc.2
        · exact hp
      rw [hp] at hs
      simp only [Option.some.injEq] at hs
      cases hs
      refine ⟨fun _ => Or.inr rfl, ?_, ?_, ?_⟩
      · intro t' _
        by_cases e : t' = t
        · subst e; right; exact ⟨some t', by simp [setPc]⟩
        · simp only [setPc, e, ↓reduceIte]
          exact h.others t' (by rw [hc.1]; intro hh; cases hh; exact e rfl)
      · intro t' ht'; cases ht'
      · intro t' x hx
        by_cases e : t' = t
        · subst e; simp only [setPc, ↓reduceIte, PC.done.injEq, Option.some.injEq] at hx; exact hx.symm
        · simp only [setPc, e, ↓reduceIte] at hx; exact h.matched t' x hx
    · cases hs
  | readFail t =>
    simp only [lstep] at hs
    split at hs
    · rename_i hc
      simp only [Bool.and_eq_true, beq_iff_eq] at hc
      cases hs
      refine ⟨by intro hh; simp [setPc, hc.1] at hh, ?_, ?_, ?_⟩
      · intro t' ht'
        have ht'' : s.holder ≠ some t' := by simpa [setPc] using ht'
        have hne : t' ≠ t := fun e => ht'' (by rw [e]; exact hc.1)
        simp only [setPc, hne, ↓reduceIte]
        exact h.others t' ht''
      · intro t' ht'
        have ht'' : s.holder = some t' := by simpa [setPc] using ht'
        have : t' = t := by rw [hc.1] at ht''; cases ht''; rfl
        subst this
        left
        exact ⟨by simp [setPc], Or.inl (by simp [setPc])⟩
      · intro t' x hx
        by_cases e : t' = t
        · subst e; simp [setPc] at hx
        · simp only [setPc, e, ↓reduceIte] at hx; exact h.matched t' x hx
    · cases hs
  | giveUp t =>
    simp only [lstep] at hs
    split at hs
    · rename_i hc
      simp only [Bool.and_eq_true, beq_iff_eq] at hc
      cases hs
      have hcl : clean s := by
        rcases h.holderPc t hc.1 with ⟨_, hcl⟩ | ⟨hw, _⟩
        · exact hcl
        · simp only [pcOf] at hc; rw [hw] at hc; cases hc.2
      refine ⟨?_, ?_, ?_, ?_⟩
      · intro _; rcases hcl with hcl | hcl <;> simp [clean, setPc, hcl]
      · intro t' _
        by_cases e : t' = t
        · subst e; right; exact ⟨none, by simp [setPc]⟩
        · simp only [setPc, e, ↓reduceIte]
          exact h.others t' (by rw [hc.1]; intro hh; cases hh; exact e rfl)
      · intro t' ht'; cases ht'
      · intro t' x hx
        by_cases e : t' = t
        · subst e; simp [setPc] at hx
        · simp only [setPc, e, ↓reduceIte] at hx; exact h.matched t' x hx
    · cases hs
  | finish t => simp [lstep] at hs
  | invalidate =>
    simp only [lstep] at hs
    split at hs
    · rename_i hc
      have hn : s.holder = none := by simpa using hc
      cases hs
      refine ⟨fun _ => Or.inl rfl, h.others, ?_, h.matched⟩
      intro t' ht'; rw [hn] at ht'; cases ht'
    · cases hs
  | quit t =>
    simp only [lstep] at hs
    split at hs
    · rename_i hc
      have hw : s.pcs t = .waiting := by simpa [pcOf] using hc
      cases hs
      have hnot : s.holder ≠ some t := by
        intro hh
        rcases h.holderPc t hh with ⟨hl, _⟩ | ⟨hl, _⟩ <;> rw [hw] at hl <;> cases hl
      refine ⟨?_, ?_, ?_, ?_⟩
      · intro hf
        have := h.free (by simpa [setPc] using hf)
        simpa [clean, setPc] using this
      · intro t' ht'
        by_cases e : t' = t
        · subst e; right; exact ⟨none, by simp [setPc]⟩
        · simp only [setPc, e, ↓reduceIte]
          exact h.others t' (by simpa [setPc] using ht')
      · intro t' ht'
        have ht'' : s.holder = some t' := by simpa [setPc] using ht'
        have e : t' ≠ t := fun e => hnot (e ▸ ht'')
        rcases h.holderPc t' ht'' with ⟨hl, hc2⟩ | ⟨hl, hp⟩
        · left; exact ⟨by simp [setPc, e, hl], by simpa [clean, setPc] using hc2⟩
        · right; exact ⟨by simp [setPc, e, hl], by simpa [setPc] using hp⟩
      · intro t' x hx
        by_cases e : t' = t
        · subst e; simp [setPc] at hx
        · simp only [setPc, e, ↓reduceIte] at hx; exact h.matched t' x hx
    · cases hs

theorem run_inv : ∀ (acts : List Act) (s s' : LState), Inv s → lrun s acts = some s' → Inv s'
  | [], s, s', h, hr => by simp [lrun] at hr; subst hr; exact h
  | a :: as, s, s', h, hr => by
    unfold lrun at hr
    cases hs : lstep s a with
    | none => simp [hs] at hr
    | some s1 => simp only [hs] at hr; exact run_inv as s1 s' (step_inv s s1 a h hs) hr

/-- for every interleaving of any number of concurrent requests with resets, timeouts, cancellations and disconnect
    notifications: a reply returned to a caller is the remote's reply to that very request -/
theorem reply_matches_request (acts : List Act) (s : LState) (h : lrun {} acts = some s) (t x : Nat)
    (hd : s.pcs t = .done (some x)) : x = t :=
  (run_inv acts {} s inv_init h).matched t x hd

/-- whenever the per-peer lock is free the kept stream is clean: a request whose reply did not arrive in time has
    failed and its stream is gone, so a late reply is never consumed by a later request -/
theorem clean_stream_when_lock_free (acts : List Act) (s : LState) (h : lrun {} acts = some s) (hf : s.holder = none) :
    clean s :=
  (run_inv acts {} s inv_init h).free hf

/-- exchanges are serialised: at most one caller is ever between its write and its read -/
theorem exchanges_serialised (acts : List Act) (s : LState) (h : lrun {} acts = some s) (t u : Nat)
    (ht : s.pcs t = .written) (hu : s.pcs u = .written) : t = u := by
  have hinv := run_inv acts {} s inv_init h
  have holder_of : ∀ v, s.pcs v = .written → s.holder = some v := by
    intro v hv
    apply Classical.byContradiction
    intro hne
    rcases hinv.others v hne with h1 | ⟨r, h1⟩ <;> rw [hv] at h1 <;> cases h1
  have h1 := holder_of t ht
  have h2 := holder_of u hu
  rw [h1] at h2; cases h2; rfl

/-- a failed exchange never leaves its stream behind for reuse -/
theorem failed_exchange_drops_stream (s s' : LState) (t : Nat) (h : lstep s (.readFail t) = some s') : s'.pending = none := by
  simp only [lstep] at h
  split at h
  · cases h; rfl
  · cases h

/-- the seeded variant (a caller whose context ended after its write returns without resetting the stream) breaks the
    property: the next caller is handed the reply to the abandoned request -/
theorem abandon_breaks_matching :
    ∃ s1 s2 s3, lrun {} [.acquire 1, .write 1] = some s1 ∧ abandon s1 1 = some s2 ∧
      lrun s2 [.acquire 2, .write 2, .readOk 2] = some s3 ∧ s3.pcs 2 = .done (some 1) := by
  refine ⟨_, _, _, rfl, rfl, rfl, rfl⟩

/-- the seeded variant of C11-m5 (a caller that gives up while waiting releases the holder's lock) breaks serialisation:
    a second caller acquires the lock and writes while the first one's exchange is still in progress, and is handed the
    reply to the first one's request -/
theorem quitUnlocking_breaks_serialisation :
    ∃ s1 s2 s3, lrun {} [.acquire 1, .write 1] = some s1 ∧ quitUnlocking s1 3 = some s2 ∧
      lrun s2 [.acquire 2] = some s3 ∧ s3.pcs 1 = .written ∧ s3.holder = some 2 := by
  refine ⟨_, _, _, rfl, rfl, rfl, rfl, rfl⟩

/-! non-vacuity: two callers, the first times out and retries, the second waits for the lock -/
example : ((lrun {} [.acquire 1, .write 1, .quit 3, .readOk 1, .acquire 2, .write 2, .readOk 2]).map
    fun s => (s.pcs 1, s.pcs 2, s.pcs 3)) = some (.done (some 1), .done (some 2), .done none) := by decide
example : ((lrun {} [.acquire 1, .write 1, .readFail 1, .write 1, .readOk 1, .acquire 2, .write 2, .readOk 2]).map
    fun s => (s.pcs 1, s.pcs 2)) = some (.done (some 1), .done (some 2)) := by decide

end KadDHT.C11

/-
  C15 — the dual DHT routes writes by WAN liveness and scopes addresses.

  Property theorems only, about `Dual` (model of dual/dual.go and of how an inner DHT configured by dual.New treats
  referrals and advertises itself) and `Addr` (model of dht_filters.go's classification and of the go-multiaddr
  predicates dual.New's address filters are built from).  Addresses are arbitrary: every IPv4 / IPv6 value, names,
  relay-wrapped or not.  The CIDR tables are transcribed from go-multiaddr (a dependency, trusted) and compared with
  the real functions at every table boundary on every run; the real dual.New is compared with the model for which
  inner DHT sees which RPC, the ADD_PROVIDER payload, returned values / addresses / providers, followed referrals
  and stored addresses.
-/
import KadDHT.Model.Dual
namespace KadDHT.C15
open KadDHT.Addr KadDHT.Dual

/-! ### routing of writes and merging of reads -/

/-- Provide / PutValue go to the WAN DHT exactly when the WAN routing table is non-empty, otherwise to the LAN DHT -/
theorem write_goes_wan_iff_rt_nonempty (n : Nat) :
    (routeWrite n = .wan ↔ n > 0) ∧ (routeWrite n = .lan ↔ n = 0) := by
  unfold routeWrite
  by_cases h : n > 0
  · simp [h]; omega
  · simp [h]; omega

/-- GetValue returns the WAN result when the WAN lookup succeeds … -/
theorem getvalue_wan_first {V : Type} (v : V) (lan : Except Err V) : getValue (.ok v) lan = .ok v := rfl

/-- … otherwise the LAN result … -/
theorem getvalue_lan_second {V : Type} (e : Err) (v : V) : getValue (.error e) (.ok v) = .ok v := rfl

/-- … and only when both failed an error, which is never a bare lookup failure if the other side failed differently -/
theorem getvalue_both_failed {V : Type} (we le : Err) :
    getValue (V := V) (.error we) (.error le) = .error (combineErrors (some we) (some le)) := rfl

theorem combine_same (e : Option Err) : combineErrors e e = e := by simp [combineErrors]

theorem combine_lookupFailure_left (e : Option Err) : combineErrors (some .lookupFailure) e = e := by
  unfold combineErrors
  by_cases h : some Err.lookupFailure = e
  · simp [h]
  · simp [h]

theorem combine_lookupFailure_right (e : Option Err) : combineErrors e (some .lookupFailure) = e := by
  unfold combineErrors
  by_cases h : e = some Err.lookupFailure
  · simp [h]
  · simp [h]

/-- FindPeer returns the union of both address sets -/
theorem findpeer_union {A : Type} [DecidableEq A] (wan lan : List A) (a : A) :
    a ∈ findPeerAddrs wan lan ↔ a ∈ wan ∨ a ∈ lan := by
  unfold findPeerAddrs
  by_cases hw : wan.isEmpty = true
  · have : wan = [] := List.isEmpty_iff.1 hw
    simp [this]
  · by_cases hl : lan.isEmpty = true
    · have : lan = [] := List.isEmpty_iff.1 hl
      simp [hw, this]
    · simp [hw, hl, List.mem_eraseDups]

/-- … and no error as soon as one side found the peer -/
theorem findpeer_no_error_if_one_succeeds (e : Option Err) : findPeerErr none e = none ∧ findPeerErr e none = none := by
  simp [findPeerErr]

/-! ### FindProvidersAsync: every arrival order of the two inner channels -/

/-- for every arrival order: each provider at most once, only providers that an inner DHT yielded -/
theorem providers_once (count : Nat) (arrivals : List Nat) :
    (merge count arrivals).Nodup ∧ ∀ p ∈ merge count arrivals, p ∈ arrivals := by
  -- a direct induction over the arrivals from the right
  have key : ∀ (arr : List Nat) (s : MState), s.found.Nodup → (∀ p ∈ s.found, p ∈ arr) → ∀ (rest : List Nat),
      (rest.foldl (mergeStep (count == 0)) s).found.Nodup ∧
      ∀ p ∈ (rest.foldl (mergeStep (count == 0)) s).found, p ∈ arr ++ rest := by
    intro arr s hn hs rest
    induction rest generalizing arr s with
    | nil => simpa using ⟨hn, hs⟩
    | cons x xs ih =>
      simp only [List.foldl_cons]
      have hstep : (mergeStep (count == 0) s x).found.Nodup ∧ ∀ p ∈ (mergeStep (count == 0) s x).found, p ∈ arr ++ [x] := by
        unfold mergeStep
        split
        · exact ⟨hn, fun p hp => List.mem_append_left _ (hs p hp)⟩
        · split
          · exact ⟨hn, fun p hp => List.mem_append_left _ (hs p hp)⟩
          · rename_i hnc
            refine ⟨?_, ?_⟩
            · simp only [List.nodup_append, hn, List.nodup_cons, List.not_mem_nil, not_false_eq_true, List.nodup_nil,
                and_self, List.mem_cons, or_false, true_and]
              intro a ha b hb; subst hb; intro hab; subst hab; simp [ha] at hnc
            · intro q hq
              rcases List.mem_append.1 hq with hq | hq
              · exact List.mem_append_left _ (hs q hq)
              · exact List.mem_append_right _ hq
      have := ih (arr ++ [x]) _ hstep.1 hstep.2
      simpa [List.append_assoc] using this
  have := key [] { left := count } List.nodup_nil (by simp) arrivals
  simpa [merge] using this

/-- for every arrival order: at most `count` providers in total when a count is given -/
theorem providers_le_count (count : Nat) (arrivals : List Nat) (hc : count > 0) : (merge count arrivals).length ≤ count := by
  have hz : (count == 0) = false := by simp; omega
  have key : ∀ (s : MState), s.found.length + s.left = count → ∀ (rest : List Nat),
      (rest.foldl (mergeStep (count == 0)) s).found.length ≤ count := by
    intro s hb rest
    induction rest generalizing s with
    | nil => simp; omega
    | cons x xs ih =>
      simp only [List.foldl_cons]
      apply ih
      unfold mergeStep
      simp only [hz, Bool.false_or]
      by_cases hl : s.left > 0
      · simp only [hl, decide_true, Bool.not_true, Bool.false_eq_true, ↓reduceIte]
        split
        · exact hb
        · simp only [List.length_append, List.length_cons, List.length_nil]; omega
      · simp only [hl, decide_false, Bool.not_false, ↓reduceIte]; exact hb
  exact key { left := count } (by simp) arrivals

/-- with count 0 nothing an inner DHT yields is lost -/
theorem providers_all_when_count_zero (arrivals : List Nat) : ∀ p ∈ arrivals, p ∈ merge 0 arrivals := by
  have key : ∀ (s : MState) (rest : List Nat),
      (∀ p ∈ s.found, p ∈ (rest.foldl (mergeStep true) s).found) ∧ ∀ p ∈ rest, p ∈ (rest.foldl (mergeStep true) s).found := by
    intro s rest
    induction rest generalizing s with
    | nil => simp
    | cons x xs ih =>
      simp only [List.foldl_cons]
      obtain ⟨h1, h2⟩ := ih (mergeStep true s x)
      have hx : x ∈ (mergeStep true s x).found ∧ ∀ p ∈ s.found, p ∈ (mergeStep true s x).found := by
        unfold mergeStep
        simp only [Bool.true_or, Bool.not_true, Bool.false_eq_true, ↓reduceIte]
        split
        · rename_i hc; exact ⟨by simpa using hc, fun p hp => hp⟩
        · exact ⟨by simp, fun p hp => List.mem_append_left _ hp⟩
      refine ⟨fun p hp => h1 p (hx.2 p hp), ?_⟩
      intro p hp
      rcases List.mem_cons.1 hp with rfl | hp
      · exact h1 p hx.1
      · exact h2 p hp
  intro p hp
  exact (key { left := 0 } arrivals).2 p hp

/-- for every arrival order: providers are handed on in the order of their first arrival (the merged stream is a
    subsequence of the arrivals) -/
theorem providers_in_arrival_order (count : Nat) (arrivals : List Nat) : (merge count arrivals).Sublist arrivals := by
  have key : ∀ (rest arr : List Nat) (s : MState), s.found.Sublist arr →
      (rest.foldl (mergeStep (count == 0)) s).found.Sublist (arr ++ rest) := by
    intro rest
    induction rest with
    | nil => intro arr s h; simpa using h
    | cons x xs ih =>
      intro arr s h
      simp only [List.foldl_cons]
      have hstep : (mergeStep (count == 0) s x).found.Sublist (arr ++ [x]) := by
        unfold mergeStep
        split
        · exact h.trans (List.sublist_append_left _ _)
        · split
          · exact h.trans (List.sublist_append_left _ _)
          · exact List.Sublist.append h (List.Sublist.refl _)
      have := ih (arr ++ [x]) _ hstep
      simpa [List.append_assoc] using this
  have := key arrivals [] { left := count } (by simp)
  simpa [merge] using this

/-! ### address scoping -/

/-- no address is both public and private for the DHT's filters -/
theorem public_private_disjoint (a : Addr) : ¬(dhtPublic a = true ∧ dhtPrivate a = true) := by
  unfold dhtPublic dhtPrivate
  cases a.host with
  | ip4 n => simp; intro h _; simp [h]
  | ip6 n =>
    simp only
    cases to4 n with
    | some v => simp; intro h _; simp [h]
    | none => simp; intro h; simp [h]
  | dns => simp
  | dnsLocal => simp

/-- the WAN DHT follows a referral only to a peer with a public, non-relay address — the searched-for peer excepted -/
theorem wan_follows_only_public_nonrelay (connected : Bool) (addrs known : List Addr)
    (h : (referral .wan false connected addrs known).1 = true) :
    ∃ a ∈ addrs ++ known, dhtPublic a = true ∧ a.relay = false := by
  unfold referral at h
  simp only [Bool.false_or] at h
  split at h
  · rename_i hp
    simp only [publicQueryFilter, List.any_eq_true, Bool.and_eq_true, Bool.not_eq_eq_eq_not, Bool.not_true] at hp
    obtain ⟨a, ha, hr, hpub⟩ := hp
    exact ⟨a, ha, hpub, hr⟩
  · cases h

theorem wan_follows_target (connected : Bool) (addrs known : List Addr) :
    (referral .wan true connected addrs known).1 = true := by simp [referral]

/-- the WAN DHT never stores an address learned from a DHT message that is not public -/
theorem wan_stores_only_public (isTarget connected : Bool) (addrs known : List Addr) :
    ∀ a ∈ (referral .wan isTarget connected addrs known).2, manetPublic a = true ∧ a ∈ addrs ++ known := by
  intro a ha
  unfold referral at ha
  simp only at ha
  split at ha
  · cases connected with
    | true => simp at ha
    | false =>
      simp only [Bool.false_eq_true, ↓reduceIte, wanAddrFilter, List.mem_filter] at ha
      exact ⟨ha.2, ha.1⟩
  · cases ha

/-- a referral that is not followed leaves no address behind -/
theorem unfollowed_stores_nothing (side : Side) (isTarget connected : Bool) (addrs known : List Addr)
    (h : (referral side isTarget connected addrs known).1 = false) : (referral side isTarget connected addrs known).2 = [] := by
  cases side <;>
  · unfold referral at h ⊢
    simp only at h ⊢
    split
    · rename_i hc; simp [hc] at h
    · rfl

/-- the WAN DHT advertises only public addresses of its own … -/
theorem wan_advertises_only_public (hostAddrs : List Addr) :
    ∀ a ∈ advertised .wan hostAddrs, manetPublic a = true ∧ a ∈ hostAddrs := by
  intro a ha
  simp only [advertised, wanAddrFilter, List.mem_filter] at ha
  exact ⟨ha.2, ha.1⟩

/-- … and the LAN DHT never a loopback address -/
theorem lan_never_advertises_loopback (hostAddrs : List Addr) :
    ∀ a ∈ advertised .lan hostAddrs, loopback a = false ∧ a ∈ hostAddrs := by
  intro a ha
  simp only [advertised, lanAddrFilter, List.mem_filter, Bool.not_eq_eq_eq_not, Bool.not_true] at ha
  exact ⟨ha.2, ha.1⟩

/-- the LAN DHT's learned addresses are never loopback either -/
theorem lan_stores_no_loopback (isTarget connected : Bool) (addrs known : List Addr) :
    ∀ a ∈ (referral .lan isTarget connected addrs known).2, loopback a = false := by
  intro a ha
  unfold referral at ha
  simp only at ha
  split at ha
  · cases connected with
    | true => simp at ha
    | false =>
      simp only [Bool.false_eq_true, ↓reduceIte, lanAddrFilter, List.mem_filter, Bool.not_eq_eq_eq_not, Bool.not_true] at ha
      exact ha.2
  · cases ha

/-- a public address is never a loopback address (so the WAN DHT advertises and stores no loopback address), for every
    IPv4 and IPv6 value -/
theorem public_not_loopback (a : Addr) (h : manetPublic a = true) : loopback a = false := by
  unfold manetPublic at h
  unfold loopback
  cases hh : a.host with
  | ip4 n =>
    rw [hh] at h
    simp only at h ⊢
    -- 127.0.0.0/8 is the first private network
    have hp : inRange 32 private4 n = false := by
      simp only [Bool.and_eq_true, Bool.not_eq_eq_eq_not, Bool.not_true] at h; exact h.1
    simp only [inRange, private4, List.any_cons, inCidr, Bool.or_eq_false_iff] at hp
    have h127 : ip4 127 0 0 0 >>> (32 - 8) = 127 := by decide
    rw [h127] at hp
    exact hp.1
  | ip6 n =>
    rw [hh] at h
    simp only at h ⊢
    cases ht : to4 n with
    | some v => simp [inRange6, ht] at h
    | none =>
      simp only
      by_cases h1 : n = 1
      · subst h1
        exfalso
        revert h
        decide
      · simpa using h1
  | dns => rfl
  | dnsLocal => rfl

/-! non-vacuity: 8.8.8.8, 10.0.0.1, 127.0.0.1, ::1, 2001:4860::1 relayed, 4000::1 -/
example : dhtPublic ⟨.ip4 (ip4 8 8 8 8), false⟩ = true ∧ dhtPrivate ⟨.ip4 (ip4 10 0 0 1), false⟩ = true ∧
    loopback ⟨.ip4 (ip4 127 0 0 1), false⟩ = true ∧ loopback ⟨.ip6 1, false⟩ = true ∧
    manetPublic ⟨.ip6 (hex16 [0x4000, 0, 0, 0, 0, 0, 0, 1]), false⟩ = false ∧
    dhtPublic ⟨.ip6 (hex16 [0x4000, 0, 0, 0, 0, 0, 0, 1]), false⟩ = false := by decide
example : (referral .wan false false [⟨.ip4 (ip4 8 8 8 8), true⟩, ⟨.ip4 (ip4 10 0 0 1), false⟩] []).1 = false := by decide
example : referral .wan false false [⟨.ip4 (ip4 8 8 8 8), false⟩, ⟨.ip4 (ip4 10 0 0 1), false⟩] [] =
    (true, [⟨.ip4 (ip4 8 8 8 8), false⟩]) := by decide
example : merge 2 [5, 6, 5, 7, 8] = [5, 6] ∧ merge 0 [5, 6, 5, 7] = [5, 6, 7] := by decide

end KadDHT.C15

/-
  C18 — keyspace region planning is exact on every input.  Property theorems only.
-/
import KadDHT.Model.Keyspace
namespace KadDHT.C18
open KadDHT

theorem isPre_refl (k : Key) : isPre k k = true := by
  induction k with
  | nil => rfl
  | cons a k ih => simp [isPre, ih]

end KadDHT.C18

/-
  C18 — keyspace region planning is exact on every input.

  Property theorems only (helper lemmas live in KadDHT/Proofs/Keyspace.lean).  Every theorem is
  about the executable model in KadDHT/Model/Keyspace.lean, which the correspondence run ties to
  provider/internal/keyspace on every check.  `Trie.WF [] t` is the real precondition of the Go code:
  a go-libdht trie stores a key only below the path spelled by its own bits (for bit-string tries this
  makes the key set prefix-free; go-libdht panics on anything else).

  Still open at full strength (monitored by the correspondence + the brute-force predicates of the
  `C18v` driver on every run, exhaustively for short keys):  allocate_exact, coalesce_spec, gaps_spec,
  nextLeaf_cyclic_successor, covered_iff, allEntries_sorted.
-/
import KadDHT.Proofs.Keyspace
namespace KadDHT.C18
open KadDHT Trie
variable {α β : Type}

/-- FindPrefixOfKey: the result is a stored key that is a prefix of `k` … -/
theorem findPrefixOfKey_sound (t : Trie α) (k p : Key) (h : t.findPrefixOfKey k = some p) :
    p ∈ t.keys ∧ isPre p k = true := by
  have := findPrefixAt_sound k 0 t p h
  exact ⟨(mem_keys t p).2 this.1, this.2⟩

/-- … and every stored prefix of `k` is found (it is unique: stored keys are pairwise not
    prefix-related, `keys_prefix_free`). -/
theorem findPrefixOfKey_complete (t : Trie α) (hwf : WF [] t) (k p : Key) (hp : p ∈ t.keys)
    (hpk : isPre p k = true) : t.findPrefixOfKey k = some p :=
  findPrefixAt_complete k [] t p hwf ((mem_keys t p).1 hp) hpk

theorem findPrefixOfKey_none_iff (t : Trie α) (hwf : WF [] t) (k : Key) :
    t.findPrefixOfKey k = none ↔ ∀ p ∈ t.keys, isPre p k = false := by
  constructor
  · intro h p hp
    cases hpk : isPre p k with
    | false => rfl
    | true => rw [findPrefixOfKey_complete t hwf k p hp hpk] at h; cases h
  · intro h
    cases hf : t.findPrefixOfKey k with
    | none => rfl
    | some p => have := findPrefixOfKey_sound t k p hf; rw [h p this.1] at this; cases this.2

/-- the keys of a well-formed trie are pairwise not prefix-related, in particular distinct -/
theorem keys_prefix_free (t : Trie α) (hwf : WF [] t) :
    (keysL t).Pairwise (fun a b => isPre a b = false ∧ isPre b a = false) := hwf.pairwise

/-- AllEntries/AllKeys in any order enumerate exactly the stored keys, each once -/
theorem allKeys_perm (t : Trie α) (hwf : WF [] t) (order : Key) :
    (∀ x, x ∈ t.keysIn order ↔ x ∈ keysL t) ∧ (t.keysIn order).length = (keysL t).length ∧ (keysL t).Nodup :=
  ⟨mem_keysIn t order, by simp [keysIn, entries, entriesAt_length, keysL_length], hwf.nodup⟩

/-- PruneSubtrie removes exactly the keys that start with `k` -/
theorem prune_spec (t : Trie α) (hwf : WF [] t) (k x : Key) :
    x ∈ (t.prune k).keys ↔ (x ∈ t.keys ∧ isPre k x = false) := by
  have := mem_pruneAt k [] t hwf (isPre_nil k) x
  simpa [prune, mem_keys] using this

/-- SubtractTrie hands to the result exactly the keys of `t0` that no key of `t1` is a prefix of -/
theorem subtract_spec (t0 : Trie α) (t1 : Trie β) (h0 : WF [] t0) (h1 : WF [] t1) (x : Key) :
    x ∈ (subtractAt 0 t0 t1).map (·.1) ↔ (x ∈ t0.keys ∧ ∀ y ∈ t1.keys, isPre y x = false) := by
  simpa [mem_keys] using mem_subtractAt 0 t0 t1 [] rfl h0 h1 x

/-- RegionsFromPeers (on the peers trie below `path`): the regions partition the peers … -/
theorem regions_partition_peers (size : Nat) (order path : Key) (t : Trie α) (hwf : WF path t) (x : Key) :
    x ∈ (regionsAt size order path t).flatMap (fun ps => keysL ps.2) ↔ x ∈ keysL t :=
  (regionsAt_spec size order path t hwf).2 x

/-- … every region's peers lie under the region's prefix, which lies under the covered prefix … -/
theorem regions_peers_under_prefix (size : Nat) (order path : Key) (t : Trie α) (hwf : WF path t) :
    ∀ ps ∈ regionsAt size order path t, isPre path ps.1 = true ∧ ∀ x ∈ keysL ps.2, isPre ps.1 x = true := by
  intro ps hps
  have := (regionsAt_spec size order path t hwf).1 ps hps
  exact ⟨this.1, fun x hx => this.2.1.mem_isPre hx⟩

/-- … region prefixes never overlap … -/
theorem regions_no_overlap (size : Nat) (order path : Key) (t : Trie α) :
    ((regionsAt size order path t).map (·.1)).Pairwise (fun a b => isPre a b = false ∧ isPre b a = false) :=
  regionsAt_pairwise size order path t

/-- … each region holds at least `size` peers whenever the total allows … -/
theorem regions_size_ge (size : Nat) (order path : Key) (t : Trie α) (h : size ≤ t.size) :
    ∀ ps ∈ regionsAt size order path t, size ≤ ps.2.size := regionsAt_size size order path t h

/-- … and every (long enough) key under the covered prefix matches exactly one region: it matches one
    (`regionsAt_cover`) and `AssignKeysToRegions` puts it into that one and no other. -/
theorem assign_exactly_one (size : Nat) (hs : 1 ≤ size) (order path : Key) (t : Trie α) (hne : t ≠ empty)
    (h : Key) (hp : isPre path h = true) (hlen : path.length + t.height ≤ h.length) :
    let ps := (regionsAt size order path t).map (·.1)
    assignKey ps h ∈ ps ∧ isPre (assignKey ps h) h = true ∧
      ∀ q ∈ ps, isPre q h = true → q = assignKey ps h := by
  intro ps
  obtain ⟨p, hp1, hp2⟩ := regionsAt_cover size hs order path t hne h hp hlen
  have hm := assignKey_matches ps h p hp1 hp2
  refine ⟨hm.1, hm.2, ?_⟩
  intro q hq hqh
  exact (assignKey_unique ps h q hq hqh (regionsAt_pairwise size order path t)).symm

/-! non-vacuity: a concrete well-formed trie with leaves at two depths meets the hypotheses -/
def exT : Trie Nat := node (node (leaf [false, false] 1) (leaf [false, true, true] 2)) (leaf [true] 3)
example : WF [] exT := by simp [exT, WF, isPre]
example : exT.findPrefixOfKey [false, true, true, false] = some [false, true, true] := by decide
example : (exT.prune [false]).keys = [[true]] := by decide
example : (regionsAt 1 [] [] exT).map (·.1) = [[false, false], [false, true], [true]] := by decide

end KadDHT.C18

/-
  C18 — keyspace region planning is exact on every input.

  Property theorems only (helper lemmas live in KadDHT/Proofs/Keyspace.lean).  Every theorem is
  about the executable model in KadDHT/Model/Keyspace.lean, which the correspondence run ties to
  provider/internal/keyspace on every check.  `Trie.WF [] t` is the real precondition of the Go code:
  a go-libdht trie stores a key only below the path spelled by its own bits (for bit-string tries this
  makes the key set prefix-free; go-libdht panics on anything else).

  Still open at full strength (monitored by the correspondence + the brute-force predicates of the
  `C18v` driver on every run, exhaustively for short keys):  the order of the gaps, covered_iff, that the
  result of coalesce has no two sibling leaves left.
-/
import KadDHT.Proofs.Keyspace
import KadDHT.Proofs.Alloc
import KadDHT.Proofs.Gaps
namespace KadDHT.C18
open KadDHT Trie
variable {α β : Type}

/-- FindPrefixOfKey: the result is a stored key that is a prefix of `k` … -/
theorem findPrefixOfKey_sound (t : Trie α) (k p : Key) (h : t.findPrefixOfKey k = some p) :
    p ∈ t.keys ∧ isPre p k = true := by
  have := findPrefixAt_sound k 0 t p h
  exact ⟨(mem_keys t p).2 this.1, this.2⟩

/-- … and every stored prefix of `k` is found (it is unique: stored keys are pairwise not
    prefix-related, `keys_prefix_free`). -/
theorem findPrefixOfKey_complete (t : Trie α) (hwf : WF [] t) (k p : Key) (hp : p ∈ t.keys)
    (hpk : isPre p k = true) : t.findPrefixOfKey k = some p :=
  findPrefixAt_complete k [] t p hwf ((mem_keys t p).1 hp) hpk

theorem findPrefixOfKey_none_iff (t : Trie α) (hwf : WF [] t) (k : Key) :
    t.findPrefixOfKey k = none ↔ ∀ p ∈ t.keys, isPre p k = false := by
  constructor
  · intro h p hp
    cases hpk : isPre p k with
    | false => rfl
    | true => rw [findPrefixOfKey_complete t hwf k p hp hpk] at h; cases h
  · intro h
    cases hf : t.findPrefixOfKey k with
    | none => rfl
    | some p => have := findPrefixOfKey_sound t k p hf; rw [h p this.1] at this; cases this.2

/-- the keys of a well-formed trie are pairwise not prefix-related, in particular distinct -/
theorem keys_prefix_free (t : Trie α) (hwf : WF [] t) :
    (keysL t).Pairwise (fun a b => isPre a b = false ∧ isPre b a = false) := hwf.pairwise

/-- AllEntries/AllKeys in any order enumerate exactly the stored keys, each once -/
theorem allKeys_perm (t : Trie α) (hwf : WF [] t) (order : Key) :
    (∀ x, x ∈ t.keysIn order ↔ x ∈ keysL t) ∧ (t.keysIn order).length = (keysL t).length ∧ (keysL t).Nodup :=
  ⟨mem_keysIn t order, by simp [keysIn, entries, entriesAt_length, keysL_length], hwf.nodup⟩

/-- PruneSubtrie removes exactly the keys that start with `k` -/
theorem prune_spec (t : Trie α) (hwf : WF [] t) (k x : Key) :
    x ∈ (t.prune k).keys ↔ (x ∈ t.keys ∧ isPre k x = false) := by
  have := mem_pruneAt k [] t hwf (isPre_nil k) x
  simpa [prune, mem_keys] using this

/-- SubtractTrie hands to the result exactly the keys of `t0` that no key of `t1` is a prefix of -/
theorem subtract_spec (t0 : Trie α) (t1 : Trie β) (h0 : WF [] t0) (h1 : WF [] t1) (x : Key) :
    x ∈ (subtractAt 0 t0 t1).map (·.1) ↔ (x ∈ t0.keys ∧ ∀ y ∈ t1.keys, isPre y x = false) := by
  simpa [mem_keys] using mem_subtractAt 0 t0 t1 [] rfl h0 h1 x

/-- RegionsFromPeers (on the peers trie below `path`): the regions partition the peers … -/
theorem regions_partition_peers (size : Nat) (order path : Key) (t : Trie α) (hwf : WF path t) (x : Key) :
    x ∈ (regionsAt size order path t).flatMap (fun ps => keysL ps.2) ↔ x ∈ keysL t :=
  (regionsAt_spec size order path t hwf).2 x

/-- … every region's peers lie under the region's prefix, which lies under the covered prefix … -/
theorem regions_peers_under_prefix (size : Nat) (order path : Key) (t : Trie α) (hwf : WF path t) :
    ∀ ps ∈ regionsAt size order path t, isPre path ps.1 = true ∧ ∀ x ∈ keysL ps.2, isPre ps.1 x = true := by
  intro ps hps
  have := (regionsAt_spec size order path t hwf).1 ps hps
  exact ⟨this.1, fun x hx => this.2.1.mem_isPre hx⟩

/-- … region prefixes never overlap … -/
theorem regions_no_overlap (size : Nat) (order path : Key) (t : Trie α) :
    ((regionsAt size order path t).map (·.1)).Pairwise (fun a b => isPre a b = false ∧ isPre b a = false) :=
  regionsAt_pairwise size order path t

/-- … each region holds at least `size` peers whenever the total allows … -/
theorem regions_size_ge (size : Nat) (order path : Key) (t : Trie α) (h : size ≤ t.size) :
    ∀ ps ∈ regionsAt size order path t, size ≤ ps.2.size := regionsAt_size size order path t h

/-- … and every (long enough) key under the covered prefix matches exactly one region: it matches one
    (`regionsAt_cover`) and `AssignKeysToRegions` puts it into that one and no other. -/
theorem assign_exactly_one (size : Nat) (hs : 1 ≤ size) (order path : Key) (t : Trie α) (hne : t ≠ empty)
    (h : Key) (hp : isPre path h = true) (hlen : path.length + t.height ≤ h.length) :
    let ps := (regionsAt size order path t).map (·.1)
    assignKey ps h ∈ ps ∧ isPre (assignKey ps h) h = true ∧
      ∀ q ∈ ps, isPre q h = true → q = assignKey ps h := by
  intro ps
  obtain ⟨p, hp1, hp2⟩ := regionsAt_cover size hs order path t hne h hp hlen
  have hm := assignKey_matches ps h p hp1 hp2
  refine ⟨hm.1, hm.2, ?_⟩
  intro q hq hqh
  exact (assignKey_unique ps h q hq hqh (regionsAt_pairwise size order path t)).symm

/-- AllocateToKClosest never looks at the data stored with an item or a destination: its result on any two tries is
    the projection of its result on the same tries with every leaf's data paired with its key, and so is its result on
    the two tries with the data *replaced* by the key — which is the one `allocate_exact` speaks about.  Position by
    position, the real result's `(peer, batch)` and the key-level result's `(peer key, batch keys)` are the two
    projections of one `((peer key, peer), [(item key, item), …])`. -/
theorem allocate_data_independent (items : Trie α) (dests : Trie β) (k : Nat) :
    allocate items dests k = (allocate (label items) (label dests) k).map (fun p => (p.1.2, p.2.map (·.2))) ∧
    allocate (keyed items) (keyed dests) k =
      (allocate (label items) (label dests) k).map (fun p => (p.1.1, p.2.map (·.1))) := by
  refine ⟨?_, allocate_mapv (fun p : Key × β => p.1) (fun p : Key × α => p.1) (label items) (label dests) k⟩
  have := allocate_mapv (fun p : Key × β => p.2) (fun p : Key × α => p.2) (label items) (label dests) k
  rw [mapv_snd_label, mapv_snd_label] at this
  exact this

/-- AllocateToKClosest is exact: every key of the items trie is handed to exactly min(k, number of destinations)
    distinct destinations, and every destination it is handed to is strictly XOR-nearer to the key than every
    destination it is not handed to.  (Keys of one length `n`, as Kademlia identifiers are; both tries well formed.) -/
theorem allocate_exact (items : Trie α) (dests : Trie β) (k n : Nat) (hwi : WF [] items) (hwd : WF [] dests)
    (hli : ∀ x ∈ keysL items, x.length = n) (hld : ∀ d ∈ keysL dests, d.length = n) (x : Key) (hx : x ∈ keysL items) :
    let A := asg (allocate (keyed items) (keyed dests) k) x
    A.Nodup ∧ A.length = min k dests.size ∧ (∀ a ∈ A, a ∈ keysL dests) ∧
      ∀ a ∈ A, ∀ d ∈ keysL dests, d ∉ A → closer x a d = true := by
  intro A
  show A.Nodup ∧ A.length = min k dests.size ∧ (∀ a ∈ A, a ∈ keysL dests) ∧
      ∀ a ∈ A, ∀ d ∈ keysL dests, d ∉ A → closer x a d = true
  generalize hA' : A = A'
  have hA : A' = asg (allocate (keyed items) (keyed dests) k) x := hA'.symm
  clear hA'
  unfold allocate at hA
  split at hA
  · rename_i hc
    subst hA
    simp only [Bool.or_eq_true, beq_iff_eq] at hc
    refine ⟨by simp [asg], ?_, by simp [asg], by simp [asg]⟩
    rcases hc with (hc | hc) | hc
    · have h0 : (keyed dests).size = 0 := by rw [(isEmptyLeaf_iff _).1 hc]; rfl
      rw [size_keyed] at h0
      simp [asg, h0]
    · have : keysL (keyed items) = [] := by rw [(isEmptyLeaf_iff _).1 hc]; rfl
      rw [keysL_keyed] at this
      rw [this] at hx; cases hx
    · subst hc; simp [asg]
  · have h := good_all (keyed dests) k 0 (keyed items) [] [] n (keyed_SK dests) (keyed_SK items)
      ((WF_keyed [] dests).2 hwd) ((WF_keyed [] items).2 hwi) rfl rfl
      (by rw [keysL_keyed]; exact hld) (by rw [keysL_keyed]; exact hli) x (by rw [keysL_keyed]; exact hx)
    rw [← hA, keysL_keyed] at h
    exact ⟨h.nodup, by rw [h.len, keysL_length], h.sub, h.near⟩

/-- the same at every depth of the recursion, for items below `pi` and destinations below `pd` (this is the statement
    the F18 defect violated from outside: handing a subtrie that hangs at depth `pd.length` to a walk that starts at
    depth 0 is outside its hypotheses, and the allocation was then not nearest) -/
theorem allocAt_exact (items dests : Trie Key) (k depth n : Nat) (pi pd : Key) (hsd : SK dests) (hsi : SK items)
    (hwd : WF pd dests) (hwi : WF pi items) (hpi : pi.length = depth) (hpd : pd.length = depth)
    (hld : ∀ d ∈ keysL dests, d.length = n) (hli : ∀ x ∈ keysL items, x.length = n) (x : Key) (hx : x ∈ keysL items) :
    TopK x k (keysL dests) (asg (allocAt dests k depth items) x) :=
  good_all dests k depth items pi pd n hsd hsi hwd hwi hpi hpd hld hli x hx

/-- AllEntries / AllKeys / AllValues enumerate in the order induced by `order` (an order key at least as long as the
    trie is deep, as a 256-bit order always is): of any two enumerated keys the earlier one agrees with `order` at the
    first bit where they differ — the comparator of `sortBitstrKeysByOrder`. -/
theorem allEntries_sorted (t : Trie α) (hwf : WF [] t) (order : Key) (h : t.height ≤ order.length) :
    (t.keysIn order).Pairwise (fun a b => orderBefore order a b = true) := by
  have := entriesAt_sorted order t [] hwf (by simpa using h)
  simpa [keysIn, entries] using this

/-- NextNonEmptyLeaf is the cyclic successor: in the enumeration of the trie in the order induced by `order` (sorted,
    `allEntries_sorted`) it returns the first entry that comes strictly after `k`, and wraps around to the first entry
    of all when there is none — whether or not `k` itself is stored.  (Stated for tries whose keys all have the length
    of `k`, the case the declarative check of the correspondence run covers; mixed lengths are compared only.) -/
theorem nextLeaf_cyclic_successor (t : Trie α) (hwf : WF [] t) (k order : Key)
    (hlen : ∀ x ∈ keysL t, x.length = k.length) (hko : k.length ≤ order.length) (hh : t.height ≤ k.length) :
    t.nextNonEmptyLeaf k order =
      match (t.entries order).find? (fun e => orderBefore order k e.1) with
      | some e => some e
      | none => (t.entries order).head? := by
  have := nextLeafAt_spec k order hko t 0 [] hwf rfl (by simp [isPre]) hlen (by simpa using hh)
  unfold nextNonEmptyLeaf entries
  rw [this]
  unfold specNext
  cases (entriesAt order 0 t).find? (fun e => orderBefore order k e.1) <;> simp

/-- CoalesceTrie keeps well-formedness and covers exactly the same keyspace: a (long enough) key has a stored prefix
    before if and only if it has one afterwards. -/
theorem coalesce_spec [Inhabited α] (t : Trie α) (hwf : WF [] t) :
    WF [] (coalesce t) ∧ ∀ x : Key, t.height ≤ x.length →
      ((∃ k ∈ keysL t, isPre k x = true) ↔ (∃ k ∈ keysL (coalesce t), isPre k x = true)) := by
  obtain ⟨h1, h2⟩ := coalesce_spec_at t [] hwf
  exact ⟨h1, fun x hx => h2 x (by simp [isPre]) (by simpa using hx)⟩

/-- TrieGaps tiles the target: for every (long enough) key `x` below the target prefix exactly one element of
    "stored keys ++ gaps" is a prefix of `x`.  Existence … -/
theorem gaps_cover_target (t : Trie α) (hwf : WF [] t) (target order x : Key) (ht : isPre target x = true)
    (hkl : ∀ k ∈ keysL t, k.length ≤ x.length) (hh : t.height ≤ x.length) :
    ∃ c ∈ keysL t ++ gaps t target order, isPre c x = true := by
  rcases gaps_cover target order t x hwf ht hkl hh with ⟨k, hk, hkx⟩ | ⟨g, hg, hgx⟩
  · exact ⟨k, List.mem_append.2 (Or.inl hk), hkx⟩
  · exact ⟨g, List.mem_append.2 (Or.inr hg), hgx⟩

/-- … and uniqueness: stored keys and gaps are pairwise not prefix-related (no gap overlaps a stored key or another
    gap), so two of them cannot both be prefixes of one key. -/
theorem gaps_disjoint (t : Trie α) (hwf : WF [] t) (target order : Key) :
    (keysL t ++ gaps t target order).Pairwise Incomp := by
  rw [List.pairwise_append]
  refine ⟨hwf.pairwise.imp (fun h => ⟨h.1, h.2⟩), gaps_pairwise target order t hwf, ?_⟩
  intro k hk g hg
  exact (gaps_sound target order t hwf g hg k hk).symm

theorem gaps_exactly_one (t : Trie α) (hwf : WF [] t) (target order x : Key) (c1 c2 : Key)
    (h1 : c1 ∈ keysL t ++ gaps t target order) (h2 : c2 ∈ keysL t ++ gaps t target order)
    (hx1 : isPre c1 x = true) (hx2 : isPre c2 x = true) : c1 = c2 := by
  apply Classical.byContradiction
  intro hne
  have hpw := gaps_disjoint t hwf target order
  have hinc : Incomp c1 c2 := by
    -- pairwise over a list: any two distinct members are related one way or the other; the relation is symmetric
    rcases List.mem_iff_getElem.1 h1 with ⟨i, hi, rfl⟩
    rcases List.mem_iff_getElem.1 h2 with ⟨j, hj, rfl⟩
    have hij : i ≠ j := fun e => hne (by subst e; rfl)
    rcases Nat.lt_or_gt_of_ne hij with hlt | hgt
    · exact List.pairwise_iff_getElem.1 hpw i j hi hj hlt
    · exact (List.pairwise_iff_getElem.1 hpw j i hj hi hgt).symm
  rcases isPre_total hx1 hx2 with h | h
  · rw [hinc.1] at h; cases h
  · rw [hinc.2] at h; cases h

/-! non-vacuity: a concrete well-formed trie with leaves at two depths meets the hypotheses -/
def exT : Trie Nat := node (node (leaf [false, false] 1) (leaf [false, true, true] 2)) (leaf [true] 3)
example : WF [] exT := by simp [exT, WF, isPre]
example : exT.findPrefixOfKey [false, true, true, false] = some [false, true, true] := by decide
example : (exT.prune [false]).keys = [[true]] := by decide
example : (regionsAt 1 [] [] exT).map (·.1) = [[false, false], [false, true], [true]] := by decide
example : gaps exT [false] [] = [[false, true, false]] := by decide
example : exT.keysIn [true, false, true] = [[true], [false, false], [false, true, true]] := by decide
def exU : Trie Nat := node (node (leaf [false, false] 1) (leaf [false, true] 2)) (leaf [true, false] 3)
example : (coalesce exU).keys = [[false], [true, false]] := by decide
example : (exU.nextNonEmptyLeaf [false, true] [false, false]).map (·.1) = some [true, false] ∧
    (exU.nextNonEmptyLeaf [true, false] [false, false]).map (·.1) = some [false, false] := by decide

/-! non-vacuity of `allocate_exact`: four 3-bit destinations, two items, k = 2 -/
def exD : Trie Nat := node (node (leaf [false, false, true] 1) (leaf [false, true, false] 2))
  (node (leaf [true, false, false] 3) (leaf [true, true, true] 4))
def exI : Trie Nat := node (leaf [false, true, true] 10) (leaf [true, true, false] 11)
example : WF [] exD ∧ WF [] exI := by simp [exD, exI, WF, isPre]
example : asg (allocate (keyed exI) (keyed exD) 2) [false, true, true] = [[false, false, true], [false, true, false]] := by decide
example : allocate exI exD 2 = [(1, [10]), (2, [10]), (3, [11]), (4, [11])] := by decide

end KadDHT.C18

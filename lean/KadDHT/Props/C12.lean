/-
  C12 — routing-table members have proven themselves; failed peers leave.

  Property theorems only, about `RTM` (model of dht.go peerFound / validPeerFound / peerStoppedDHT / rtPeerLoop,
  query.go's add-on-success and evict-on-uncancelled-failure, subscriber_notifee.go handlePeerChangeEvent, the
  liveness probe of a refresh, and the request bookkeeping of rtrefresh Refresh / loop), for every history of events
  over any set of peers and every schedule of refresh requests, refreshes and Close.  The table is below bucket
  capacity (kbucket's replacement policy is a dependency).  Compared on every run with a real IpfsDHT (routing table
  and probes in flight after every event) and a real RtRefreshManager (answers on the request channels, evictions).
-/
import KadDHT.Model.RTMembership
namespace KadDHT.C12
open KadDHT.RTM

/-! ### membership -/

theorem mem_add (s : St) (p q : Nat) : q ∈ (add s p).rt ↔ q ∈ s.rt ∨ (q = p ∧ p ≠ s.self) := by
  unfold add
  split
  · rename_i h
    simp only [Bool.or_eq_true, beq_iff_eq, List.contains_eq_mem, decide_eq_true_eq] at h
    constructor
    · exact Or.inl
    · rintro (h1 | ⟨rfl, h2⟩)
      · exact h1
      · rcases h with h | h
        · exact absurd h h2
        · exact h
  · simp only [List.mem_append, List.mem_singleton]
    rename_i h
    simp only [Bool.or_eq_true, beq_iff_eq, List.contains_eq_mem, decide_eq_true_eq, not_or] at h
    constructor
    · rintro (h1 | rfl)
      · exact Or.inl h1
      · exact Or.inr ⟨rfl, h.1⟩
    · rintro (h1 | ⟨rfl, _⟩)
      · exact Or.inl h1
      · exact Or.inr rfl

theorem mem_evict (s : St) (p q : Nat) : q ∈ (evict s p).rt ↔ q ∈ s.rt ∧ q ≠ p := by
  simp [evict, List.mem_filter]

theorem add_self (s : St) (p : Nat) : (add s p).self = s.self := by unfold add; split <;> rfl

theorem step_self (s : St) (e : Ev) : (step s e).self = s.self := by
  cases e <;> simp only [step]
  · split
    · split <;> rfl
    · rfl
  · split
    · exact add_self _ _
    · rfl
  · exact add_self _ _
  · split <;> rfl
  · rfl

/-- an event that proves `p` answered a request from this node makes it a member (unless it is the local node) -/
theorem admission_adds (s : St) (e : Ev) (p : Nat) (h : admits s p e = true) (hp : p ≠ s.self) : p ∈ (step s e).rt := by
  cases e with
  | probeOk q =>
    simp only [admits, Bool.and_eq_true, beq_iff_eq] at h
    obtain ⟨rfl, hpr⟩ := h
    simp only [step, hpr, ↓reduceIte]
    exact (mem_add _ _ _).2 (Or.inr ⟨rfl, hp⟩)
  | querySuccess q =>
    simp only [admits, beq_iff_eq] at h
    subst h
    exact (mem_add _ _ _).2 (Or.inr ⟨rfl, hp⟩)
  | _ => simp [admits] at h

/-- an uncancelled dial/request failure in a lookup, a failed liveness probe, and a protocol/filter loss remove `p` -/
theorem eviction_removes (s : St) (e : Ev) (p : Nat) (h : evicts p e = true) : p ∉ (step s e).rt := by
  cases e with
  | identified q proto filt =>
    simp only [evicts, Bool.and_eq_true, beq_iff_eq, Bool.not_eq_eq_eq_not, Bool.not_true] at h
    obtain ⟨rfl, hpf⟩ := h
    simp only [step]
    have : (proto && filt) = false := by simpa using hpf
    simp only [this, Bool.false_eq_true, ↓reduceIte]
    intro hm; exact ((mem_evict _ _ _).1 hm).2 rfl
  | queryFail q c =>
    simp only [evicts, Bool.and_eq_true, beq_iff_eq, Bool.not_eq_eq_eq_not, Bool.not_true] at h
    obtain ⟨rfl, hc⟩ := h
    simp only [step, hc, Bool.false_eq_true, ↓reduceIte]
    intro hm; exact ((mem_evict _ _ _).1 hm).2 rfl
  | pingFail q =>
    simp only [evicts, beq_iff_eq] at h
    subst h
    simp only [step]
    intro hm; exact ((mem_evict _ _ _).1 hm).2 rfl
  | _ => simp [evicts] at h

/-- a failure observed after the lookup's context has ended is no verdict about the peer: nothing changes -/
theorem cancelled_failure_keeps (s : St) (p : Nat) : step s (.queryFail p true) = s := rfl

/-- no other event changes whether `p` is a member -/
theorem membership_unchanged_otherwise (s : St) (e : Ev) (p : Nat) (ha : admits s p e = false) (he : evicts p e = false) :
    (p ∈ (step s e).rt ↔ p ∈ s.rt) := by
  cases e with
  | identified q proto filt =>
    simp only [step]
    split
    · split <;> exact Iff.rfl
    · rename_i hpf
      rw [mem_evict]
      have hq : q ≠ p := by
        intro hqp; subst hqp
        simp only [evicts, beq_self_eq_true, Bool.true_and, Bool.not_eq_eq_eq_not, Bool.not_false] at he
        exact hpf he
      exact ⟨fun h => h.1, fun h => ⟨h, fun e => hq e.symm⟩⟩
  | probeOk q =>
    simp only [step]
    split
    · rename_i hpr
      rw [mem_add]
      constructor
      · rintro (h | ⟨rfl, _⟩)
        · exact h
        · simp only [admits, beq_self_eq_true, Bool.true_and] at ha
          rw [hpr] at ha; cases ha
      · exact Or.inl
    · exact Iff.rfl
  | probeFail q => exact Iff.rfl
  | querySuccess q =>
    simp only [step]
    rw [mem_add]
    constructor
    · rintro (h | ⟨rfl, _⟩)
      · exact h
      · simp [admits] at ha
    · exact Or.inl
  | queryFail q c =>
    simp only [step]
    split
    · exact Iff.rfl
    · rename_i hc
      rw [mem_evict]
      have hq : q ≠ p := by
        intro hqp; subst hqp
        simp only [evicts, beq_self_eq_true, Bool.true_and, Bool.not_eq_eq_eq_not, Bool.not_false] at he
        exact hc he
      exact ⟨fun h => h.1, fun h => ⟨h, fun e => hq e.symm⟩⟩
  | pingFail q =>
    simp only [step]
    rw [mem_evict]
    have hq : q ≠ p := by
      intro hqp; subst hqp; simp [evicts] at he
    exact ⟨fun h => h.1, fun h => ⟨h, fun e => hq e.symm⟩⟩
  | pingOk q => exact Iff.rfl

/-- the local node is never a member, after any history -/
theorem self_never_member (self : Nat) (evs : List Ev) : self ∉ (run { self := self } evs).rt := by
  have key : ∀ (evs : List Ev) (s : St), s.self ∉ s.rt → (run s evs).self = s.self ∧ (run s evs).self ∉ (run s evs).rt := by
    intro evs
    induction evs with
    | nil => intro s h; exact ⟨rfl, h⟩
    | cons e es ih =>
      intro s h
      simp only [run, List.foldl_cons]
      have hs := step_self s e
      have hn : (step s e).self ∉ (step s e).rt := by
        rw [hs]
        by_cases ha : admits s s.self e = true
        · -- an admitting event for the local node itself is refused by `add`
          cases e with
          | probeOk q =>
            simp only [admits, Bool.and_eq_true, beq_iff_eq] at ha
            obtain ⟨rfl, hpr⟩ := ha
            simp only [step, hpr, ↓reduceIte]
            rw [mem_add]; rintro (h1 | ⟨_, h2⟩)
            · exact h h1
            · exact h2 rfl
          | querySuccess q =>
            simp only [admits, beq_iff_eq] at ha
            subst ha
            simp only [step]
            rw [mem_add]; rintro (h1 | ⟨_, h2⟩)
            · exact h h1
            · exact h2 rfl
          | _ => simp [admits] at ha
        · by_cases he : evicts s.self e = true
          · exact eviction_removes s e s.self he
          · rw [membership_unchanged_otherwise s e s.self (by simpa using ha) (by simpa using he)]; exact h
      obtain ⟨h1, h2⟩ := ih (step s e) hn
      exact ⟨by simpa [run] using h1.trans hs, by simpa [run] using h2⟩
  have := key evs { self := self } (by simp)
  rw [this.1] at this
  exact this.2

/-- a peer is a member only if, at some point of the history, it answered a lookup query or an admission probe that
    was in flight for it -/
theorem member_has_answered (self : Nat) (evs : List Ev) (p : Nat) (h : p ∈ (run { self := self } evs).rt) :
    ∃ pre e post, evs = pre ++ e :: post ∧ admits (run { self := self } pre) p e = true := by
  have key : ∀ (evs : List Ev) (s : St), p ∈ (run s evs).rt → p ∈ s.rt ∨
      ∃ pre e post, evs = pre ++ e :: post ∧ admits (run s pre) p e = true := by
    intro evs
    induction evs with
    | nil => intro s h; exact Or.inl h
    | cons e es ih =>
      intro s h
      simp only [run, List.foldl_cons] at h
      rcases ih (step s e) h with h1 | ⟨pre, e', post, heq, had⟩
      · by_cases ha : admits s p e = true
        · exact Or.inr ⟨[], e, es, rfl, ha⟩
        · by_cases he : evicts p e = true
          · exact absurd h1 (eviction_removes s e p he)
          · exact Or.inl ((membership_unchanged_otherwise s e p (by simpa using ha) (by simpa using he)).1 h1)
      · exact Or.inr ⟨e :: pre, e', post, by rw [heq]; rfl, by simpa [run] using had⟩
  rcases key evs { self := self } h with h1 | h2
  · simp at h1
  · exact h2

/-- an admission probe is started only for a peer that advertises the DHT protocol and passes the routing-table filter -/
theorem probe_requires_protocol_and_filter (s : St) (e : Ev) (p : Nat)
    (h : (step s e).probing.count p > s.probing.count p) : e = .identified p true true := by
  cases e with
  | identified q proto filt =>
    simp only [step] at h
    split at h
    · rename_i hpf
      split at h
      · omega
      · simp only [List.count_append, List.count_cons, List.count_nil] at h
        have hq : q = p := by
          by_cases hqp : q = p
          · exact hqp
          · have : (q == p) = false := by simpa using hqp
            simp [this] at h
        subst hq
        simp only [Bool.and_eq_true] at hpf
        rw [hpf.1, hpf.2]
    · simp only [evict] at h; omega
  | probeOk q =>
    simp only [step] at h
    split at h
    · have hle : (s.probing.erase q).count p ≤ s.probing.count p := List.Sublist.count_le _ List.erase_sublist
      have : (add { s with probing := s.probing.erase q } q).probing = s.probing.erase q := by unfold add; split <;> rfl
      rw [this] at h; omega
    · omega
  | probeFail q =>
    simp only [step] at h
    have hle : (s.probing.erase q).count p ≤ s.probing.count p := List.Sublist.count_le _ List.erase_sublist
    omega
  | querySuccess q =>
    have : (step s (.querySuccess q)).probing = s.probing := by simp only [step]; unfold add; split <;> rfl
    rw [this] at h; omega
  | queryFail q c =>
    have : (step s (.queryFail q c)).probing = s.probing := by simp only [step]; split <;> rfl
    rw [this] at h; omega
  | pingFail q => simp only [step, evict] at h; omega
  | pingOk q => simp only [step] at h; omega

/-! ### refresh requests are always answered -/

structure RInv (s : RSt) : Prop where
  /-- the loop ends only between two refreshes: it never abandons requests it has taken -/
  exitedClean : s.loop = .exited → s.waiting = []
  idleClean : s.loop = .idle → s.waiting = []
  exitedClosed : s.loop = .exited → s.closed = true

theorem rinv_init : RInv {} := ⟨fun _ => rfl, fun _ => rfl, fun h => by cases h⟩

theorem rstep_inv (s s' : RSt) (e : REv) (h : RInv s) (hs : rstep s e = some s') : RInv s' := by
  cases e with
  | request r => simp only [rstep, Option.some.injEq] at hs; subst hs; exact ⟨h.exitedClean, h.idleClean, h.exitedClosed⟩
  | accept r =>
    simp only [rstep] at hs
    split at hs
    · cases hs
      refine ⟨?_, ?_, ?_⟩ <;> intro hh <;> cases hh
    · cases hs
  | endRefresh =>
    simp only [rstep] at hs
    split at hs
    · cases hs
      refine ⟨fun _ => rfl, fun _ => rfl, ?_⟩
      intro hh; cases hh
    · cases hs
  | close => simp only [rstep, Option.some.injEq] at hs; subst hs; exact ⟨h.exitedClean, h.idleClean, fun _ => rfl⟩
  | selfAnswer r =>
    simp only [rstep] at hs
    split at hs
    · cases hs; exact ⟨h.exitedClean, h.idleClean, h.exitedClosed⟩
    · cases hs
  | loopExit =>
    simp only [rstep] at hs
    split at hs
    · rename_i hc
      simp only [Bool.and_eq_true, beq_iff_eq] at hc
      cases hs
      refine ⟨fun _ => h.idleClean hc.2, ?_, fun _ => hc.1⟩
      intro hh; cases hh
    · cases hs

/-- every request is accounted for exactly once: not yet handed over, taken by the loop, or answered -/
def accounted (s : RSt) : List Nat := s.sending ++ s.waiting ++ s.answered

theorem rstep_accounting (s s' : RSt) (e : REv) (hs : rstep s e = some s') :
    (accounted s').Perm (match e with | .request r => r :: accounted s | _ => accounted s) := by
  cases e with
  | request r =>
    simp only [rstep, Option.some.injEq] at hs; subst hs
    simp only [accounted, List.append_assoc]
    exact (List.perm_middle (l₁ := s.sending) (l₂ := s.waiting ++ s.answered) (a := r))
  | accept r =>
    simp only [rstep] at hs
    split at hs
    · rename_i hc
      have hm : r ∈ s.sending := by simp only [Bool.and_eq_true, List.contains_eq_mem, decide_eq_true_eq] at hc; exact hc.1
      cases hs
      simp only [accounted, List.append_assoc]
      have h1 : s.sending.Perm (r :: s.sending.erase r) := List.perm_cons_erase hm
      have h2 : (s.sending.erase r ++ (s.waiting ++ ([r] ++ s.answered))).Perm (r :: (s.sending.erase r ++ (s.waiting ++ s.answered))) := by
        have : (s.sending.erase r ++ (s.waiting ++ ([r] ++ s.answered))) = (s.sending.erase r ++ s.waiting) ++ (r :: s.answered) := by simp
        rw [this]
        exact List.perm_middle.trans (by simp)
      exact h2.trans ((List.Perm.append_right _ h1).symm.trans (by simp))
    · cases hs
  | endRefresh =>
    simp only [rstep] at hs
    split at hs
    · cases hs
      simp only [accounted, List.append_nil, List.append_assoc]
      exact List.Perm.append_left _ List.perm_append_comm
    · cases hs
  | close => simp only [rstep, Option.some.injEq] at hs; subst hs; exact List.Perm.refl _
  | selfAnswer r =>
    simp only [rstep] at hs
    split at hs
    · rename_i hc
      have hm : r ∈ s.sending := by simp only [Bool.and_eq_true, List.contains_eq_mem, decide_eq_true_eq] at hc; exact hc.2
      cases hs
      simp only [accounted, List.append_assoc]
      have h1 : s.sending.Perm (r :: s.sending.erase r) := List.perm_cons_erase hm
      have h2 : (s.sending.erase r ++ (s.waiting ++ (s.answered ++ [r]))).Perm (r :: (s.sending.erase r ++ (s.waiting ++ s.answered))) := by
        have : (s.sending.erase r ++ (s.waiting ++ (s.answered ++ [r]))) = (s.sending.erase r ++ (s.waiting ++ s.answered)) ++ [r] := by simp
        rw [this]; exact List.perm_append_singleton _ _
      exact h2.trans ((List.Perm.append_right _ h1).symm.trans (by simp))
    · cases hs
  | loopExit =>
    simp only [rstep] at hs
    split at hs
    · cases hs; exact List.Perm.refl _
    · cases hs

theorem rrun_inv : ∀ (evs : List REv) (s s' : RSt), RInv s → rrun s evs = some s' → RInv s'
  | [], s, s', h, hr => by simp [rrun] at hr; subst hr; exact h
  | e :: es, s, s', h, hr => by
    unfold rrun at hr
    cases hs : rstep s e with
    | none => simp [hs] at hr
    | some s1 => simp only [hs] at hr; exact rrun_inv es s1 s' (rstep_inv s s1 e h hs) hr

theorem perm3 {α : Type} (a w snd : List α) : ((a ++ w) ++ snd).Perm (snd ++ w ++ a) := by
  have h1 : ((a ++ w) ++ snd).Perm (snd ++ (a ++ w)) := List.perm_append_comm
  have h2 : (snd ++ (a ++ w)).Perm (snd ++ (w ++ a)) := List.Perm.append_left _ List.perm_append_comm
  simpa [List.append_assoc] using h1.trans h2

/-- for every schedule of requests, refreshes and Close: once everything that can still happen has happened, every
    request issued has received exactly one answer — also those taken by the loop before Close and those that arrive
    after it -/
theorem refresh_always_answered (evs : List REv) (s : RSt) (h : rrun {} evs = some s) (_hc : s.closed = true) :
    (drain s).sending = [] ∧ (drain s).waiting = [] ∧ (drain s).answered.Perm (accounted s) := by
  have hinv := rrun_inv evs {} s rinv_init h
  by_cases hl : s.loop = .refreshing
  · have hd : drain s = { s with loop := .exited, answered := (s.answered ++ s.waiting) ++ s.sending, sending := [], waiting := [] } := by
      simp [drain, hl]
    rw [hd]
    exact ⟨rfl, rfl, perm3 s.answered s.waiting s.sending⟩
  · have hw : s.waiting = [] := by
      cases hlp : s.loop with
      | idle => exact hinv.idleClean hlp
      | refreshing => exact absurd hlp hl
      | exited => exact hinv.exitedClean hlp
    have hne : (s.loop == Loop.refreshing) = false := by simpa using hl
    have hd : drain s = { s with loop := .exited, answered := s.answered ++ s.sending, sending := [] } := by
      simp [drain, hne]
    rw [hd]
    refine ⟨rfl, hw, ?_⟩
    have := perm3 s.answered s.waiting s.sending
    simpa [accounted, hw] using this

/-- the seeded variant (the loop returns after the liveness phase once the context has ended) abandons a request it
    had taken: the invariant is gone and the request is never answered -/
theorem exit_during_refresh_loses_requests :
    ∃ s1 s2, rrun {} [.request 7, .accept 7, .close] = some s1 ∧ exitDuringRefresh s1 = some s2 ∧
      s2.loop = .exited ∧ s2.waiting = [7] ∧ rstep s2 .endRefresh = none := by
  refine ⟨_, _, rfl, rfl, rfl, rfl, rfl⟩

/-! non-vacuity -/
example : (run { self := 9 } [.identified 1 true true, .probeOk 1, .querySuccess 2, .queryFail 2 true, .queryFail 1 false,
    .identified 3 true false, .probeOk 3, .querySuccess 9]).rt = [2] := by decide
example : (rrun {} [.request 1, .accept 1, .request 2, .close, .endRefresh, .selfAnswer 2, .loopExit]).map (·.answered) = some [1, 2] := by
  decide

end KadDHT.C12

/-
  C05 — stored value records are always valid and never downgraded.

  Property theorems only, about `VS`: records/value_store.go Put / Get / discardIfUnchanged with its striped put
  locks, the PUT_VALUE / GET_VALUE handlers and the local part of PutValue, as an interleaving system in which any
  number of callers perform their datastore accesses in any order a schedule allows (a caller whose stripe lock is
  held by somebody else is not enabled).  Every theorem is about every world reachable from a lock-free start by
  every schedule.  Assumed: each datastore access is atomic (linearizable datastore).  The real code is tied to the
  model access by access: a gate datastore grants one access at a time, and the model must accept the recorded trace
  (expected access, stripe free, value read = model store) and predict every result.
-/
import KadDHT.Proofs.ValueStore
namespace KadDHT.C05
open KadDHT.VS

/-- a start: nobody holds a lock, every caller is about to begin (the datastore may hold anything — fresh, expired,
    corrupt, mis-filed or no longer valid records) -/
def Initial (w : World) : Prop := (∀ s, w.locks s = none) ∧ ∀ tid t, w.threads tid = some t → t.pc = .start

def Reaches (w0 : World) (sched : List Nat) (w : World) : Prop := Initial w0 ∧ wrun w0 sched = some w

theorem initial_inv {w : World} (h : Initial w) : Inv w := by
  refine ⟨?_, ?_, ?_, ?_⟩
  · intro tid t ht hh; have := h.2 tid t ht; simp [holds, this] at hh
  · intro s tid hl; rw [h.1 s] at hl; cases hl
  · intro tid t ht hp; rw [h.2 tid t ht] at hp; cases hp
  · intro tid t ht hp; rw [h.2 tid t ht] at hp; cases hp

theorem reaches_inv {w0 w : World} {sched : List Nat} (h : Reaches w0 sched w) : Inv w :=
  wrun_inv sched w0 w (initial_inv h.1) h.2

/-- the lock invariant: a caller between its locked read and its write or delete sees the current content of its key —
    whatever the other callers do in between -/
theorem lock_invariant {w0 w : World} {sched : List Nat} (h : Reaches w0 sched w) (tid : Nat) (t : Thread)
    (ht : w.threads tid = some t) :
    (t.pc = .putWrite → t.seen = w.store (keyOf t.op)) ∧ (t.pc = .discardDel → w.store (keyOf t.op) = t.seen) :=
  ⟨(reaches_inv h).sw tid t ht, fun hp => ((reaches_inv h).sd tid t ht hp).1⟩

/-- two callers are never inside locked sections of the same stripe -/
theorem stripe_exclusive {w0 w : World} {sched : List Nat} (h : Reaches w0 sched w) (a b : Nat) (ta tb : Thread)
    (ha : w.threads a = some ta) (hb : w.threads b = some tb) (hha : holds ta = true) (hhb : holds tb = true)
    (hs : stripe (keyOf ta.op) = stripe (keyOf tb.op)) : a = b := by
  have h1 := (reaches_inv h).h1 a ta ha hha
  have h2 := (reaches_inv h).h1 b tb hb hhb
  rw [hs, h2] at h1; cases h1; rfl

/-! ### what is written -/

/-- per-caller facts that hold at every point of its program -/
structure TInv (t : Thread) : Prop where
  /-- past the entry checks the record is valid and its embedded key is the key it is stored / requested under -/
  checked : t.pc ≠ .start → t.pc ≠ .done .mismatch → t.pc ≠ .done .invalid →
    ∀ rec, recOf t.op = some rec → rec.valid = true ∧ rec.ekey = keyOf t.op
  /-- a caller about to write has passed the better-or-equal test against the record it read under the lock -/
  tested : t.pc = .putWrite → ∀ rec ex, recOf t.op = some rec → usable t.seen = some ex → ex.rank ≤ rec.rank
  /-- a caller about to delete has seen a record that must not be served -/
  sawBad : t.pc = .discardRead ∨ t.pc = .discardDel → ∃ s, t.seen = some s ∧ bad (keyOf t.op) s = true

theorem recOf_key (op : Op) (rec : Stored) (h : recOf op = some rec) : rec.ekey = keyOf op := by
  cases op <;> simp [recOf] at h <;> (subst h; rfl)

theorem begin_valid (t : Thread) (rec : Stored) (hr : recOf t.op = some rec)
    (h : (begin t).pc = .getRead ∨ (begin t).pc = .putRead) : rec.valid = true := by
  cases hop : t.op with
  | hput mk r =>
    simp only [hop, recOf, Option.some.injEq] at hr; subst hr
    unfold begin at h
    simp only [hop] at h
    by_cases h1 : (mk != r.ekey) = true
    · simp [h1] at h
    · by_cases h2 : (!r.valid) = true
      · simp [h1, h2] at h
      · simpa using h2
  | hget k => simp [hop, recOf] at hr
  | lput k r v =>
    simp only [hop, recOf, Option.some.injEq] at hr; subst hr
    unfold begin at h
    simp only [hop] at h
    by_cases h2 : (!v) = true
    · simp [h2] at h
    · simpa using h2

theorem begin_done (t : Thread) (r : Result) (h : (begin t).pc = .done r) : r = .mismatch ∨ r = .invalid := by
  unfold begin at h
  cases hop : t.op with
  | hput mk rec =>
    simp only [hop] at h
    split at h
    · simp only [PC.done.injEq] at h; exact Or.inl h.symm
    · split at h
      · simp only [PC.done.injEq] at h; exact Or.inr h.symm
      · cases h
  | hget k => simp only [hop] at h; cases h
  | lput k rk v =>
    simp only [hop] at h
    split at h
    · simp only [PC.done.injEq] at h; exact Or.inr h.symm
    · cases h

theorem begin_tinv (t : Thread) (hs : t.pc = .start) : TInv (begin t) := by
  refine ⟨?_, ?_, ?_⟩
  · intro _ hm hi rec hr
    rw [begin_op] at hr
    refine ⟨?_, by rw [begin_op]; exact recOf_key _ _ hr⟩
    rcases begin_pc t with h1 | h1 | ⟨r, h1⟩
    · exact begin_valid t rec hr (Or.inl h1)
    · exact begin_valid t rec hr (Or.inr h1)
    · rcases begin_done t r h1 with rfl | rfl
      · exact absurd h1 hm
      · exact absurd h1 hi
  · intro hp; rcases begin_pc t with h1 | h1 | ⟨r, h1⟩ <;> rw [h1] at hp <;> cases hp
  · intro hp; rcases begin_pc t with h1 | h1 | ⟨r, h1⟩ <;> rcases hp with hp | hp <;> rw [h1] at hp <;> cases hp

theorem perform_tinv (clock key : Nat) (cur : Option Stored) (t : Thread) (e : Eff) (hk : key = keyOf t.op)
    (h : perform clock key cur t = some e) (ht : TInv t) : TInv e.t := by
  have spec := perform_spec clock key cur t e h
  have hstart : t.pc ≠ .start := by intro hp; unfold perform at h; simp [hp] at h
  have hdone : ∀ r, t.pc ≠ .done r := by intro r hp; unfold perform at h; simp [hp] at h
  refine ⟨?_, ?_, ?_⟩
  · intro _ _ _ rec hr
    rw [spec.op] at hr ⊢
    exact ht.checked hstart (hdone _) (hdone _) rec hr
  · intro hp rec ex hr hu
    rw [spec.op] at hr
    rw [spec.seenWrite hp] at hu
    -- only a locked read leads to the write
    have hpr : t.pc = .putRead := by
      unfold perform at h
      cases hpc : t.pc with
      | putRead => rfl
      | start => exact absurd hpc hstart
      | done r => exact absurd hpc (hdone r)
      | getRead =>
        simp only [hpc] at h
        cases cur with
        | none =>
          simp only [Option.some.injEq] at h; subst h
          rcases afterLocalGet_pc t none with h1 | ⟨r, h1⟩ <;> rw [h1] at hp <;> cases hp
        | some s =>
          simp only at h
          split at h
          · simp only [Option.some.injEq] at h; subst h; cases hp
          · simp only [Option.some.injEq] at h; subst h
            rcases afterLocalGet_pc t (some s) with h1 | ⟨r, h1⟩ <;> rw [h1] at hp <;> cases hp
      | discardRead =>
        simp only [hpc] at h
        split at h
        · simp only [Option.some.injEq] at h; subst h; cases hp
        · simp only [Option.some.injEq] at h; subst h
          rcases afterLocalGet_pc t none with h1 | ⟨r, h1⟩ <;> rw [h1] at hp <;> cases hp
      | discardDel =>
        simp only [hpc, Option.some.injEq] at h; subst h
        rcases afterLocalGet_pc t none with h1 | ⟨r, h1⟩ <;> rw [h1] at hp <;> cases hp
      | putWrite =>
        simp only [hpc] at h
        cases hr' : recOf t.op with
        | none => simp [hr'] at h
        | some rec' => simp only [hr', Option.some.injEq] at h; subst h; cases hp
    exact putRead_test clock key cur t e h hpr hp rec ex hr hu
  · intro hp
    rw [spec.op, ← hk]
    unfold perform at h
    cases hpc : t.pc with
    | start => exact absurd hpc hstart
    | done r => exact absurd hpc (hdone r)
    | getRead =>
      simp only [hpc] at h
      cases cur with
      | none =>
        simp only [Option.some.injEq] at h; subst h
        rcases afterLocalGet_pc t none with h1 | ⟨r, h1⟩ <;> rcases hp with hp | hp <;> rw [h1] at hp <;> cases hp
      | some s =>
        simp only at h
        split at h
        · rename_i hb
          simp only [Option.some.injEq] at h; subst h
          exact ⟨s, rfl, hb⟩
        · simp only [Option.some.injEq] at h; subst h
          rcases afterLocalGet_pc t (some s) with h1 | ⟨r, h1⟩ <;> rcases hp with hp | hp <;> rw [h1] at hp <;> cases hp
    | discardRead =>
      simp only [hpc] at h
      split at h
      · simp only [Option.some.injEq] at h; subst h
        have := ht.sawBad (Or.inl hpc)
        rw [← hk] at this; exact this
      · simp only [Option.some.injEq] at h; subst h
        rcases afterLocalGet_pc t none with h1 | ⟨r, h1⟩ <;> rcases hp with hp | hp <;> rw [h1] at hp <;> cases hp
    | discardDel =>
      simp only [hpc, Option.some.injEq] at h; subst h
      rcases afterLocalGet_pc t none with h1 | ⟨r, h1⟩ <;> rcases hp with hp | hp <;> rw [h1] at hp <;> cases hp
    | putRead =>
      simp only [hpc] at h
      cases hr' : recOf t.op with
      | none => simp [hr'] at h
      | some rec' =>
        simp only [hr'] at h
        cases hu : usable cur with
        | none => simp only [hu, Option.some.injEq] at h; subst h; rcases hp with hp | hp <;> cases hp
        | some ex =>
          simp only [hu] at h
          split at h <;> (simp only [Option.some.injEq] at h; subst h; rcases hp with hp | hp <;> cases hp)
    | putWrite =>
      simp only [hpc] at h
      cases hr' : recOf t.op with
      | none => simp [hr'] at h
      | some rec' => simp only [hr', Option.some.injEq] at h; subst h; rcases hp with hp | hp <;> cases hp

theorem start_tinv (t : Thread) (hs : t.pc = .start) : TInv t := by
  refine ⟨fun h => absurd hs h, ?_, ?_⟩
  · intro hp; rw [hs] at hp; cases hp
  · intro hp; rcases hp with hp | hp <;> rw [hs] at hp <;> cases hp

theorem wstep_tinv (w w' : World) (tid : Nat) (h : ∀ i t, w.threads i = some t → TInv t) (hs : wstep w tid = some w') :
    ∀ i t, w'.threads i = some t → TInv t := by
  obtain ⟨hother, t0, ht0, hcase⟩ := wstep_char w w' tid hs
  intro i t hti
  by_cases hi : i = tid
  · subst hi
    rcases hcase with ⟨hstart, _, hth, _⟩ | ⟨t1, e, clock, ht1, hp, hth, _, _⟩
    · rw [hth] at hti; cases hti; exact begin_tinv t0 hstart
    · rw [hth] at hti; cases hti
      have ht1inv : TInv t1 := by
        rw [ht1]; split
        · rename_i hstart; exact begin_tinv t0 (by simpa using hstart)
        · exact h i t0 ht0
      exact perform_tinv clock _ _ t1 e rfl hp ht1inv
  · rw [hother i hi] at hti; exact h i t hti

theorem reaches_tinv {w0 w : World} {sched : List Nat} (h : Reaches w0 sched w) : ∀ i t, w.threads i = some t → TInv t := by
  obtain ⟨hinit, hrun⟩ := h
  have key : ∀ (sched : List Nat) (w0 w : World), (∀ i t, w0.threads i = some t → TInv t) → wrun w0 sched = some w →
      ∀ i t, w.threads i = some t → TInv t := by
    intro sched
    induction sched with
    | nil => intro w0 w h0 hr; simp [wrun] at hr; subst hr; exact h0
    | cons x xs ih =>
      intro w0 w h0 hr
      unfold wrun at hr
      cases hs : wstep w0 x with
      | none => simp [hs] at hr
      | some w1 => simp only [hs] at hr; exact ih w1 w (wstep_tinv w0 w1 x h0 hs) hr
  exact key sched w0 w (fun i t ht => start_tinv t (hinit.2 i t ht)) hrun

/-- every record ever written validates and is filed under its own embedded key: a node never stores a record its
    validator rejects or whose embedded key differs from the key it is stored under -/
theorem stored_valid_and_keyed {w0 w w' : World} {sched : List Nat} (h : Reaches w0 sched w) (tid : Nat)
    (hs : wstep w tid = some w') (k : Nat) (v : Stored) (hw : w'.store k = some v) (hchg : w'.store k ≠ w.store k) :
    v.valid = true ∧ v.ekey = k := by
  obtain ⟨_, t0, ht0, hcase⟩ := wstep_char w w' tid hs
  rcases hcase with ⟨_, _, _, hst⟩ | ⟨t, e, clock, ht, hp, _, hoth, hkey⟩
  · rw [hst] at hchg; exact absurd rfl hchg
  · by_cases hk : k = keyOf t.op
    · subst hk
      rw [hkey] at hw hchg
      cases he : e.eff with
      | keep => rw [he] at hchg; exact absurd rfl hchg
      | del => rw [he] at hw; cases hw
      | write v' =>
        rw [he] at hw; simp only [Option.some.injEq] at hw; subst hw
        have spec := perform_spec clock _ _ t e hp
        obtain ⟨hpc, rec, hr, hek, _, hva⟩ := spec.writeSpec v' he
        have htinv : TInv t := by
          rw [ht]; split
          · rename_i hstart; exact begin_tinv t0 (by simpa using hstart)
          · exact reaches_tinv h tid t0 ht0
        have := htinv.checked (by rw [hpc]; intro hh; cases hh) (by rw [hpc]; intro hh; cases hh) (by rw [hpc]; intro hh; cases hh) rec hr
        exact ⟨by rw [hva]; exact this.1, by rw [hek]; exact this.2⟩
    · rw [hoth k hk] at hchg; exact absurd rfl hchg

/-- a stored record is never replaced by one the validator ranks worse — under any interleaving -/
theorem never_downgraded {w0 w w' : World} {sched : List Nat} (h : Reaches w0 sched w) (tid : Nat)
    (hs : wstep w tid = some w') (k : Nat) (old new : Stored) (ho : usable (w.store k) = some old)
    (hn : w'.store k = some new) (hchg : w'.store k ≠ w.store k) : old.rank ≤ new.rank := by
  obtain ⟨_, t0, ht0, hcase⟩ := wstep_char w w' tid hs
  rcases hcase with ⟨_, _, _, hst⟩ | ⟨t, e, clock, ht, hp, _, hoth, hkey⟩
  · rw [hst] at hchg; exact absurd rfl hchg
  · by_cases hk : k = keyOf t.op
    · subst hk
      rw [hkey] at hn hchg
      cases he : e.eff with
      | keep => rw [he] at hchg; exact absurd rfl hchg
      | del => rw [he] at hn; cases hn
      | write v' =>
        rw [he] at hn; simp only [Option.some.injEq] at hn; subst hn
        have spec := perform_spec clock _ _ t e hp
        obtain ⟨hpc, rec, hr, _, hrk, _⟩ := spec.writeSpec v' he
        -- the writer is inside its locked section: it is the original thread, and what it read is still there
        have htt0 : t = t0 := by
          rw [ht]; split
          · rename_i hstart
            exfalso
            have : t = begin t0 := by rw [ht]; simp [hstart]
            rw [this] at hpc
            rcases begin_pc t0 with h1 | h1 | ⟨r, h1⟩ <;> rw [h1] at hpc <;> cases hpc
          · rfl
        subst htt0
        have hseen := (reaches_inv h).sw tid t ht0 hpc
        have := (reaches_tinv h tid t ht0).tested hpc rec old hr (by rw [hseen]; exact ho)
        rw [hrk]; exact this
    · rw [hoth k hk] at hchg; exact absurd rfl hchg

/-- a delete removes exactly the bytes its reader saw, and those must not be served: a record written by a concurrent
    Put between the read and the delete is never clobbered -/
theorem discard_never_clobbers {w0 w w' : World} {sched : List Nat} (h : Reaches w0 sched w) (tid : Nat)
    (hs : wstep w tid = some w') (k : Nat) (v : Stored) (hold : w.store k = some v) (hgone : w'.store k = none) :
    bad k v = true ∧ ∃ t, w.threads tid = some t ∧ t.seen = some v := by
  obtain ⟨_, t0, ht0, hcase⟩ := wstep_char w w' tid hs
  rcases hcase with ⟨_, _, _, hst⟩ | ⟨t, e, clock, ht, hp, _, hoth, hkey⟩
  · rw [hst, hold] at hgone; cases hgone
  · by_cases hk : k = keyOf t.op
    · subst hk
      rw [hkey] at hgone
      cases he : e.eff with
      | keep => rw [he, hold] at hgone; cases hgone
      | write v' => rw [he] at hgone; cases hgone
      | del =>
        have spec := perform_spec clock _ _ t e hp
        have hpc := spec.delSpec he
        have htt0 : t = t0 := by
          rw [ht]; split
          · rename_i hstart
            exfalso
            have : t = begin t0 := by rw [ht]; simp [hstart]
            rw [this] at hpc
            rcases begin_pc t0 with h1 | h1 | ⟨r, h1⟩ <;> rw [h1] at hpc <;> cases hpc
          · rfl
        subst htt0
        have hseen := ((reaches_inv h).sd tid t ht0 hpc).1
        obtain ⟨s, hs1, hs2⟩ := (reaches_tinv h tid t ht0).sawBad (Or.inr hpc)
        rw [hold, hs1] at hseen
        simp only [Option.some.injEq] at hseen
        subst hseen
        exact ⟨hs2, t, ht0, hs1⟩
    · rw [hoth k hk, hold] at hgone; cases hgone

/-! ### what is served -/

/-- a read returns a record only if it is well-formed, filed under the requested key and not older than the maximum
    age: expired, corrupt or mis-filed records are never served, locally or to remote peers -/
theorem served_only_if_fresh_and_keyed (clock key : Nat) (cur : Option Stored) (t : Thread) (e : Eff) (k r : Nat)
    (hop : t.op = .hget k) (hk : key = k) (h : perform clock key cur t = some e) (hd : e.t.pc = .done (.val r)) :
    ∃ s, cur = some s ∧ s.rank = r ∧ s.corrupt = false ∧ s.ekey = k ∧ s.expired = false := by
  have hal : ∀ o, (afterLocalGet t o).pc = .done (match o with | some x => .val x.rank | none => .none) := by
    intro o; unfold afterLocalGet; rw [hop]; cases o <;> rfl
  cases hpc : t.pc with
  | start => simp [perform, hpc] at h
  | done r' => simp [perform, hpc] at h
  | getRead =>
    simp only [perform, hpc] at h
    cases cur with
    | none => simp only [Option.some.injEq] at h; subst h; rw [hal] at hd; cases hd
    | some s =>
      simp only at h
      split at h
      · simp only [Option.some.injEq] at h; subst h; cases hd
      · rename_i hb
        simp only [Option.some.injEq] at h; subst h
        rw [hal] at hd
        simp only [PC.done.injEq, Result.val.injEq] at hd
        subst hk
        have hb' : bad key s = false := by simpa using hb
        simp only [bad, Bool.or_eq_false_iff, bne_eq_false_iff_eq] at hb'
        exact ⟨s, rfl, hd, hb'.1.1, hb'.1.2, hb'.2⟩
  | discardRead =>
    simp only [perform, hpc] at h
    split at h
    · simp only [Option.some.injEq] at h; subst h; cases hd
    · simp only [Option.some.injEq] at h; subst h; rw [hal] at hd; cases hd
  | discardDel => simp only [perform, hpc, Option.some.injEq] at h; subst h; rw [hal] at hd; cases hd
  | putRead => simp [perform, hpc, hop, recOf] at h
  | putWrite => simp [perform, hpc, hop, recOf] at h

/-- an acknowledged put is readable at once: a record that is well-formed, filed under its key and not expired is
    what a read returns -/
theorem ack_put_readable (clock k : Nat) (v : Stored) (hb : bad k v = false) :
    ∃ e, perform clock k (some v) { op := .hget k, pc := .getRead } = some e ∧ e.t.pc = .done (.val v.rank) := by
  refine ⟨{ t := afterLocalGet { op := .hget k, pc := .getRead } (some v) }, by simp [perform, hb], ?_⟩
  simp [afterLocalGet]

/-- a local PutValue is refused when a different, better value is already stored -/
theorem local_put_refused_when_better_stored (clock k rank : Nat) (s : Stored) (hb : bad k s = false) (hv : s.valid = true)
    (hr : rank < s.rank) :
    ∃ e, perform clock k (some s) { op := .lput k rank true, pc := .getRead } = some e ∧ e.t.pc = .done .refused := by
  refine ⟨{ t := afterLocalGet { op := .lput k rank true, pc := .getRead } (some s) }, by simp [perform, hb], ?_⟩
  have : (s.rank != rank) = true := by simp; omega
  simp [afterLocalGet, hv, this, hr]

/-- … and also when the better value arrives between its read and its store: the store step itself refuses -/
theorem local_put_refused_when_better_arrives (clock k rank : Nat) (s : Stored) (t : Thread) (hu : usable (some s) = some s)
    (hr : rank < s.rank) (hop : t.op = .lput k rank true) (hpc : t.pc = .putRead) :
    ∃ e, perform clock k (some s) t = some e ∧ e.t.pc = .done .old ∧ e.eff = .keep := by
  refine ⟨{ t := { t with pc := .done .old }, release := true }, by simp [perform, hpc, hop, recOf, hu, hr], rfl, rfl⟩

/-! non-vacuity: a worse PUT_VALUE racing a better one on the same key, in both orders the better one stays -/
def exWorld : World :=
  { threads := fun i => if i = 0 then some { op := .hput 4 { ekey := 4, rank := 2, valid := true, expired := false } }
      else if i = 1 then some { op := .hput 4 { ekey := 4, rank := 5, valid := true, expired := false } } else none }
example : ((wrun exWorld [0, 0, 1, 1]).map fun w => ((w.store 4).map (·.rank), resultOf w 0, resultOf w 1)) =
    some (some 5, some .ok, some .ok) := by decide
example : ((wrun exWorld [1, 1, 0]).map fun w => ((w.store 4).map (·.rank), resultOf w 0, resultOf w 1)) =
    some (some 5, some .old, some .ok) := by decide
/-- while caller 0 is between its read and its write, caller 1 is not enabled -/
example : (wrun exWorld [0, 1]).isNone = true := by decide

end KadDHT.C05

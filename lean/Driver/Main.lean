import KadDHT.Driver.Common
import KadDHT.Driver.C18
import KadDHT.Driver.C18v
import KadDHT.Driver.C19
import KadDHT.Driver.C07
import KadDHT.Driver.C09
import KadDHT.Driver.C09v
import KadDHT.Driver.C10
import KadDHT.Driver.C13
import KadDHT.Driver.C01
import KadDHT.Driver.C01v
import KadDHT.Driver.C02v
import KadDHT.Driver.C03
import KadDHT.Driver.C04
import KadDHT.Driver.C08
import KadDHT.Driver.C06
import KadDHT.Driver.C15
import KadDHT.Driver.C16
import KadDHT.Driver.C11
import KadDHT.Driver.C12
import KadDHT.Driver.C05
import KadDHT.Driver.C20
import KadDHT.Driver.C17
import KadDHT.Driver.C17u
import KadDHT.Driver.C14
open KadDHT.Driver

def main (args : List String) : IO UInt32 := do
  match args with
  | ["C18"] => runPure C18.handle; return 0
  | ["C18v"] => runPure C18v.handle; return 0
  | ["C19"] => runLoop C19.step {}; return 0
  | ["C14"] => runPure C14.handle; return 0
  | ["C14v"] => runPure C14.verdict; return 0
  | ["C17"] => runLoop C17.step {}; return 0
  | ["C17v"] => runLoop C17.verdict {}; return 0
  | ["C17u"] => runLoop C17u.step {}; return 0
  | ["C20"] => runLoop C20.step {}; return 0
  | ["C20v"] => runLoop C20.verdict {}; return 0
  | ["C05"] => runLoop C05.step {}; return 0
  | ["C05v"] => runLoop C05.verdict {}; return 0
  | ["C12"] => runLoop C12.step { self := 0 }; return 0
  | ["C12v"] => runLoop C12.verdict {}; return 0
  | ["C12r"] => runLoop C12.rStep {}; return 0
  | ["C12rv"] => runLoop C12.rVerdict {}; return 0
  | ["C11"] => runLoop C11.step {}; return 0
  | ["C11v"] => runLoop C11.verdict (); return 0
  | ["C16"] => runPure C16.handle; return 0
  | ["C16v"] => runPure C16.verdict; return 0
  | ["C16c"] => runPure C16.crawlHandle; return 0
  | ["C16s"] => runPure C16.swapHandle; return 0
  | ["C14k"] => runPure C14.closeRaceHandle; return 0
  | ["C14w"] => runPure C14.dualCloseHandle; return 0
  | ["C16cv"] => runPure C16.crawlVerdict; return 0
  | ["C15"] => runPure C15.handle; return 0
  | ["C15v"] => runPure C15.verdict; return 0
  | ["C06"] => runLoop C06.step {}; return 0
  | ["C06v"] => runLoop C06.verdict {}; return 0
  | ["C08"] => runLoop C08.step {}; return 0
  | ["C08v"] => runLoop C08.verdict {}; return 0
  | ["C04v"] => runLoop C04.verdict {}; return 0
  | ["C04"] => runLoop C04.step {}; return 0
  | ["C03"] => runLoop C03.step (); return 0
  | ["C03v"] => runLoop C03.verdict (); return 0
  | ["C02v"] => runLoop C02v.step {}; return 0
  | ["C01v"] => runLoop C01v.step {}; return 0
  | ["C01"] => runLoop C01.step {}; return 0
  | ["C13"] => runLoop C13.step (KadDHT.Mode.init .auto); return 0
  | ["C10"] => runPure C10.handle; return 0
  | ["C09v"] => runLoop C09v.step {}; return 0
  | ["C09"] => runLoop C09.step ({}, {}); return 0
  | ["C07"] => runLoop C07.step (KadDHT.ProviderStore.init 1 0); return 0
  | _ => IO.eprintln s!"unknown model {args}"; return 2

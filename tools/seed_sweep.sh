#!/bin/sh
# tools/seed_sweep.sh : run the quick check of its property against every kept seeded change in turn (each in a scratch
# worktree of /repo, see tools/seeded.sh).  Output: one line per seed: DETECTED / MISSED / NOAPPLY.
# FAST=1 skips the Lean phase.
cd /verif
for d in seeded/*/; do
  id=$(basename $d); prop=${id%%-*}
  if ! git -C /repo apply --check "/verif/$d/patch.diff" 2>/dev/null; then echo "$id NOAPPLY"; continue; fi
  res=$(timeout 1500 tools/seeded.sh "$d" "$prop" 2>&1 | grep -c "exit=1")
  if [ "$res" = "1" ]; then echo "$id DETECTED by $prop"; else echo "$id MISSED by $prop"; fi
done

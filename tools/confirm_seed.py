#!/usr/bin/env python3
"""confirm_seed.py <src dir with patch.diff, zz_mut_demo_test.go, DEMO_DIR, DEMO_RUN, README.md> <seed id> <property>
Confirms a seeded change in a scratch worktree of /repo (outside /repo and /verif), then stores it as
/verif/seeded/<seed id>/ with meta.json.  The worktree and its build output are removed afterwards."""
import json, os, re, shutil, subprocess, sys, time

src, sid, prop = sys.argv[1], sys.argv[2], sys.argv[3]
wt = "/tmp/confirm/" + sid
env = dict(os.environ, GOPROXY="off")


def sh(cmd, cwd=None, timeout=3000):
    p = subprocess.run(cmd, shell=True, cwd=cwd, env=env, stdout=subprocess.PIPE, stderr=subprocess.STDOUT, text=True, timeout=timeout)
    return p.returncode, p.stdout


os.makedirs("/tmp/confirm", exist_ok=True)
sh("git -C /repo worktree remove --force %s" % wt)
rc, out = sh("git -C /repo worktree add -q --detach %s HEAD" % wt)
assert rc == 0, out
res = {"seed": sid, "property": prop, "ran": []}
try:
    patch = os.path.join(src, "patch.diff")
    demo_dir = open(os.path.join(src, "DEMO_DIR")).read().strip()
    demo_run = open(os.path.join(src, "DEMO_RUN")).read().strip()
    rc, out = sh("git apply %s" % patch, cwd=wt)
    res["applies"] = rc == 0
    assert rc == 0, out
    rc, out = sh("git diff --name-only", cwd=wt)
    files = [f for f in out.split() if f.endswith(".go")]
    pkgs = sorted({"./" + os.path.dirname(f) if os.path.dirname(f) else "." for f in files})
    res["touched"] = files
    rc, out = sh("go build ./...", cwd=wt)
    res["builds"] = rc == 0
    res["ran"].append("go build ./... -> %d" % rc)
    t0 = time.time()
    rc, out = sh("go test -count=1 -vet=off -timeout 25m %s" % " ".join(pkgs), cwd=wt)
    res["existing_tests_pass_with_change"] = rc == 0
    res["ran"].append("go test -count=1 %s (with change) -> %d in %ds" % (" ".join(pkgs), rc, time.time() - t0))
    if rc != 0:
        res["existing_tests_output"] = out[-1500:]
    shutil.copy(os.path.join(src, "zz_mut_demo_test.go"), os.path.join(wt, demo_dir, "zz_mut_demo_test.go"))
    rc, out = sh(demo_run + " 2>&1 | tail -30", cwd=wt)
    rc1, _ = sh(demo_run, cwd=wt)
    res["demo_fails_with_change"] = rc1 != 0
    res["ran"].append("%s (with change) -> %d" % (demo_run, rc1))
    sh("git apply -R %s" % patch, cwd=wt)
    rc2, _ = sh(demo_run, cwd=wt)
    res["demo_passes_without_change"] = rc2 == 0
    res["ran"].append("%s (without change) -> %d" % (demo_run, rc2))
    res["confirmed"] = bool(res["builds"] and res["existing_tests_pass_with_change"] and res["demo_fails_with_change"]
                            and res["demo_passes_without_change"])
finally:
    sh("git -C /repo worktree remove --force %s" % wt)
    sh("rm -rf %s" % wt)
dst = "/verif/seeded/" + sid
if res.get("confirmed"):
    os.makedirs(dst, exist_ok=True)
    for f in ("patch.diff", "zz_mut_demo_test.go", "DEMO_DIR", "DEMO_RUN", "README.md"):
        if os.path.exists(os.path.join(src, f)):
            shutil.copy(os.path.join(src, f), os.path.join(dst, f))
    meta = {"breaks_property": prop, "confirmed": res, "needs_to_manifest": "see README.md", "detected_by": None}
    mp = os.path.join(dst, "meta.json")
    if os.path.exists(mp):
        old = json.load(open(mp))
        meta["detected_by"] = old.get("detected_by")
    json.dump(meta, open(mp, "w"), indent=1)
print(json.dumps(res, indent=1))

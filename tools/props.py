"""Per-property configuration of /verif/check."""
import re


def keycount(line):
    return line.count(",") + 1


PROPS = {
    "C18": dict(
        pkg="provider/internal/keyspace", test="TestVerifC18", model="C18", verdict="C18v", stateless=True,
        level="proof",
        nontrivial_line=lambda l: l.count(",") >= 2 and (re.search(r"[01]{2}", l) is not None),
        rule="every protocol line is one call of one keyspace function; quick: exhaustive over all 26 prefix-free "
             "sets of <=2-bit keys (thorough: all 677 of <=3-bit keys) x all arguments, plus random 4..12- and "
             "256-bit clustered sets built with random Add/Remove/Prune orders; a line is non-trivial when it "
             "carries >=3 keys of >=2 bits; distinct = distinct line text",
        exhaustive={"quick": False, "thorough": False},
        trusted=["go-libdht trie primitives Add/Remove are modelled (and diffed), SHA-256 not modelled",
                 "kbucket.SortClosestPeers (sort by XOR distance) for ShortestCoveredPrefix"],
        assumptions=["bitstr tries are prefix-free (go-libdht panics otherwise)",
                     "order keys are at least as long as the trie is deep"],
        shards={"quick": 8, "thorough": 16},
    ),
}

"""Per-property configuration of /verif/check."""
import re


def keycount(line):
    return line.count(",") + 1


PROPS = {
    "C18": dict(
        pkg="provider/internal/keyspace", test="TestVerifC18", model="C18", verdict="C18v", stateless=True,
        level="proof",
        nontrivial_line=lambda l: l.count(",") >= 2 and (re.search(r"[01]{2}", l) is not None),
        rule="every protocol line is one call of one keyspace function; quick: exhaustive over all 26 prefix-free "
             "sets of <=2-bit keys (thorough: all 677 of <=3-bit keys) x all arguments, plus random 4..12- and "
             "256-bit clustered sets built with random Add/Remove/Prune orders; a line is non-trivial when it "
             "carries >=3 keys of >=2 bits; distinct = distinct line text",
        exhaustive={"quick": False, "thorough": False},
        trusted=["go-libdht trie primitives Add/Remove are modelled (and diffed), SHA-256 not modelled",
                 "kbucket.SortClosestPeers (sort by XOR distance) for ShortestCoveredPrefix"],
        assumptions=["bitstr tries are prefix-free (go-libdht panics otherwise)",
                     "order keys are at least as long as the trie is deep"],
        shards={"quick": 8, "thorough": 16},
    ),
    "C19": dict(
        pkg="provider/internal/queue", test="TestVerifC19", model="C19", level="proof", diff_is_failure=True,
        rule="a case is a history of enqueue/dequeue/dequeue-matching/remove/clear/persist/restart/drain ops on a "
             "ProvideQueue (+ reprovide-queue ops) with overlapping prefixes incl. the empty prefix; after every op "
             "the full queue order and key set are compared with the model; non-trivial = >=1 absorption of queued "
             "longer prefixes by a shorter one and >=1 partial removal (keys removed, prefix stays); distinct = "
             "distinct history text",
        trusted=["go-datastore MapDatastore + key cleaning; SHA-256 not modelled (keys carry their real identifier bits)"],
        assumptions=["Enqueue precondition: supplied keys match the supplied prefix (checked at the call sites by C17)"],
    ),
    "C07": dict(
        pkg="records", test="TestVerifC07", model="C07", level="proof", diff_is_failure=True, also=["C09"],
        rule="a case is a history of add/get/clock-advance/gc-sweep/restart/close ops on a real ProviderManager "
             "(virtual clock, injected LRU of capacity 1-4, more keys than capacity); after every op the provider set, "
             "the LRU key order and (on 'disk') the datastore content are compared with the model; non-trivial = the "
             "history fills the cache and contains add, clock advance, gc and restart; distinct = distinct history text",
        trusted=["go-datastore MapDatastore query/prefix semantics", "hashicorp simplelru", "testing/synctest virtual clock"],
        assumptions=["collectExpired is modelled as one atomic sweep (the documented re-add/sweep race is excluded)"],
        shards={"quick": 8, "thorough": 16},
        timeout={"quick": 120, "thorough": 1200},
    ),
    "C09": dict(
        pkg=".", test="TestVerifC09", model="C09", verdict="C09v", level="proof", also=["C13"],
        rule="a case is a server configuration (K, mode, subsystems, routing table, peerstore addresses incl. >8KiB "
             "lists, stored providers/values) plus 3-14 requests of every message type with missing/oversized/"
             "mismatched fields, stuffed peer records, foreign/invalid provider records and raw malformed frames, sent "
             "through the real stream handler; non-trivial = at least one reset and >=3 other feature classes; "
             "distinct = distinct case text",
        trusted=["kbucket NearestPeers (its answer is an input of the model)", "protobuf/multiaddr codecs, msgio framing",
                 "pstoremem peerstore", "simnet fake host/stream"],
        assumptions=["peer ids of 38 bytes"],
        shards={"quick": 8, "thorough": 16},
    ),
    "C10": dict(
        pkg="pb", test="TestVerifC10", model="C10", level="proof", stateless=True, diff_is_failure=True, also=["C01", "C11"],
        nontrivial_line=lambda l: (":0" in l) or ("rec=-" in l) or ("type=99" in l),
        rule="every line is one ProtocolMessenger call answered with a generated response: the full table of "
             "method x response type x record shape (absent / key mismatch / value mismatch) and random peer "
             "lists (huge lists, oversized and undecodable addresses, empty/600-byte ids, arbitrary enum values); "
             "non-trivial = a non-default branch (field missing or mismatched, unknown enum, undecodable address); "
             "distinct = distinct line text",
        trusted=["protobuf and multiaddr codecs", "the message sender (C11) delivers the response unchanged"],
        exhaustive={"quick": False, "thorough": False},
    ),
    "C13": dict(
        pkg=".", test="TestVerifC13", model="C13", level="proof", diff_is_failure=True,
        rule="a case is a node in one of the four mode options plus 4-16 events: local-reachability events emitted on "
             "the real event bus, DHT streams opened on inbound and outbound connections (inbound and outbound "
             "streams), PING requests on new and already-open streams; after every event mode, handler registration, "
             "the request's fate and the set of open streams are compared; non-trivial = >=2 mode changes and a "
             "request on an open stream; distinct = distinct case text",
        trusted=["libp2p eventbus", "simnet fake host/stream + synctest quiescence"],
        shards={"quick": 8, "thorough": 16},
    ),
    "C01": dict(
        pkg=".", test="TestVerifC01", model="C01", verdict="C01v", level="proof",
        rule="a case is a scripted network (1-40 peers ranked by real XOR distance to the key, thorough up to 300; "
             "honest peers with partial knowledge, failing / undialable / silent peers, liars naming self, duplicates, "
             "fabricated ids and >2K entries), a seed routing table, (K, alpha, beta) and an arrival order of the "
             "outcomes (4 policies, optional cancel); after every delivered outcome the set of in-flight queries is "
             "compared, at the end the result, states, completed flag, follow-ups and the published lookup events; "
             "non-trivial = >=3 responses, >=1 failure or lie, arrival order differs from nearest-first; distinct = "
             "distinct case text",
        trusted=["kbucket NearestPeers (seeds), go-keyspace XOR metric (ranks are computed with it)",
                 "scripted MessageSender + simnet host, synctest quiescence"],
        shards={"quick": 8, "thorough": 16},
    ),
    "C02": dict(
        pkg=".", test="TestVerifC02", model="C01", verdict="C02v", level="proof", also=["C01"],
        rule="a case is an honest network of 1-60 peers (thorough up to 400) whose knowledge is derived from the peers' "
             "real SHA-256 identifiers: k-bucket complete (all of every non-full bucket, K random members of every full "
             "one) or full knowledge; random seed routing table, (K, alpha, beta), four arrival-order policies, run to "
             "termination; compared with the model step by step, and the convergence claims (nearest first / exactly the "
             "K nearest) are evaluated on the implementation's result; non-trivial = >=4 peers; distinct = distinct case text",
        trusted=["kbucket CommonPrefixLen / ConvertPeerID (bucket structure of the generated networks)",
                 "scripted MessageSender + simnet host, synctest quiescence"],
        shards={"quick": 8, "thorough": 16},
    ),
    "C03": dict(
        pkg=".", test="TestVerifC03", model="C03", verdict="C03v", level="other",
        accept=lambda m, o: m == "-" or o.startswith(m),
        rule="a case is one routing operation (closest peers, FindPeer, GetValue, SearchValue, FindProviders(Async), "
             "PutValue, Provide classic/optimistic) on a scripted network of 1-25 peers with failing, undialable and silent "
             "peers, an arrival order, optional cancellation and clock advances; at the end everything still outstanding "
             "fails or times out (virtual time) and the harness requires: returned, result channel closed, no panic, no "
             "goroutine left after Close; non-trivial = faulty peers present and >=3 scheduled events; distinct = case text",
        explanation="Theorems (Lean, all schedules): the lookup state machine never hits a protocol panic, at most alpha "
             "queries are in flight, while it runs something is in flight (it never waits for nothing), every peer is "
             "asked at most once, a terminated search is frozen; counting loop of the optimistic provide and the value "
             "search producer/consumer protocol (see Props/C03). Observed, not proved: goroutines really exit and "
             "channels are really closed, on the generated schedules, through synctest (runtime behaviour).",
        trusted=["scripted MessageSender + simnet host, synctest", "runtime.NumGoroutine for the leak count"],
        shards={"quick": 8, "thorough": 16},
    ),
    "C04": dict(
        pkg=".", test="TestVerifC04", model="C04", verdict="C04v", level="proof", diff_is_failure=True, also=["C16", "C15"],
        # after a cancellation the consumer races with ctx.Done: accept any prefix-consistent answer
        accept=lambda m, o: m == "-" or (" " + m + " ") in (" " + o + " ") or all(t in o for t in m.split()) or "err=canceled" in o,
        rule="a case is a GetValue or SearchValue (quorum 0,1,2,K) on a scripted network whose responders hold valid "
             "records of several ranks, invalid, mis-keyed, empty-valued or no records, optionally a local record, with "
             "failing/silent peers, an arrival order and optional cancellation; the streamed values (resp. the final "
             "value / not-found) are compared with the model replaying the concrete release order; non-trivial = at "
             "least one valid and one rejected (invalid/mis-keyed/empty) record among the responders; distinct = case text",
        trusted=["test validator (rank-induced Select) stands for /pk and /ipns", "scripted MessageSender + simnet + synctest"],
        shards={"quick": 8, "thorough": 16},
    ),
    "C06": dict(
        pkg=".", test="TestVerifC06", model="C06", verdict="C06v", level="proof", diff_is_failure=True, also=["C16"],
        accept=lambda m, o: m == "-" or m == "recipients=*" or all((" " + t + " ") in (" " + o + " ") for t in m.split(" ")),
        rule="a case is a PutValue (valid/invalid value, optional better/worse local record), a Provide (classic or optimistic; "
             "advertised address classes with and without a filter, possibly none passing) or a value search on a scripted "
             "network with failing/unreachable/silent peers, an arrival order and optional cancellation; the multiset of "
             "PUT_VALUE / ADD_PROVIDER recipients with their payloads is compared with the publish plan of the model applied "
             "to the lookup result the lookup model computes from the concrete release log; non-trivial = faulty peers and "
             ">=3 events; distinct = case text",
        trusted=["scripted MessageSender + simnet + synctest", "the optimistic-provide stop rule (network size estimate) is not modelled: recipients of optimistic provides are checked by the verdict rules only"],
        shards={"quick": 8, "thorough": 16},
    ),
    "C15": dict(
        pkg="./dual", test="TestVerifC15", model="C15", verdict="C15v", level="proof", diff_is_failure=True, stateless=True,
        accept=lambda m, o: m == "-" or all((" " + t + " ") in (" " + o + " ") for t in m.split(" ")),
        rule="a case is one operation on a real dual.New DHT (one fake host, one scripted sender per inner DHT): Provide / "
             "PutValue / GetValue / FindPeer / FindProvidersAsync for every combination of WAN/LAN routing-table emptiness, "
             "per-DHT results and errors and arrival orders; a referral list learned by the WAN or LAN DHT; an ADD_PROVIDER "
             "served by the WAN or LAN DHT; the classification filters on one address. Addresses are drawn from every CIDR "
             "boundary +-1 of the go-multiaddr tables (also in IPv4-mapped IPv6 form), special names, relay-wrapped variants "
             "and random ones. Compared: which inner DHT saw which RPCs, ADD_PROVIDER payload addresses, returned value / "
             "addresses / providers, followed referrals and stored addresses; non-trivial = >=3 addresses or ids in the case; "
             "distinct = case text",
        trusted=["scripted MessageSender per inner DHT + simnet + synctest", "go-multiaddr CIDR tables transcribed by hand (compared on every run at each boundary)",
                 "FindProvidersAsync's provider shuffle and channel select are not modelled: the yielded set is compared when it is determined, its size always"],
        shards={"quick": 8, "thorough": 16},
    ),
    "C16": dict(
        pkg="./fullrt", test="TestVerifC16", model="C16", verdict="C16v", level="proof", diff_is_failure=False, stateless=True, also=["C16c", "C16s"],
        accept=lambda m, o: m == "-" or all((" " + t + " ") in (" " + o + " ") for t in m.split(" ")),
        rule="a case is one operation on a real NewFullRT client (fake host, a crawler that reports a generated peer set "
             "with 1-3 addresses per peer in shared IPv4 /16 groups and the unknown-ASN IPv6 group, public options only): "
             "GetClosestPeers for K in {1..8} and a configured limit in {0,1,2,3,default}; every single and bulk operation "
             "on an empty table and with values/providers disabled; GetValue through the crawled table with a local record "
             "that has expired since it was stored, invalid remote records and corrective puts; a crawl on a generated "
             "topology (sibling harness). Compared: the returned peers, error classes, returned value, corrective puts and "
             "the state of their context; non-trivial = >=4 crawled peers or an operation case; distinct = case text",
        trusted=["fake crawler + scripted MessageSender + simnet + synctest", "go-libp2p-xor ClosestN and kbucket IPGroupKey are dependencies (their answers are inputs of the case: groups are read back from the client)"],
        shards={"quick": 8, "thorough": 16},
    ),
    # sibling harness of C16: the real DefaultCrawler on generated topologies (not a property of its own)
    "C16c": dict(
        pkg="./crawler", test="TestVerifC16c", model="C16c", verdict="C16cv", level="proof", diff_is_failure=False, stateless=True,
        rule="a crawl of the real DefaultCrawler (scripted sender, parallelism 1/2/3/8) on a generated topology with failing, "
             "undialable and silent-list peers, seeds with duplicates and without addresses", trusted=[], shards={"quick": 4, "thorough": 16},
    ),
    # sibling harness of C16: closest-peers queries racing with the swap of a finished crawl (real clock, real goroutines)
    "C16s": dict(
        pkg="./fullrt", test="TestVerifC16s", model="C16s", level="proof", diff_is_failure=True, stateless=True,
        rule="readers call GetClosestPeers while an alternating crawler swaps two overlapping peer sets in back to back; every "
             "answer must be the K nearest of one of the two crawls", trusted=["timing decides whether a mixture is met; none can be reported falsely"],
        shards={"quick": 1, "thorough": 2}, gomaxprocs="16",
    ),
    "C11": dict(
        pkg="./internal/net", test="TestVerifC11", model="C11", verdict="C11v", level="proof", diff_is_failure=False,
        # a request that never returns keeps the bubble waiting in real time: cut short and reported with the executing case
        timeout={"quick": 120, "thorough": 900},
        rule="a case is a history of SendRequest / SendMessage / OnDisconnect calls and bursts of concurrent requests (NewStream held back "
             "until all callers are under way) to 1-3 peers on the real message sender over fake streams, against remotes scripted "
             "per request read: answer, reset, garbage, silence (read timeout in virtual time), EOF, NewStream failures, and "
             "cancellation while waiting; compared per call: the id echoed in the reply (or error class), streams opened, stream kept; "
             "non-trivial = >=2 fault scripts; distinct = case text",
        trusted=["simnet streams + synctest virtual time", "which concurrent caller wins the per-peer lock is not modelled in the driver (bursts run against healthy remotes); every interleaving is covered by the lock-protocol theorems"],
        shards={"quick": 8, "thorough": 16},
    ),
    "C12": dict(
        pkg=".", test="TestVerifC12", model="C12", verdict="C12v", level="proof", diff_is_failure=False, also=["C12r", "C11"],
        rule="a case is a history of identification-completed / protocols-updated events (protocol and routing-table filter set per "
             "peer), admission-probe outcomes (answer, empty answer, failure) and whole lookups with scripted per-peer outcomes "
             "(answer naming other peers, request failure, dial failure) and an optional cancellation after k outcomes, on a real "
             "IpfsDHT over the scripted network, below bucket capacity; RoutingTable().ListPeers() and the probes in flight are "
             "compared with the model after every event; refresh requests racing Close and liveness evictions run against the real "
             "RtRefreshManager (sibling harness); non-trivial = >=2 lookups; distinct = case text",
        trusted=["scripted MessageSender + simnet + synctest", "go-libp2p-kbucket TryAddPeer/RemovePeer (dependency; the table stays below bucket capacity)"],
        shards={"quick": 8, "thorough": 16},
    ),
    # sibling harness of C12: the real RtRefreshManager (not a property of its own)
    "C12r": dict(
        pkg="./rtrefresh", test="TestVerifC12r", model="C12r", verdict="C12rv", level="proof", diff_is_failure=False,
        accept=lambda m, o: m == "-" or all((" " + t + " ") in (" " + o + " ") for t in m.split(" ")),
        rule="refresh requests (forced or not), waits and Close on the real RtRefreshManager with members of different ages whose "
             "liveness probe answers, fails, hangs or cannot be dialled, and queries that succeed, fail or hang", trusted=[], shards={"quick": 4, "thorough": 16},
    ),
    "C05": dict(
        pkg=".", test="TestVerifC05", model="C05", verdict="C05v", level="proof", diff_is_failure=False,
        rule="a case seeds value records directly into the datastore (fresh, older than the maximum age, corrupt, filed under another key, "
             "rejected by the validator) and then runs 1-3 rounds of 2-4 concurrent callers — PUT_VALUE handler (message key equal to or "
             "different from the record key; better/equal/worse/invalid values), GET_VALUE handler, local PutValue — on a real IpfsDHT whose "
             "datastore grants one access at a time according to a generated schedule (which caller wins a stripe lock is decided by the Go "
             "runtime: the recorded access trace becomes part of the case); the model must accept the trace access by access (expected "
             "access, lock stripe free, value read = model store) and predict every caller's result and what a reader gets afterwards; "
             "non-trivial = every case; distinct = case text",
        trusted=["gate datastore over go-datastore MapDatastore (assumed linearizable per access)", "real clock: a caller that has not reached the datastore within 3 ms is treated as blocked on a lock (affects only which schedules are explored)"],
        shards={"quick": 8, "thorough": 16},
    ),
    "C20": dict(
        pkg="./provider/keystore", test="TestVerifC20", model="C20", verdict="C20v", level="proof", diff_is_failure=False,
        accept=lambda m, o: m == "-" or all((" " + t + " ") in (" " + o + " ") for t in m.split(" ")),
        rule="a case is a history on a real keystore (plain, resettable shared-datastore, resettable factory mode; prefixBits 8/16, batch "
             "sizes 1-100, reset buffer 1-100) over a journalling datastore: put (with repeated keys) / delete / get / count / contains "
             "for prefixes shorter and longer than the path / empty / size, datastore errors injected at the n-th call of an operation, "
             "clean restarts, crashes (reopen on the journal cut here, with and without the unsynced writes), and resets with puts issued "
             "when the reset is about to make its n-th datastore call, with an injected error, a cancellation or a Close at such a "
             "point; after a reset the keystore is reopened on cuts of that reset's stretch of the journal (sampled + the last ten "
             "positions; every position in the thorough tier's small cases); non-trivial = every case; distinct = case text",
        trusted=["journalling datastore (batch commits atomic; a crash keeps an in-order prefix of the journal, and optionally only what a later Sync of a covering prefix on the same physical store made durable)", "synctest virtual time for the reset's drain ticker"],
        shards={"quick": 8, "thorough": 16},
    ),
    "C17": dict(
        pkg="./provider", test="TestVerifC17", model="C17", verdict="C17v", level="other", diff_is_failure=False, also=["C17u"],
        accept=lambda m, o: m == "-" or all((" " + t + " ") in (" " + o + " ") for t in m.split(" ")),
        rule="a case is a multi-cycle history on a real SweepingProvider (optionally behind the buffered wrapper; worker configurations "
             "default/1/2/8; replication factor 2-4) in virtual time over a simulated swarm of 3-32 peers with a closest-peers router and a "
             "recording sender: start (forced or not) / stop / provide-once, batches of such operations issued back to back, swarm growth "
             "and shrinkage, outages with work issued meanwhile, restarts on the same datastore at arbitrary moments of the cycle, single "
             "keys started at arbitrary moments, and windows of one or two reprovide intervals plus the allowed delay; compared: the keys the keystore holds after every line (reprovide-set model); monitored on "
             "the sender's log: every kept key re-advertised to all its r nearest peers in every online window, in strict scenarios no two consecutive "
             "advertisements of a kept key more than interval + delay + 300 s apart (virtual send instants), provided keys advertised "
             "at once, stopped and provide-once keys absent from later windows, payload = local peer + current address; non-trivial = "
             "every case; distinct = case text",
        trusted=["synctest virtual time; fake closest-peers router that answers with the true nearest peers of the current swarm; recording message sender"],
        shards={"quick": 8, "thorough": 16},
        explanation="partial: the cycle arithmetic and the buffered coalescing are Lean theorems; the end-to-end obligation (every kept key "
                    "re-advertised to its then-nearest r peers once per interval + delay through splits, merges, outages and restarts) is "
                    "monitored on generated histories, not proved",
    ),
    "C14": dict(
        pkg=".", test="TestVerifC14", model="C14", verdict="C14v", level="other", diff_is_failure=False, stateless=True,
        accept=lambda m, o: m == "-" or m == o,
        also=["C14d", "C14f", "C14p", "C14k", "C14w", "C20", "C12r", "C07"],
        rule="a case builds a component in a synctest bubble, starts 1-3 operations (closest peers / get / search / put / provide / find "
             "providers / forced refresh) on a scripted network, answers 0-11 of their requests, then calls Close (once or twice "
             "concurrently) while the rest is outstanding; or makes a constructor fail after it has started background work. Required: "
             "every operation returns, every Close returns, a repeated Close is harmless, no panic, the emitter of the host's event bus is "
             "not blocked by a left-over subscription, and the bubble ends with no goroutine still blocked. Sibling harnesses do the same "
             "for the dual DHT, the accelerated client, the sweeping provider (with the buffered wrapper), the keystores (Close during a "
             "reset, C20 harness), the refresh manager (C12r) and the provider store (C07); non-trivial = every case",
        trusted=["testing/synctest: a goroutine that is still blocked when the bubble's root returns is reported; scripted sender + simnet"],
        shards={"quick": 8, "thorough": 16},
        explanation="partial: goroutine exit is observed on the sampled instants, not proved; the shutdown protocol of the wait-group guard is a Lean theorem",
    ),
    # sibling harnesses of C14 (not properties of their own)
    "C14d": dict(pkg="./dual", test="TestVerifC14d", model="C14", verdict="C14v", level="other", diff_is_failure=False, stateless=True,
                 accept=lambda m, o: m == "-" or m == o, rule="Close of the dual DHT with operations in flight; LAN construction failing after the WAN DHT was started", trusted=[], shards={"quick": 4, "thorough": 8}),
    "C14f": dict(pkg="./fullrt", test="TestVerifC14f", model="C14", verdict="C14v", level="other", diff_is_failure=False, stateless=True,
                 accept=lambda m, o: m == "-" or m == o, rule="Close of the accelerated client with operations in flight; NewFullRT failing in the provider manager option", trusted=[], shards={"quick": 4, "thorough": 8}),
    # sibling harness of C14: Close called concurrently on fresh keystores (real clock, real goroutines)
    "C14k": dict(pkg="./provider/keystore", test="TestVerifC14k", model="C14k", level="other", diff_is_failure=True, stateless=True,
                 rule="several goroutines call Close on a fresh keystore (plain / resettable) at the same moment, tens of thousands of rounds; "
                      "none may panic", trusted=["timing decides whether a panic is met; none can be reported falsely"],
                 shards={"quick": 2, "thorough": 4}, gomaxprocs="8"),
    "C14w": dict(pkg="./provider/dual", test="TestVerifC14w", model="C14w", level="other", diff_is_failure=True, stateless=True,
                 rule="Close of the dual sweeping-provider wrapper over two real providers, each of which may fail its last write at Close "
                      "and / or be held inside it: Close returns only when both have finished, with an error iff one of them failed",
                 trusted=["synctest"], shards={"quick": 2, "thorough": 4}, timeout={"quick": 120, "thorough": 600}),
    # sibling harness of C17: the scheduling functions and the reprovide history called directly (not a property of its own)
    "C17u": dict(pkg="./provider", test="TestVerifC17u", model="C17u", level="other", diff_is_failure=True,
                 rule="a case is a sequence of schedulePrefixNoLock / unscheduleSubsumedPrefixesNoLock calls at arbitrary offsets of the cycle, "
                      "reprovideTimeForPrefix and timeBetween evaluations, persisted reprovides, sleeps and loadRecentlyReprovidedRegions "
                      "calls on a provider that holds only the scheduling state; the schedule's entries (prefix, slot) and the set of "
                      "recently reprovided regions are compared with the model after every call",
                 trusted=["synctest virtual clock; go-datastore map datastore"], shards={"quick": 4, "thorough": 8}),
    "C14p": dict(pkg="./provider", test="TestVerifC14p", model="C14", verdict="C14v", level="other", diff_is_failure=False, stateless=True,
                 accept=lambda m, o: m == "-" or m == o, rule="Close of the sweeping provider / buffered wrapper when idle, mid-cycle, with sends hanging (few or many recipients, 1-2 connections per worker), and offline", trusted=[], shards={"quick": 4, "thorough": 8},
                 # a Close that hangs behind a sync.Once cannot be seen by the bubble (a goroutine parked on a mutex is not durably
                 # blocked): the run is then cut short and reported as a crash with the case that was executing
                 timeout={"quick": 120, "thorough": 900}),
    "C08": dict(
        pkg=".", test="TestVerifC08", model="C08", verdict="C08v", level="proof", diff_is_failure=True, also=["C15", "C03", "C16"],
        accept=lambda m, o: m == "-" or m == "pseq=*" or (" " + m + " ") in (" " + o + " "),
        rule="a case is a FindProviders / FindProvidersAsync (count 0,1,2,3,K) on a scripted network whose responders name "
             "overlapping provider sets with and without addresses, optionally local provider records, failing/silent "
             "peers, an arrival order and optional cancellation; the exact sequence of yielded providers is compared "
             "with the model replaying the concrete release order (provider shuffle replaced by the identity), and the "
             "bound / soundness / repeat rules are evaluated on the real sequence; non-trivial = faulty peers and >=3 "
             "events; distinct = case text",
        trusted=["scripted MessageSender + simnet + synctest", "the provider shuffle is replaced by the identity in the harness"],
        shards={"quick": 8, "thorough": 16},
    ),
}

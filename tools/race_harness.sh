#!/bin/sh
# tools/race_harness.sh [N] : build every correspondence harness with the race detector and run a short quick run of each.
# A data race inside a harness is a bug of the machinery (it can kill a run under load); a race inside /repo is worth a look.
N=${1:-150}
cd /repo || exit 2
python3 - <<'PY' > /tmp/race-list.txt
import sys
sys.path.insert(0,'/verif/tools')
from props import PROPS
for k,v in PROPS.items():
    if v.get('pkg'): print(k, v['pkg'], v['test'])
PY
mkdir -p /verif/out/race
while read id pkg test; do
  out=/verif/out/race/$id
  rm -rf $out; mkdir -p $out
  VERIF_OUT=$out VERIF_SEED=1 VERIF_TIER=quick VERIF_SHARD=0/1 VERIF_N=$N GOPROXY=off \
    go test -race -tags verif -overlay /verif/out/overlay.json -vet=off -count=1 -timeout 20m -run "^$test\$" ./${pkg#./} > $out/log.txt 2>&1
  rc=$?
  races=$(grep -c "WARNING: DATA RACE" $out/log.txt)
  echo "$id exit=$rc races=$races"
done < /tmp/race-list.txt

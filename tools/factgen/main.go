// factgen re-reads constants and decision tables from the Go source of /repo (go/ast only, no type
// checking) and writes them as Lean definitions. The property theorems import the generated file, so
// every `lake build` re-checks them against what the code says now.
package main

import (
	"flag"
	"fmt"
	"go/ast"
	"go/parser"
	"go/token"
	"os"
	"path/filepath"
	"sort"
	"strconv"
	"strings"
)

var fset = token.NewFileSet()

func parse(repo, rel string) *ast.File {
	f, err := parser.ParseFile(fset, filepath.Join(repo, rel), nil, parser.ParseComments)
	if err != nil {
		fmt.Fprintln(os.Stderr, "factgen:", err)
		return nil
	}
	return f
}

// evalInt evaluates integer constant expressions made of literals, + - * / << and parentheses,
// with `env` for named constants (time units are given in nanoseconds).
func evalInt(e ast.Expr, env map[string]int64) (int64, bool) {
	switch x := e.(type) {
	case *ast.BasicLit:
		if x.Kind == token.INT {
			v, err := strconv.ParseInt(strings.ReplaceAll(x.Value, "_", ""), 0, 64)
			return v, err == nil
		}
	case *ast.ParenExpr:
		return evalInt(x.X, env)
	case *ast.Ident:
		v, ok := env[x.Name]
		return v, ok
	case *ast.SelectorExpr:
		if id, ok := x.X.(*ast.Ident); ok {
			v, ok := env[id.Name+"."+x.Sel.Name]
			return v, ok
		}
	case *ast.BinaryExpr:
		a, ok1 := evalInt(x.X, env)
		b, ok2 := evalInt(x.Y, env)
		if !ok1 || !ok2 {
			return 0, false
		}
		switch x.Op {
		case token.ADD:
			return a + b, true
		case token.SUB:
			return a - b, true
		case token.MUL:
			return a * b, true
		case token.QUO:
			if b == 0 {
				return 0, false
			}
			return a / b, true
		case token.SHL:
			return a << uint(b), true
		}
	case *ast.CallExpr: // conversions such as byte(1), time.Duration(x)
		if len(x.Args) == 1 {
			return evalInt(x.Args[0], env)
		}
	}
	return 0, false
}

var timeEnv = map[string]int64{
	"time.Nanosecond": 1, "time.Microsecond": 1e3, "time.Millisecond": 1e6, "time.Second": 1e9,
	"time.Minute": 60e9, "time.Hour": 3600e9,
}

// constValue finds `name = <expr>` in a const or var declaration of the file.
func constValue(f *ast.File, name string, env map[string]int64) (int64, bool) {
	if f == nil {
		return 0, false
	}
	for _, d := range f.Decls {
		gd, ok := d.(*ast.GenDecl)
		if !ok || (gd.Tok != token.CONST && gd.Tok != token.VAR) {
			continue
		}
		for _, s := range gd.Specs {
			vs := s.(*ast.ValueSpec)
			for i, n := range vs.Names {
				if n.Name == name && i < len(vs.Values) {
					return evalInt(vs.Values[i], env)
				}
			}
		}
	}
	return 0, false
}

func funcDecl(f *ast.File, name string) *ast.FuncDecl {
	if f == nil {
		return nil
	}
	for _, d := range f.Decls {
		if fd, ok := d.(*ast.FuncDecl); ok && fd.Name.Name == name {
			return fd
		}
	}
	return nil
}

func exprString(e ast.Expr) string {
	switch x := e.(type) {
	case *ast.Ident:
		return x.Name
	case *ast.SelectorExpr:
		return exprString(x.X) + "." + x.Sel.Name
	case *ast.BasicLit:
		return x.Value
	case *ast.CallExpr:
		var as []string
		for _, a := range x.Args {
			as = append(as, exprString(a))
		}
		return exprString(x.Fun) + "(" + strings.Join(as, ",") + ")"
	case *ast.BinaryExpr:
		return exprString(x.X) + x.Op.String() + exprString(x.Y)
	case *ast.UnaryExpr:
		return x.Op.String() + exprString(x.X)
	case *ast.ParenExpr:
		return "(" + exprString(x.X) + ")"
	case *ast.StarExpr:
		return "*" + exprString(x.X)
	case *ast.IndexExpr:
		return exprString(x.X) + "[" + exprString(x.Index) + "]"
	}
	return fmt.Sprintf("<%T>", e)
}

type out struct {
	b    strings.Builder
	miss []string
}

func (o *out) nat(name string, v int64, ok bool, src string) {
	if !ok {
		o.miss = append(o.miss, name)
		fmt.Fprintf(&o.b, "/-- NOT FOUND in %s: the expression moved or changed shape -/\ndef %s : Option Nat := none\n\n", src, name)
		return
	}
	fmt.Fprintf(&o.b, "/-- %s -/\ndef %s : Option Nat := some %d\n\n", src, name, v)
}

func (o *out) strs(name string, vs []string, src string) {
	q := make([]string, len(vs))
	for i, v := range vs {
		q[i] = strconv.Quote(v)
	}
	fmt.Fprintf(&o.b, "/-- %s -/\ndef %s : List String := [%s]\n\n", src, name, strings.Join(q, ", "))
}

// keyLenLimit finds `len(key) > N` inside the named function.
func keyLenLimit(fd *ast.FuncDecl) (int64, bool) {
	var v int64
	found := false
	if fd == nil {
		return 0, false
	}
	ast.Inspect(fd.Body, func(n ast.Node) bool {
		be, ok := n.(*ast.BinaryExpr)
		if !ok || be.Op != token.GTR {
			return true
		}
		if ce, ok := be.X.(*ast.CallExpr); ok && exprString(ce.Fun) == "len" && len(ce.Args) == 1 && exprString(ce.Args[0]) == "key" {
			if x, ok := evalInt(be.Y, nil); ok && !found {
				v, found = x, true
			}
		}
		return true
	})
	return v, found
}

// dispatch flattens handlerForMsgType into "guard|case|handler" rows.
func dispatch(fd *ast.FuncDecl) []string {
	var rows []string
	if fd == nil {
		return rows
	}
	var walk func(stmts []ast.Stmt, guard string)
	walk = func(stmts []ast.Stmt, guard string) {
		for _, st := range stmts {
			switch s := st.(type) {
			case *ast.SwitchStmt:
				for _, cc := range s.Body.List {
					c := cc.(*ast.CaseClause)
					for _, e := range c.List {
						for _, b := range c.Body {
							if r, ok := b.(*ast.ReturnStmt); ok && len(r.Results) == 1 {
								rows = append(rows, guard+"|"+exprString(e)+"|"+exprString(r.Results[0]))
							}
						}
					}
				}
			case *ast.IfStmt:
				walk(s.Body.List, exprString(s.Cond))
			case *ast.ReturnStmt:
				if len(s.Results) == 1 {
					rows = append(rows, guard+"|default|"+exprString(s.Results[0]))
				}
			}
		}
	}
	walk(fd.Body.List, "")
	return rows
}

// switchTable renders every `case X: ... target = Y` / nested if of a switch on `tag` into rows.
func assignTable(fd *ast.FuncDecl, lhs string) []string {
	var rows []string
	if fd == nil {
		return rows
	}
	var walk func(n ast.Node, path string)
	walk = func(n ast.Node, path string) {
		switch s := n.(type) {
		case *ast.BlockStmt:
			for _, st := range s.List {
				walk(st, path)
			}
		case *ast.SwitchStmt:
			for _, cc := range s.Body.List {
				c := cc.(*ast.CaseClause)
				var labels []string
				for _, e := range c.List {
					labels = append(labels, exprString(e))
				}
				if len(labels) == 0 {
					labels = []string{"default"}
				}
				for _, st := range c.Body {
					walk(st, path+"case "+strings.Join(labels, ",")+";")
				}
			}
		case *ast.IfStmt:
			walk(s.Body, path+"if "+exprString(s.Cond)+";")
			if s.Else != nil {
				walk(s.Else, path+"else;")
			}
		case *ast.AssignStmt:
			if len(s.Lhs) == 1 && exprString(s.Lhs[0]) == lhs && len(s.Rhs) == 1 {
				rows = append(rows, path+"=>"+exprString(s.Rhs[0]))
			}
		}
	}
	walk(fd.Body, "")
	return rows
}

// ifConds lists the conditions of the if statements of a function, in source order.
func ifConds(fd *ast.FuncDecl) []string {
	var out []string
	if fd == nil || fd.Body == nil {
		return out
	}
	ast.Inspect(fd.Body, func(n ast.Node) bool {
		if s, ok := n.(*ast.IfStmt); ok {
			out = append(out, exprString(s.Cond))
		}
		return true
	})
	return out
}

func main() {
	repo := flag.String("repo", "/repo", "repository root")
	outp := flag.String("out", "Facts.lean", "output file")
	flag.Parse()
	o := &out{}
	o.b.WriteString("/-\n  GENERATED by /verif/tools/factgen from the Go source on every check run. Do not edit.\n-/\nnamespace KadDHT.Facts\n\n")

	pbmsg := parse(*repo, "pb/message.go")
	v, ok := constValue(pbmsg, "MaxPeerRecordSize", nil)
	o.nat("maxPeerRecordSize", v, ok, "pb/message.go const MaxPeerRecordSize")

	handlers := parse(*repo, "handlers.go")
	v, ok = keyLenLimit(funcDecl(handlers, "handleAddProvider"))
	o.nat("addProviderMaxKeyLen", v, ok, "handlers.go handleAddProvider: len(key) > N")
	v, ok = keyLenLimit(funcDecl(handlers, "handleGetProviders"))
	o.nat("getProvidersMaxKeyLen", v, ok, "handlers.go handleGetProviders: len(key) > N")
	o.strs("dispatchTable", dispatch(funcDecl(handlers, "handlerForMsgType")), "handlers.go handlerForMsgType: guard|case|handler")

	dhtnet := parse(*repo, "dht_net.go")
	v, ok = constValue(dhtnet, "dhtStreamIdleTimeout", timeEnv)
	o.nat("streamIdleTimeoutNs", v, ok, "dht_net.go var dhtStreamIdleTimeout")

	amino := parse(*repo, "amino/defaults.go")
	for _, c := range [][2]string{{"DefaultBucketSize", "aminoBucketSize"}, {"DefaultConcurrency", "aminoConcurrency"}, {"DefaultResiliency", "aminoResiliency"}} {
		v, ok = constValue(amino, c[0], nil)
		o.nat(c[1], v, ok, "amino/defaults.go "+c[0])
	}

	sub := parse(*repo, "subscriber_notifee.go")
	o.strs("reachabilityTable", assignTable(funcDecl(sub, "handleLocalReachabilityChangedEvent"), "target"),
		"subscriber_notifee.go handleLocalReachabilityChangedEvent: path => target")
	dht := parse(*repo, "dht.go")
	o.strs("initialModeTable", assignTable(funcDecl(dht, "New"), "dht.mode"), "dht.go New: path => dht.mode")

	msg := parse(*repo, "pb/message.go")
	var conn []string
	if fd := funcDecl(msg, "ConnectionType"); fd != nil {
		ast.Inspect(fd.Body, func(n ast.Node) bool {
			if c, ok := n.(*ast.CaseClause); ok {
				var labels []string
				for _, e := range c.List {
					labels = append(labels, exprString(e))
				}
				if len(labels) == 0 {
					labels = []string{"default"}
				}
				for _, st := range c.Body {
					if r, ok := st.(*ast.ReturnStmt); ok && len(r.Results) == 1 {
						conn = append(conn, strings.Join(labels, ",")+"=>"+exprString(r.Results[0]))
					}
				}
			}
			return true
		})
	}
	sort.Strings(conn)
	o.strs("connectionTypeTable", conn, "pb/message.go ConnectionType")

	prov := parse(*repo, "provider/provider.go")
	o.strs("loadRecentConds", ifConds(funcDecl(prov, "loadRecentlyReprovidedRegions")), "provider/provider.go loadRecentlyReprovidedRegions: if conditions")
	o.strs("schedulePrefixConds", ifConds(funcDecl(prov, "schedulePrefixNoLock")), "provider/provider.go schedulePrefixNoLock: if conditions")
	o.strs("individualProvideConds", ifConds(funcDecl(prov, "individualProvide")), "provider/provider.go individualProvide: if conditions")

	o.strs("notFound", o.miss, "facts whose source expression was not found")
	o.b.WriteString("end KadDHT.Facts\n")
	if err := os.WriteFile(*outp, []byte(o.b.String()), 0o644); err != nil {
		fmt.Fprintln(os.Stderr, err)
		os.Exit(1)
	}
}

module verif/factgen

go 1.23

#!/bin/sh
# run every registered check (quick tier by default) and summarise
cd /verif
tier=${1:-quick}
for p in $(python3 -c "import json;print(' '.join(c['property_id'] for c in json.load(open('MANIFEST.json'))['checks']))"); do
  ./check $p --tier $tier > out/runall-$p.log 2>&1; echo "$p exit=$? $(tail -1 out/runall-$p.log | cut -c1-150)"
done

#!/bin/sh
# tools/seeded.sh <dir with patch.diff> <prop> : run the quick check of <prop> against /repo's HEAD with a seeded change.
# By default the change is applied to a scratch worktree of /repo (outside /repo and /verif, removed afterwards) and the
# check is pointed at it with VERIF_REPO, so that neither /repo nor anything else reading it is disturbed.
# INPLACE=1 applies it to /repo itself and undoes it straight afterwards.
# FAST=1 skips the Lean phase (only for changes that cannot touch an extracted fact).
d="$(cd "$1" && pwd)"; prop="$2"
extra=""; [ -n "$FAST" ] && extra="--skip-lean"
log="/verif/out/seeded-$prop-$(basename $d).log"
mkdir -p /verif/out
if [ -n "$INPLACE" ]; then
  cd /repo || exit 2
  git apply --check "$d/patch.diff" || { echo "patch does not apply"; exit 2; }
  git apply "$d/patch.diff"
  (cd /verif && ./check "$prop" --tier quick $extra > "$log" 2>&1; echo "exit=$?" >> "$log")
  git -C /repo checkout -- .
  git -C /repo status --short | grep -v '^??'
else
  wt="/tmp/seedwt-$$"
  git -C /repo worktree remove --force "$wt" >/dev/null 2>&1
  git -C /repo worktree add -q --detach "$wt" HEAD || exit 2
  if ! git -C "$wt" apply "$d/patch.diff"; then echo "patch does not apply"; git -C /repo worktree remove --force "$wt"; exit 2; fi
  (cd /verif && VERIF_REPO="$wt" ./check "$prop" --tier quick $extra > "$log" 2>&1; echo "exit=$?" >> "$log")
  git -C /repo worktree remove --force "$wt"; rm -rf "$wt"
fi
tail -4 "$log"

#!/bin/sh
# tools/seeded.sh <dir with patch.diff> <prop> : apply a seeded change to /repo, run the quick check, undo.
# FAST=1 skips the Lean phase (only for changes that cannot touch an extracted fact).
d="$(cd "$1" && pwd)"; prop="$2"
extra=""; [ -n "$FAST" ] && extra="--skip-lean"
cd /repo || exit 2
git apply --check "$d/patch.diff" || { echo "patch does not apply"; exit 2; }
git apply "$d/patch.diff"
(cd /verif && ./check "$prop" --tier quick $extra > "out/seeded-$prop-$(basename $d).log" 2>&1; echo "exit=$?" >> "out/seeded-$prop-$(basename $d).log")
git -C /repo checkout -- .
git -C /repo status --short | grep -v '^??' 
tail -4 "/verif/out/seeded-$prop-$(basename $d).log"

#!/bin/sh
# tools/seeded.sh <dir with patch.diff> <prop> : apply a seeded change to /repo, run the quick check, undo.
d="$1"; prop="$2"
cd /repo || exit 2
git apply --check "$d/patch.diff" || { echo "patch does not apply"; exit 2; }
git apply "$d/patch.diff"
(cd /verif && ./check "$prop" --tier quick > "out/seeded-$prop-$(basename $d).log" 2>&1; echo "exit=$?" >> "out/seeded-$prop-$(basename $d).log")
git -C /repo checkout -- .
git -C /repo status --short | grep -v '^??' 
tail -4 "/verif/out/seeded-$prop-$(basename $d).log"

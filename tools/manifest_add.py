#!/usr/bin/env python3
"""manifest_add.py <prop> <category> <technique> <<< JSON {"text":..., "note":..., "ref":...}  — add/replace a check in MANIFEST.json"""
import json, sys
pid, cat, tech = sys.argv[1], sys.argv[2], sys.argv[3]
d = json.load(sys.stdin)
m = json.load(open('/verif/MANIFEST.json'))
chk = {"property_id": pid, "quick_cmd": "./check %s --tier quick" % pid, "thorough_cmd": "./check %s --tier thorough" % pid,
       "evidence_file": "evidence/%s.json" % pid, "replay_cmd_template": "./check %s --replay {path}" % pid,
       "engine": "lean-kaddht",
       "level_claimed": {"category": cat, "text": d["text"], "design_ref": d.get("ref", "DESIGN.md §4 " + pid)},
       "level_note": d["note"], "technique": tech}
m["checks"] = sorted([c for c in m["checks"] if c["property_id"] != pid] + [chk], key=lambda c: c["property_id"])
m["not_applicable"] = [x for x in m.get("not_applicable", []) if x["property_id"] != pid]
for e in m["engines"]:
    e["serves_properties"] = sorted(set(e["serves_properties"]) | {pid})
json.dump(m, open('/verif/MANIFEST.json', 'w'), indent=1)
print("ok", pid)

//go:build verif

package fullrt

// C16 (sibling C16s): closest-peers queries racing with the swap of a finished crawl. Real clock, real goroutines.
//
// The crawler alternates between two overlapping peer sets A and B and crawls back to back while reader goroutines call
// GetClosestPeers. With the diversity filter off, every answer must be exactly the K nearest peers of ONE crawl: of A or
// of B. An answer computed from the trie of one crawl and the key->peer map of the other is neither.
// This can only ever report a real mixture; that it finds one within the given number of crawls is a matter of timing.

import (
	"context"
	"fmt"
	"strconv"
	"strings"
	"sync"
	"sync/atomic"
	"testing"
	"time"

	record "github.com/libp2p/go-libp2p-record"
	kb "github.com/libp2p/go-libp2p-kbucket"
	"github.com/libp2p/go-libp2p/core/host"
	"github.com/libp2p/go-libp2p/core/protocol"
	mh "github.com/multiformats/go-multihash"
	pb "github.com/libp2p/go-libp2p-kad-dht/pb"
	"github.com/libp2p/go-libp2p/core/network"
	"github.com/libp2p/go-libp2p/core/peer"
	ma "github.com/multiformats/go-multiaddr"

	kaddht "github.com/libp2p/go-libp2p-kad-dht"
	"github.com/libp2p/go-libp2p-kad-dht/crawler"
	"github.com/libp2p/go-libp2p-kad-dht/internal/simnet"
	vu "github.com/libp2p/go-libp2p-kad-dht/internal/verifutil"
)

type altCrawler struct {
	h    *simnet.Host
	sets [2]map[peer.ID][]ma.Multiaddr
	runs atomic.Int64
}

func (c *altCrawler) Run(ctx context.Context, seeds []*peer.AddrInfo, ok crawler.HandleQueryResult, fail crawler.HandleQueryFail) {
	n := c.runs.Add(1)
	for p := range c.sets[n%2] {
		ok(p, nil)
	}
}

func nearestK(ps []peer.ID, key string, k int) string {
	s := kb.SortClosestPeers(append([]peer.ID(nil), ps...), kb.ConvertKey(key))
	if len(s) > k {
		s = s[:k]
	}
	var ss []string
	for _, p := range s {
		ss = append(ss, string(p))
	}
	return strings.Join(ss, ",")
}

func short(s string) string { return strings.ReplaceAll(strings.ReplaceAll(s, "verif-peer-", ""), "000000000000000000000000", "") }

func runSwapRace(c *vu.Case) {
	a := fkv(c.In[0])
	crawls, _ := strconv.Atoi(a["crawls"])
	readers, _ := strconv.Atoi(a["readers"])
	K, _ := strconv.Atoi(a["K"])
	n, _ := strconv.Atoi(a["n"])
	h := simnet.NewHost(fPeer(1000000))
	addr, _ := ma.NewMultiaddr("/ip4/8.8.8.8/tcp/4001")
	h.SetAddrs([]ma.Multiaddr{addr})
	cr := &altCrawler{h: h, sets: [2]map[peer.ID][]ma.Multiaddr{{}, {}}}
	var setA, setB []peer.ID
	for i := 0; i < n; i++ {
		p := fPeer(i + 1)
		addrs := []ma.Multiaddr{groupAddr(byte('a'+i%20), i+1)}
		h.Net().AddConn(p, network.DirOutbound, addrs[0])
		h.Peerstore().AddAddrs(p, addrs, time.Hour)
		// A = the first two thirds, B = the last two thirds: they share the middle third
		if i < 2*n/3 {
			cr.sets[0][p] = addrs
			setA = append(setA, p)
		}
		if i >= n/3 {
			cr.sets[1][p] = addrs
			setB = append(setB, p)
		}
	}
	d, err := NewFullRT(h, "/verif", WithCrawler(cr), WithIPDiversityFilterLimit(0),
		DHTOption(kaddht.BucketSize(K), kaddht.BootstrapPeers()))
	if err != nil {
		panic(err)
	}
	defer d.Close()
	ctx := context.Background()
	for i := 0; i < 2000 && !d.Ready(); i++ {
		time.Sleep(time.Millisecond)
	}
	var keys []string
	expA, expB := map[string]string{}, map[string]string{}
	for i := 0; i < 16; i++ {
		k := fmt.Sprintf("swap-key-%d", i)
		keys = append(keys, k)
		expA[k], expB[k] = nearestK(setA, k, K), nearestK(setB, k, K)
	}
	var calls, mixed atomic.Int64
	var first atomic.Value
	stop := make(chan struct{})
	var wg sync.WaitGroup
	for r := 0; r < readers; r++ {
		wg.Add(1)
		go func(r int) {
			defer wg.Done()
			for i := r; ; i++ {
				select {
				case <-stop:
					return
				default:
				}
				k := keys[i%len(keys)]
				ps, err := d.GetClosestPeers(ctx, k)
				calls.Add(1)
				var ss []string
				for _, p := range ps {
					ss = append(ss, string(p))
				}
				got := strings.Join(ss, ",")
				if err != nil || (got != expA[k] && got != expB[k]) {
					if mixed.Add(1) == 1 {
						first.Store(fmt.Sprintf("key=%s got=%d peers: %s | nearest of A: %s | nearest of B: %s", k, len(ps), short(got), short(expA[k]), short(expB[k])))
					}
				}
			}
		}(r)
	}
	for i := 0; i < crawls; i++ {
		if err := d.TriggerRefresh(ctx); err != nil {
			break
		}
	}
	close(stop)
	wg.Wait()
	out := fmt.Sprintf("mixed=%d", min(mixed.Load(), 1))
	c.Tag(fmt.Sprintf("mixed-answers-%d", mixed.Load()))
	c.Out = append(c.Out, out)
	if f, ok := first.Load().(string); ok {
		c.Out[0] += " first:" + strings.ReplaceAll(f, " ", "_")
	}
	c.Tag("nontrivial")
	c.Tag(fmt.Sprintf("calls>=%dk", calls.Load()/1000/100*100))
}

// bulkrace: the crawler alternates between a peer set and an EMPTY result while goroutines run the bulk operations
// (PutMany / ProvideMany): every call returns — an error when it meets the empty table — and none panics.
func runBulkRace(c *vu.Case) {
	a := fkv(c.In[0])
	crawls, _ := strconv.Atoi(a["crawls"])
	workers, _ := strconv.Atoi(a["workers"])
	n, _ := strconv.Atoi(a["n"])
	h := simnet.NewHost(fPeer(1000000))
	addr, _ := ma.NewMultiaddr("/ip4/8.8.8.8/tcp/4001")
	h.SetAddrs([]ma.Multiaddr{addr})
	cr := &altCrawler{h: h, sets: [2]map[peer.ID][]ma.Multiaddr{{}, {}}}
	for i := 0; i < n; i++ {
		p := fPeer(i + 1)
		addrs := []ma.Multiaddr{groupAddr(byte('a'+i%20), i+1)}
		h.Net().AddConn(p, network.DirOutbound, addrs[0])
		h.Peerstore().AddAddrs(p, addrs, time.Hour)
		cr.sets[0][p] = addrs // sets[1] stays empty: a crawl that reached nobody
	}
	sender := &simnet.Sender{Name: "b"}
	sender.Auto = func(pk *simnet.Parked) (simnet.Result, bool) { return simnet.Result{Err: simnet.ErrScripted}, true }
	d, err := NewFullRT(h, "/verif", WithCrawler(cr), WithIPDiversityFilterLimit(0),
		DHTOption(kaddht.BucketSize(3), kaddht.BootstrapPeers(), kaddht.Validator(record.NamespacedValidator{"v": fValidator{new(bool)}}),
			kaddht.WithCustomMessageSender(func(h host.Host, protos []protocol.ID) pb.MessageSenderWithDisconnect { return sender })))
	if err != nil {
		panic(err)
	}
	defer d.Close()
	ctx := context.Background()
	var calls, panics atomic.Int64
	var first atomic.Value
	stop := make(chan struct{})
	var wg sync.WaitGroup
	for r := 0; r < workers; r++ {
		wg.Add(1)
		go func(r int) {
			defer wg.Done()
			for i := 0; ; i++ {
				select {
				case <-stop:
					return
				default:
				}
				func() {
					defer func() {
						if x := recover(); x != nil {
							if panics.Add(1) == 1 {
								first.Store(fmt.Sprint(x))
							}
						}
					}()
					cctx, cancel := context.WithTimeout(ctx, 50*time.Millisecond)
					defer cancel()
					if (r+i)%2 == 0 {
						keyMH, _ := mh.Sum([]byte(fmt.Sprintf("bulk-%d-%d", r, i%7)), mh.SHA2_256, -1)
						_ = d.ProvideMany(cctx, []mh.Multihash{keyMH})
					} else {
						_ = d.PutMany(cctx, []string{fmt.Sprintf("/v/bulk-%d-%d", r, i%7)}, [][]byte{[]byte("1:ok")})
					}
					calls.Add(1)
				}()
			}
		}(r)
	}
	for i := 0; i < crawls; i++ {
		if err := d.TriggerRefresh(ctx); err != nil {
			break
		}
	}
	close(stop)
	wg.Wait()
	c.Out = append(c.Out, fmt.Sprintf("panics=%d", min(panics.Load(), 1)))
	if f, ok := first.Load().(string); ok {
		c.Out[0] += " first:" + strings.ReplaceAll(f, " ", "_")
	}
	c.Tag("nontrivial")
	c.Tag(fmt.Sprintf("bulkcalls>=%dk", calls.Load()/1000/10*10))
}

func TestVerifC16s(t *testing.T) {
	vu.Run(t, vu.Config{Prop: "C16s", QuickN: 4, ThoroughN: 40,
		Gen: func(r *vu.RNG, c *vu.Case) bool {
			crawls := 6000
			if c.Tier == "thorough" {
				crawls = 30000
			}
			if c.Idx%2 == 1 {
				c.In = append(c.In, fmt.Sprintf("bulkrace crawls=%d workers=%d n=%d", crawls, []int{8, 12}[r.Intn(2)], []int{10, 30}[r.Intn(2)]))
				return true
			}
			c.In = append(c.In, fmt.Sprintf("swaprace crawls=%d readers=%d K=%d n=%d", crawls, []int{8, 12, 16}[r.Intn(3)], []int{3, 5, 8}[r.Intn(3)], []int{30, 45, 60}[r.Intn(3)]))
			return true
		},
		Exec: func(c *vu.Case) {
			if strings.HasPrefix(c.In[0], "bulkrace") {
				runBulkRace(c)
			} else {
				runSwapRace(c)
			}
		}})
}

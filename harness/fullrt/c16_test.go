//go:build verif

package fullrt

import (
	"context"
	"errors"
	"fmt"
	"sort"
	"strconv"
	"strings"
	"sync"
	"sync/atomic"
	"testing"
	"testing/synctest"
	"time"

	"github.com/ipfs/go-cid"
	record "github.com/libp2p/go-libp2p-record"
	recpb "github.com/libp2p/go-libp2p-record/pb"
	kb "github.com/libp2p/go-libp2p-kbucket"
	"github.com/libp2p/go-libp2p-kbucket/peerdiversity"
	"github.com/libp2p/go-libp2p/core/event"
	"github.com/libp2p/go-libp2p/core/host"
	"github.com/libp2p/go-libp2p/core/network"
	"github.com/libp2p/go-libp2p/core/peer"
	"github.com/libp2p/go-libp2p/core/protocol"
	"github.com/libp2p/go-libp2p/core/routing"
	ma "github.com/multiformats/go-multiaddr"
	manet "github.com/multiformats/go-multiaddr/net"
	mh "github.com/multiformats/go-multihash"

	kaddht "github.com/libp2p/go-libp2p-kad-dht"
	"github.com/libp2p/go-libp2p-kad-dht/crawler"
	"github.com/libp2p/go-libp2p-kad-dht/internal/simnet"
	vu "github.com/libp2p/go-libp2p-kad-dht/internal/verifutil"
	pb "github.com/libp2p/go-libp2p-kad-dht/pb"
	"github.com/libp2p/go-libp2p-kad-dht/records"
)

func fPeer(n int) peer.ID { return peer.ID(fmt.Sprintf("verif-peer-%027d", n)) }

func fNum(p peer.ID) int {
	n, err := strconv.Atoi(strings.TrimLeft(strings.TrimPrefix(string(p), "verif-peer-"), "0"))
	if err != nil {
		return 0
	}
	return n
}

// record values are "<rank>:ok" / "<rank>:exp"; ":exp" values are valid only while `fresh` is set (like an IPNS
// record before its end of life); higher rank wins
type fValidator struct{ fresh *bool }

func (v fValidator) Validate(key string, value []byte) error {
	s := string(value)
	switch {
	case strings.HasSuffix(s, ":ok"):
		return nil
	case strings.HasSuffix(s, ":exp") && *v.fresh:
		return nil
	}
	return errors.New("invalid record")
}
func (fValidator) Select(key string, vals [][]byte) (int, error) {
	best, br := 0, -1
	for i, v := range vals {
		r, _ := strconv.Atoi(strings.SplitN(string(v), ":", 2)[0])
		if r > br {
			best, br = i, r
		}
	}
	return best, nil
}

// fakeCrawler reports a fixed peer set as successfully crawled.
type fakeCrawler struct {
	h     *simnet.Host
	mu    sync.Mutex
	peers map[peer.ID][]ma.Multiaddr
	runs  int
}

func (c *fakeCrawler) Run(ctx context.Context, seeds []*peer.AddrInfo, ok crawler.HandleQueryResult, fail crawler.HandleQueryFail) {
	c.mu.Lock()
	c.runs++
	ps := c.peers
	c.mu.Unlock()
	for p, addrs := range ps {
		if len(c.h.Net().ConnsToPeer(p)) == 0 {
			c.h.Net().AddConn(p, network.DirOutbound, addrs[0])
		}
		c.h.Peerstore().AddAddrs(p, addrs, time.Hour)
		ok(p, nil)
	}
}

// groupAddr: the i-th address of group letter g ('a'..'y': one IPv4 /16 each; 'z': IPv6 without a known ASN)
func groupAddr(g byte, i int) ma.Multiaddr {
	var s string
	if g == 'z' {
		s = fmt.Sprintf("/ip6/2a0e:%x::%x/tcp/4001", 0x100+i%200, 1+i)
	} else {
		s = fmt.Sprintf("/ip4/150.%d.%d.%d/tcp/%d", 10+int(g-'a'), (i>>8)&255, i&255, 4001+i%7)
	}
	m, err := ma.NewMultiaddr(s)
	if err != nil {
		panic(err)
	}
	return m
}

func fkv(line string) map[string]string {
	m := map[string]string{}
	for _, f := range strings.Fields(line) {
		if i := strings.IndexByte(f, '='); i > 0 {
			m[f[:i]] = f[i+1:]
		}
	}
	return m
}

func fErr(err error) string {
	switch {
	case err == nil:
		return "nil"
	case errors.Is(err, routing.ErrNotSupported):
		return "notsupported"
	case errors.Is(err, routing.ErrNotFound):
		return "notfound"
	}
	return "error"
}

type fworld struct {
	h      *simnet.Host
	d      *FullRT
	cr     *fakeCrawler
	sender *simnet.Sender
	pool   []peer.ID // by rank
	rank   map[peer.ID]int
	fresh  bool
}

func newFullRTWorld(a map[string]string, key string) *fworld {
	w := &fworld{rank: map[peer.ID]int{}, fresh: true}
	w.h = simnet.NewHost(fPeer(1000000))
	addr, _ := ma.NewMultiaddr("/ip4/8.8.8.8/tcp/4001")
	w.h.SetAddrs([]ma.Multiaddr{addr})
	w.cr = &fakeCrawler{h: w.h, peers: map[peer.ID][]ma.Multiaddr{}}
	w.sender = &simnet.Sender{Name: "f"}
	n, _ := strconv.Atoi(a["n"])
	K, _ := strconv.Atoi(a["K"])
	var ids []peer.ID
	for i := 0; i < n; i++ {
		ids = append(ids, fPeer(i+1))
	}
	w.pool = kb.SortClosestPeers(ids, kb.ConvertKey(key))
	for i, p := range w.pool {
		w.rank[p] = i
	}
	specs := strings.Split(a["peers"], "|")
	ctr := 0
	for i, p := range w.pool {
		spec := "a"
		if i < len(specs) && specs[i] != "" {
			spec = specs[i]
		}
		var addrs []ma.Multiaddr
		for _, g := range strings.Split(spec, ".") {
			ctr++
			addrs = append(addrs, groupAddr(g[0], ctr))
		}
		w.cr.peers[p] = addrs
	}
	dhtOpts := []kaddht.Option{kaddht.BucketSize(K), kaddht.Validator(record.NamespacedValidator{"v": fValidator{&w.fresh}}),
		kaddht.WithCustomMessageSender(func(h host.Host, protos []protocol.ID) pb.MessageSenderWithDisconnect { return w.sender })}
	if a["bootstrap"] != "0" {
		dhtOpts = append(dhtOpts, kaddht.BootstrapPeers())
	}
	if a["values"] == "0" {
		dhtOpts = append(dhtOpts, kaddht.DisableValues())
	}
	if a["providers"] == "0" {
		dhtOpts = append(dhtOpts, kaddht.DisableProviders())
	}
	opts := []Option{WithCrawler(w.cr), DHTOption(dhtOpts...)}
	if a["limit"] != "" && a["limit"] != "none" {
		l, _ := strconv.Atoi(a["limit"])
		opts = append(opts, WithIPDiversityFilterLimit(l))
	}
	d, err := NewFullRT(w.h, "/verif", opts...)
	if err != nil {
		panic(err)
	}
	w.d = d
	synctest.Wait() // the initial crawl
	return w
}

func (w *fworld) ranks(ps []peer.ID) string {
	var ss []string
	for _, p := range ps {
		r, ok := w.rank[p]
		if !ok {
			r = -1
		}
		ss = append(ss, fmt.Sprint(r))
	}
	return "[" + strings.Join(ss, ",") + "]"
}

func runFullRT(c *vu.Case) {
	a := fkv(c.In[0])
	key := "/v/" + a["key"]
	keyMH, _ := mh.Sum([]byte("verif-frt-"+a["key"]), mh.SHA2_256, -1)
	if a["kind"] == "closest" || a["kind"] == "findprov" {
		key = string(keyMH)
	}
	if a["kind"] == "construct" {
		// construction with options missing must give a client or an error, never a panic
		out := "constructed=0 panic=0"
		func() {
			defer func() {
				if r := recover(); r != nil {
					out = "constructed=0 panic=1"
				}
			}()
			w := newFullRTWorld(a, key)
			_, err := w.d.GetClosestPeers(context.Background(), key)
			out = fmt.Sprintf("constructed=1 panic=0 err=%s", fErr(err))
			w.d.Close()
			w.h.Close()
			synctest.Wait()
		}()
		c.Out = append(c.Out, out)
		c.Tag("kind-construct")
		return
	}
	w := newFullRTWorld(a, key)
	defer func() {
		w.d.Close()
		w.h.Close()
		synctest.Wait()
	}()
	ctx := context.Background()
	out := "-"
	switch a["kind"] {
	case "closest":
		// the groups of every peer in the order the code will visit its addresses: part of the (rewritten) case
		var specs []string
		w.d.peerAddrsLk.RLock()
		for _, p := range w.pool {
			var gs []string
			for _, m := range w.d.peerAddrs[p] {
				ip, err := manet.ToIP(m)
				if err != nil {
					continue
				}
				g := string(peerdiversity.IPGroupKey(ip))
				if strings.HasPrefix(g, "150.") {
					x, _ := strconv.Atoi(strings.Split(g, ".")[1])
					gs = append(gs, string(rune('a'+x-10)))
				} else {
					gs = append(gs, "z")
				}
			}
			specs = append(specs, strings.Join(gs, "."))
		}
		w.d.peerAddrsLk.RUnlock()
		f := strings.Fields(c.In[0])
		for j := range f {
			if strings.HasPrefix(f[j], "peers=") {
				f[j] = "peers=" + strings.Join(specs, "|")
			}
		}
		c.In[0] = strings.Join(f, " ")
		ps, err := w.d.GetClosestPeers(ctx, key)
		out = fmt.Sprintf("peers=%s err=%s size=%d", w.ranks(ps), fErr(err), len(w.d.Stat()))
	case "emptyop":
		// peers of a non-empty table never answer: every request lasts until its context ends
		w.sender.Auto = func(pk *simnet.Parked) (simnet.Result, bool) { return simnet.Result{CtxErr: true}, true }
		var err error
		var pan atomic.Int32
		var returned atomic.Bool
		done := make(chan struct{})
		kc := cid.NewCidV1(cid.Raw, keyMH)
		go func() {
			defer close(done)
			defer func() {
				if r := recover(); r != nil {
					pan.Store(1)
				}
			}()
			switch a["op"] {
			case "providemany":
				err = w.d.ProvideMany(ctx, []mh.Multihash{keyMH})
			case "putmany":
				err = w.d.PutMany(ctx, []string{key}, [][]byte{[]byte("1:ok")})
			case "provide":
				err = w.d.Provide(ctx, kc, true)
			case "putvalue":
				err = w.d.PutValue(ctx, key, []byte("1:ok"))
			case "getvalue":
				_, err = w.d.GetValue(ctx, key)
			case "searchvalue":
				var ch <-chan []byte
				ch, err = w.d.SearchValue(ctx, key)
				if err == nil {
					for range ch {
					}
				}
			case "findproviders":
				_, err = w.d.FindProviders(ctx, kc)
			case "findpeer":
				_, err = w.d.FindPeer(ctx, fPeer(77))
			case "closest":
				_, err = w.d.GetClosestPeers(ctx, key)
			}
			returned.Store(true)
		}()
		synctest.Wait()
		for i := 0; i < 5 && !returned.Load() && pan.Load() == 0; i++ {
			time.Sleep(time.Minute)
			synctest.Wait()
		}
		b := 0
		var e error
		if returned.Load() {
			b = 1
			<-done
			e = err
		}
		out = fmt.Sprintf("returned=%d panic=%d err=%s", b, pan.Load(), fErr(e))
	case "findprov":
		// C08 for the accelerated client: every peer of the table answers GET_PROVIDERS at once with its scripted
		// provider list (which may name a provider twice, or one the local store or another peer names too)
		lists := strings.Split(a["provs"], "|")
		provInfo := func(t string) peer.AddrInfo {
			n, _ := strconv.Atoi(t)
			ad, _ := ma.NewMultiaddr(fmt.Sprintf("/ip4/9.9.%d.%d/tcp/4001", n/250, n%250+1))
			return peer.AddrInfo{ID: fPeer(500 + n), Addrs: []ma.Multiaddr{ad}}
		}
		w.sender.Auto = func(pk *simnet.Parked) (simnet.Result, bool) {
			r := w.rank[pk.Peer]
			if pk.Msg.GetType() != pb.Message_GET_PROVIDERS {
				return simnet.Result{Err: simnet.ErrScripted}, true
			}
			resp := pb.NewMessage(pk.Msg.GetType(), pk.Msg.GetKey(), 0)
			if r < len(lists) && lists[r] != "-" && lists[r] != "" {
				var infos []peer.AddrInfo
				for _, t := range strings.Split(lists[r], ".") {
					infos = append(infos, provInfo(t))
				}
				resp.ProviderPeers = pb.RawPeerInfosToPBPeers(infos)
			}
			return simnet.Result{Resp: resp}, true
		}
		if a["local"] != "-" && a["local"] != "" {
			for _, t := range strings.Split(a["local"], ".") {
				if err := w.d.ProviderManager.AddProvider(ctx, keyMH, provInfo(t)); err != nil {
					panic(err)
				}
			}
		}
		count, _ := strconv.Atoi(a["count"])
		var got []string
		done := make(chan struct{})
		go func() {
			defer close(done)
			for p := range w.d.FindProvidersAsync(ctx, cid.NewCidV1(cid.Raw, keyMH), count) {
				got = append(got, fmt.Sprint(fNum(p.ID)-500))
			}
		}()
		synctest.Wait()
		for i := 0; i < 3; i++ {
			time.Sleep(6 * time.Second)
			synctest.Wait()
		}
		closed := 0
		select {
		case <-done:
			closed = 1
		default:
		}
		out = fmt.Sprintf("closed=%d yield=[%s]", closed, strings.Join(got, ","))
	case "getvalue":
		// every peer of the table answers at once with its scripted record; PUT_VALUEs are logged with the state
		// of their context at the moment they are sent
		vals := strings.Split(a["vals"], ",")
		var mu sync.Mutex
		var puts []string
		w.sender.Auto = func(pk *simnet.Parked) (simnet.Result, bool) {
			r := w.rank[pk.Peer]
			switch pk.Msg.GetType() {
			case pb.Message_GET_VALUE:
				resp := pb.NewMessage(pk.Msg.GetType(), pk.Msg.GetKey(), 0)
				if r < len(vals) && vals[r] != "-" {
					resp.Record = &recpb.Record{Key: pk.Msg.GetKey(), Value: []byte(vals[r])}
				}
				return simnet.Result{Resp: resp}, true
			case pb.Message_PUT_VALUE:
				st := "live"
				if pk.Ctx.Err() != nil {
					st = "dead"
				}
				mu.Lock()
				puts = append(puts, fmt.Sprintf("%d=%s/%s", r, string(pk.Msg.GetRecord().GetValue()), st))
				mu.Unlock()
				resp := pb.NewMessage(pk.Msg.GetType(), pk.Msg.GetKey(), 0)
				resp.Record = pk.Msg.GetRecord()
				return simnet.Result{Resp: resp}, true
			}
			return simnet.Result{Err: simnet.ErrScripted}, true
		}
		if a["local"] != "-" {
			if err := w.d.valueStore.Put(ctx, key, &recpb.Record{Key: []byte(key), Value: []byte(a["local"])}); err != nil {
				panic(err)
			}
		}
		w.fresh = false // records ending in ":exp" have expired by now
		var val []byte
		var err error
		done := make(chan struct{})
		go func() {
			defer close(done)
			val, err = w.d.GetValue(ctx, key)
		}()
		synctest.Wait()
		for i := 0; i < 3; i++ {
			time.Sleep(6 * time.Second)
			synctest.Wait()
		}
		<-done
		mu.Lock()
		sort.Slice(puts, func(i, j int) bool {
			x, _ := strconv.Atoi(strings.SplitN(puts[i], "=", 2)[0])
			y, _ := strconv.Atoi(strings.SplitN(puts[j], "=", 2)[0])
			return x < y
		})
		v := "-"
		if val != nil {
			v = string(val)
		}
		out = fmt.Sprintf("val=%s err=%s puts=[%s]", v, fErr(err), strings.Join(puts, ","))
		mu.Unlock()
	}
	c.Out = append(c.Out, out)
	c.Tag("kind-" + a["kind"])
}

func execFullRT(c *vu.Case) {
	func() {
		defer func() {
			if r := recover(); r != nil {
				msg := fmt.Sprint(r)
				if len(msg) > 160 {
					msg = msg[:160]
				}
				for len(c.Out) < len(c.In) {
					c.Out = append(c.Out, "-")
				}
				c.Out[len(c.Out)-1] += " |BUBBLE:" + strings.ReplaceAll(msg, " ", "_")
			}
		}()
		synctest.Test(c.T, func(t *testing.T) { runFullRT(c) })
	}()
}

func TestVerifC16(t *testing.T) {
	vu.Run(t, vu.Config{Prop: "C16", QuickN: 1500, ThoroughN: 40000,
		Gen: func(r *vu.RNG, c *vu.Case) bool {
			switch x := r.Intn(10); {
			case c.Idx%40 == 7:
				c.In = append(c.In, fmt.Sprintf("frt kind=construct key=%d K=3 limit=%s n=%d peers= bootstrap=%d values=%d providers=%d", c.Idx,
					[]string{"none", "0", "2"}[r.Intn(3)], r.Intn(3), r.Intn(2), r.Intn(2), r.Intn(2)))
				c.Tag("nontrivial")
			case c.Idx%8 == 3:
				n := r.Range(1, 6)
				var lists []string
				for i := 0; i < n; i++ {
					var l []string
					for j, m := 0, r.Intn(5); j < m; j++ {
						l = append(l, fmt.Sprint(r.Intn(6)))
					}
					if len(l) == 0 {
						lists = append(lists, "-")
					} else {
						lists = append(lists, strings.Join(l, "."))
					}
				}
				local := "-"
				if r.Bool() {
					var l []string
					seen := map[int]bool{}
					for j, m := 0, r.Range(1, 3); j < m; j++ {
						k := r.Intn(6)
						if !seen[k] {
							seen[k] = true
							l = append(l, fmt.Sprint(k))
						}
					}
					local = strings.Join(l, ".")
				}
				c.In = append(c.In, fmt.Sprintf("frt kind=findprov key=%d K=%d limit=0 n=%d peers= count=%d local=%s provs=%s", c.Idx, r.Range(1, 6), n,
					[]int{0, 0, 1, 2, 3, 8}[r.Intn(6)], local, strings.Join(lists, "|")))
				c.Tag("nontrivial")
			case x < 6:
				n := r.Range(0, 14)
				K := []int{1, 2, 3, 4, 5, 8}[r.Intn(6)]
				ngroups := r.Range(1, 5)
				if r.Chance(1, 3) {
					ngroups = 24 // sparse groups: usually no group holds more peers than the limit
				}
				var specs []string
				for i := 0; i < n; i++ {
					var gs []string
					for j := 0; j < r.Range(1, 3); j++ {
						if r.Chance(1, 10) {
							gs = append(gs, "z")
						} else {
							gs = append(gs, string(rune('a'+r.Intn(ngroups))))
						}
					}
					if r.Chance(1, 3) {
						gs = append(gs, gs[0]) // a second address in the same group (tcp + quic on one IP)
					}
					specs = append(specs, strings.Join(gs, "."))
				}
				c.In = append(c.In, fmt.Sprintf("frt kind=closest key=%d K=%d limit=%s n=%d peers=%s", c.Idx, K,
					[]string{"0", "1", "2", "3", "none", "1", "2"}[r.Intn(7)], n, strings.Join(specs, "|")))
				if n >= 4 {
					c.Tag("nontrivial")
				}
			case x < 8:
				ops := []string{"providemany", "putmany", "provide", "putvalue", "getvalue", "searchvalue", "findproviders", "findpeer", "closest"}
				n := []int{0, 0, 0, 2}[r.Intn(4)]
				c.In = append(c.In, fmt.Sprintf("frt kind=emptyop key=%d K=3 limit=none n=%d peers= op=%s values=%d providers=%d", c.Idx, n,
					ops[r.Intn(len(ops))], []int{1, 1, 0}[r.Intn(3)], []int{1, 1, 0}[r.Intn(3)]))
				c.Tag("nontrivial")
			default:
				n := r.Range(1, 6)
				var vals []string
				for i := 0; i < n; i++ {
					vals = append(vals, []string{"-", "1:ok", "2:ok", "3:ok", "4:bad", "2:ok", "5:exp"}[r.Intn(7)])
				}
				c.In = append(c.In, fmt.Sprintf("frt kind=getvalue key=%d K=%d limit=0 n=%d peers= local=%s vals=%s", c.Idx, r.Range(1, 6), n,
					[]string{"-", "1:ok", "3:ok", "4:exp", "6:exp", "2:ok"}[r.Intn(6)], strings.Join(vals, ",")))
				c.Tag("nontrivial")
			}
			return true
		}, Exec: execFullRT})
}

// ---------------------------------------------------------------------------------------------
// C14 (sibling): Close of the accelerated client while operations are in flight; a constructor that fails half-way

func runC14f(c *vu.Case) {
	a := fkv(c.In[0])
	if a["kind"] == "ctor" {
		h := simnet.NewHost(fPeer(1000000))
		nfail := 3
		for i := 0; i < nfail; i++ {
			_, err := NewFullRT(h, "/verif", DHTOption(kaddht.BootstrapPeers()), WithCrawler(&fakeCrawler{h: h, peers: map[peer.ID][]ma.Multiaddr{}}),
				WithProviderManagerOptions(func(*records.ProviderManager) error { return errors.New("scripted: option failed") }))
			if err == nil {
				c.Out = append(c.Out, "ctor err=false panic=false")
				h.Close()
				return
			}
		}
		synctest.Wait()
		// a subscription left behind blocks the emitter once its queue is full
		em, _ := h.EventBus().Emitter(new(event.EvtPeerConnectednessChanged))
		done := make(chan struct{})
		go func() {
			defer close(done)
			for i := 0; i < 64; i++ {
				_ = em.Emit(event.EvtPeerConnectednessChanged{Peer: fPeer(i), Connectedness: network.Connected})
			}
		}()
		synctest.Wait()
		out := "ctor err=true panic=false bus=free"
		select {
		case <-done:
		default:
			out = "ctor err=true panic=false bus=BLOCKED"
		}
		h.Close()
		c.Out = append(c.Out, out)
		return
	}
	key := "/v/" + a["key"]
	keyMH, _ := mh.Sum([]byte("verif-frt-"+a["key"]), mh.SHA2_256, -1)
	w := newFullRTWorld(a, key)
	ctx := context.Background()
	kc := cid.NewCidV1(cid.Raw, keyMH)
	nops := 2
	done := make(chan struct{}, nops)
	for i := 0; i < nops; i++ {
		go func() {
			defer func() { done <- struct{}{} }()
			switch a["op"] {
			case "provide":
				_ = w.d.Provide(ctx, kc, true)
			case "putvalue":
				_ = w.d.PutValue(ctx, key, []byte("1:ok"))
			case "getvalue":
				_, _ = w.d.GetValue(ctx, key)
			case "findproviders":
				_, _ = w.d.FindProviders(ctx, kc)
			case "providemany":
				_ = w.d.ProvideMany(ctx, []mh.Multihash{keyMH})
			}
		}()
	}
	synctest.Wait()
	closed := make(chan struct{}, 1)
	go func() { _ = w.d.Close(); closed <- struct{}{} }()
	synctest.Wait()
	for round := 0; round < 200; round++ {
		ps := w.sender.Pending()
		if len(ps) == 0 {
			break
		}
		if ps[0].Ctx.Err() != nil {
			w.sender.Release(ps[0], simnet.Result{CtxErr: true})
		} else {
			w.sender.Release(ps[0], simnet.Result{Err: simnet.ErrScripted})
		}
		synctest.Wait()
	}
	time.Sleep(2 * time.Minute)
	synctest.Wait()
	returned, nclosed := 0, 0
	for {
		select {
		case <-done:
			returned++
			continue
		case <-closed:
			nclosed++
			continue
		default:
		}
		break
	}
	w.h.Close()
	synctest.Wait()
	c.Out = append(c.Out, fmt.Sprintf("returned=%d/%d closed=%d/1", returned, nops, nclosed))
}

func TestVerifC14f(t *testing.T) {
	vu.Run(t, vu.Config{Prop: "C14f", QuickN: 120, ThoroughN: 4000,
		Gen: func(r *vu.RNG, c *vu.Case) bool {
			if c.Idx%8 == 7 {
				c.In = append(c.In, "life kind=ctor")
			} else {
				c.In = append(c.In, fmt.Sprintf("life kind=op op=%s key=%d K=3 limit=0 n=%d peers=", []string{"provide", "putvalue", "getvalue", "findproviders", "providemany"}[r.Intn(5)], c.Idx, r.Range(1, 6)))
			}
			c.Tag("nontrivial")
			return true
		}, Exec: func(c *vu.Case) {
			func() {
				defer func() {
					if r := recover(); r != nil {
						for len(c.Out) < len(c.In) {
							c.Out = append(c.Out, "-")
						}
						c.Out[len(c.Out)-1] += " |BUBBLE:" + strings.ReplaceAll(fmt.Sprint(r), " ", "_")
					}
				}()
				synctest.Test(c.T, func(t *testing.T) { runC14f(c) })
			}()
		}})
}

//go:build verif

// Package verifutil is the shared plumbing of the /verif correspondence harnesses: deterministic
// PRNG, case files, sharding and replay. It is injected into the module with `go test -overlay`
// and never committed to the repository.
package verifutil

import (
	"bufio"
	"context"
	"fmt"
	"os"
	"path/filepath"
	"runtime/debug"
	"sort"
	"strconv"
	"strings"
	"testing"

	"go.opentelemetry.io/otel"
	"go.opentelemetry.io/otel/trace"
	"go.opentelemetry.io/otel/trace/embedded"
	"go.opentelemetry.io/otel/trace/noop"
)

// RNG is splitmix64; every random choice of a case derives from hash(seed, case index).
type RNG struct{ s uint64 }

func NewRNG(seed uint64) *RNG { return &RNG{s: seed} }

func (r *RNG) Next() uint64 {
	r.s += 0x9e3779b97f4a7c15
	z := r.s
	z = (z ^ (z >> 30)) * 0xbf58476d1ce4e5b9
	z = (z ^ (z >> 27)) * 0x94d049bb133111eb
	return z ^ (z >> 31)
}

func (r *RNG) Intn(n int) int {
	if n <= 0 {
		return 0
	}
	return int(r.Next() % uint64(n))
}

// Range returns a value in [lo, hi].
func (r *RNG) Range(lo, hi int) int { return lo + r.Intn(hi-lo+1) }
func (r *RNG) Bool() bool           { return r.Next()&1 == 1 }

// Chance returns true with probability num/den.
func (r *RNG) Chance(num, den int) bool { return r.Intn(den) < num }

func (r *RNG) Bits(n int) string {
	b := make([]byte, n)
	for i := range b {
		if r.Bool() {
			b[i] = '1'
		} else {
			b[i] = '0'
		}
	}
	return string(b)
}

func (r *RNG) Shuffle(n int, swap func(i, j int)) {
	for i := n - 1; i > 0; i-- {
		j := r.Intn(i + 1)
		swap(i, j)
	}
}

func Mix(seed uint64, idx int) uint64 {
	r := RNG{s: seed ^ (uint64(idx)+1)*0xd1342543de82ef95}
	r.Next()
	return r.Next()
}

// Case is one generated case: input lines (replayed by the Lean driver), the implementation's
// observation for each line, and tags describing which branches the case exercised.
type Case struct {
	T    *testing.T
	Idx  int
	Tier string
	In   []string
	Out  []string
	Tags map[string]bool
}

func (c *Case) Tag(s string) {
	if c.Tags == nil {
		c.Tags = map[string]bool{}
	}
	c.Tags[s] = true
}

// Step appends an input line and its observation.
func (c *Case) Step(in, out string) {
	c.In = append(c.In, in)
	c.Out = append(c.Out, clean(out))
}

func clean(s string) string {
	s = strings.ReplaceAll(s, "\n", " ")
	s = strings.ReplaceAll(s, "\t", " ")
	if s == "" {
		return "-"
	}
	return s
}

type Config struct {
	Prop      string
	QuickN    int
	ThoroughN int
	// Gen fills c.In (and tags) from r; returning false ends the enumeration.
	Gen func(r *RNG, c *Case) bool
	// Exec runs the real code on c.In and fills c.Out (one per input line). It may also append to
	// c.In via c.Step when the schedule is produced during execution. In replay mode c.In is given.
	Exec func(c *Case)
}

func envInt(name string, def int) int {
	if v := os.Getenv(name); v != "" {
		if n, err := strconv.Atoi(v); err == nil {
			return n
		}
	}
	return def
}

func Tier() string {
	if os.Getenv("VERIF_TIER") == "thorough" {
		return "thorough"
	}
	return "quick"
}

// Run is the body of every TestVerifCxx.
func Run(t *testing.T, cfg Config) {
	out := os.Getenv("VERIF_OUT")
	if out == "" {
		t.Skip("VERIF_OUT not set: run through /verif/check")
	}
	tier := Tier()
	seed := uint64(envInt("VERIF_SEED", 1))
	shard, shards := 0, 1
	if s := os.Getenv("VERIF_SHARD"); s != "" {
		fmt.Sscanf(s, "%d/%d", &shard, &shards)
	}
	// odd shards run with tracing switched on (recording spans): the deferred tracing blocks all over the code base then
	// run too; they must change nothing and, above all, crash nothing
	if shard%2 == 1 && os.Getenv("VERIF_NOTRACE") == "" {
		otel.SetTracerProvider(recTracerProvider{})
	}
	n := cfg.QuickN
	if tier == "thorough" {
		n = cfg.ThoroughN
	}
	n = envInt("VERIF_N", n)
	if err := os.MkdirAll(out, 0o755); err != nil {
		t.Fatal(err)
	}
	suffix := fmt.Sprintf("-%02d.txt", shard)
	fc, _ := os.Create(filepath.Join(out, "cases"+suffix))
	fi, _ := os.Create(filepath.Join(out, "impl"+suffix))
	fm, _ := os.Create(filepath.Join(out, "meta"+suffix))
	wc, wi, wm := bufio.NewWriter(fc), bufio.NewWriter(fi), bufio.NewWriter(fm)
	defer func() {
		wc.Flush()
		wi.Flush()
		wm.Flush()
		fc.Close()
		fi.Close()
		fm.Close()
	}()
	emit := func(c *Case) {
		for len(c.Out) < len(c.In) {
			c.Out = append(c.Out, "missing")
		}
		c.Out = c.Out[:len(c.In)]
		fmt.Fprintf(wc, "#case %d\n", c.Idx)
		fmt.Fprintf(wi, "#case %d\n", c.Idx)
		for i := range c.In {
			fmt.Fprintln(wc, c.In[i])
			fmt.Fprintln(wi, clean(c.Out[i]))
		}
		tags := make([]string, 0, len(c.Tags))
		for k := range c.Tags {
			tags = append(tags, k)
		}
		sort.Strings(tags)
		fmt.Fprintf(wm, "%d\t%d\t%s\n", c.Idx, len(c.In), strings.Join(tags, ","))
		// flush per case: a crash of the test binary must leave the finished cases on disk
		wc.Flush()
		wi.Flush()
		wm.Flush()
	}
	curPath := filepath.Join(out, "current"+suffix)
	safeExec := func(c *Case) {
		// the case in hand is left on disk: if the process dies (a panic in a goroutine of the code under
		// test cannot be recovered) the driver finds the input that killed it
		_ = os.WriteFile(curPath, []byte(fmt.Sprintf("#case %d\n%s\n", c.Idx, strings.Join(c.In, "\n"))), 0o644)
		defer os.Remove(curPath)
		defer func() {
			if r := recover(); r != nil {
				c.Tag("panic")
				msg := fmt.Sprint(r)
				if os.Getenv("VERIF_DEBUG") != "" {
					msg += " " + string(debug.Stack())
				}
				for len(c.Out) < len(c.In) {
					c.Out = append(c.Out, "panic:"+msg)
				}
				if len(c.In) == 0 {
					c.Step("nop", "panic:"+msg)
				}
			}
		}()
		cfg.Exec(c)
	}
	if rp := os.Getenv("VERIF_REPLAY"); rp != "" {
		if shard != 0 {
			return
		}
		data, err := os.ReadFile(rp)
		if err != nil {
			t.Fatal(err)
		}
		var cur *Case
		flush := func() {
			if cur != nil {
				safeExec(cur)
				emit(cur)
			}
		}
		for _, line := range strings.Split(strings.TrimRight(string(data), "\n"), "\n") {
			if strings.HasPrefix(line, "#case") {
				flush()
				idx := 0
				fmt.Sscanf(line, "#case %d", &idx)
				cur = &Case{T: t, Idx: idx, Tier: tier}
				cur.Tag("replay")
				continue
			}
			if cur == nil {
				cur = &Case{T: t, Idx: 0, Tier: tier}
				cur.Tag("replay")
			}
			cur.In = append(cur.In, line)
		}
		flush()
		return
	}
	for idx := 0; idx < n; idx++ {
		if idx%shards != shard {
			continue
		}
		c := &Case{T: t, Idx: idx, Tier: tier}
		r := NewRNG(Mix(seed, idx))
		if !cfg.Gen(r, c) {
			break
		}
		safeExec(c)
		emit(c)
	}
}

// a tracer provider whose spans report IsRecording (the OpenTelemetry SDK is not among the module's dependencies)
type recSpan struct{ noop.Span }

func (recSpan) IsRecording() bool { return true }

type recTracer struct{ embedded.Tracer }

func (recTracer) Start(ctx context.Context, name string, opts ...trace.SpanStartOption) (context.Context, trace.Span) {
	s := recSpan{}
	return trace.ContextWithSpan(ctx, s), s
}

type recTracerProvider struct{ embedded.TracerProvider }

func (recTracerProvider) Tracer(string, ...trace.TracerOption) trace.Tracer { return recTracer{} }

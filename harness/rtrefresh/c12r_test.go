//go:build verif

package rtrefresh

import (
	"context"
	"errors"
	"fmt"
	"sort"
	"strconv"
	"strings"
	"testing"
	"testing/synctest"
	"time"

	kb "github.com/libp2p/go-libp2p-kbucket"
	"github.com/libp2p/go-libp2p/core/peer"
	pstore "github.com/libp2p/go-libp2p/p2p/host/peerstore"

	"github.com/libp2p/go-libp2p-kad-dht/internal/simnet"
	vu "github.com/libp2p/go-libp2p-kad-dht/internal/verifutil"
)

func rPeer(n int) peer.ID { return peer.ID(fmt.Sprintf("verif-peer-%027d", n)) }

func rPeerNum(p peer.ID) int {
	s := strings.TrimLeft(strings.TrimPrefix(string(p), "verif-peer-"), "0")
	if s == "" {
		return 0
	}
	n, _ := strconv.Atoi(s)
	return n
}

// runRefresh: refresh requests, liveness probes and Close on the real RtRefreshManager.
func runRefresh(c *vu.Case) {
	a := map[string]string{}
	for _, f := range strings.Fields(c.In[0]) {
		if i := strings.IndexByte(f, '='); i > 0 {
			a[f[:i]] = f[i+1:]
		}
	}
	h := simnet.NewHost(rPeer(1000000))
	defer h.Close()
	ping := map[int]string{} // ok | fail | hang | dial
	for _, t := range strings.Split(a["pings"], ",") {
		if x := strings.Split(t, ":"); len(x) == 2 {
			n, _ := strconv.Atoi(x[0])
			ping[n] = x[1]
		}
	}
	h.ConnectFn = func(ctx context.Context, pi peer.AddrInfo) error {
		if ping[rPeerNum(pi.ID)] == "dial" {
			return errors.New("scripted: dial failed")
		}
		return nil
	}
	rt, err := kb.NewRoutingTable(20, kb.ConvertPeerID(h.ID()), time.Hour, pstore.NewMetrics(), 100*time.Hour, nil)
	if err != nil {
		panic(err)
	}
	q := a["q"]
	queryFn := func(ctx context.Context, key string) error {
		switch q {
		case "fail":
			return errors.New("scripted: query failed")
		case "hang":
			<-ctx.Done()
			return ctx.Err()
		}
		return nil
	}
	pingFn := func(ctx context.Context, p peer.ID) error {
		switch ping[rPeerNum(p)] {
		case "fail":
			return errors.New("scripted: no answer")
		case "hang":
			<-ctx.Done()
			return ctx.Err()
		}
		return nil
	}
	keyGen := func(cpl uint) (string, error) {
		p, err := rt.GenRandPeerID(cpl)
		return string(p), err
	}
	doneCh := make(chan struct{}, 1000)
	r, err := NewRtRefreshManager(h, rt, false, keyGen, queryFn, pingFn, 30*time.Second, time.Hour, time.Minute, doneCh)
	if err != nil {
		panic(err)
	}
	r.Start()
	chans := map[int]<-chan error{}
	results := map[int][]string{}
	closedCh := map[int]bool{}
	collect := func() {
		for id, ch := range chans {
			for !closedCh[id] {
				select {
				case e, ok := <-ch:
					if !ok {
						closedCh[id] = true
					} else if e == nil {
						results[id] = append(results[id], "nil")
					} else {
						results[id] = append(results[id], "err")
					}
					continue
				default:
				}
				break
			}
		}
	}
	show := func() string {
		collect()
		var ids []int
		for id := range results {
			ids = append(ids, id)
		}
		sort.Ints(ids)
		var is, rs []string
		for _, id := range ids {
			is = append(is, fmt.Sprint(id))
			rs = append(rs, fmt.Sprintf("%d:%s", id, strings.Join(results[id], "+")))
		}
		var ms []int
		for _, p := range rt.ListPeers() {
			ms = append(ms, rPeerNum(p))
		}
		sort.Ints(ms)
		var mss []string
		for _, m := range ms {
			mss = append(mss, fmt.Sprint(m))
		}
		return fmt.Sprintf("ids=[%s] res=[%s] rt=[%s]", strings.Join(is, ","), strings.Join(rs, ","), strings.Join(mss, ","))
	}
	closeDone := make(chan struct{})
	closed := false
	c.Out = append(c.Out, "-")
	for i := 1; i < len(c.In); i++ {
		f := strings.Fields(c.In[i])
		e := map[string]string{}
		for _, x := range f {
			if j := strings.IndexByte(x, '='); j > 0 {
				e[x[:j]] = x[j+1:]
			}
		}
		out := "-"
		switch f[0] {
		case "member":
			p, _ := strconv.Atoi(e["p"])
			if _, err := rt.TryAddPeer(rPeer(p), true, false); err != nil {
				panic(err)
			}
			if e["age"] == "old" {
				rt.UpdateLastSuccessfulOutboundQueryAt(rPeer(p), time.Now().Add(-2*time.Hour))
			}
		case "refresh":
			id, _ := strconv.Atoi(e["id"])
			chans[id] = r.Refresh(e["force"] == "1")
			synctest.Wait()
			out = show()
		case "wait":
			time.Sleep(10 * time.Minute)
			synctest.Wait()
			out = show()
		case "close":
			if !closed {
				closed = true
				go func() { _ = r.Close(); close(closeDone) }()
			}
			synctest.Wait()
			out = show()
		}
		c.Out = append(c.Out, out)
	}
	if !closed {
		go func() { _ = r.Close(); close(closeDone) }()
	}
	// a Close that never returns ends the bubble in a deadlock report
	<-closeDone
}

func TestVerifC12r(t *testing.T) {
	vu.Run(t, vu.Config{Prop: "C12r", QuickN: 600, ThoroughN: 20000,
		Gen: func(r *vu.RNG, c *vu.Case) bool {
			n := r.Range(0, 5)
			var pings []string
			for p := 0; p < n; p++ {
				pings = append(pings, fmt.Sprintf("%d:%s", p, []string{"ok", "ok", "fail", "hang", "dial"}[r.Intn(5)]))
			}
			c.In = append(c.In, fmt.Sprintf("refresh-manager n=%d q=%s pings=%s", n, []string{"ok", "ok", "fail", "hang"}[r.Intn(4)], strings.Join(pings, ",")))
			for p := 0; p < n; p++ {
				c.In = append(c.In, fmt.Sprintf("member p=%d age=%s", p, []string{"old", "old", "fresh"}[r.Intn(3)]))
			}
			steps := r.Range(2, 9)
			id := 0
			closeAt := -1
			if r.Chance(2, 3) {
				closeAt = r.Intn(steps)
			}
			for i := 0; i < steps; i++ {
				if i == closeAt {
					c.In = append(c.In, "close")
				}
				if r.Chance(2, 3) {
					id++
					c.In = append(c.In, fmt.Sprintf("refresh id=%d force=%d", id, r.Intn(2)))
				} else {
					c.In = append(c.In, "wait")
				}
			}
			c.In = append(c.In, "wait")
			c.Tag("nontrivial")
			return true
		}, Exec: func(c *vu.Case) {
			func() {
				defer func() {
					if r := recover(); r != nil {
						for len(c.Out) < len(c.In) {
							c.Out = append(c.Out, "-")
						}
						c.Out[len(c.Out)-1] += " |BUBBLE:" + strings.ReplaceAll(fmt.Sprint(r), " ", "_")
					}
				}()
				synctest.Test(c.T, func(t *testing.T) { runRefresh(c) })
			}()
		}})
}

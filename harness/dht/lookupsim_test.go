//go:build verif

package dht

import (
	"context"
	"errors"
	"fmt"
	"sort"
	"strings"
	"sync"
	"testing/synctest"
	"time"

	"github.com/libp2p/go-libp2p/core/host"
	"github.com/libp2p/go-libp2p/core/peer"
	"github.com/libp2p/go-libp2p/core/protocol"
	ma "github.com/multiformats/go-multiaddr"
	ks "github.com/whyrusleeping/go-keyspace"

	"github.com/libp2p/go-libp2p-kad-dht/internal/simnet"
	pb "github.com/libp2p/go-libp2p-kad-dht/pb"
)

// ---------------------------------------------------------------------------------------------
// scripted message sender: every request parks until the harness releases it

type parked struct {
	kind string // "req", "msg", "dial"
	peer peer.ID
	msg  *pb.Message
	ctx  context.Context
	ch   chan parkedResult
	seq  int
}

type parkedResult struct {
	resp *pb.Message
	err  error
	// ctxErr: return the context's own error (waits for the context to be done first)
	ctxErr bool
}

type scriptedSender struct {
	mu      sync.Mutex
	pending []*parked
	seq     int
	log     []string // every request ever issued: "<kind> <peer> <type>"
	onDisc  []peer.ID
}

func (s *scriptedSender) park(ctx context.Context, kind string, p peer.ID, m *pb.Message) parkedResult {
	pk := &parked{kind: kind, peer: p, msg: m, ctx: ctx, ch: make(chan parkedResult, 1)}
	s.mu.Lock()
	s.seq++
	pk.seq = s.seq
	s.pending = append(s.pending, pk)
	t := -1
	if m != nil {
		t = int(m.GetType())
	}
	s.log = append(s.log, fmt.Sprintf("%s %d %d", kind, vPeerNum(p), t))
	s.mu.Unlock()
	r := <-pk.ch
	if r.ctxErr {
		<-ctx.Done()
		return parkedResult{err: ctx.Err()}
	}
	return r
}

func (s *scriptedSender) SendRequest(ctx context.Context, p peer.ID, m *pb.Message) (*pb.Message, error) {
	r := s.park(ctx, "req", p, m)
	return r.resp, r.err
}

func (s *scriptedSender) SendMessage(ctx context.Context, p peer.ID, m *pb.Message) error {
	r := s.park(ctx, "msg", p, m)
	return r.err
}

func (s *scriptedSender) OnDisconnect(ctx context.Context, p peer.ID) {
	s.mu.Lock()
	s.onDisc = append(s.onDisc, p)
	s.mu.Unlock()
}

// Parked returns the currently parked calls (oldest first).
func (s *scriptedSender) Parked() []*parked {
	s.mu.Lock()
	defer s.mu.Unlock()
	return append([]*parked(nil), s.pending...)
}

func (s *scriptedSender) release(pk *parked, r parkedResult) {
	s.mu.Lock()
	for i, x := range s.pending {
		if x == pk {
			s.pending = append(s.pending[:i], s.pending[i+1:]...)
			break
		}
	}
	s.mu.Unlock()
	pk.ch <- r
}

var errScripted = errors.New("scripted failure")

// ---------------------------------------------------------------------------------------------
// a simulated world: a pool of peers ranked by XOR distance to the key

type world struct {
	h      *simnet.Host
	d      *IpfsDHT
	sender *scriptedSender
	key    string
	pool   []peer.ID // pool[rank]
	rank   map[peer.ID]int
	n      int
	dialFail map[peer.ID]bool
	// groupSize > 0: peer addresses are spread over /16 blocks, `groupSize` consecutive ranks per block
	groupSize int
	// qf != "": a query filter on addresses is configured; class of rank r = qf[r]:
	// 'p' responses carry a public address, 'x' only a private one, 'k' none (the peerstore already holds a public one)
	qf string
}

// addrBytes is the single address a response carries for the peer of the given rank.
func (w *world) addrBytes(rank int) []byte {
	if w.groupSize <= 0 {
		return vAddr(rank+1, 8, false).Bytes()
	}
	g := rank / w.groupSize
	m, err := ma.NewMultiaddr(fmt.Sprintf("/ip4/%d.%d.0.%d/tcp/4001", 20+g/200, g%200, rank%250+1))
	if err != nil {
		panic(err)
	}
	return m.Bytes()
}

// newWorld creates a host and DHT (client of a scripted network). Rank n is the local node itself.
func newWorld(n int, key string, opts ...Option) *world { return newWorldIDs(n, key, nil, opts...) }

// newWorldIDs: like newWorld, but pool members 0..len(special)-1 get the given (real) peer ids.
func newWorldIDs(n int, key string, special []peer.ID, opts ...Option) *world {
	w := &world{key: key, n: n, rank: map[peer.ID]int{}, dialFail: map[peer.ID]bool{}}
	kk := ks.XORKeySpace.Key([]byte(key))
	type pd struct {
		p peer.ID
		d []byte
	}
	var ps []pd
	for i := 0; i < n; i++ {
		p := vPeer(i)
		if i < len(special) {
			p = special[i]
		}
		ps = append(ps, pd{p, ks.XORKeySpace.Key([]byte(p)).Distance(kk).FillBytes(make([]byte, 32))})
	}
	sort.Slice(ps, func(i, j int) bool { return string(ps[i].d) < string(ps[j].d) })
	for i, x := range ps {
		w.pool = append(w.pool, x.p)
		w.rank[x.p] = i
	}
	w.h = simnet.NewHost(vPeer(1000000))
	w.rank[w.h.ID()] = n
	w.sender = &scriptedSender{}
	w.h.ConnectFn = func(ctx context.Context, pi peer.AddrInfo) error {
		if w.dialFail[pi.ID] {
			r := w.sender.park(ctx, "dial", pi.ID, nil)
			return r.err
		}
		return nil
	}
	all := append([]Option{ProtocolPrefix("/verif"), DisableAutoRefresh(), Validator(vNSValidatorPK()), Datastore(vDatastore()),
		Mode(ModeClient),
		WithCustomMessageSender(func(h host.Host, protos []protocol.ID) pb.MessageSenderWithDisconnect { return w.sender })}, opts...)
	d, err := New(w.h, all...)
	if err != nil {
		panic(err)
	}
	w.d = d
	return w
}

func (w *world) close() {
	w.d.Close()
	w.h.Close()
}

func (w *world) peerOf(rank int) peer.ID {
	if rank == w.n {
		return w.h.ID()
	}
	if rank < 0 || rank > w.n {
		return vPeer(2000000 + rank) // a fabricated id outside the pool
	}
	return w.pool[rank]
}

func (w *world) rankOf(p peer.ID) int {
	if r, ok := w.rank[p]; ok {
		return r
	}
	if n := vPeerNum(p); n >= 2000000 {
		return n - 2000000
	}
	return -1
}

func (w *world) ranks(ps []peer.ID) []int {
	out := make([]int, len(ps))
	for i, p := range ps {
		out[i] = w.rankOf(p)
	}
	return out
}

func intList(xs []int) string {
	ss := make([]string, len(xs))
	for i, x := range xs {
		ss[i] = fmt.Sprint(x)
	}
	return "[" + strings.Join(ss, ",") + "]"
}

func parseInts(s, sep string) []int {
	var out []int
	for _, t := range splitNonEmpty(s, sep) {
		out = append(out, atoi(t))
	}
	return out
}

// parkedRanks lists the peers with a parked call of one of the kinds, sorted by rank.
func (w *world) parkedRanks(kinds ...string) []int {
	var out []int
	for _, pk := range w.sender.Parked() {
		for _, k := range kinds {
			if pk.kind == k {
				out = append(out, w.rankOf(pk.peer))
			}
		}
	}
	sort.Ints(out)
	return out
}

func (w *world) findParked(rank int) *parked {
	for _, pk := range w.sender.Parked() {
		if w.rankOf(pk.peer) == rank {
			return pk
		}
	}
	return nil
}

// closerPeersMsg builds a response naming the given ranks as closer peers (one address each).
func (w *world) closerPeersMsg(req *pb.Message, ranks []int) *pb.Message {
	m := &pb.Message{Type: req.GetType(), Key: req.GetKey()}
	for _, r := range ranks {
		pm := &pb.Message_Peer{Id: []byte(w.peerOf(r)), Addrs: [][]byte{w.addrBytes(r)}}
		if r < len(w.qf) {
			switch w.qf[r] {
			case 'x':
				pm.Addrs = [][]byte{vAddr(r+1, 8, true).Bytes()}
			case 'k':
				pm.Addrs = nil
			}
		}
		m.CloserPeers = append(m.CloserPeers, pm)
	}
	return m
}

// settle waits until every goroutine in the bubble is durably blocked.
func settle() { synctest.Wait() }

var _ = time.Second

//go:build verif

package dht

import (
	"context"
	"fmt"
	"strings"
	"testing"
	"testing/synctest"
	"time"

	"github.com/ipfs/go-cid"
	"github.com/libp2p/go-libp2p/core/event"

	dhtcfg "github.com/libp2p/go-libp2p-kad-dht/internal/config"
	"github.com/libp2p/go-libp2p-kad-dht/internal/simnet"
	pb "github.com/libp2p/go-libp2p-kad-dht/pb"
	"github.com/libp2p/go-libp2p/core/host"
	"github.com/libp2p/go-libp2p/core/protocol"
	vu "github.com/libp2p/go-libp2p-kad-dht/internal/verifutil"
)

// runC14: Close while an operation is in flight (after `rel` of its requests have been answered), Close twice, Close
// concurrently with itself; every operation must return, Close must return, nothing may be left running (the bubble
// reports goroutines that are still blocked when the case ends).
func runC14(c *vu.Case) {
	a := kv(strings.Fields(c.In[0]))
	if a["kind"] == "ctor" {
		// a constructor that fails after it has started background work must leave nothing behind
		h := simnet.NewHost(vPeer(1000000))
		var opts []Option
		switch a["fail"] {
		case "mode":
			opts = []Option{ProtocolPrefix("/verif"), Mode(ModeOpt(99))}
		case "prefix":
			opts = []Option{Mode(ModeClient), BucketSize(5)} // the default prefix insists on bucket size 20
		case "sender":
			// a protocol-messenger option that fails: construction stops after the stores' background work has started
			opts = []Option{ProtocolPrefix("/verif"), Mode(ModeServer), func(c *dhtcfg.Config) error {
				c.MsgSenderBuilder = func(host.Host, []protocol.ID) pb.MessageSenderWithDisconnect { return nil }
				return nil
			}}
		}
		var err error
		var d *IpfsDHT
		pan := ""
		func() {
			defer func() {
				if r := recover(); r != nil {
					pan = fmt.Sprint(r)
				}
			}()
			d, err = New(h, opts...)
		}()
		settle()
		out := fmt.Sprintf("ctor err=%v panic=%v", err != nil, pan != "")
		if d != nil {
			d.Close()
		}
		// a subscription left behind blocks the emitter once its queue is full
		em, _ := h.EventBus().Emitter(new(event.EvtPeerIdentificationCompleted))
		done := make(chan struct{})
		go func() {
			defer close(done)
			for i := 0; i < 64; i++ {
				_ = em.Emit(event.EvtPeerIdentificationCompleted{Peer: vPeer(i)})
			}
		}()
		settle()
		select {
		case <-done:
			out += " bus=free"
		default:
			out += " bus=BLOCKED"
		}
		h.Close()
		c.Out = append(c.Out, out)
		return
	}
	o := &opRun{c: c, a: a, peers: map[int]opPeer{}, K: atoi(a["K"]), localFirst: "-"}
	n := atoi(a["n"])
	kind := a["kind"]
	keyCid := cid.NewCidV1(cid.Raw, opKeyMH(a["key"]))
	o.key = string(keyCid.Hash())
	if kind == "getvalue" || kind == "putvalue" || kind == "searchvalue" {
		o.key = "/v/" + a["key"]
	}
	mode := ModeClient
	if a["mode"] == "server" {
		mode = ModeServer
	}
	w := newWorld(n, o.key, BucketSize(o.K), Concurrency(atoi(a["a"])), Resiliency(atoi(a["b"])), disableFixLowPeersRoutine(c.T), Mode(mode))
	o.w = w
	for p := 0; p < n; p++ {
		o.peers[p] = opPeer{beh: 'h', known: []int{(p + 1) % n, (p + 2) % n, (p + 5) % n}, val: "-"}
		_, _ = w.d.routingTable.TryAddPeer(w.peerOf(p), true, false)
	}
	ctx := context.Background()
	returned := 0
	nops := atoi(a["ops"])
	done := make(chan struct{}, nops)
	for i := 0; i < nops; i++ {
		go func(i int) {
			defer func() { done <- struct{}{} }()
			switch kind {
			case "closest":
				_, _ = w.d.GetClosestPeers(ctx, o.key)
			case "getvalue":
				_, _ = w.d.GetValue(ctx, o.key)
			case "searchvalue":
				ch, err := w.d.SearchValue(ctx, o.key)
				if err == nil {
					for range ch {
					}
				}
			case "putvalue":
				_ = w.d.PutValue(ctx, o.key, valBytes("r3"))
			case "provide":
				_ = w.d.Provide(ctx, keyCid, true)
			case "findproviders":
				for range w.d.FindProvidersAsync(ctx, keyCid, 0) {
				}
			case "refresh":
				<-w.d.ForceRefresh()
			}
		}(i)
	}
	settle()
	for i := 0; i < atoi(a["rel"]); i++ {
		ps := w.sender.Parked()
		if len(ps) == 0 {
			break
		}
		o.releaseOne(ps[0], false)
		settle()
	}
	// Close, twice concurrently, while requests are outstanding
	closed := make(chan struct{}, 2)
	nclose := 1
	if a["twice"] == "1" {
		nclose = 2
	}
	for i := 0; i < nclose; i++ {
		go func() { _ = w.d.Close(); closed <- struct{}{} }()
	}
	settle()
	// whatever is still parked sees its context end (or fails)
	for round := 0; round < 200; round++ {
		ps := w.sender.Parked()
		if len(ps) == 0 {
			break
		}
		o.releaseOne(ps[0], true)
		settle()
	}
	time.Sleep(2 * time.Minute) // timers of the operations
	settle()
	nclosed := 0
	for {
		select {
		case <-done:
			returned++
			continue
		case <-closed:
			nclosed++
			continue
		default:
		}
		break
	}
	err2 := w.d.Close() // closing again is harmless
	w.h.Close()
	settle()
	c.Out = append(c.Out, fmt.Sprintf("returned=%d/%d closed=%d/%d again=%v", returned, nops, nclosed, nclose, err2 == nil))
}

func execC14(c *vu.Case) {
	func() {
		defer func() {
			if r := recover(); r != nil {
				for len(c.Out) < len(c.In) {
					c.Out = append(c.Out, "-")
				}
				c.Out[len(c.Out)-1] += " |BUBBLE:" + strings.ReplaceAll(fmt.Sprint(r), " ", "_")
			}
		}()
		synctest.Test(c.T, func(t *testing.T) { runC14(c) })
	}()
}

func TestVerifC14(t *testing.T) {
	vu.Run(t, vu.Config{Prop: "C14", QuickN: 400, ThoroughN: 10000,
		Gen: func(r *vu.RNG, c *vu.Case) bool {
			if c.Idx%12 == 11 {
				c.In = append(c.In, "life kind=ctor fail="+[]string{"mode", "prefix", "sender"}[r.Intn(3)])
				c.Tag("nontrivial")
				return true
			}
			kinds := []string{"closest", "getvalue", "searchvalue", "putvalue", "provide", "findproviders", "refresh"}
			c.In = append(c.In, fmt.Sprintf("life kind=%s n=%d key=%d K=%d a=%d b=%d ops=%d rel=%d twice=%d mode=%s", kinds[r.Intn(len(kinds))], r.Range(3, 12), c.Idx,
				[]int{2, 3, 5}[r.Intn(3)], r.Range(1, 4), r.Range(1, 4), r.Range(1, 3), r.Intn(12), r.Intn(2), []string{"client", "server"}[r.Intn(2)]))
			c.Tag("nontrivial")
			return true
		}, Exec: execC14})
}

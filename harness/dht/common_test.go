//go:build verif

package dht

import (
	"bytes"
	"errors"
	"fmt"
	"strconv"
	"strings"

	ds "github.com/ipfs/go-datastore"
	dssync "github.com/ipfs/go-datastore/sync"
	record "github.com/libp2p/go-libp2p-record"
	"github.com/libp2p/go-libp2p/core/peer"
	"github.com/libp2p/go-libp2p/core/protocol"
	ma "github.com/multiformats/go-multiaddr"
	"github.com/multiformats/go-varint"

	"github.com/libp2p/go-libp2p-kad-dht/internal/simnet"
)

const vProto = protocol.ID("/verif/kad/1.0.0")

// vPeer names simulated peer n; all ids have the same length (38 bytes).
func vPeer(n int) peer.ID { return peer.ID(fmt.Sprintf("verif-peer-%027d", n)) }

func vPeerNum(p peer.ID) int {
	s := string(p)
	if !strings.HasPrefix(s, "verif-peer-") {
		return -1
	}
	n, err := strconv.Atoi(strings.TrimLeft(strings.TrimPrefix(s, "verif-peer-"), "0"))
	if err != nil {
		if strings.Trim(strings.TrimPrefix(s, "verif-peer-"), "0") == "" {
			return 0
		}
		return -1
	}
	return n
}

// vValidator: a record value is "<rank>:<payload>"; valid iff it parses and the payload is not "bad";
// selection prefers the higher rank (first wins ties).
type vValidator struct{}

func vRank(v []byte) (int, error) {
	i := bytes.IndexByte(v, ':')
	if i <= 0 {
		return 0, errors.New("malformed")
	}
	r, err := strconv.Atoi(string(v[:i]))
	if err != nil {
		return 0, err
	}
	if string(v[i+1:]) == "bad" {
		return 0, errors.New("rejected payload")
	}
	return r, nil
}

// The validator is bound to the key, as the /ipns and /pk validators are: a record is valid only under a key of the
// harnesses' own alphabet (lower case, digits, '/', '-', '_'), never under e.g. the base32 datastore key it is filed under.
func (vValidator) Validate(key string, value []byte) error {
	for _, c := range key {
		if !(c >= 'a' && c <= 'z' || c >= '0' && c <= '9' || c == '/' || c == '-' || c == '_') {
			return fmt.Errorf("record validated under a foreign key %q", key)
		}
	}
	_, err := vRank(value)
	return err
}

func (vValidator) Select(key string, vals [][]byte) (int, error) {
	best, bestRank := -1, 0
	for i, v := range vals {
		r, err := vRank(v)
		if err != nil {
			continue
		}
		if best == -1 || r > bestRank {
			best, bestRank = i, r
		}
	}
	if best == -1 {
		return 0, errors.New("no valid value")
	}
	return best, nil
}

func vNSValidator() record.Validator { return record.NamespacedValidator{"v": vValidator{}} }

// vNSValidatorPK additionally validates /pk records with the real public-key validator.
func vNSValidatorPK() record.Validator {
	return record.NamespacedValidator{"v": vValidator{}, "pk": record.PublicKeyValidator{}}
}

func vDatastore() ds.Batching { return dssync.MutexWrap(ds.NewMapDatastore()) }

// vAddr builds a multiaddr of exactly `length` encoded bytes (length 8 or >= 12), distinct per id.
// class 'r' (private 10.x) exists only for length 8.
func vAddr(id, length int, private bool) ma.Multiaddr {
	port := 1000 + id%50000
	if length <= 8 {
		a := 8
		if private {
			a = 10
		}
		m, err := ma.NewMultiaddr(fmt.Sprintf("/ip4/%d.%d.%d.%d/tcp/%d", a, (id>>16)&255, (id>>8)&255, id&255, port))
		if err != nil {
			panic(err)
		}
		return m
	}
	// /dns4/<name>/tcp/<port> : 1 + varint(n) + n + 3 bytes
	n := length - 5
	if n >= 128 {
		n = length - 6
	}
	name := fmt.Sprintf("h%d.", id)
	for len(name) < n {
		name += "x"
	}
	name = name[:n]
	if strings.HasSuffix(name, ".") {
		name = name[:n-1] + "y"
	}
	m, err := ma.NewMultiaddr(fmt.Sprintf("/dns4/%s/tcp/%d", name, port))
	if err != nil {
		panic(err)
	}
	if len(m.Bytes()) != length {
		panic(fmt.Sprintf("vAddr: wanted %d bytes, got %d", length, len(m.Bytes())))
	}
	return m
}

// vFilter drops the private (10.x) addresses.
func vFilter(addrs []ma.Multiaddr) []ma.Multiaddr {
	var out []ma.Multiaddr
	for _, a := range addrs {
		if !strings.HasPrefix(a.String(), "/ip4/10.") {
			out = append(out, a)
		}
	}
	return out
}

func frame(b []byte) []byte {
	return append(varint.ToUvarint(uint64(len(b))), b...)
}

// unframe splits a buffer into complete varint-framed messages.
func unframe(buf []byte) (msgs [][]byte, rest []byte) {
	for len(buf) > 0 {
		l, n, err := varint.FromUvarint(buf)
		if err != nil || uint64(len(buf)-n) < l {
			return msgs, buf
		}
		msgs = append(msgs, buf[n:n+int(l)])
		buf = buf[n+int(l):]
	}
	return msgs, nil
}

func drain(r *simnet.RemoteEnd) []byte { return r.TakeAll() }

func kv(fields []string) map[string]string {
	m := map[string]string{}
	for _, f := range fields {
		if i := strings.IndexByte(f, '='); i > 0 {
			m[f[:i]] = f[i+1:]
		}
	}
	return m
}

func atoi(s string) int {
	n, _ := strconv.Atoi(s)
	return n
}

func splitNonEmpty(s, sep string) []string {
	if s == "" || s == "-" {
		return nil
	}
	return strings.Split(s, sep)
}

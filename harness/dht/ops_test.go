//go:build verif

package dht

import (
	"context"
	"fmt"
	"sort"
	"strings"
	"testing"
	"testing/synctest"
	"time"

	crand "crypto/rand"
	"crypto/sha256"
	"sync"

	"github.com/ipfs/go-cid"
	ci "github.com/libp2p/go-libp2p/core/crypto"
	recpb "github.com/libp2p/go-libp2p-record/pb"
	"github.com/libp2p/go-libp2p/core/peer"
	"github.com/libp2p/go-libp2p/core/routing"
	ma "github.com/multiformats/go-multiaddr"
	mh "github.com/multiformats/go-multihash"
	ks "github.com/whyrusleeping/go-keyspace"

	vu "github.com/libp2p/go-libp2p-kad-dht/internal/verifutil"
	pb "github.com/libp2p/go-libp2p-kad-dht/pb"
)

// opPeer is one simulated remote peer of a routing-operation case.
type opPeer struct {
	beh   byte   // h honest, f fails every request, d dial fails, s silent
	known []int  // peers it knows (ranks)
	val   string // value record it holds: "-" none, "r<n>" valid rank n, "bad" invalid, "mis" other key, "nil" empty value
	provs []int  // providers it names
	provA []bool // ... with an address?
}

// two RSA identities (peer ids that do not inline their key), generated once per process
var rsaOnce sync.Once
var rsaIDs []peer.ID
var rsaPubs [][]byte

func rsaIdentities() ([]peer.ID, [][]byte) {
	rsaOnce.Do(func() {
		for i := 0; i < 2; i++ {
			_, pub, err := ci.GenerateRSAKeyPair(2048, crand.Reader)
			if err != nil {
				panic(err)
			}
			id, _ := peer.IDFromPublicKey(pub)
			b, _ := ci.MarshalPublicKey(pub)
			rsaIDs = append(rsaIDs, id)
			rsaPubs = append(rsaPubs, b)
		}
	})
	return rsaIDs, rsaPubs
}

func opKeyMH(name string) mh.Multihash {
	h, _ := mh.Sum([]byte("verif-key-"+name), mh.SHA2_256, -1)
	return h
}

func valBytes(v string) []byte {
	switch {
	case strings.HasPrefix(v, "r"):
		return []byte(v[1:] + ":ok")
	case strings.HasPrefix(v, "s"): // same rank as rN, other bytes: the validator's selection calls it a tie
		return []byte(v[1:] + ":alt")
	case v == "bad":
		return []byte("7:bad")
	}
	return nil
}

type opRun struct {
	w     *world
	c     *vu.Case
	a     map[string]string
	peers map[int]opPeer
	K     int
	key   string // lookup key (value key or multihash bytes)
	// what was sent where
	sentLog []string
	// C06: the publish RPCs (PUT_VALUE / ADD_PROVIDER) in sending order, and whether the local store already held
	// the record / provider entry when the first of them was released ("-": none was sent)
	pubLog     []pubRPC
	localFirst string
	keyMH      []byte
	// the caller cancelled, or virtual time was advanced: publish RPCs may legitimately be cut short from then on
	disturbed bool
}

type pubRPC struct {
	rank int
	tok  string
}

// localHas reports whether the local stores hold the published record / the local provider entry.
func (o *opRun) localHas() bool {
	switch o.a["kind"] {
	case "putvalue":
		r, err := o.w.d.valueStore.Get(context.Background(), o.key)
		return err == nil && r != nil && string(r.GetValue()) == string(valBytes(o.a["value"]))
	case "provide":
		ps, _ := o.w.d.providerStore.GetProviders(context.Background(), o.keyMH)
		for _, p := range ps {
			if p.ID == o.w.h.ID() {
				return true
			}
		}
	}
	return false
}

func reqLetter(pk *parked) string {
	if pk.kind == "dial" {
		return "D"
	}
	switch pk.msg.GetType() {
	case pb.Message_FIND_NODE:
		return "F"
	case pb.Message_GET_VALUE:
		return "G"
	case pb.Message_GET_PROVIDERS:
		return "P"
	case pb.Message_PUT_VALUE:
		return "V"
	case pb.Message_ADD_PROVIDER:
		return "A"
	case pb.Message_PING:
		return "I"
	}
	return "?"
}

func (o *opRun) parkedStr() string {
	var ss []string
	for _, pk := range o.w.sender.Parked() {
		ss = append(ss, fmt.Sprintf("%s%d", reqLetter(pk), o.w.rankOf(pk.peer)))
	}
	sort.Strings(ss)
	return "[" + strings.Join(ss, ",") + "]"
}

// answer builds the honest response of peer `rank` to a parked request.
func (o *opRun) answer(pk *parked, rank int) parkedResult {
	sp := o.peers[rank]
	req := pk.msg
	switch pk.kind {
	case "msg": // ADD_PROVIDER
		return parkedResult{}
	}
	closer := honestAnswer(sp.known, rank, o.w.n, o.K)
	m := o.w.closerPeersMsg(req, closer)
	switch req.GetType() {
	case pb.Message_GET_VALUE:
		switch {
		case sp.val == "pkown":
			_, pubs := rsaIdentities()
			m.Record = &recpb.Record{Key: req.GetKey(), Value: pubs[0]}
		case sp.val == "pkother":
			_, pubs := rsaIdentities()
			m.Record = &recpb.Record{Key: req.GetKey(), Value: pubs[1]} // a well-formed key of somebody else
		case sp.val == "pkgarbage":
			m.Record = &recpb.Record{Key: req.GetKey(), Value: []byte("not a key")}
		case sp.val == "mis":
			m.Record = &recpb.Record{Key: []byte("/v/other"), Value: []byte("9:ok")}
		case sp.val == "mis2":
			// a well-formed answer to a different question: envelope and record agree on another key
			m.Key = []byte("/v/other")
			m.Record = &recpb.Record{Key: []byte("/v/other"), Value: []byte("9:ok")}
		case sp.val == "nil":
			m.Record = &recpb.Record{Key: req.GetKey()}
		case sp.val != "-" && sp.val != "":
			m.Record = &recpb.Record{Key: req.GetKey(), Value: valBytes(sp.val)}
		}
	case pb.Message_GET_PROVIDERS:
		for i, pr := range sp.provs {
			p := &pb.Message_Peer{Id: []byte(o.w.peerOf(pr))}
			if sp.provA[i] {
				p.Addrs = [][]byte{vAddr(pr+1, 8, false).Bytes()}
			}
			m.ProviderPeers = append(m.ProviderPeers, p)
		}
	case pb.Message_PUT_VALUE:
		m.Record = req.GetRecord()
		m.CloserPeers = nil
	case pb.Message_PING:
		m.CloserPeers = nil
	}
	return parkedResult{resp: m}
}

// releaseOne lets one parked call finish according to its peer's behaviour; returns a concrete description.
func (o *opRun) releaseOne(pk *parked, forceFail bool) string {
	rank := o.w.rankOf(pk.peer)
	sp := o.peers[rank]
	l := reqLetter(pk)
	if pk.kind != "dial" {
		rec := ""
		if pk.msg.GetRecord() != nil {
			v := pk.msg.GetRecord().GetValue()
			printable := true
			for _, b := range v {
				if b < 0x21 || b > 0x7e || b == ',' {
					printable = false
				}
			}
			if printable {
				rec = "=" + string(v)
			} else {
				rec = fmt.Sprintf("=x%x", sha256.Sum256(v))[:10]
			}
		}
		if pk.msg.GetType() == pb.Message_ADD_PROVIDER {
			for _, pp := range pk.msg.GetProviderPeers() {
				rec += fmt.Sprintf("=%d/%d", o.w.rankOf(peer.ID(pp.Id)), len(pp.Addrs))
			}
		}
		o.sentLog = append(o.sentLog, fmt.Sprintf("%s%d%s", l, rank, rec))
		if l == "V" || l == "A" {
			if o.localFirst == "-" && (o.a["kind"] == "putvalue" || o.a["kind"] == "provide") {
				o.localFirst = "0"
				if o.localHas() {
					o.localFirst = "1"
				}
				if o.a["kind"] == "putvalue" && l == "V" {
					// "stores the record locally first and sends that same record": the stored record is the one being sent,
					// receive stamp included (a re-put of an unchanged value must refresh the local copy too)
					r, err := o.w.d.valueStore.Get(context.Background(), o.key)
					if err != nil || r == nil || r.GetTimeReceived() != pk.msg.GetRecord().GetTimeReceived() {
						o.localFirst = "0"
					}
				}
			}
			cut := ""
			if pk.ctx.Err() != nil && !o.disturbed {
				// nobody cancelled and no time passed, yet this RPC's context is already dead: a real sender would
				// not have delivered it
				cut = "~cancelled"
			}
			o.pubLog = append(o.pubLog, pubRPC{rank, fmt.Sprintf("%s%d%s%s", l, rank, rec, cut)})
		}
	}
	if forceFail || pk.kind == "dial" || sp.beh == 'f' || sp.beh == 'd' {
		if pk.ctx.Err() != nil {
			o.w.sender.release(pk, parkedResult{ctxErr: true})
		} else {
			o.w.sender.release(pk, parkedResult{err: errScripted})
		}
		return fmt.Sprintf("%s%d:fail", l, rank)
	}
	o.w.sender.release(pk, o.answer(pk, rank))
	return fmt.Sprintf("%s%d:ok", l, rank)
}

type opResult struct {
	returned bool
	err      error
	vals     []string // values streamed / returned
	provs    []string // providers streamed / returned: "<rank>/<naddrs>"
	pseq     []string // the same in the order they were yielded
	peers    []int
	closed   bool // result channel closed (true when the op has no channel)
}

func errClassOp(err error) string {
	switch {
	case err == nil:
		return "nil"
	case err == context.Canceled:
		return "canceled"
	case err == context.DeadlineExceeded:
		return "deadline"
	case err == routing.ErrNotFound:
		return "notfound"
	}
	s := err.Error()
	if len(s) > 40 {
		s = s[:40]
	}
	return strings.ReplaceAll(s, " ", "_")
}

func runOp(c *vu.Case) {
	a := kv(strings.Fields(c.In[0]))
	o := &opRun{c: c, a: a, peers: map[int]opPeer{}, K: atoi(a["K"]), localFirst: "-"}
	n := atoi(a["n"])
	kind := a["kind"]
	var keyCid cid.Cid
	switch kind {
	case "getvalue", "searchvalue", "putvalue":
		o.key = "/v/" + a["key"]
	case "findpeer":
		o.key = "" // set below (needs the world)
	case "getpublickey":
		ids, _ := rsaIdentities()
		o.key = routing.KeyForPublicKey(ids[0])
	default:
		keyCid = cid.NewCidV1(cid.Raw, opKeyMH(a["key"]))
		o.key = string(keyCid.Hash())
		o.keyMH = keyCid.Hash()
	}
	opts := []Option{BucketSize(o.K), Concurrency(atoi(a["a"])), Resiliency(atoi(a["b"])), disableFixLowPeersRoutine(c.T)}
	if a["opt"] == "1" {
		opts = append(opts, EnableOptimisticProvide())
	}
	if a["filt"] == "1" {
		// the configured address filter drops private (10.x) addresses
		opts = append(opts, AddressFilter(func(in []ma.Multiaddr) []ma.Multiaddr {
			// when nothing passes, half of the cases get nil back and half an empty slice (what ma.FilterAddrs returns)
			var out []ma.Multiaddr
			if atoi(a["key"])%2 == 0 {
				out = make([]ma.Multiaddr, 0, len(in))
			}
			for _, m := range in {
				if !strings.HasPrefix(m.String(), "/ip4/10.") {
					out = append(out, m)
				}
			}
			return out
		}))
	}
	if kind == "findpeer" {
		// the key of a peer search is the peer id: rank the pool against the target's own id
		o.key = string(vPeer(atoi(a["target"])))
	}
	var special []peer.ID
	if kind == "getpublickey" {
		ids, _ := rsaIdentities()
		special = []peer.ID{ids[0]} // pool member 0 is the peer whose key is searched
	}
	w := newWorldIDs(n, o.key, special, opts...)
	o.w = w
	// the order of the providers of one answer does not matter for any property: keep the wire order so that the
	// model can replay it (the real code shuffles with math/rand)
	w.d.shuffle = func(int, func(int, int)) {}
	if a["addrs"] != "-" && a["addrs"] != "" {
		var addrs []ma.Multiaddr
		for i, cl := range a["addrs"] { // one letter per advertised address: r = private, anything else public
			addrs = append(addrs, vAddr(5000+i, 8, cl == 'r'))
		}
		w.h.SetAddrs(addrs)
	}
	for _, t := range splitNonEmpty(a["peers"], "|") {
		p := strings.Split(t, ":")
		sp := opPeer{beh: p[1][0], known: parseInts(p[2], "."), val: "-"}
		if len(p) > 3 {
			sp.val = p[3]
		}
		if len(p) > 4 {
			for _, x := range splitNonEmpty(p[4], ".") {
				r := atoi(strings.TrimSuffix(x, "+"))
				sp.provs = append(sp.provs, r)
				sp.provA = append(sp.provA, strings.HasSuffix(x, "+"))
			}
		}
		o.peers[atoi(p[0])] = sp
		if sp.beh == 'd' {
			w.dialFail[w.peerOf(atoi(p[0]))] = true
		}
	}
	for _, r := range parseInts(a["rt"], ",") {
		_, _ = w.d.routingTable.TryAddPeer(w.peerOf(r), true, false)
	}
	if a["opt"] == "1" {
		// warm the network size estimator so that the optimistic path is taken; warm=big makes it believe in a
		// network of several hundred peers (the K nearest of 300 random ids per key), warm=small in a tiny one
		for i := 0; i < 12; i++ {
			wk := fmt.Sprintf("warm-%d", i)
			cand := 1
			if a["warm"] == "big" {
				cand = 300
			}
			type pd struct {
				p peer.ID
				d string
			}
			var all []pd
			kk := ks.XORKeySpace.Key([]byte(wk))
			for j := 0; j < o.K*cand; j++ {
				p := vPeer(3000000 + i*100000 + j)
				all = append(all, pd{p, string(ks.XORKeySpace.Key([]byte(p)).Distance(kk).FillBytes(make([]byte, 32)))})
			}
			sort.Slice(all, func(x, y int) bool { return all[x].d < all[y].d })
			var ps []peer.ID
			for j := 0; j < o.K; j++ {
				ps = append(ps, all[j].p)
			}
			_ = w.d.nsEstimator.Track(wk, ps)
		}
	}
	ctx, cancel := context.WithCancel(context.Background())
	// the final state of every peer the lookup learned, from the published lookup events: the lookup's result is the K
	// nearest of those that did not fail (what a Provide hands its ADD_PROVIDERs to is otherwise not visible)
	var evMu sync.Mutex
	evState := map[int]string{}
	evTerminated := ""
	if a["kind"] == "provide" {
		var events <-chan *LookupEvent
		// the registration lives on a context of its own that is cancelled at the end (its helper goroutine waits for
		// that); the operation's context carries the registration but not the cancellation: it is deliberately never
		// cancelled, so that whatever the operation leaves blocked shows up
		regCtx, regCancel := context.WithCancel(context.Background())
		defer regCancel()
		regCtx, events = RegisterForLookupEvents(regCtx)
		cancel()
		ctx, cancel = context.WithCancel(context.WithoutCancel(regCtx))
		evQuit := make(chan struct{})
		defer close(evQuit)
		go func() {
			for {
				var ev *LookupEvent
				select {
				case ev = <-events:
				case <-evQuit:
					return
				}
				if ev == nil {
					return
				}
				evMu.Lock()
				switch {
				case ev.Response != nil:
					for _, p := range ev.Response.Heard {
						if _, known := evState[w.rankOf(p.Peer)]; !known {
							evState[w.rankOf(p.Peer)] = "h"
						}
					}
					for _, p := range ev.Response.Queried {
						evState[w.rankOf(p.Peer)] = "q"
					}
					for _, p := range ev.Response.Unreachable {
						evState[w.rankOf(p.Peer)] = "u"
					}
				case ev.Terminate != nil:
					evTerminated = ev.Terminate.Reason.String()
				}
				evMu.Unlock()
			}
		}()
	}
	// local data
	switch {
	case strings.HasPrefix(a["local"], "r") || a["local"] == "bad":
		k := o.key
		_ = w.d.valueStore.Put(ctx, k, &recpb.Record{Key: []byte(k), Value: valBytes(a["local"])})
		if a["kind"] == "putvalue" {
			// the record already stored is older than the one about to be put (the store stamps the receive time)
			time.Sleep(2 * time.Second)
		}
	case strings.HasPrefix(a["local"], "p"):
		for _, r := range parseInts(a["local"][1:], ".") {
			_ = w.d.providerStore.AddProvider(ctx, keyCid.Hash(), peer.AddrInfo{ID: w.peerOf(r)})
		}
	}
	// pre=cancel: the caller's context has already ended when the call is made; pre=closed: the node has been closed
	// (the caller's context is alive). The call must still return, with its result channel closed.
	switch a["pre"] {
	case "cancel":
		cancel()
	case "closed":
		_ = w.d.Close()
		settle()
	}
	res := &opResult{closed: true}
	done := make(chan struct{})
	go func() {
		defer close(done)
		switch kind {
		case "closest":
			ps, err := w.d.GetClosestPeers(ctx, o.key)
			res.peers, res.err = w.ranks(ps), err
		case "findpeer":
			pi, err := w.d.FindPeer(ctx, vPeer(atoi(a["target"])))
			res.err = err
			if err == nil {
				res.peers = []int{vPeerNum(pi.ID)}
			}
		case "getpublickey":
			ids, _ := rsaIdentities()
			pk, err := w.d.GetPublicKey(ctx, ids[0])
			res.err = err
			if pk != nil {
				if id, e := peer.IDFromPublicKey(pk); e == nil && id == ids[0] {
					res.vals = append(res.vals, "pk=match")
				} else {
					res.vals = append(res.vals, "pk=MISMATCH")
				}
			}
		case "getvalue":
			v, err := w.d.GetValue(ctx, o.key, Quorum(atoi(a["quorum"])))
			res.err = err
			if v != nil {
				res.vals = append(res.vals, string(v))
			}
		case "searchvalue":
			res.closed = false
			ch, err := w.d.SearchValue(ctx, o.key, Quorum(atoi(a["quorum"])))
			res.err = err
			if err == nil {
				for v := range ch {
					res.vals = append(res.vals, string(v))
				}
				res.closed = true
			}
		case "findproviders":
			ps, err := w.d.FindProviders(ctx, keyCid)
			res.err = err
			for _, p := range ps {
				res.provs = append(res.provs, fmt.Sprintf("%d/%d", w.rankOf(p.ID), len(p.Addrs)))
			}
			res.pseq = append([]string(nil), res.provs...)
		case "findprovidersasync":
			res.closed = false
			for p := range w.d.FindProvidersAsync(ctx, keyCid, atoi(a["count"])) {
				res.provs = append(res.provs, fmt.Sprintf("%d/%d", w.rankOf(p.ID), len(p.Addrs)))
				res.pseq = append(res.pseq, fmt.Sprintf("%d/%d", w.rankOf(p.ID), len(p.Addrs)))
			}
			res.closed = true
		case "putvalue":
			res.err = w.d.PutValue(ctx, o.key, valBytes(a["value"]))
		case "provide":
			res.err = w.d.Provide(ctx, keyCid, true)
		}
		res.returned = true
	}()
	settle()
	c.Out = append(c.Out, "inflight="+o.parkedStr())
	cancelled := false
	for i := 1; i < len(c.In); i++ {
		f := strings.Fields(c.In[i])
		out := "-"
		switch f[0] {
		case "next":
			var cand []*parked
			for _, pk := range w.sender.Parked() {
				if o.peers[w.rankOf(pk.peer)].beh != 's' {
					cand = append(cand, pk)
				}
			}
			if len(cand) == 0 {
				c.In[i] = "nop"
			} else {
				sort.Slice(cand, func(x, y int) bool {
					rx, ry := w.rankOf(cand[x].peer), w.rankOf(cand[y].peer)
					return rx < ry || rx == ry && cand[x].seq < cand[y].seq
				})
				c.In[i] = "rel " + o.releaseOne(cand[atoi(f[1])%len(cand)], false)
			}
			settle()
			out = "inflight=" + o.parkedStr()
		case "rel": // replay of a concrete release: "rel G3:ok"
			tok := strings.SplitN(f[1], ":", 2)
			var hit *parked
			for _, pk := range w.sender.Parked() {
				if fmt.Sprintf("%s%d", reqLetter(pk), w.rankOf(pk.peer)) == tok[0] {
					hit = pk
					break
				}
			}
			if hit == nil {
				out = "not-parked"
			} else {
				o.releaseOne(hit, len(tok) > 1 && tok[1] == "fail")
				settle()
				out = "inflight=" + o.parkedStr()
			}
		case "nop":
			out = "inflight=" + o.parkedStr()
		case "cancel":
			cancel()
			cancelled = true
			o.disturbed = true
			settle()
			out = "inflight=" + o.parkedStr()
			// the caller gave up: the call must be back without anybody else doing anything
			select {
			case <-done:
				out += " back=1"
			default:
				out += " back=0"
			}
		case "cancelwait":
			// the caller gives up and every call whose own context has thereby ended comes back at once (a sender that
			// notices its context): the operation must be back without anything else happening. What is still parked then
			// was started with a context that outlives the caller's.
			cancel()
			cancelled = true
			o.disturbed = true
			settle()
			for round := 0; round < 200; round++ {
				progress := false
				for _, pk := range w.sender.Parked() {
					if pk.ctx != nil && pk.ctx.Err() != nil {
						w.sender.release(pk, parkedResult{ctxErr: true})
						progress = true
					}
				}
				settle()
				if !progress {
					break
				}
			}
			out = "inflight=" + o.parkedStr()
			select {
			case <-done:
				out += " back=1"
			default:
				out += " back=0"
			}
		case "adv":
			o.disturbed = true
			time.Sleep(time.Duration(atoi(f[1])) * time.Second)
			settle()
			out = "inflight=" + o.parkedStr()
		case "finish":
			// every peer that has not answered yet answers, fails or (silent ones) times out now — one at a time,
			// so that the order in which the late answers are processed is part of the (rewritten) case
			var late []string
			drainAll := func(force bool) {
				for round := 0; round < 2000; round++ {
					ps := w.sender.Parked()
					if len(ps) == 0 {
						return
					}
					sort.Slice(ps, func(x, y int) bool { return ps[x].seq < ps[y].seq })
					pk := ps[0]
					late = append(late, o.releaseOne(pk, force || o.peers[w.rankOf(pk.peer)].beh == 's'))
					settle()
				}
			}
			drainAll(false)
			if !res.returned {
				// let every timer of the operation run out (virtual time)
				o.disturbed = true
				time.Sleep(5 * time.Minute)
				settle()
				drainAll(false)
			}
			select {
			case <-done:
			default:
			}
			// background work: corrective puts, optimistic provide leftovers
			drainAll(false)
			if len(late) > 0 {
				c.In[i] = "finish late=" + strings.Join(late, ",")
			}
			lh := 0
			if o.localHas() {
				lh = 1
			}
			w.d.Close()
			settle()
			b := func(x bool) int {
				if x {
					return 1
				}
				return 0
			}
			// goroutines that are still blocked now (the caller's context is NOT cancelled for them) make the
			// bubble end in a deadlock report, which execOp records
			leak := 0
			sort.Strings(res.provs)
			sort.SliceStable(o.pubLog, func(x, y int) bool { return o.pubLog[x].rank < o.pubLog[y].rank })
			var recips []string
			for _, pr := range o.pubLog {
				recips = append(recips, pr.tok)
			}

			out = fmt.Sprintf("returned=%d closed=%d leak=%d err=%s vals=[%s] provs=[%s] pseq=[%s] peers=%s sent=[%s] recipients=[%s] localfirst=%s localhas=%d", b(res.returned), b(res.closed),
				leak, errClassOp(res.err), strings.Join(res.vals, ","), strings.Join(res.provs, ","), strings.Join(res.pseq, ","), intList(res.peers), strings.Join(o.sentLog, ","),
				strings.Join(recips, ","), o.localFirst, lh)
			if a["kind"] == "provide" {
				// ranks are distances: the lookup's result is the K smallest ranks that did not fail
				evMu.Lock()
				var alive []int
				for r, st := range evState {
					if st != "u" && r >= 0 {
						alive = append(alive, r)
					}
				}
				term := evTerminated
				evMu.Unlock()
				sort.Ints(alive)
				if len(alive) > o.K {
					alive = alive[:o.K]
				}
				if term == "" {
					term = "-"
				}
				out += fmt.Sprintf(" lookupres=%s term=%s", intList(alive), term)
			}
		}
		c.Out = append(c.Out, out)
	}
	_ = cancel
	for round := 0; round < 20; round++ {
		ps := w.sender.Parked()
		if len(ps) == 0 {
			break
		}
		for _, pk := range ps {
			o.releaseOne(pk, true)
		}
		settle()
	}
	if cancelled {
		c.Tag("cancelled")
	}
	c.Tag("kind-" + kind)
	w.h.Close()
}

func execOp(c *vu.Case) {
	func() {
		defer func() {
			if r := recover(); r != nil {
				msg := fmt.Sprint(r)
				if len(msg) > 160 {
					msg = msg[:160]
				}
				for len(c.Out) < len(c.In) {
					c.Out = append(c.Out, "-")
				}
				c.Out[len(c.Out)-1] += " |BUBBLE:" + strings.ReplaceAll(msg, " ", "_")
			}
		}()
		synctest.Test(c.T, func(t *testing.T) { runOp(c) })
	}()
}

// genOpNetwork writes the peers= spec: knowledge, behaviour, values and provider lists.
func genOpNetwork(r *vu.RNG, n, K int, faultPct int, withVals, withProvs bool) string {
	var specs []string
	for p := 0; p < n; p++ {
		beh := "h"
		if r.Intn(100) < faultPct {
			beh = []string{"f", "d", "s"}[r.Intn(3)]
		}
		var known []string
		m := r.Range(0, min(n, 2*K+3))
		for j := 0; j < m; j++ {
			if r.Bool() {
				known = append(known, fmt.Sprint(r.Intn(n)))
			} else {
				known = append(known, fmt.Sprint(max(0, min(n-1, p+r.Range(-6, 6)))))
			}
		}
		val := "-"
		if withVals && r.Chance(1, 2) {
			val = []string{"r1", "r2", "r3", "r5", "bad", "mis", "nil", "r2", "mis2", "s2", "s3", "s2"}[r.Intn(12)]
		}
		provs := ""
		if withProvs && r.Chance(1, 2) {
			var ps []string
			for j := 0; j < r.Range(1, 4); j++ {
				x := fmt.Sprint(r.Intn(n + 3))
				if r.Bool() {
					x += "+"
				}
				ps = append(ps, x)
			}
			provs = strings.Join(ps, ".")
		}
		specs = append(specs, fmt.Sprintf("%d:%s:%s:%s:%s", p, beh, strings.Join(known, "."), val, provs))
	}
	return strings.Join(specs, "|")
}

func genOpCase(r *vu.RNG, c *vu.Case, kinds []string) {
	kind := kinds[r.Intn(len(kinds))]
	n := r.Range(1, 25)
	K := []int{1, 2, 3, 3, 4, 5, 8}[r.Intn(7)]
	fault := []int{0, 10, 30, 60, 100}[r.Intn(5)]
	var rt []string
	for p := 0; p < n; p++ {
		if r.Chance(1, 3) || len(rt) == 0 && p == n-1 {
			rt = append(rt, fmt.Sprint(p))
		}
	}
	if r.Chance(1, 15) {
		rt = nil
	}
	local := "-"
	withVals := kind == "getvalue" || kind == "searchvalue"
	withProvs := kind == "findproviders" || kind == "findprovidersasync"
	if withVals && r.Chance(1, 3) {
		local = []string{"r1", "r2", "r4"}[r.Intn(3)]
	}
	if withProvs && r.Chance(1, 3) {
		local = "p" + fmt.Sprint(r.Intn(n))
	}
	opt := 0
	if kind == "provide" && r.Bool() {
		opt = 1
	}
	addrs, filt := "u", 0
	if kind == "provide" {
		addrs = []string{"u", "uu", "ur", "r", "rur", "rr", "-", "uru"}[r.Intn(8)]
		filt = r.Intn(2)
	}
	if kind == "putvalue" && r.Chance(1, 3) {
		local = []string{"r1", "r2", "r3", "r4", "bad"}[r.Intn(5)]
	}
	value := fmt.Sprintf("r%d", r.Range(1, 5))
	if kind == "putvalue" && r.Chance(1, 12) {
		value = "bad"
	}
	warm := []string{"small", "big"}[r.Intn(2)]
	hdr := fmt.Sprintf("op kind=%s warm=%s n=%d key=%d K=%d a=%d b=%d quorum=%d count=%d target=%d value=%s local=%s opt=%d addrs=%s filt=%d rt=%s peers=%s",
		kind, warm, n, c.Idx, K, r.Range(1, K+2), r.Range(1, K+2), []int{0, 0, 1, 2, K}[r.Intn(5)], []int{0, 1, 2, 3, K}[r.Intn(5)],
		r.Intn(n), value, local, opt, addrs, filt, strings.Join(rt, ","), genOpNetwork(r, n, K, fault, withVals, withProvs))
	c.In = append(c.In, hdr)
	steps := r.Range(0, 3*n+4)
	cancelAt := -1
	if r.Chance(1, 4) {
		cancelAt = r.Intn(steps + 1)
	}
	policy := r.Intn(3)
	for i := 0; i < steps; i++ {
		if i == cancelAt {
			c.In = append(c.In, "cancel")
		}
		if r.Chance(1, 25) {
			c.In = append(c.In, fmt.Sprintf("adv %d", []int{1, 11, 31, 61}[r.Intn(4)]))
		}
		switch policy {
		case 0:
			c.In = append(c.In, "next 0")
		case 1:
			c.In = append(c.In, fmt.Sprintf("next %d", r.Intn(1000)))
		default:
			c.In = append(c.In, fmt.Sprintf("next %d", 999-i%3))
		}
	}
	if cancelAt == steps {
		c.In = append(c.In, "cancel")
	}
	c.In = append(c.In, "finish")
	if fault > 0 && steps >= 3 {
		c.Tag("nontrivial")
	}
}

var allOpKinds = []string{"closest", "findpeer", "getvalue", "searchvalue", "findproviders", "findprovidersasync", "putvalue", "provide"}

func TestVerifC04(t *testing.T) {
	vu.Run(t, vu.Config{Prop: "C04", QuickN: 1500, ThoroughN: 40000,
		Gen: func(r *vu.RNG, c *vu.Case) bool {
			if c.Idx%6 == 5 {
				// GetPublicKey: pool member 0 is the searched peer (an RSA identity); rewrite the record kinds
				genOpCase(r, c, []string{"getpublickey"})
				f := strings.Fields(c.In[0])
				for j := range f {
					if strings.HasPrefix(f[j], "peers=") {
						specs := strings.Split(strings.TrimPrefix(f[j], "peers="), "|")
						for k, sp := range specs {
							p := strings.Split(sp, ":")
							kinds := []string{"-", "-", "pkown", "pkother", "pkgarbage"}
							if k == 0 {
								kinds = []string{"pkown", "pkother", "pkother", "pkgarbage", "-"}
							}
							p[3] = kinds[r.Intn(len(kinds))]
							specs[k] = strings.Join(p, ":")
						}
						f[j] = "peers=" + strings.Join(specs, "|")
					}
				}
				c.In[0] = strings.Join(f, " ")
				c.Tag("nontrivial")
				return true
			}
			genOpCase(r, c, []string{"getvalue", "searchvalue"})
			if strings.Contains(c.In[0], ":r") && (strings.Contains(c.In[0], ":bad") || strings.Contains(c.In[0], ":mis") || strings.Contains(c.In[0], ":nil")) {
				c.Tag("nontrivial")
			}
			return true
		}, Exec: execOp})
}

func TestVerifC08(t *testing.T) {
	vu.Run(t, vu.Config{Prop: "C08", QuickN: 1500, ThoroughN: 40000,
		Gen: func(r *vu.RNG, c *vu.Case) bool {
			genOpCase(r, c, []string{"findproviders", "findprovidersasync", "findprovidersasync"})
			return true
		}, Exec: execOp})
}

func TestVerifC06(t *testing.T) {
	vu.Run(t, vu.Config{Prop: "C06", QuickN: 1500, ThoroughN: 40000,
		Gen: func(r *vu.RNG, c *vu.Case) bool {
			genOpCase(r, c, []string{"putvalue", "provide", "provide", "searchvalue", "getvalue"})
			return true
		}, Exec: execOp})
}

func TestVerifC03(t *testing.T) {
	vu.Run(t, vu.Config{Prop: "C03", QuickN: 1200, ThoroughN: 40000,
		Gen: func(r *vu.RNG, c *vu.Case) bool {
			genOpCase(r, c, allOpKinds)
			if c.Idx%10 == 8 && len(c.In) > 2 {
				// cancellation at some point of the schedule, observed by every call bound to the caller's context at once
				cut := 1 + r.Intn(len(c.In)-1)
				var in []string
				for _, l := range c.In[:cut] {
					if l != "cancel" && !strings.HasPrefix(l, "finish") {
						in = append(in, l)
					}
				}
				c.In = append(in, "cancelwait", "finish")
				c.Tag("cancelwait")
			}
			if c.Idx%10 == 9 {
				// the same operation called with a context that has already ended, or on a node that has been closed
				pre := []string{"cancel", "closed"}[r.Intn(2)]
				c.In = []string{c.In[0] + " pre=" + pre, "finish"}
				c.Tag("pre-" + pre)
			}
			return true
		}, Exec: execOp})
}
